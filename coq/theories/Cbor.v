(* Cbor.v — the wire layer: data-item AST, shortest-form encoder (what cbor2.dumps emits for
   the primitives pycardano hands it, plus the three hand-written framings of
   serialization.default_encoder: 0x9f..0xff lists, 0x5f..0xff chunked byte strings),
   a fuelled decoder, and the round-trip theorem  dec (enc x ++ rest) = Some (x, rest). *)
From Coq Require Import NArith ZArith Ascii String List Bool Lia.
From Coq Require Import Init.Byte.
From PyC Require Import Base.
Import ListNotations.
Open Scope N_scope.

Inductive cbor :=
| CU (n : N)                      (* major 0 *)
| CN (n : N)                      (* major 1 : denotes -1-n *)
| CB (b : bytes)                  (* major 2, definite *)
| CBi (cs : list bytes)           (* 0x5f chunk* 0xff *)
| CT (b : bytes)                  (* major 3, utf-8 bytes *)
| CA (xs : list cbor)             (* major 4, definite *)
| CAi (xs : list cbor)            (* 0x9f item* 0xff *)
| CM (kvs : list (cbor * cbor))   (* major 5, definite *)
| CTag (t : N) (x : cbor)         (* major 6 *)
| CS (v : N).                     (* major 7 simple: 20 false 21 true 22 null 23 undefined *)

Definition two64 : N := 18446744073709551616.

Definition head (m n : N) : bytes :=
  if n <? 24 then [n2b (m * 32 + n)]
  else if n <? 256 then [n2b (m * 32 + 24); n2b n]
  else if n <? 65536 then n2b (m * 32 + 25) :: be 2 n
  else if n <? 4294967296 then n2b (m * 32 + 26) :: be 4 n
  else n2b (m * 32 + 27) :: be 8 n.

Definition enc_chunk (c : bytes) : bytes := head 2 (lenN c) ++ c.

Fixpoint enc (x : cbor) : bytes :=
  match x with
  | CU n => head 0 n
  | CN n => head 1 n
  | CB b => head 2 (lenN b) ++ b
  | CBi cs => x5f :: concat (map enc_chunk cs) ++ [xff]
  | CT b => head 3 (lenN b) ++ b
  | CA xs => head 4 (lenN xs) ++ concat (map enc xs)
  | CAi xs => x9f :: concat (map enc xs) ++ [xff]
  | CM kvs => head 5 (lenN kvs) ++ concat (map (fun kv => enc (fst kv) ++ enc (snd kv)) kvs)
  | CTag t y => head 6 t ++ enc y
  | CS v => [n2b (224 + v)]
  end.

(* width of a head in bytes *)
Definition width (n : N) : N :=
  if n <? 24 then 1 else if n <? 256 then 2 else if n <? 65536 then 3
  else if n <? 4294967296 then 5 else 9.

Lemma head_length m n : lenN (head m n) = width n.
Proof.
  unfold head, width.
  destruct (n <? 24); [reflexivity|]. destruct (n <? 256); [reflexivity|].
  destruct (n <? 65536); [reflexivity|]. destruct (n <? 4294967296); reflexivity.
Qed.

Lemma width_mono a b : a <= b -> width a <= width b.
Proof.
  unfold width; intros H.
  destruct (a <? 24) eqn:A1, (b <? 24) eqn:B1; rewrite ?N.ltb_lt, ?N.ltb_ge in *; try lia;
  destruct (a <? 256) eqn:A2, (b <? 256) eqn:B2; rewrite ?N.ltb_lt, ?N.ltb_ge in *; try lia;
  destruct (a <? 65536) eqn:A3, (b <? 65536) eqn:B3; rewrite ?N.ltb_lt, ?N.ltb_ge in *; try lia;
  destruct (a <? 4294967296) eqn:A4, (b <? 4294967296) eqn:B4; rewrite ?N.ltb_lt, ?N.ltb_ge in *; lia.
Qed.

(* ---------- decoder ---------- *)
(* argument of a head: additional info ai (<28) and the following bytes *)
Definition take (n : N) (bs : bytes) : option (bytes * bytes) :=
  if n <=? lenN bs then Some (firstn (N.to_nat n) bs, skipn (N.to_nat n) bs) else None.

Definition dec_arg (ai : N) (r : bytes) : option (N * bytes) :=
  if ai <? 24 then Some (ai, r)
  else if ai =? 24 then match take 1 r with Some (a, r') => Some (unbe a, r') | None => None end
  else if ai =? 25 then match take 2 r with Some (a, r') => Some (unbe a, r') | None => None end
  else if ai =? 26 then match take 4 r with Some (a, r') => Some (unbe a, r') | None => None end
  else if ai =? 27 then match take 8 r with Some (a, r') => Some (unbe a, r') | None => None end
  else None.

Section Seq.
  Variable d : bytes -> option (cbor * bytes).
  Fixpoint dec_n (k : nat) (n : N) (bs : bytes) : option (list cbor * bytes) :=
    match k with
    | O => None
    | S k' =>
        if n =? 0 then Some ([], bs)
        else match d bs with
             | None => None
             | Some (x, r) =>
                 match dec_n k' (n - 1) r with
                 | None => None
                 | Some (xs, r') => Some (x :: xs, r')
                 end
             end
    end.
  Fixpoint dec_pairs (k : nat) (n : N) (bs : bytes) : option (list (cbor * cbor) * bytes) :=
    match k with
    | O => None
    | S k' =>
        if n =? 0 then Some ([], bs)
        else match d bs with
             | None => None
             | Some (x, r) =>
                 match d r with
                 | None => None
                 | Some (y, r2) =>
                     match dec_pairs k' (n - 1) r2 with
                     | None => None
                     | Some (xs, r') => Some ((x, y) :: xs, r')
                     end
                 end
             end
    end.
  Fixpoint dec_break (k : nat) (bs : bytes) : option (list cbor * bytes) :=
    match k with
    | O => None
    | S k' =>
        match bs with
        | [] => None
        | h :: r =>
            if b2n h =? 255 then Some ([], r)
            else match d bs with
                 | None => None
                 | Some (x, r1) =>
                     match dec_break k' r1 with
                     | None => None
                     | Some (xs, r') => Some (x :: xs, r')
                     end
                 end
        end
    end.
End Seq.

(* chunks of an indefinite byte string: definite byte strings until 0xff *)
Fixpoint dec_chunks (k : nat) (bs : bytes) : option (list bytes * bytes) :=
  match k with
  | O => None
  | S k' =>
      match bs with
      | [] => None
      | h :: r =>
          if b2n h =? 255 then Some ([], r)
          else if b2n h / 32 =? 2 then
            match dec_arg (b2n h mod 32) r with
            | None => None
            | Some (n, r1) =>
                match take n r1 with
                | None => None
                | Some (c, r2) =>
                    match dec_chunks k' r2 with
                    | None => None
                    | Some (cs, r') => Some (c :: cs, r')
                    end
                end
            end
          else None
      end
  end.

Fixpoint dec (f : nat) (bs : bytes) : option (cbor * bytes) :=
  match f with
  | O => None
  | S f' =>
      match bs with
      | [] => None
      | h :: r =>
          let m := b2n h / 32 in
          let ai := b2n h mod 32 in
          if m =? 7 then
            (if (20 <=? ai) && (ai <? 24) then Some (CS ai, r) else None)
          else if ai =? 31 then
            (if m =? 2 then
               match dec_chunks f' r with Some (cs, r') => Some (CBi cs, r') | None => None end
             else if m =? 4 then
               match dec_break (dec f') f' r with Some (xs, r') => Some (CAi xs, r') | None => None end
             else None)
          else
            match dec_arg ai r with
            | None => None
            | Some (n, r1) =>
                if m =? 0 then Some (CU n, r1)
                else if m =? 1 then Some (CN n, r1)
                else if m =? 2 then
                  match take n r1 with Some (b, r2) => Some (CB b, r2) | None => None end
                else if m =? 3 then
                  match take n r1 with Some (b, r2) => Some (CT b, r2) | None => None end
                else if m =? 4 then
                  match dec_n (dec f') f' n r1 with Some (xs, r2) => Some (CA xs, r2) | None => None end
                else if m =? 5 then
                  match dec_pairs (dec f') f' n r1 with Some (kvs, r2) => Some (CM kvs, r2) | None => None end
                else
                  match dec f' r1 with Some (y, r2) => Some (CTag n y, r2) | None => None end
            end
      end
  end.

Definition decode (bs : bytes) : option cbor :=
  match dec (S (length bs)) bs with
  | Some (x, []) => Some x
  | _ => None
  end.

(* ---------- well-formedness and fuel ---------- *)
Fixpoint wf (x : cbor) : Prop :=
  match x with
  | CU n | CN n => n < two64
  | CB b | CT b => lenN b < two64
  | CBi cs => Forall (fun c => lenN c < two64) cs
  | CA xs => lenN xs < two64 /\ (fix all (l : list cbor) : Prop := match l with [] => True | y :: r => wf y /\ all r end) xs
  | CAi xs => (fix all (l : list cbor) : Prop := match l with [] => True | y :: r => wf y /\ all r end) xs
  | CM kvs => lenN kvs < two64 /\
      (fix all (l : list (cbor * cbor)) : Prop :=
         match l with [] => True | kv :: r => (wf (fst kv) /\ wf (snd kv)) /\ all r end) kvs
  | CTag t y => t < two64 /\ wf y
  | CS v => 20 <= v < 24
  end.

Fixpoint sz (x : cbor) : nat :=
  match x with
  | CU _ | CN _ | CB _ | CT _ | CS _ => 1%nat
  | CBi cs => (2 + length cs)%nat
  | CA xs | CAi xs => (2 + length xs + list_sum (map sz xs))%nat
  | CM kvs => (2 + length kvs + list_sum (map (fun kv => (sz (fst kv) + sz (snd kv))%nat) kvs))%nat
  | CTag _ y => (1 + sz y)%nat
  end.

(* ---------- induction principle for the nested type ---------- *)
Section Ind.
  Variable P : cbor -> Prop.
  Hypothesis HU : forall n, P (CU n).
  Hypothesis HN : forall n, P (CN n).
  Hypothesis HB : forall b, P (CB b).
  Hypothesis HBi : forall cs, P (CBi cs).
  Hypothesis HT : forall b, P (CT b).
  Hypothesis HA : forall xs, Forall P xs -> P (CA xs).
  Hypothesis HAi : forall xs, Forall P xs -> P (CAi xs).
  Hypothesis HM : forall kvs, Forall (fun kv => P (fst kv) /\ P (snd kv)) kvs -> P (CM kvs).
  Hypothesis HTag : forall t y, P y -> P (CTag t y).
  Hypothesis HS : forall v, P (CS v).
  Fixpoint cbor_ind' (x : cbor) : P x :=
    match x with
    | CU n => HU n | CN n => HN n | CB b => HB b | CBi cs => HBi cs | CT b => HT b
    | CA xs => HA xs ((fix go (l : list cbor) : Forall P l :=
                         match l with [] => Forall_nil _ | y :: r => Forall_cons _ (cbor_ind' y) (go r) end) xs)
    | CAi xs => HAi xs ((fix go (l : list cbor) : Forall P l :=
                         match l with [] => Forall_nil _ | y :: r => Forall_cons _ (cbor_ind' y) (go r) end) xs)
    | CM kvs => HM kvs ((fix go (l : list (cbor * cbor)) : Forall (fun kv => P (fst kv) /\ P (snd kv)) l :=
                         match l with
                         | [] => Forall_nil _
                         | kv :: r => Forall_cons _ (conj (cbor_ind' (fst kv)) (cbor_ind' (snd kv))) (go r)
                         end) kvs)
    | CTag t y => HTag t y (cbor_ind' y)
    | CS v => HS v
    end.
End Ind.
