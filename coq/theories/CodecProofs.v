(* CodecProofs.v — the generic round-trip theorem of the codec interpreter:
   for EVERY schema, every fuel and every value that is well typed (fuelled typing `ht`, same recursion
   structure as the restorer), restoring the primitive of the value yields exactly the value. *)
From Coq Require Import NArith ZArith Ascii String List Bool Lia.
From PyC Require Import Base Cbor CborProofs Value Codec.
Import ListNotations.
Open Scope string_scope.
Open Scope list_scope.

(* ---------- integers inside 64 bits (no bignum tags) ---------- *)
Definition in64 (z : Z) : Prop := (- two64z <= z < two64z)%Z.

Lemma as_int_cint z : in64 z -> as_int_opt (cint z) = Some z.
Proof.
  unfold in64, cint, two64z. intros H.
  destruct (0 <=? z)%Z eqn:E.
  - apply Z.leb_le in E. match goal with |- context [if ?c then _ else _] => destruct c eqn:E2 end; [|apply Z.ltb_ge in E2; lia].
    unfold as_int_opt. f_equal. apply Z2N.id. exact E.
  - apply Z.leb_gt in E. match goal with |- context [if ?c then _ else _] => destruct c eqn:E2 end; [|apply Z.leb_gt in E2; lia].
    unfold as_int_opt. f_equal. rewrite Z2N.id by lia. lia.
Qed.

Lemma cint_not_special z : in64 z ->
  (forall b, cint z <> CB b) /\ (forall b, cint z <> CT b) /\ (forall l, cint z <> CA l) /\ (forall l, cint z <> CAi l)
  /\ (forall l, cint z <> CM l) /\ (forall t x, cint z <> CTag t x) /\ (forall s, cint z <> CS s).
Proof.
  unfold in64, cint, two64z. intros H.
  destruct (0 <=? z)%Z eqn:E.
  - apply Z.leb_le in E. match goal with |- context [if ?c then _ else _] => destruct c eqn:E2 end; [|apply Z.ltb_ge in E2; lia].
    repeat split; intros; discriminate.
  - apply Z.leb_gt in E. match goal with |- context [if ?c then _ else _] => destruct c eqn:E2 end; [|apply Z.leb_gt in E2; lia].
    repeat split; intros; discriminate.
Qed.

(* ---------- rejection (what makes an earlier union alternative harmless) ---------- *)
Definition rejects (S : schema) (u : ty) (v : pv) : Prop :=
  forall n m p, to_prim S n v = Ok p -> from_prim S (Datatypes.S m) u p = EDeser.

(* ---------- typing ---------- *)
Definition omitted_tail (fs : list field) (vs : list pv) : Prop :=
  Forall2 (fun f v => v = VNone /\ fopt f = true /\ fconst f = None /\ fdef f = Some 0%Z) fs vs.

Section Typing.
  Variable S : schema.
  Variable H : ty -> pv -> Prop.     (* typing at the next lower fuel *)

  Definition field_ht (f : field) (v : pv) : Prop :=
    match fhook f with
    | Some c => v = VNone \/ exists l, v = VList l /\ Forall (H (TCls c)) l
    | None => H (fty f) v
    end.

  (* values of the init fields of an array-encoded dataclass *)
  Fixpoint arr_ok (fs : list field) (vs : list pv) : Prop :=
    match fs, vs with
    | [], [] => True
    | f :: fr, v :: vr =>
        fconst f = None /\
        ((v = VNone /\ fopt f = true /\ omitted_tail (f :: fr) (v :: vr))
         \/ (~ (v = VNone /\ fopt f = true) /\ field_ht f v /\ arr_ok fr vr))
    | _, _ => False
    end.

  (* values of the fields of a map-encoded dataclass *)
  Fixpoint map_ok (fs : list field) (vs : list pv) : Prop :=
    match fs, vs with
    | [], [] => True
    | f :: fr, v :: vr =>
        fconst f = None /\ (exists k, fkey f = Some k) /\
        ((v = VNone /\ fopt f = true /\ fdef f = Some 0%Z) \/ (~ (v = VNone /\ fopt f = true) /\ field_ht f v))
        /\ map_ok fr vr
    | _, _ => False
    end.
End Typing.

Definition keys_distinct (fs : list field) : Prop :=
  NoDup (map (fun f => match fkey f with Some k => enc k | None => [] end) fs).

Fixpoint ht (S : schema) (k : nat) (t : ty) (v : pv) {struct k} : Prop :=
  match k with
  | O => False
  | Datatypes.S k' =>
      match t with
      | TAny => exists p, v = VAny p
      | TInt => exists z, v = VInt z /\ in64 z
      | TBytes => exists b, v = VBytes b
      | TStr => exists b, v = VStr b
      | TBool => exists b, v = VBool b
      | TNone => v = VNone
      | TFrac => exists a b, v = VFrac a b /\ in64 a /\ in64 b
      | TList u => exists l, v = VList l /\ Forall (ht S k' u) l
      | TDictT kt vt => exists kvs, v = VMapT kvs /\ Forall (fun kv => ht S k' kt (fst kv) /\ ht S k' vt (snd kv)) kvs
      | TSet ne u =>
          exists tg l, v = VSet tg l /\ Forall (ht S k' u) l /\ (ne = true -> l <> [])
                       /\ (forall n ps, mapM (to_prim S n) l = Ok ps -> dedup_ok ps = true)
      | TCls c =>
          match lookup S c with
          | Some (KArray fs) => exists vs, v = VObj c vs /\ arr_ok (ht S k') fs vs
          | Some (KCoded code fs) => exists vs, v = VObj c vs /\ arr_ok (ht S k') fs vs /\ in64 code
          | Some (KMap fs) => exists vs, v = VObj c vs /\ map_ok (ht S k') fs vs /\ keys_distinct fs
          | Some (KDict kt vt) =>
              exists kvs, v = VDict c kvs
                /\ Forall (fun kv => (match kt with TCls _ => ht S k' kt (fst kv) | _ => exists p, dict_key_ok kt p = Some (fst kv) /\ forall n, to_prim S (Datatypes.S n) (fst kv) = Ok p end)
                                  /\ (match vt with TCls _ => ht S k' vt (snd kv) | _ => exists p, dict_key_ok vt p = Some (snd kv) /\ forall n, to_prim S (Datatypes.S n) (snd kv) = Ok p end)) kvs
                /\ (forall n ps, mapM (fun kv => do a <- to_prim S n (fst kv); do b <- to_prim S n (snd kv); Ok (a, b)) kvs = Ok ps -> ksort ps = ps)
          | Some (KBytes lo hi) => exists b, v = VCB c b /\ (lo <= lenN b)%N /\ (lenN b <= hi)%N
          | Some (KEnum vals) => exists z, v = VEnum c z /\ In z vals /\ in64 z
          | Some (KOpaque shape code) => exists p, v = VOpq c p /\ shape_ok shape code p = true
          | None => False
          end
      | TUnion ts => exists pre u post, ts = pre ++ u :: post /\ ht S k' u v /\ Forall (fun w => rejects S w v) pre
      | TTuple ts => exists l, v = VList l /\ Forall2 (ht S k') ts l
      | TUnknown _ => False
      end
  end.

(* ---------- helper lemmas on the monadic combinators ---------- *)
Lemma bind_ok {A B} (r : res A) (f : A -> res B) b : bind r f = Ok b -> exists a, r = Ok a /\ f a = Ok b.
Proof. destruct r; cbn; intros E; try discriminate. eauto. Qed.

Lemma mapM_ok_inv {A B} (f : A -> res B) : forall l ys, mapM f l = Ok ys -> Forall2 (fun x y => f x = Ok y) l ys.
Proof.
  induction l as [|x l IH]; cbn; intros ys E.
  - inversion E. constructor.
  - apply bind_ok in E as (y & Ey & E). apply bind_ok in E as (ys' & Eys & E). inversion E; subst.
    constructor; auto.
Qed.

Lemma mapM_from_to {A B} (f : A -> res B) (g : B -> res A) : forall l ys,
  Forall2 (fun x y => f x = Ok y) l ys -> (forall x y, In x l -> f x = Ok y -> g y = Ok x) -> mapM g ys = Ok l.
Proof.
  induction 1 as [|x y l ys Hxy Hl IH]; intros Hg; cbn; [reflexivity|].
  rewrite (Hg x y (or_introl eq_refl) Hxy). cbn. rewrite IH; [reflexivity|].
  intros x' y' Hin. apply Hg. now right.
Qed.

Lemma firstM_skip (f : ty -> cbor -> res pv) p : forall pre t post v,
  Forall (fun u => f u p = EDeser) pre -> f t p = Ok v -> firstM f (pre ++ t :: post) p = Ok v.
Proof.
  induction pre as [|a pre IH]; intros t post v Hp Ht; cbn.
  - now rewrite Ht.
  - inversion Hp as [|? ? Ha Hr]; subst. rewrite Ha. now apply IH.
Qed.

(* ---------- per-combinator lemmas; IH = the theorem at the next lower typing fuel ---------- *)
Section Combinators.
  Variable S : schema.
  Variables (m k : nat).
  Hypothesis IH : forall t v n p, ht S k t v -> to_prim S n v = Ok p -> from_prim S m t p = Ok v.

  Lemma list_rt t n l ps : Forall (ht S k t) l -> mapM (to_prim S n) l = Ok ps -> mapM (from_prim S m t) ps = Ok l.
  Proof.
    intros Hl E. apply mapM_ok_inv in E. eapply mapM_from_to; [exact E|].
    intros x y Hin Exy. eapply IH; [|exact Exy]. rewrite Forall_forall in Hl. now apply Hl.
  Qed.

  Lemma field_rt f v n p : field_ht (ht S k) f v -> to_prim S n v = Ok p ->
    dec_field (from_prim S m) (fun c' p' => from_prim S m (TCls c') p') f p = Ok v.
  Proof.
    unfold field_ht, dec_field. destruct (fhook f) as [c|]; [|intros Hv E; eapply IH; eauto].
    intros [->|(l & -> & Hl)] E.
    - destruct n as [|n']; [discriminate|]. cbn in E. inversion E; subst. reflexivity.
    - destruct n as [|n']; [discriminate|]. cbn in E.
      apply bind_ok in E as (ps & Eps & E). inversion E; subst. cbn.
      change (mapM (fun p' : cbor => from_prim S m (TCls c) p') ps) with (mapM (from_prim S m (TCls c)) ps).
      rewrite (list_rt (TCls c) n' l ps Hl Eps). reflexivity.
  Qed.

  Lemma omitted_tail_enc n : forall fs vs, omitted_tail fs vs -> enc_arr (to_prim S n) fs vs = Ok [].
  Proof.
    induction 1 as [|f v fs vs (-> & Ho & Hc & Hd) Hr IHr]; cbn; [reflexivity|].
    rewrite Hc, Ho. exact IHr.
  Qed.

  Lemma omitted_tail_dec : forall fs vs, omitted_tail fs vs ->
    dec_arr (from_prim S m) (fun c' p' => from_prim S m (TCls c') p') fs [] = Ok vs.
  Proof.
    induction 1 as [|f v fs vs (-> & Ho & Hc & Hd) Hr IHr]; cbn; [reflexivity|].
    rewrite Hc, Hd, IHr. reflexivity.
  Qed.

  Lemma arr_rt n : forall fs vs ps, arr_ok (ht S k) fs vs -> enc_arr (to_prim S n) fs vs = Ok ps ->
    dec_arr (from_prim S m) (fun c' p' => from_prim S m (TCls c') p') fs ps = Ok vs.
  Proof.
    induction fs as [|f fr IHf]; intros vs ps Hok E.
    - destruct vs; [|contradiction]. cbn in E. inversion E. reflexivity.
    - destruct vs as [|v vr]; [contradiction|]. cbn [arr_ok] in Hok. destruct Hok as (Hc & Hcase).
      destruct Hcase as [(-> & Ho & Ht)|(Hn & Hf & Hr)].
      + rewrite (omitted_tail_enc n _ _ Ht) in E. inversion E; subst. now apply omitted_tail_dec.
      + cbn [enc_arr] in E. rewrite Hc in E.
        assert (E' : (do p <- to_prim S n v; do rest <- enc_arr (to_prim S n) fr vr; Ok (p :: rest)) = Ok ps).
        { destruct v; try exact E. destruct (fopt f) eqn:Fo; [exfalso; apply Hn; auto | exact E]. }
        apply bind_ok in E' as (p & Ep & E'). apply bind_ok in E' as (rest & Er & E'). inversion E'; subst.
        cbn [dec_arr]. rewrite Hc. rewrite (field_rt f v n p Hf Ep). cbn. rewrite (IHf vr rest Hr Er). reflexivity.
  Qed.
End Combinators.

(* ---------- map-encoded dataclasses ---------- *)
Definition is_omitted (f : field) (v : pv) : bool := match v with VNone => fopt f | _ => false end.
Fixpoint expected (fs : list field) (vs : list pv) : list (option pv) :=
  match fs, vs with
  | f :: fr, v :: vr => (if is_omitted f v then None else Some v) :: expected fr vr
  | _, _ => []
  end.

Lemma cbor_eqb_refl k : cbor_eqb k k = true.
Proof. unfold cbor_eqb. apply bytes_eqb_refl. Qed.

Lemma find_field_at : forall fs i f k,
  keys_distinct fs -> nth_error fs i = Some f -> fkey f = Some k -> find_field fs k = Some (i, f).
Proof.
  unfold keys_distinct. induction fs as [|g fr IH]; intros i f k Hd Hn Hk; [destruct i; discriminate|].
  cbn in Hd. inversion Hd as [|? ? Hnot Hrest]; subst.
  destruct i as [|i]; cbn in Hn.
  - inversion Hn; subst g. cbn. rewrite Hk, cbor_eqb_refl. reflexivity.
  - cbn. assert (Hrec : find_field fr k = Some (i, f)) by (apply IH; auto). rewrite Hrec.
    destruct (fkey g) as [k'|] eqn:Kg; [|reflexivity].
    destruct (cbor_eqb k k') eqn:Q; [|reflexivity].
    exfalso. apply Hnot. unfold cbor_eqb in Q. apply bytes_eqb_eq in Q. rewrite <- Q.
    apply nth_error_In in Hn. apply in_map_iff. exists f. now rewrite Hk.
Qed.

Lemma set_nth_app {A} (a : list A) x y r : set_nth (a ++ x :: r) (length a) y = a ++ y :: r.
Proof. induction a as [|h a IH]; cbn; [reflexivity|]. now rewrite IH. Qed.

Section MapRT.
  Variable S : schema.
  Variables (m k : nat).
  Hypothesis IH : forall t v n p, ht S k t v -> to_prim S n v = Ok p -> from_prim S m t p = Ok v.

  Lemma map_fill n fs : keys_distinct fs -> forall suf pre vs kps accp,
    fs = pre ++ suf -> length accp = length pre ->
    map_ok (ht S k) suf vs -> enc_map (to_prim S n) suf vs = Ok kps ->
    dec_map_fill (from_prim S m) (fun c' p' => from_prim S m (TCls c') p') fs (accp ++ map (fun _ => None) suf) kps
    = Ok (accp ++ expected suf vs).
  Proof.
    intros Hd. induction suf as [|f fr IHs]; intros pre vs kps accp Hfs Hlen Hok E.
    - destruct vs; [|contradiction]. cbn in E. inversion E; subst. reflexivity.
    - destruct vs as [|v vr]; [contradiction|]. cbn [map_ok] in Hok.
      destruct Hok as (Hc & (key & Hkey) & Hcase & Hrest).
      assert (Hfs' : fs = (pre ++ [f]) ++ fr) by (rewrite <- app_assoc; exact Hfs).
      destruct Hcase as [(-> & Ho & Hdflt)|(Hn & Hf)].
      + cbn [enc_map] in E. rewrite Ho in E. cbn [expected is_omitted]. rewrite Ho.
        cbn [map]. replace (accp ++ None :: map (fun _ => None) fr) with ((accp ++ [None]) ++ map (fun _ => None) fr)
          by (rewrite <- app_assoc; reflexivity).
        rewrite (IHs (pre ++ [f]) vr kps (accp ++ [None]) Hfs'); [now rewrite <- app_assoc| |exact Hrest|exact E].
        rewrite !app_length. cbn. lia.
      + cbn [enc_map] in E.
        assert (E' : (match fkey f with
                      | None => EOther "map field without key"
                      | Some k0 => do p <- to_prim S n v; do rest <- enc_map (to_prim S n) fr vr; Ok ((k0, p) :: rest)
                      end) = Ok kps).
        { destruct v; try exact E. destruct (fopt f) eqn:Fo; [exfalso; apply Hn; auto | exact E]. }
        rewrite Hkey in E'. apply bind_ok in E' as (p & Ep & E'). apply bind_ok in E' as (rest & Er & E'). inversion E'; subst kps.
        cbn [dec_map_fill].
        assert (Hnth : nth_error fs (length pre) = Some f).
        { rewrite Hfs. rewrite nth_error_app2 by lia. now rewrite Nat.sub_diag. }
        rewrite (find_field_at fs (length pre) f key Hd Hnth Hkey).
        rewrite (field_rt S m k IH f v n p Hf Ep). cbn [bind map].
        rewrite <- Hlen. rewrite set_nth_app.
        replace (accp ++ Some v :: map (fun _ => None) fr) with ((accp ++ [Some v]) ++ map (fun _ => None) fr)
          by (rewrite <- app_assoc; reflexivity).
        rewrite (IHs (pre ++ [f]) vr rest (accp ++ [Some v]) Hfs'); [|rewrite !app_length; cbn; lia|exact Hrest|exact Er].
        cbn [expected]. assert (Om : is_omitted f v = false).
        { unfold is_omitted. destruct v; try reflexivity. destruct (fopt f) eqn:Fo; [exfalso; apply Hn; auto | reflexivity]. }
        rewrite Om. now rewrite <- app_assoc.
  Qed.

  Lemma map_close : forall fs vs, map_ok (ht S k) fs vs -> dec_map_close fs (expected fs vs) = Ok vs.
  Proof.
    induction fs as [|f fr IHf]; intros vs Hok.
    - destruct vs; [reflexivity|contradiction].
    - destruct vs as [|v vr]; [contradiction|]. cbn [map_ok] in Hok.
      destruct Hok as (Hc & _ & Hcase & Hrest). cbn [expected].
      destruct Hcase as [(-> & Ho & Hdflt)|(Hn & Hf)].
      + cbn [is_omitted]. rewrite Ho. cbn [dec_map_close]. rewrite Hdflt, (IHf vr Hrest). reflexivity.
      + assert (Om : is_omitted f v = false).
        { unfold is_omitted. destruct v; try reflexivity. destruct (fopt f) eqn:Fo; [exfalso; apply Hn; auto | reflexivity]. }
        rewrite Om. cbn [dec_map_close]. rewrite (IHf vr Hrest). reflexivity.
  Qed.

  Lemma map_rt n fs vs kps : keys_distinct fs -> map_ok (ht S k) fs vs -> enc_map (to_prim S n) fs vs = Ok kps ->
    (do acc <- dec_map_fill (from_prim S m) (fun c' p' => from_prim S m (TCls c') p') fs (map (fun _ => None) fs) kps;
     dec_map_close fs acc) = Ok vs.
  Proof.
    intros Hd Hok E.
    pose proof (map_fill n fs Hd fs [] vs kps [] eq_refl eq_refl Hok E) as F. cbn [app] in F.
    rewrite F. cbn [bind]. now apply map_close.
  Qed.
End MapRT.

(* ---------- the theorem ---------- *)
Lemma pair_rt S m k (IH : forall t v n p, ht S k t v -> to_prim S n v = Ok p -> from_prim S m t p = Ok v) kt vt n :
  forall kvs ps,
  Forall (fun kv => ht S k kt (fst kv) /\ ht S k vt (snd kv)) kvs ->
  mapM (fun kv => do a <- to_prim S n (fst kv); do b <- to_prim S n (snd kv); Ok (a, b)) kvs = Ok ps ->
  mapM (fun kv => do a <- from_prim S m kt (fst kv); do b <- from_prim S m vt (snd kv); Ok (a, b)) ps = Ok kvs.
Proof.
  induction kvs as [|[a b] kvs IHk]; intros ps HF E; cbn in E.
  - inversion E. reflexivity.
  - inversion HF as [|? ? [Ha Hb] Hr]; subst. cbn [fst snd] in *.
    apply bind_ok in E as ([pa pb] & E1 & E). apply bind_ok in E as (rest & Er & E). inversion E; subst.
    apply bind_ok in E1 as (pa' & Ea & E1). apply bind_ok in E1 as (pb' & Eb & E1). inversion E1; subst.
    cbn. rewrite (IH kt a n pa Ha Ea), (IH vt b n pb Hb Eb). cbn. rewrite (IHk rest Hr Er). reflexivity.
Qed.

Theorem roundtrip S : forall k t v n p,
  ht S k t v -> to_prim S n v = Ok p -> forall m, (k <= m)%nat -> from_prim S m t p = Ok v.
Proof.
  induction k as [|k IHk]; intros t v n p Hht E m Hm; [destruct Hht|].
  destruct m as [|m]; [lia|]. assert (Hkm : (k <= m)%nat) by lia.
  destruct n as [|n]; [discriminate|].
  assert (IH : forall t v n p, ht S k t v -> to_prim S n v = Ok p -> from_prim S m t p = Ok v)
    by (intros; eapply IHk; eauto).
  destruct t as [| | | | | | |c|u|kt vt|ne u|ts|ts|r]; cbn [ht] in Hht.
  - (* TAny *) destruct Hht as (p0 & ->). cbn in E. inversion E; subst. reflexivity.
  - (* TInt *) destruct Hht as (z & -> & Hz). cbn in E. inversion E; subst. cbn. now rewrite as_int_cint.
  - (* TBytes *) destruct Hht as (b & ->). cbn in E. inversion E; subst. reflexivity.
  - (* TStr *) destruct Hht as (b & ->). cbn in E. inversion E; subst. reflexivity.
  - (* TBool *) destruct Hht as (b & ->). cbn in E. inversion E; subst. destruct b; reflexivity.
  - (* TNone *) subst v. cbn in E. inversion E; subst. reflexivity.
  - (* TFrac *) destruct Hht as (a & b & -> & Ha & Hb). cbn in E. inversion E; subst. cbn.
    now rewrite !as_int_cint.
  - (* TCls *)
    cbn [from_prim]. cbv zeta.
    destruct (lookup S c) as [[fs|code fs|fs|kt vt|lo hi|vals|shape ocode]|] eqn:L; try contradiction.
    + (* KArray *) destruct Hht as (vs & -> & Hok). cbn [to_prim] in E. rewrite L in E.
      apply bind_ok in E as (ps & Eps & E). inversion E; subst. cbn [is_list_prim].
      rewrite (arr_rt S m k IH n fs vs ps Hok Eps). reflexivity.
    + (* KCoded *) destruct Hht as (vs & -> & Hok & Hcode). cbn [to_prim] in E. rewrite L in E.
      apply bind_ok in E as (ps & Eps & E). inversion E; subst.
      rewrite (as_int_cint code Hcode), Z.eqb_refl.
      rewrite (arr_rt S m k IH n fs vs ps Hok Eps). reflexivity.
    + (* KMap *) destruct Hht as (vs & -> & Hok & Hd). cbn [to_prim] in E. rewrite L in E.
      apply bind_ok in E as (ps & Eps & E). inversion E; subst.
      pose proof (map_fill S m k IH n fs Hd fs [] vs ps [] eq_refl eq_refl Hok Eps) as F. cbn [app] in F.
      rewrite F. cbn [bind]. rewrite (map_close S k fs vs Hok). reflexivity.
    + (* KDict *) destruct Hht as (kvs & -> & HF & Hsorted). cbn [to_prim] in E. rewrite L in E.
      apply bind_ok in E as (ps & Eps & E). inversion E; subst.
      rewrite (Hsorted n ps Eps).
      assert (M : mapM (fun kv : cbor * cbor =>
                          do k0 <- match kt with
                                   | TCls _ => from_prim S m kt (fst kv)
                                   | _ => match dict_key_ok kt (fst kv) with Some k0 => Ok k0 | None => EOther "TypeCheckError" end
                                   end;
                          do x <- match vt with
                                  | TCls _ => from_prim S m vt (snd kv)
                                  | _ => match dict_key_ok vt (snd kv) with Some x => Ok x | None => EOther "TypeCheckError" end
                                  end;
                          Ok (k0, x)) ps = Ok kvs).
      { clear Hsorted E. revert ps Eps. induction kvs as [|[a b] kvs IHl]; intros ps Eps; cbn in Eps.
        - inversion Eps. reflexivity.
        - inversion HF as [|? ? [Ha Hb] Hr]; subst. cbn [fst snd] in *.
          apply bind_ok in Eps as ([pa pb] & E1 & Eps). apply bind_ok in Eps as (rest & Er & Eps). inversion Eps; subst.
          apply bind_ok in E1 as (pa' & Ea & E1). apply bind_ok in E1 as (pb' & Eb & E1). inversion E1; subst.
          cbn [mapM fst snd].
          assert (Ka : match kt with
                       | TCls _ => from_prim S m kt pa
                       | _ => match dict_key_ok kt pa with Some k0 => Ok k0 | None => EOther "TypeCheckError" end
                       end = Ok a).
          { destruct kt; try (destruct Ha as (q & Hq & Hto); destruct n as [|n0]; [discriminate|];
                              rewrite (Hto n0) in Ea; inversion Ea; subst; now rewrite Hq).
            eapply IH; eauto. }
          assert (Kb : match vt with
                       | TCls _ => from_prim S m vt pb
                       | _ => match dict_key_ok vt pb with Some x => Ok x | None => EOther "TypeCheckError" end
                       end = Ok b).
          { destruct vt; try (destruct Hb as (q & Hq & Hto); destruct n as [|n0]; [discriminate|];
                              rewrite (Hto n0) in Eb; inversion Eb; subst; now rewrite Hq).
            eapply IH; eauto. }
          rewrite Ka, Kb. cbn [bind]. rewrite (IHl Hr rest Er). reflexivity. }
      rewrite M. reflexivity.
    + (* KBytes *) destruct Hht as (b & -> & Hlo & Hhi). cbn in E. inversion E; subst.
      apply N.leb_le in Hlo. apply N.leb_le in Hhi. rewrite Hlo, Hhi. reflexivity.
    + (* KEnum *) destruct Hht as (z & -> & Hin & Hz). cbn in E. inversion E; subst.
      rewrite (as_int_cint z Hz).
      assert (X : existsb (Z.eqb z) vals = true) by (apply existsb_exists; exists z; split; [exact Hin | apply Z.eqb_refl]).
      rewrite X. reflexivity.
    + (* KOpaque *) destruct Hht as (p0 & -> & Hs). cbn in E. inversion E; subst. rewrite Hs. reflexivity.
  - (* TList *) destruct Hht as (l & -> & Hl). cbn [to_prim] in E.
    apply bind_ok in E as (ps & Eps & E). inversion E; subst. cbn [from_prim]. cbv zeta. cbn [is_list_prim].
    rewrite (list_rt S m k IH u n l ps Hl Eps). reflexivity.
  - (* TDictT *) destruct Hht as (kvs & -> & HF). cbn [to_prim] in E.
    apply bind_ok in E as (ps & Eps & E). inversion E; subst. cbn [from_prim]. cbv zeta.
    rewrite (pair_rt S m k IH kt vt n kvs ps HF Eps). reflexivity.
  - (* TSet *) destruct Hht as (tg & l & -> & Hl & Hne & Hdd). cbn [to_prim] in E.
    apply bind_ok in E as (ps & Eps & E). inversion E; subst. cbn [from_prim]. cbv zeta.
    assert (M : mapM (from_prim S m u) ps = Ok l) by (eapply list_rt; eauto).
    assert (Q : (ne && match l with [] => true | _ => false end)%bool = false).
    { destruct ne; [|reflexivity]. destruct l; [exfalso; now apply Hne | reflexivity]. }
    destruct tg; cbn; rewrite M; cbn [bind]; rewrite Q, (Hdd n ps Eps); reflexivity.
  - (* TUnion *) destruct Hht as (pre & w & post & -> & Hw & Hrej). cbn [from_prim]. cbv zeta.
    apply firstM_skip.
    + eapply Forall_impl; [|exact Hrej]. intros x Hx.
      destruct m as [|m']; [destruct k; [destruct Hw | lia]|].
      eapply (Hx (Datatypes.S n)). exact E.
    + eapply IH; eauto.
  - (* TTuple *) destruct Hht as (l & -> & HF). cbn [to_prim] in E.
    apply bind_ok in E as (ps & Eps & E). inversion E; subst. cbn [from_prim]. cbv zeta. cbn [is_list_prim].
    assert (Z2 : zipT (from_prim S m) ts ps = Ok l /\ length ps = length ts).
    { clear E. revert ps Eps. induction HF as [|t0 v0 ts0 l0 Hv Hr IHr]; intros ps Eps; cbn in Eps.
      - inversion Eps. split; reflexivity.
      - apply bind_ok in Eps as (p0 & Ep0 & Eps). apply bind_ok in Eps as (rest & Er & Eps). inversion Eps; subst.
        destruct (IHr rest Er) as [Zr Lr]. cbn. rewrite (IH t0 v0 n p0 Hv Ep0). cbn. rewrite Zr. split; [reflexivity | now rewrite Lr]. }
    destruct Z2 as [Zr Lr]. rewrite Lr, Nat.eqb_refl, Zr. reflexivity.
  - (* TUnknown *) contradiction.
Qed.

(* Re-encoding: the restored value IS the original value, so every later to_prim / to_cbor of it
   returns what it returned for the original. *)
Corollary roundtrip_reencode S k t v n p m :
  ht S k t v -> to_prim S n v = Ok p -> (k <= m)%nat ->
  exists v', from_prim S m t p = Ok v' /\ v' = v /\ to_prim S n v' = Ok p.
Proof. intros Hht E Hm. exists v. split; [eapply roundtrip; eauto | split; [reflexivity | exact E]]. Qed.

(* ---------- a decidable sufficient condition for `rejects`: coded classes with different codes ---------- *)
Lemma coded_rejects S cu ku fu cw kw fw :
  lookup S cu = Some (KCoded ku fu) -> lookup S cw = Some (KCoded kw fw) -> ku <> kw -> in64 kw ->
  forall vs, rejects S (TCls cu) (VObj cw vs).
Proof.
  intros Lu Lw Hne Hk vs n m p E.
  destruct n as [|n]; [discriminate|]. cbn [to_prim] in E. rewrite Lw in E.
  apply bind_ok in E as (ps & _ & E). inversion E; subst.
  cbn [from_prim]. cbv zeta. rewrite Lu. rewrite (as_int_cint kw Hk).
  destruct (Z.eqb kw ku) eqn:Q; [apply Z.eqb_eq in Q; congruence | reflexivity].
Qed.

(* a tagged set is rejected by the List alternative that precedes OrderedSet in the union annotations *)
Lemma list_rejects_tagged_set S u l : rejects S (TList u) (VSet true l).
Proof.
  intros n m p E. destruct n as [|n]; [discriminate|]. cbn [to_prim] in E.
  apply bind_ok in E as (ps & _ & E). inversion E; subst. reflexivity.
Qed.

(* None is rejected by every restorer that is not a set / Any *)
Lemma none_rejected_by_int S : rejects S TInt VNone.
Proof. intros n m p E. destruct n; [discriminate|]. cbn in E. inversion E; subst. reflexivity. Qed.
Lemma none_rejected_by_coded S c k fs : lookup S c = Some (KCoded k fs) -> rejects S (TCls c) VNone.
Proof.
  intros L n m p E. destruct n; [discriminate|]. cbn in E. inversion E; subst.
  cbn [from_prim]. cbv zeta. rewrite L. reflexivity.
Qed.
Lemma none_rejected_by_array S c fs : lookup S c = Some (KArray fs) -> rejects S (TCls c) VNone.
Proof.
  intros L n m p E. destruct n; [discriminate|]. cbn in E. inversion E; subst.
  cbn [from_prim]. cbv zeta. rewrite L. reflexivity.
Qed.
Lemma none_rejected_by_bytes S c lo hi : lookup S c = Some (KBytes lo hi) -> rejects S (TCls c) VNone.
Proof.
  intros L n m p E. destruct n; [discriminate|]. cbn in E. inversion E; subst.
  cbn [from_prim]. cbv zeta. rewrite L. reflexivity.
Qed.

(* ---------- introduction rules for the typing (used to exhibit concrete well-typed values) ---------- *)
Lemma ht_cb_intro S k c lo hi b : lookup S c = Some (KBytes lo hi) -> (lo <= lenN b)%N -> (lenN b <= hi)%N ->
  ht S (Datatypes.S k) (TCls c) (VCB c b).
Proof. intros L H1 H2. cbn [ht]. rewrite L. eauto. Qed.
Lemma ht_coded_intro S k c code fs vs : lookup S c = Some (KCoded code fs) -> arr_ok (ht S k) fs vs -> in64 code ->
  ht S (Datatypes.S k) (TCls c) (VObj c vs).
Proof. intros L H1 H2. cbn [ht]. rewrite L. eauto. Qed.
Lemma ht_map_intro S k c fs vs : lookup S c = Some (KMap fs) -> map_ok (ht S k) fs vs -> keys_distinct fs ->
  ht S (Datatypes.S k) (TCls c) (VObj c vs).
Proof. intros L H1 H2. cbn [ht]. rewrite L. eauto. Qed.
Lemma ht_list_intro S k u l : Forall (ht S k u) l -> ht S (Datatypes.S k) (TList u) (VList l).
Proof. intros H. cbn [ht]. eauto. Qed.
Lemma ht_union_intro S k pre u post v : ht S k u v -> Forall (fun w => rejects S w v) pre ->
  ht S (Datatypes.S k) (TUnion (pre ++ u :: post)) v.
Proof. intros H1 H2. cbn [ht]. exists pre, u, post. auto. Qed.
Lemma ht_int_intro S k z : in64 z -> ht S (Datatypes.S k) TInt (VInt z).
Proof. intros H. cbn [ht]. eauto. Qed.

(* ---------- non-vacuity: a certificate-like union inside a map class with an omitted optional field ---------- *)
Definition S_ex : schema :=
  [("Hash28", KBytes 28 28);
   ("Reg", KCoded 0 [mkField "cred" (TCls "Hash28") false None None None None]);
   ("Deleg", KCoded 2 [mkField "cred" (TCls "Hash28") false None None None None;
                       mkField "pool" (TCls "Hash28") false None None None None]);
   ("Body", KMap [mkField "fee" TInt false (Some (CU 2)) None None None;
                  mkField "ttl" (TUnion [TInt; TNone]) true (Some (CU 3)) None None (Some 0%Z);
                  mkField "certs" (TList (TUnion [TCls "Reg"; TCls "Deleg"])) false (Some (CU 4)) None None None])].
Definition h28 : bytes := repeat (n2b 1) 28.
Definition deleg_ex : pv := VObj "Deleg" [VCB "Hash28" h28; VCB "Hash28" h28].
Definition reg_ex : pv := VObj "Reg" [VCB "Hash28" h28].
Definition v_ex : pv := VObj "Body" [VInt 170000; VNone; VList [deleg_ex; reg_ex]].

Lemma in64_small z : (0 <= z < 1000000)%Z -> in64 z.
Proof. unfold in64, two64z. lia. Qed.

Lemma h28_ok k : ht S_ex (Datatypes.S k) (TCls "Hash28") (VCB "Hash28" h28).
Proof. eapply ht_cb_intro; [reflexivity | vm_compute; discriminate | vm_compute; discriminate]. Qed.

Lemma deleg_ok k : ht S_ex (Datatypes.S (Datatypes.S k)) (TCls "Deleg") deleg_ex.
Proof.
  eapply ht_coded_intro; [reflexivity | | apply in64_small; lia].
  cbn [arr_ok]. split; [reflexivity|]. right. split; [intros [X _]; discriminate|]. split; [apply h28_ok|].
  split; [reflexivity|]. right. split; [intros [X _]; discriminate|]. split; [apply h28_ok | exact I].
Qed.
Lemma reg_ok k : ht S_ex (Datatypes.S (Datatypes.S k)) (TCls "Reg") reg_ex.
Proof.
  eapply ht_coded_intro; [reflexivity | | apply in64_small; lia].
  cbn [arr_ok]. split; [reflexivity|]. right. split; [intros [X _]; discriminate|]. split; [apply h28_ok | exact I].
Qed.

Example ht_example : ht S_ex 6 (TCls "Body") v_ex.
Proof.
  eapply ht_map_intro; [reflexivity | | unfold keys_distinct; cbn; repeat constructor; cbn; intuition discriminate].
  cbn [map_ok]. split; [reflexivity|]. split; [eexists; reflexivity|]. split.
  { right. split; [intros [X _]; discriminate|]. apply ht_int_intro, in64_small. lia. }
  split; [reflexivity|]. split; [eexists; reflexivity|]. split.
  { left. repeat split; reflexivity. }
  split; [reflexivity|]. split; [eexists; reflexivity|]. split; [|exact I].
  right. split; [intros [X _]; discriminate|].
  change (field_ht (ht S_ex 5) (mkField "certs" (TList (TUnion [TCls "Reg"; TCls "Deleg"])) false (Some (CU 4)) None None None)
                   (VList [deleg_ex; reg_ex]))
    with (ht S_ex 5 (TList (TUnion [TCls "Reg"; TCls "Deleg"])) (VList [deleg_ex; reg_ex])).
  apply ht_list_intro. constructor; [|constructor; [|constructor]].
  - apply (ht_union_intro S_ex 3 [TCls "Reg"] (TCls "Deleg") []); [apply deleg_ok|].
    constructor; [|constructor].
    eapply coded_rejects; [reflexivity | reflexivity | discriminate | apply in64_small; lia].
  - apply (ht_union_intro S_ex 3 [] (TCls "Reg") [TCls "Deleg"]); [apply reg_ok | constructor].
Qed.

Example to_prim_example : exists p, to_prim S_ex 8 v_ex = Ok p.
Proof. eexists. vm_compute. reflexivity. Qed.
Example roundtrip_example : forall p, to_prim S_ex 8 v_ex = Ok p -> from_prim S_ex 8 (TCls "Body") p = Ok v_ex.
Proof. intros p E. exact (roundtrip S_ex 6 (TCls "Body") v_ex 8 p ht_example E 8 ltac:(lia)). Qed.
