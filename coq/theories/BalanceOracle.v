(* BalanceOracle.v — C06: executable glue used by the cases files.
   (1) a reader of the transaction body the implementation RETURNED (CBOR bytes -> the data the ledger's
       balance rule needs), and the oracle  c06_oracle = Balance.balanced on that content with the inputs
       resolved through the scenario's UTxO map;
   (2) exact comparisons model = implementation for the slices (_get_total_key_deposit,
       _get_total_proposal_deposit, _calc_change, _pack_tokens_for_change, the accounting before
       selection, _add_change_and_fee). *)
From Coq Require Import NArith ZArith Ascii String List Bool Lia.
From PyC Require Import Base Cbor Dict Value ValueOracle Balance BalanceSel.
Import ListNotations.
Open Scope Z_scope.

(* ================================================================= reading the body *)
Fixpoint nodupb (l : list bytes) : bool :=
  match l with [] => true | x :: r => negb (memb x r) && nodupb r end.
Definition wfmb (m : masset) : bool := nodupb (keys m) && forallb (fun kv => nodupb (keys (snd kv))) m.

Definition rd_asset (x : cbor) : option asset :=
  match x with
  | CM kvs => fold_right (fun kv acc => match acc, fst kv, as_int (snd kv) with
                                        | Some l, CB n, Some q => Some ((n, q) :: l)
                                        | _, _, _ => None end) (Some []) kvs
  | _ => None
  end.
Definition rd_masset (x : cbor) : option masset :=
  match x with
  | CM kvs =>
      match fold_right (fun kv acc => match acc, fst kv, rd_asset (snd kv) with
                                      | Some l, CB p, Some a => Some ((p, a) :: l)
                                      | _, _, _ => None end) (Some []) kvs with
      | Some m => if wfmb m then Some m else None
      | None => None
      end
  | _ => None
  end.
Definition rd_value (x : cbor) : option value :=
  match as_int x with
  | Some c => Some (mkValue c [])
  | None => match x with
            | CA [c; m] => match as_int c, rd_masset m with
                           | Some cz, Some ma => Some (mkValue cz ma)
                           | _, _ => None end
            | _ => None
            end
  end.

Fixpoint mlook (k : N) (kvs : list (cbor * cbor)) : option cbor :=
  match kvs with
  | [] => None
  | (CU k', v) :: r => if (k =? k')%N then Some v else mlook k r
  | _ :: r => mlook k r
  end.

Definition items (x : cbor) : option (list cbor) :=
  match x with
  | CA l | CAi l | CTag 258 (CA l) | CTag 258 (CAi l) => Some l
  | _ => None
  end.

Fixpoint all_some {A} (l : list (option A)) : option (list A) :=
  match l with
  | [] => Some []
  | Some x :: r => match all_some r with Some xs => Some (x :: xs) | None => None end
  | None :: _ => None
  end.

Definition rd_input (x : cbor) : option (bytes * N) :=
  match x with CA [CB t; CU i] => Some (t, i) | _ => None end.
Definition rd_output (x : cbor) : option (bytes * value) :=
  match x with
  | CA (CB a :: amt :: _) => match rd_value amt with Some v => Some (a, v) | None => None end
  | CM kvs => match mlook 0 kvs, mlook 1 kvs with
              | Some (CB a), Some amt => match rd_value amt with Some v => Some (a, v) | None => None end
              | _, _ => None end
  | _ => None
  end.
Definition rd_cert (x : cbor) : option cert :=
  match x with
  | CA (CU 0 :: _) => Some StakeReg
  | CA (CU 1 :: _) => Some StakeDereg
  | CA (CU 2 :: _) => Some StakeDeleg
  | CA (CU 3 :: CB op :: _) => Some (PoolReg op)
  | CA (CU 4 :: _) => Some PoolRetire
  | CA [CU 7; _; c] => option_map RegConway (as_int c)
  | CA [CU 8; _; c] => option_map UnregConway (as_int c)
  | CA (CU 9 :: _) => Some VoteDeleg
  | CA (CU 10 :: _) => Some StakeVoteDeleg
  | CA [CU 11; _; _; c] => option_map RegDeleg (as_int c)
  | CA [CU 12; _; _; c] => option_map RegVoteDeleg (as_int c)
  | CA [CU 13; _; _; _; c] => option_map RegDelegVoteDeleg (as_int c)
  | CA (CU 14 :: _) => Some AuthHot
  | CA (CU 15 :: _) => Some ResignCold
  | CA [CU 16; _; c; _] => option_map RegDRep (as_int c)
  | CA [CU 17; _; c] => option_map UnregDRep (as_int c)
  | CA (CU 18 :: _) => Some UpdateDRep
  | _ => None
  end.
Definition rd_proposal (x : cbor) : option Z :=
  match x with CA (d :: _) => as_int d | _ => None end.

Definition opt_list {A} (rd : cbor -> option A) (field : option cbor) : option (list A) :=
  match field with
  | None => Some []
  | Some x => match items x with Some l => all_some (map rd l) | None => None end
  end.

Record body_view := mkBV {
  bv_inputs : list (bytes * N); bv_outs : list (bytes * value); bv_fee : Z; bv_certs : list cert;
  bv_wdrl : list Z; bv_mint : masset; bv_props : list Z; bv_donation : Z }.

Definition view_body (x : cbor) : option body_view :=
  match x with
  | CM kvs =>
      match opt_list rd_input (mlook 0 kvs), opt_list rd_output (mlook 1 kvs),
            match mlook 2 kvs with Some f => as_int f | None => None end,
            opt_list rd_cert (mlook 4 kvs),
            match mlook 5 kvs with
            | None => Some []
            | Some (CM w) => all_some (map (fun kv => as_int (snd kv)) w)
            | Some _ => None end,
            match mlook 9 kvs with None => Some [] | Some m => rd_masset m end,
            opt_list rd_proposal (mlook 20 kvs),
            match mlook 22 kvs with None => Some 0 | Some d => as_int d end with
      | Some i, Some o, Some f, Some c, Some w, Some m, Some p, Some d => Some (mkBV i o f c w m p d)
      | _, _, _, _, _, _, _, _ => None
      end
  | _ => None
  end.

(* the property's decision procedure on the implementation's output: the body bytes, the ledger
   parameters and the UTxO map of the scenario.  Inputs are a set. *)
Definition c06_oracle (kd pd : Z) (pools_new : bool) (umap : list utxo) (body : bytes) : bool :=
  match decode body with
  | Some x =>
      match view_body x with
      | Some bv =>
          match resolve_all umap (dedup_txins (bv_inputs bv)) with
          | Some vals =>
              balanced (mkParams kd pd (fun _ => negb pools_new)) vals (bv_mint bv) (bv_wdrl bv) (bv_certs bv)
                       (bv_props bv) (bv_donation bv) (map snd (bv_outs bv)) (bv_fee bv)
          | None => false
          end
      | None => false
      end
  | None => false
  end.

(* ================================================================= comparisons model = implementation *)
Definition value_same (a b : value) : bool := (coin a =? coin b) && masset_same (massets a) (massets b).
Fixpoint list_same {A B} (eq : A -> B -> bool) (a : list A) (b : list B) : bool :=
  match a, b with
  | [], [] => true
  | x :: r, y :: s => eq x y && list_same eq r s
  | _, _ => false
  end.

Definition cert_eqb (a b : cert) : bool :=
  match a, b with
  | StakeReg, StakeReg | StakeDereg, StakeDereg | StakeDeleg, StakeDeleg | PoolRetire, PoolRetire
  | VoteDeleg, VoteDeleg | StakeVoteDeleg, StakeVoteDeleg | AuthHot, AuthHot | ResignCold, ResignCold
  | UpdateDRep, UpdateDRep => true
  | PoolReg x, PoolReg y => bytes_eqb x y
  | RegConway x, RegConway y | UnregConway x, UnregConway y | RegDeleg x, RegDeleg y
  | RegVoteDeleg x, RegVoteDeleg y | RegDelegVoteDeleg x, RegDelegVoteDeleg y
  | RegDRep x, RegDRep y | UnregDRep x, UnregDRep y => x =? y
  | _, _ => false
  end.

(* implementation results: Ok payload | Err kind, kind 1 = InvalidTransactionException,
   2 = InsufficientUTxOBalanceException, 0 = anything else *)
Inductive ires (A : Type) := IOk (x : A) | IErr (k : N).
Arguments IOk {A}. Arguments IErr {A}.
Definition err_code (e : cc_err) : N := match e with ErrInvalidTx => 1%N | ErrInsufficient => 2%N end.

(* scenario context for the concrete size functions *)
Record sctx := mkS { s_cpb : Z; s_mvs : Z; s_addr : bytes (* change address *) }.
Definition s_minada (s : sctx) : value -> Z := minada_c (s_cpb s) (s_addr s).
Definition s_pack (s : sctx) : value -> option (list masset) := pack_c (s_cpb s) (s_addr s) (s_mvs s).

Definition corr_deposits (st : bstate) (impl_kd impl_pd : Z) : bool :=
  (total_key_deposit (b_kd st) (b_pd st) (b_initial st) (b_certs st) =? impl_kd)
  && (total_proposal_deposit (b_props st) =? impl_pd).

Definition corr_calc (s : sctx) (st : bstate) (respect : bool) (fee : Z) (ins outs : list value)
           (impl : ires (list value)) : bool :=
  match calc_change (s_minada s) (s_pack s) st respect fee ins outs, impl with
  | inr chs, IOk l => list_same value_same chs l
  | inl e, IErr k => (err_code e =? k)%N
  | _, _ => false
  end.

Definition corr_pack (s : sctx) (v : value) (impl : ires (list masset)) : bool :=
  match s_pack s v, impl with
  | Some arr, IOk l => list_same masset_same arr l
  | None, IErr k => (k =? 1)%N
  | _, _ => false
  end.

(* min_lovelace_post_alonzo and len (Value.to_cbor ()) as observed on the implementation *)
Definition corr_probe (s : sctx) (v : value) (impl_minada impl_len : Z) : bool :=
  (s_minada s v =? impl_minada) && (Z.of_N (lenN (value_cbor v)) =? impl_len).

(* accounting before selection: what the selectors were asked for (None = they were not called) *)
Definition corr_presel (s : sctx) (st : bstate) (explicit : list utxo) (outs : list value) (fee0 : Z)
           (top_up : bool) (impl_request : option value) : bool :=
  let u := unfulfilled (s_minada s) top_up (selected_amount st explicit) (requested_amount st outs fee0) in
  match impl_request with
  | Some r => needs_selection u && value_same u r
  | None => negb (needs_selection u)
  end.

(* the change / fee phase: self.inputs after selection, the two fee estimates the implementation computed;
   result: the outputs (address, amount) and fee of the returned body, or the exception kind *)
Definition out_same (ca : bytes) (o : output) (io : bytes * value) : bool :=
  Bool.eqb (fst o) (bytes_eqb (fst io) ca) && value_same (snd o) (snd io).
Definition corr_acf (s : sctx) (st : bstate) (merge : bool) (ins : list value) (outs : list (bytes * value))
           (fee1 fee2 : Z) (impl : ires (list (bytes * value) * Z)) : bool :=
  let mouts := map (fun o => (bytes_eqb (fst o) (s_addr s), snd o)) outs in
  match acf_with (s_minada s) (s_pack s) st merge ins mouts fee1 fee2, impl with
  | inr (outs', fee'), IOk (iouts, ifee) => list_same (out_same (s_addr s)) outs' iouts && (fee' =? ifee)
  | inl e, IErr k => (err_code e =? k)%N
  | _, _ => false
  end.
(* only the first pass ran (it raised) *)
Definition corr_acf1 (s : sctx) (st : bstate) (merge : bool) (ins : list value) (outs : list (bytes * value))
           (fee1 : Z) (k : N) : bool :=
  let mouts := map (fun o => (bytes_eqb (fst o) (s_addr s), snd o)) outs in
  let idx := if merge then find_idx 0 None mouts else None in
  match acf_pass (s_minada s) (s_pack s) st merge idx fee1 ins mouts with
  | inl e => (err_code e =? k)%N
  | inr _ => false
  end.

(* the body the implementation returned says what the scenario says (ties the scenario literals used on the
   Coq side to the objects the driver built) and spends exactly self.inputs *)
Definition same_set (a b : list (bytes * N)) : bool :=
  forallb (fun x => existsb (txin_eqb x) b) a && forallb (fun x => existsb (txin_eqb x) a) b.
Fixpoint zremove (x : Z) (l : list Z) : option (list Z) :=
  match l with
  | [] => None
  | y :: r => if x =? y then Some r else option_map (cons y) (zremove x r)
  end.
Fixpoint zperm (a b : list Z) : bool :=
  match a with
  | [] => is_nil b
  | x :: r => match zremove x b with Some b' => zperm r b' | None => false end
  end.
Definition corr_body (st : bstate) (ins : list utxo) (body : bytes) : bool :=
  match decode body with
  | Some x => match view_body x with
              | Some bv =>
                  list_same cert_eqb (bv_certs bv) (b_certs st)
                  && zperm (bv_wdrl bv) (b_wdrl st) && list_same Z.eqb (bv_props bv) (b_props st)
                  && (bv_donation bv =? b_donation st) && m_eq (bv_mint bv) (b_mint st)
                  && same_set (bv_inputs bv) (map u_in ins)
                  && Nat.eqb (length (bv_inputs bv)) (length ins)
              | None => false end
  | None => false
  end.

(* self.inputs after selection = explicit inputs (duplicates once) + what the selector answered *)
Definition corr_sel (explicit : list utxo) (selected : list (bytes * N)) (ins : list utxo) : bool :=
  same_set (map u_in ins) (map u_in (dedup_utxos explicit) ++ selected)
  && Nat.eqb (length ins) (length (dedup_utxos explicit) + length selected).

(* the UTxO selection step (BalanceSel.v).  The pool handed to the selectors, as recorded from the implementation, is the
   modelled one (same UTxOs, same order) ... *)
Definition corr_pool (umap explicit excluded potential : list utxo) (addrs : list bytes) (impl_pool : list (bytes * N)) : bool :=
  list_same txin_eqb (map u_in (offered_pool explicit excluded (candidates umap potential addrs))) impl_pool.
(* ... the selector's answer is within the contract the balance theorem needs (members of that pool, none twice) ... *)
Definition corr_selok (umap explicit excluded potential : list utxo) (addrs : list bytes) (sel : list (bytes * N)) : bool :=
  selection_ok (offered_pool explicit excluded (candidates umap potential addrs)) sel.
(* ... and self.inputs is what the model says it is after that answer *)
Definition corr_sel_model (umap explicit excluded potential : list utxo) (addrs : list bytes) (sel : list (bytes * N))
           (ins : list utxo) : bool :=
  let m := inputs_after_selection explicit (offered_pool explicit excluded (candidates umap potential addrs)) sel in
  same_set (map u_in ins) (map u_in m) && Nat.eqb (length ins) (length m).

(* decision procedure for `covers` (only the asset ids that occur matter) *)
Definition coversb (arr : list masset) (m : masset) : bool :=
  forallb (fun pn => sum_content arr (fst pn) (snd pn) =? content m (fst pn) (snd pn))
          (flat_map asset_ids (m :: arr)).

(* slice oracle: the change outputs _calc_change returned balance the slice's inputs and outputs *)
Definition calc_oracle (st : bstate) (fee : Z) (ins outs : list value) (impl : ires (list value)) : bool :=
  match impl with
  | IOk chs => balanced (ledger_params st) ins (b_mint st) (b_wdrl st) (b_certs st) (b_props st) (b_donation st)
                        (outs ++ chs) fee
  | IErr _ => true
  end.
Definition pack_oracle (v : value) (impl : ires (list masset)) : bool :=
  match impl with IOk arr => negb (is_nil arr) && coversb arr (massets v) | IErr _ => true end.

Definition first_false (l : list bool) : nat :=
  (fix go (i : nat) (l : list bool) := match l with [] => 0%nat | b :: r => if b then go (S i) r else S i end) 0%nat l.

Definition pick {A} (l : list A) (idx : list nat) : list A :=
  flat_map (fun i => match nth_error l i with Some x => [x] | None => [] end) idx.
