(* BalanceSelProofs.v — C06: proofs about BalanceSel.v.  Whatever the selectors answer within their contract
   (members of the offered pool, none twice), self.inputs after selection has pairwise distinct transaction inputs,
   all known to the chain — the premise of BalanceProofs.build_tail_balanced — so the built body is balanced. *)
From Coq Require Import NArith ZArith Ascii String List Bool Lia Permutation.
From PyC Require Import Base Cbor Dict Value ValueProofs Balance BalanceProofs BalanceSel.
Import ListNotations.
Open Scope Z_scope.

Lemma utxo_eqb_in a b : utxo_eqb a b = true -> u_in a = u_in b.
Proof.
  unfold utxo_eqb. rewrite !andb_true_iff. intros [[H _] _]. now apply txin_eqb_eq.
Qed.

Lemma utxo_eqb_refl a : utxo_eqb a a = true.
Proof.
  unfold utxo_eqb. rewrite !andb_true_iff. repeat split.
  - now apply txin_eqb_eq.
  - apply bytes_eqb_refl.
  - apply v_eq_spec. split; reflexivity.
Qed.

Lemma umem_app u a b : umem u (a ++ b) = umem u a || umem u b.
Proof. unfold umem. apply existsb_app. Qed.

(* what is offered: a candidate that was not seen before (in particular not an explicit input) and is not excluded *)
Lemma offer_spec excluded cands : forall seen pool p,
  In p (offer excluded cands seen pool) ->
  In p pool \/ (In p cands /\ umem p seen = false /\ umem p excluded = false).
Proof.
  induction cands as [|u r IH]; intros seen pool p H; cbn [offer] in H; [now left|].
  destruct (umem u seen || umem u excluded) eqn:E.
  - destruct (IH _ _ _ H) as [X|(X & Y & Z)]; [now left | right; repeat split; auto; now right].
  - apply orb_false_iff in E as [E1 E2].
    destruct (IH _ _ _ H) as [X|(X & Y & Z)].
    + apply in_app_or in X as [X|[X|[]]]; [now left|]. subst p. right. repeat split; auto. now left.
    + right. rewrite umem_app in Y. apply orb_false_iff in Y as [Y _]. repeat split; auto. now right.
Qed.

(* the pool never offers the same transaction input twice *)
Lemma offer_nodup excluded cands : forall seen pool,
  consistent (seen ++ cands) -> (forall p, In p pool -> In p seen) ->
  NoDup (map u_in pool) -> NoDup (map u_in (offer excluded cands seen pool)).
Proof.
  induction cands as [|u r IH]; intros seen pool C S N; cbn [offer]; [exact N|].
  destruct (umem u seen || umem u excluded) eqn:E.
  - apply IH; [|exact S|exact N]. intros a b Ha Hb. apply C.
    + apply in_app_or in Ha as [Ha|Ha]; apply in_or_app; [now left | right; now right].
    + apply in_app_or in Hb as [Hb|Hb]; apply in_or_app; [now left | right; now right].
  - apply orb_false_iff in E as [E1 _]. apply IH.
    + rewrite <- app_assoc. exact C.
    + intros p Hp. apply in_or_app. apply in_app_or in Hp as [Hp|Hp]; [left; now apply S | now right].
    + rewrite map_app. cbn [map]. apply NoDup_app_one; [exact N|].
      intros Hin. apply in_map_iff in Hin as (y & Ey & Hy).
      assert (X : utxo_eqb u y = true).
      { apply C; [apply in_or_app; left; now apply S | apply in_or_app; right; now left | exact Ey]. }
      assert (F : umem u seen = true) by (apply existsb_exists; exists y; split; [now apply S | exact X]).
      congruence.
Qed.

Lemma nodup_in_spec l : nodup_in l = true -> NoDup l.
Proof.
  induction l as [|x r IH]; cbn [nodup_in]; intros H; [constructor|].
  apply andb_true_iff in H as [H1 H2]. constructor; [|now apply IH].
  intros Hin. apply negb_true_iff in H1.
  assert (existsb (txin_eqb x) r = true) by (apply existsb_exists; exists x; split; [exact Hin | now apply txin_eqb_eq]).
  congruence.
Qed.

Lemma pick_by_in_spec pool : forall sel, forallb (has_in pool) sel = true ->
  map u_in (pick_by_in pool sel) = sel /\ (forall u, In u (pick_by_in pool sel) -> In u pool).
Proof.
  induction sel as [|i r IH]; intros H; [split; [reflexivity | intros u []]|].
  cbn [forallb] in H. apply andb_true_iff in H as [H1 H2]. destruct (IH H2) as [I1 I2].
  unfold pick_by_in in *. cbn [flat_map].
  destruct (find (fun u => txin_eqb (u_in u) i) pool) as [u|] eqn:F.
  - apply find_some in F as [Fi Fe]. apply txin_eqb_eq in Fe. split.
    + cbn [app map]. now rewrite Fe, I1.
    + intros u' [->|Hu]; [exact Fi | now apply I2].
  - exfalso. unfold has_in in H1. apply existsb_exists in H1 as (u & Hu & Eu).
    pose proof (find_none _ _ F u Hu) as X. cbn in X. congruence.
Qed.

Lemma consistent_app_l a b : consistent (a ++ b) -> consistent a.
Proof. intros C x y Hx Hy. apply C; apply in_or_app; now left. Qed.

Lemma dedup_utxos_incl l u : In u (dedup_utxos l) -> In u l.
Proof. intros H. destruct (dedup_utxos_spec l []) as [I _]. destruct (I u H) as [[]|X]; exact X. Qed.

Lemma NoDup_app_disj {A} (a b : list A) : NoDup a -> NoDup b -> (forall x, In x a -> ~ In x b) -> NoDup (a ++ b).
Proof.
  induction a as [|x a IH]; intros Na Nb D; [exact Nb|]. cbn. inversion Na as [|? ? Hx Ha]; subst. constructor.
  - intros X. apply in_app_or in X as [X|X]; [contradiction | apply (D x); [now left | exact X]].
  - apply IH; [exact Ha | exact Nb | intros y Hy; apply D; now right].
Qed.

(* self.inputs after selection: pairwise distinct transaction inputs, all of them explicit inputs or candidates,
   for EVERY answer within the contract *)
Theorem selected_inputs_nodup explicit excluded cands sel :
  consistent (explicit ++ cands) ->
  selection_ok (offered_pool explicit excluded cands) sel = true ->
  NoDup (map u_in (inputs_after_selection explicit (offered_pool explicit excluded cands) sel))
  /\ (forall u, In u (inputs_after_selection explicit (offered_pool explicit excluded cands) sel) -> In u (explicit ++ cands)).
Proof.
  intros C H. unfold selection_ok in H. apply andb_true_iff in H as [H1 H2].
  set (pool := offered_pool explicit excluded cands) in *.
  destruct (pick_by_in_spec pool sel H2) as [P1 P2].
  assert (PS : forall p, In p pool -> In p cands /\ umem p (dedup_utxos explicit) = false).
  { intros p Hp. destruct (offer_spec _ _ _ _ _ Hp) as [[]|(X & Y & _)]. now split. }
  unfold inputs_after_selection. split.
  - rewrite map_app. apply NoDup_app_disj.
    + apply dedup_utxos_nodup. now apply consistent_app_l in C.
    + rewrite P1. now apply nodup_in_spec.
    + intros x Hx Hs. apply in_map_iff in Hx as (e & Ee & He). apply in_map_iff in Hs as (q & Eq & Hq).
      destruct (PS q (P2 q Hq)) as [Qc Qn].
      assert (X : utxo_eqb q e = true).
      { apply C; [apply in_or_app; left; now apply dedup_utxos_incl | apply in_or_app; now right | congruence]. }
      assert (F : umem q (dedup_utxos explicit) = true) by (apply existsb_exists; exists e; split; assumption).
      congruence.
  - intros u Hu. apply in_or_app. apply in_app_or in Hu as [Hu|Hu].
    + left. now apply dedup_utxos_incl.
    + right. now apply PS, P2.
Qed.

(* ---- a chain's UTxO map: a transaction input determines the UTxO ---- *)
Lemma nodup_map_inj (m : list utxo) a b : NoDup (map u_in m) -> In a m -> In b m -> u_in a = u_in b -> a = b.
Proof.
  induction m as [|x m IH]; intros N Ha Hb E; [destruct Ha|].
  cbn [map] in N. inversion N as [|? ? Hx Hm]; subst.
  destruct Ha as [->|Ha], Hb as [->|Hb]; [reflexivity | | | now apply IH].
  - exfalso. apply Hx. rewrite E. now apply in_map.
  - exfalso. apply Hx. rewrite <- E. now apply in_map.
Qed.

Lemma incl_consistent (m l : list utxo) : NoDup (map u_in m) -> incl l m -> consistent l.
Proof.
  intros N I a b Ha Hb E. rewrite (nodup_map_inj m a b N (I a Ha) (I b Hb) E). apply utxo_eqb_refl.
Qed.

Lemma resolve_in (m : list utxo) u : NoDup (map u_in m) -> In u m -> resolve m (u_in u) = Some (u_val u).
Proof.
  induction m as [|x m IH]; intros N H; [destruct H|]. cbn [resolve].
  cbn [map] in N. inversion N as [|? ? Hx Hm]; subst.
  destruct (txin_eqb (u_in x) (u_in u)) eqn:E.
  - apply txin_eqb_eq in E. destruct H as [->|H]; [reflexivity|].
    exfalso. apply Hx. rewrite E. now apply in_map.
  - destruct H as [->|H]; [|now apply IH].
    exfalso. assert (txin_eqb (u_in u) (u_in u) = true) by now apply txin_eqb_eq. congruence.
Qed.

(* C06_balanced_selected: build () from the explicit inputs, the potential inputs and the input addresses, for EVERY
   answer of the selectors within their contract: the returned body is balanced against the chain's UTxO map.
   ins = self.inputs in whatever order build () sorts them. *)
Theorem build_selected_balanced ovf minada est st merge umap explicit excluded cands sel ins outs fee0 bins outs' fee' :
  NoDup (map u_in umap) -> Forall wfv (map u_val umap) -> incl (explicit ++ cands) umap ->
  Forall wfv (map snd outs) -> wfm (b_mint st) ->
  selection_ok (offered_pool explicit excluded cands) sel = true ->
  Permutation ins (inputs_after_selection explicit (offered_pool explicit excluded cands) sel) ->
  build_tail minada (pack_model ovf) est st merge ins outs fee0 = inr (bins, outs', fee') ->
  exists vals, resolve_all umap bins = Some vals
    /\ balanced (ledger_params st) vals (b_mint st) (b_wdrl st) (b_certs st) (b_props st) (b_donation st)
                (map snd outs') fee' = true.
Proof.
  intros N W I Wo Wm S P B.
  destruct (selected_inputs_nodup explicit excluded cands sel (incl_consistent umap _ N I) S) as [ND IN].
  assert (IU : forall u, In u ins -> In u umap).
  { intros u Hu. apply I, IN. eapply Permutation_in; [exact P | exact Hu]. }
  apply (build_tail_balanced_pack ovf minada est st merge ins outs fee0 umap bins outs' fee'); [| exact Wo | exact Wm | | | exact B].
  - apply Forall_forall. intros v Hv. apply in_map_iff in Hv as (u & <- & Hu).
    rewrite Forall_forall in W. apply W. apply in_map. now apply IU.
  - eapply Permutation_NoDup; [apply Permutation_sym, Permutation_map; exact P | exact ND].
  - intros u Hu. apply resolve_in; [exact N | now apply IU].
Qed.

(* the candidates build () visits come from the chain when the potential inputs do *)
Lemma candidates_incl umap potential addrs : incl potential umap -> incl (candidates umap potential addrs) umap.
Proof.
  intros I u Hu. unfold candidates in Hu. apply in_app_or in Hu as [Hu|Hu]; [now apply I|].
  apply in_flat_map in Hu as (a & _ & Ha). unfold utxos_at in Ha. now apply filter_In in Ha as [Ha _].
Qed.

(* ================================================================= examples *)
(* non-vacuity: the chain holds three UTxOs at one address, the first is an explicit input, the address is an input
   address; the pool offers the other two, the selector answers with the second one *)
Definition ex_umap : list utxo := ex_ins ++ [mkU wit_n2 0 wit_addr (mkValue 7000000 [])].
Definition ex_explicit : list utxo := firstn 1 ex_ins.
Definition ex_cands : list utxo := candidates ex_umap [] [wit_addr].
Example build_selected_example :
  map u_in (offered_pool ex_explicit [] ex_cands) = [(wit_n1, 1%N); (wit_n2, 0%N)]
  /\ selection_ok (offered_pool ex_explicit [] ex_cands) [(wit_n1, 1%N)] = true
  /\ inputs_after_selection ex_explicit (offered_pool ex_explicit [] ex_cands) [(wit_n1, 1%N)] = ex_ins
  /\ NoDup (map u_in ex_umap) /\ Forall wfv (map u_val ex_umap) /\ incl (ex_explicit ++ ex_cands) ex_umap.
Proof.
  split; [vm_compute; reflexivity|]. split; [vm_compute; reflexivity|]. split; [vm_compute; reflexivity|].
  split; [|split].
  - apply (nodup_in_spec (map u_in ex_umap)). vm_compute. reflexivity.
  - repeat constructor; cbn; intuition discriminate.
  - apply incl_app; [intros u [<-|[]]; now left | apply candidates_incl; intros u []].
Qed.

(* sharpness: an answer that names a member of the pool twice is outside the contract, and the body build () then
   returns (the UTxO is counted twice by _calc_change, but spent once) is NOT balanced — outputs + fee exceed the
   inputs by the ADA and the tokens of that UTxO *)
Example selection_contract_needed :
  let pool := offered_pool ex_explicit [] ex_cands in
  let sel := [(wit_n1, 1%N); (wit_n1, 1%N)] in
  selection_ok pool sel = false
  /\ exists bins outs' fee' vals,
       build_tail (minada_c 4310 wit_addr) (pack_c 4310 wit_addr 120) ex_est ex_st false
                  (inputs_after_selection ex_explicit pool sel) ex_outs 0 = inr (bins, outs', fee')
       /\ resolve_all ex_umap bins = Some vals
       /\ balanced (ledger_params ex_st) vals (b_mint ex_st) (b_wdrl ex_st) (b_certs ex_st) (b_props ex_st)
                   (b_donation ex_st) (map snd outs') fee' = false
       /\ (sum_coin (map snd outs') + fee' + deposits (ledger_params ex_st) (b_certs ex_st) + Zsum (b_props ex_st) + b_donation ex_st)
          - (sum_coin vals + Zsum (b_wdrl ex_st) + refunds (ledger_params ex_st) (b_certs ex_st)) = 5000000.
Proof.
  cbv zeta. split; [vm_compute; reflexivity|].
  eexists _, _, _, _. split; [vm_compute; reflexivity|]. split; [vm_compute; reflexivity|].
  split; vm_compute; reflexivity.
Qed.

(* build_selected_balanced with the candidates spelled out *)
Theorem build_selected_balanced_chain ovf minada est st merge umap explicit excluded potential addrs sel ins outs fee0 bins outs' fee' :
  NoDup (map u_in umap) -> Forall wfv (map u_val umap) -> incl explicit umap -> incl potential umap ->
  Forall wfv (map snd outs) -> wfm (b_mint st) ->
  selection_ok (offered_pool explicit excluded (candidates umap potential addrs)) sel = true ->
  Permutation ins (inputs_after_selection explicit (offered_pool explicit excluded (candidates umap potential addrs)) sel) ->
  build_tail minada (pack_model ovf) est st merge ins outs fee0 = inr (bins, outs', fee') ->
  exists vals, resolve_all umap bins = Some vals
    /\ balanced (ledger_params st) vals (b_mint st) (b_wdrl st) (b_certs st) (b_props st) (b_donation st)
                (map snd outs') fee' = true.
Proof.
  intros N W Ie Ip.
  apply build_selected_balanced; [exact N | exact W | apply incl_app; [exact Ie | now apply candidates_incl]].
Qed.

Theorem selection_contract_needed_ex :
  exists minada pack est st merge umap explicit pool sel outs bins outs' fee' vals,
    pool = offered_pool explicit [] (candidates umap [] [wit_addr]) /\ NoDup (map u_in umap) /\ incl explicit umap
    /\ forallb (has_in pool) sel = true /\ selection_ok pool sel = false
    /\ build_tail minada pack est st merge (inputs_after_selection explicit pool sel) outs 0 = inr (bins, outs', fee')
    /\ resolve_all umap bins = Some vals
    /\ balanced (ledger_params st) vals (b_mint st) (b_wdrl st) (b_certs st) (b_props st) (b_donation st)
                (map snd outs') fee' = false.
Proof.
  destruct selection_contract_needed as (S & bins & outs' & fee' & vals & B & R & X & _).
  exists (minada_c 4310 wit_addr), (pack_c 4310 wit_addr 120), ex_est, ex_st, false, ex_umap, ex_explicit,
         (offered_pool ex_explicit [] ex_cands), [(wit_n1, 1%N); (wit_n1, 1%N)], ex_outs, bins, outs', fee', vals.
  destruct build_selected_example as (_ & _ & _ & N & _ & I).
  split; [reflexivity|]. split; [exact N|]. split; [intros u Hu; apply I; apply in_or_app; now left|].
  split; [vm_compute; reflexivity|]. split; [exact S|]. split; [exact B|]. split; [exact R | exact X].
Qed.

(* ================================================================= liveness across the selection step *)
(* What the selection must hand over for build () not to refuse: the inputs after selection have to exceed the outputs
   by the largest fee the estimator returns for the transaction WITH the selected inputs (and with the change output)
   plus the largest minimum ADA of the change — acf_live carried over to build_tail. *)
Theorem live_after_selection minada pack est st merge explicit pool sel (outs : list output) fee0 maxfee minc :
  ada_only (map u_val (inputs_after_selection explicit pool sel)) -> ada_only (map snd outs) -> b_mint st = [] ->
  (forall o f, est o f <= maxfee) -> (forall c, minada (mkValue c []) <= minc) -> 0 < minc ->
  coin (provided st (map u_val (inputs_after_selection explicit pool sel))) >= sum_coin (map snd outs) + maxfee + minc ->
  exists r, build_tail minada pack est st merge (inputs_after_selection explicit pool sel) outs fee0 = inr r.
Proof.
  intros Ai Ao Hm He Hmin Hpos Hc. unfold build_tail.
  destruct (acf_live minada pack est st merge _ outs fee0 maxfee minc Ai Ao Hm He Hmin Hpos Hc) as [o' [f' E]].
  rewrite E. eauto.
Qed.

(* The request build () hands to the selectors contains the fee estimated BEFORE the selected inputs were added.  A
   selector that honours that request to the letter — covering outputs + that fee and leaving its change the minimum ADA,
   which is all UTxOSelector.select (respect_min_utxo) promises and exactly what the largest-first strategy returns — does
   NOT guarantee a transaction: the fee of the transaction with the input just added (and with the change output) is
   larger, and the change falls below its minimum.  Witness (the real run is corpus/C06.json `live-lf-base`): a wallet of
   11.234567 + 10 + 9.999 ADA at one base address, one output of 10.089136 ADA; fee before selection 159033, largest-first
   answers with the 11.234567 ADA UTxO (change 986398 >= 978370); the fee becomes 165281, then 168141 with the change
   output; change 977290 < 978370: InsufficientUTxOBalanceException although 20 ADA are left in the wallet. *)
Definition lv_addr : bytes :=
  hx "003333333333333333333333333333333333333333333333333333333344444444444444444444444444444444444444444444444444444444".
Definition lv_tx : bytes := hx "eaeaeaeaeaeaeaeaeaeaeaeaeaeaeaeaeaeaeaeaeaeaeaeaeaeaeaeaeaeaeaea".
Definition lv_pool : list utxo :=
  [mkU lv_tx 10 lv_addr (mkValue 11234567 []); mkU lv_tx 8 lv_addr (mkValue 10000000 []); mkU lv_tx 34 lv_addr (mkValue 9999000 [])].
Definition lv_outs : list output := [(true, mkValue 10089136 [])].
Definition lv_st : bstate := mkB [] [] [] false [] 0 2000000 500000000.
Definition lv_est (o : list output) (f : Z) : Z := if Nat.eqb (length o) 1 then 165281 else 168141.
Definition lv_fee0 : Z := 159033.
Definition lv_sel : list (bytes * N) := [(lv_tx, 10%N)].

Theorem live_selection_request_refuted :
  ada_only (map u_val lv_pool) /\ ada_only (map snd lv_outs) /\ b_mint lv_st = []
  (* the answer is within the selector contract and honours the request: outputs + fee estimated before selection,
     and its change has the minimum ADA *)
  /\ selection_ok lv_pool lv_sel = true
  /\ (let got := sum_coin (map u_val (pick_by_in lv_pool lv_sel)) in
      let chg := got - sum_coin (map snd lv_outs) - lv_fee0 in
      0 <= chg /\ minada_c 4310 lv_addr (mkValue chg []) <= chg)
  (* the wallet holds about 20 ADA more than the request, many times the fee and the minimum change *)
  /\ sum_coin (map u_val lv_pool) >= sum_coin (map snd lv_outs) + 20 * 1000000
  (* build () refuses *)
  /\ build_tail (minada_c 4310 lv_addr) (pack_c 4310 lv_addr 5000) lv_est lv_st false
                (inputs_after_selection [] lv_pool lv_sel) lv_outs lv_fee0 = inl ErrInsufficient.
Proof.
  repeat split; try (repeat constructor; reflexivity); try (vm_compute; reflexivity); vm_compute; intros H; discriminate H.
Qed.
