(* FeeSweep2.v — C07: the binary64 tier computation of utils.tiered_reference_script_fee equals the ceiling of the
   exact Conway tier value for EVERY size 0..200000 under the parameters of the test fixture (int 44 / 25600 / float 1.2
   versus 44, 25600, 6/5 as rationals).  Finite domain, checked completely by the kernel's VM (about 25 s). *)
From Coq Require Import ZArith QArith Qround String List Bool Lia.
From Coq Require Import PrimFloat.
From PyC Require Import Base Cbor Fee FeeProofs.
Import ListNotations.
Open Scope Z_scope.

Lemma sweep_fixture : sweep (ref_ctx (ref_max 200000) fixture_ref) fixture_lp 200000 8 = true.
Proof. vm_cast_no_check (eq_refl true). Qed.

Theorem tier_float_fixture : forall c n,
  maximum_reference_scripts_size (protocol_param c) = ref_max 200000 ->
  min_fee_reference_scripts (protocol_param c) = fixture_ref ->
  0 <= n <= 200000 ->
  tiered_model 16 c (VInt n) = VInt (Qceiling (Ledger.tier fixture_lp n)).
Proof.
  intros c n H1 H2 Hn. rewrite tiered_model_ext, H1, H2.
  apply (sweep_sound _ _ 200000 8); [cbn; lia | exact sweep_fixture | exact Hn |].
  cbn. apply Z.div_lt_upper_bound; lia.
Qed.
