(* ScriptHashOracle.v — C12 glue for the cases files:
   (1) byte slices of witness-set entries 5 and 4 and body field 11, cut out of the transaction bytes
       with Cbor.dec (no re-encoding: the slices are the bytes as serialized),
   (2) corr12: the model (ScriptHash.ship on the state after Redeemers.build) against the slices,
   (3) the property's decision procedure: recompute the preimage from the slices and the SPEC language
       views, hash it through the lookup table H, compare with body field 11. *)
From Coq Require Import NArith ZArith Ascii String List Bool Lia.
From Coq Require Import Init.Byte.
From PyC Require Import Base Cbor Value Redeemers RedeemersOracle ScriptHash.
Import ListNotations.
Open Scope N_scope.

(* ---------- slicing ---------- *)
(* entries of a definite-length map at the front of bs: (decoded key, bytes of the value as serialized) *)
Fixpoint map_slices (fuel : nat) (n : N) (bs : bytes) : option (list (cbor * bytes) * bytes) :=
  match fuel with
  | O => None
  | S f =>
      if n =? 0 then Some ([], bs)
      else match dec (S (length bs)) bs with
           | None => None
           | Some (k, ra) =>
               match dec (S (length ra)) ra with
               | None => None
               | Some (_, rb) =>
                   let sl := firstn (length ra - length rb) ra in
                   match map_slices f (n - 1) rb with
                   | None => None
                   | Some (l, r) => Some ((k, sl) :: l, r)
                   end
               end
           end
  end.
Definition map_head (bs : bytes) : option (N * bytes) :=
  match bs with
  | [] => None
  | h :: r => if b2n h / 32 =? 5 then dec_arg (b2n h mod 32) r else None
  end.
Definition slice_of (k : N) (l : list (cbor * bytes)) : option bytes :=
  match find (fun e => match fst e with CU n => n =? k | _ => false end) l with
  | Some e => Some (snd e) | None => None end.

Record slices := mkSlices { sl_rdm : option bytes; sl_dat : option bytes; sl_hash : option bytes }.
(* transaction = array(4) [body map, witness map, bool, aux] *)
Definition tx_slices (tx : bytes) : option slices :=
  match tx with
  | h :: r0 =>
      if negb (b2n h =? 132) then None else
      match map_head r0 with
      | None => None
      | Some (nb, r1) =>
          match map_slices (S (N.to_nat nb)) nb r1 with
          | None => None
          | Some (body, r2) =>
              match map_head r2 with
              | None => None
              | Some (nw, r3) =>
                  match map_slices (S (N.to_nat nw)) nw r3 with
                  | None => None
                  | Some (wits, _) =>
                      match slice_of 11 body with
                      | None => Some (mkSlices (slice_of 5 wits) (slice_of 4 wits) None)
                      | Some hb =>
                          match decode hb with
                          | Some (CB d) => Some (mkSlices (slice_of 5 wits) (slice_of 4 wits) (Some d))
                          | _ => None
                          end
                      end
                  end
              end
          end
      end
  | [] => None
  end.

(* ---------- H as a lookup table ---------- *)
Definition htab := list (bytes * bytes).
Definition hfind (t : htab) (x : bytes) : option bytes :=
  match find (fun e => bytes_eqb (fst e) x) t with Some e => Some (snd e) | None => None end.
(* total version for the model: a preimage missing from the table hashes to a value no digest equals *)
Definition hfun (t : htab) (x : bytes) : bytes := match hfind t x with Some d => d | None => [] end.

Record case12 := mkCase12 {
  k_case : case;                 (* the C11 case: native, ops, args, pool, script table *)
  k_usemap : bool;
  k_cm : costmodels
}.

Definition obytes_eq (a b : option bytes) : bool :=
  match a, b with Some x, Some y => bytes_eqb x y | None, None => true | _, _ => false end.

Definition final_state (c : case) (tx : bytes) : option bstate :=
  match run_idx (init_state (c_native c)) (c_ops c) O, observe tx with
  | inl st, Some o =>
      let pre := dedup utxo_eqb (b_inputs st) in
      let extra := filter (fun u => negb (mem utxo_eqb u pre)) (resolve_all (c_pool c) (o_inputs o)) in
      match build st (with_extra (c_args c) extra true) with Ok t => Some (t_state t) | Err _ => None end
  | _, _ => None
  end.

(* model = implementation: the shipped redeemer bytes, datum bytes and hash *)
Definition corr12 (H : htab) (dflt : bytes) (k : case12) (r : implres) : bool :=
  match r with
  | IDone tx _ _ =>
      match final_state (k_case k) tx, tx_slices tx with
      | Some st, Some sl =>
          let s := ship (hfun H) dflt (k_cm k) (k_usemap k) st in
          obytes_eq (w_rdm s) (sl_rdm sl) && obytes_eq (w_dat s) (sl_dat sl) && obytes_eq (b_hash s) (sl_hash sl)
      | _, _ => false
      end
  | _ => true                      (* nothing shipped: covered by the C11 correspondence *)
  end.

(* ---------- decision procedure ---------- *)
Fixpoint hash_injb (l : list script) : bool :=
  match l with
  | [] => true
  | s :: r => forallb (fun s' => negb (bytes_eqb (s_hash s) (s_hash s')) || script_eqb s s') r && hash_injb r
  end.
Definition sound12b (native : list script) (ops : list bop) : bool :=
  forallb sound_op ops && forallb (fun s => negb (is_plutus s)) native && hash_injb (used_scripts native ops).

(* 0 holds, 1 fails, 2 outside the premise (calls the ledger would reject anyway), 3 preimage missing from the H table,
   4 transaction bytes not understood *)
Definition oracle12 (H : htab) (k : case12) (r : implres) : N :=
  match r with
  | IDone tx _ _ =>
      let c := k_case k in
      if negb (sound12b (c_native c) (c_ops c)) then 2 else
      match tx_slices tx with
      | None => 4
      | Some sl =>
          match sl_rdm sl, sl_dat sl with
          | None, None => match sl_hash sl with None => 0 | Some _ => 1 end
          | _, _ =>
              let f5 := match sl_rdm sl with Some b => b | None => enc (CM []) end in
              let f4 := match sl_dat sl with Some b => b | None => [] end in
              let pre := integrity_preimage f5 f4 (language_views (k_cm k) (langs_used (c_native c) (c_ops c))) in
              match hfind H pre with
              | None => 3
              | Some d => match sl_hash sl with Some d' => if bytes_eqb d d' then 0 else 1 | None => 1 end
              end
          end
      end
  | _ => 0
  end.

Definition judge12 (H : htab) (dflt : bytes) (k : case12) (r : implres) : bool * N :=
  (corr12 H dflt k r, oracle12 H k r).
