(* AdaptersSeqOracle.v — the adapter state machine of AdaptersSeq.v instantiated with the real render/parse models of
   Adapters.v, its per-service configuration, the theorem composed with adapters_faithful, and the glue / decision
   procedure for the sequence cases files of C20. *)
From Coq Require Import Uint63.
From Coq Require Import NArith ZArith Ascii String List Bool Lia.
From Coq Require Import Init.Byte.
From PyC Require Import Base Cbor Dict Value Json Adapters AdaptersProofs AdaptersOracle AdaptersSeq AdaptersSeqProofs.
Import ListNotations.
Open Scope string_scope.
Open Scope list_scope.

(* how each adapter is built (ticks of 1/1024 s): Ogmios v5/v6 and cardano-cli memoise `last_block_slot` for 1 s and
   cache by (slot, address); Kupo caches by (slot, address) with the tip of the wrapped backend (read live in the
   harness); Blockfrost asks the service on every call *)
Definition svc_cfg (x : svc) (interval : N) (max : N) : cfg :=
  match x with
  | Blockfrost => mkCfg false 0 interval max PollNone
  | OgmiosV5 | OgmiosV6 => mkCfg true 1024 interval max PollMemo
  | Cli => mkCfg true 1024 interval max PollDirect
  | Kupo => mkCfg true 0 interval max PollNone
  end.

Definition is_ok {X} (r : result X) : bool := match r with Ok _ => true | Err _ => false end.

(* ================================================================ theorem level: ledger = address -> UTxO models *)
Section Composed.
  Variable H : bytes -> bytes.
  Variable x : svc.
  Definition uledger := string -> list utxo_model.
  Definition ufetch (w : uledger) (a : string) : result (list autxo) := parse H x a (render x a (w a)).

  Definition blocks {W} (ops : list (op W)) : list W :=
    flat_map (fun o => match o with OBlock _ w => [w] | _ => [] end) ops.

  Lemma timeline_ledgers {W} : forall (ops : list (op W)) (q p : point W), In p (timeline W ops q) ->
    p_w W p = p_w W q \/ In (p_w W p) (blocks ops).
  Proof.
    induction ops as [|o ops IH]; intros q p Hp; [contradiction|]. cbn [timeline] in Hp.
    destruct Hp as [<-|Hp].
    - destruct o; cbn; auto.
    - apply IH in Hp as [Hp|Hp].
      + destruct o; cbn in *; auto.
      + right. unfold blocks. cbn [flat_map]. apply in_or_app. now right.
  Qed.

  Theorem seq_adapters_faithful (c : cfg) ops now sl (w : uledger) :
    increasing sl ops ->
    (forall w', In w' (w :: blocks ops) -> forall a, Forall (wf_utxo H x) (w' a) /\ aux_ok x a (w' a)) ->
    forall pre e post a r,
      run uledger _ ufetch is_ok c ops (init now sl w) = pre ++ e :: post -> ev_obs e = OAnswer a r ->
      exists e', (e' = e \/ In e' pre /\ (ev_time e < ev_time e' + c_memo_ttl c)%N) /\
                 exists outs, r = Ok outs /\ Forall2 (faithful x a) (ev_w e' a) outs.
  Proof.
    intros Hinc Hwf pre e post a r Erun Eobs.
    assert (Hled : forall e', In e' (pre ++ [e]) -> In (ev_w e') (w :: blocks ops)).
    { intros e' Hin. pose proof (run_timeline _ _ ufetch is_ok c ops (init now sl w)) as Ht.
      assert (Hp : In (evpt uledger (result (list autxo)) e') (timeline uledger ops (pt uledger (result (list autxo)) (init now sl w)))).
      { rewrite <- Ht, Erun. apply in_map. apply in_app_or in Hin as [Hin|[<-|[]]]; apply in_or_app; [now left | right; now left]. }
      apply timeline_ledgers in Hp as [Hp|Hp]; [left; symmetry; exact Hp | right; exact Hp]. }
    destruct (run_fresh _ _ ufetch is_ok c ops now sl w Hinc pre e post a r Erun Eobs) as [Hr|(e' & Hin & Hlt & Hr)].
    - exists e. split; [now left|].
      destruct (Hwf _ (Hled e (in_last _ _)) a) as [W1 W2].
      destruct (adapters_faithful H x a _ W1 W2) as (outs & Ep & Hf). exists outs. split; [|exact Hf].
      rewrite Hr. exact Ep.
    - exists e'. split; [right; now split|].
      destruct (Hwf _ (Hled e' (in_or_app _ _ _ (or_introl Hin))) a) as [W1 W2].
      destruct (adapters_faithful H x a _ W1 W2) as (outs & Ep & Hf). exists outs. split; [|exact Hf].
      rewrite Hr. exact Ep.
  Qed.
End Composed.

(* the statement is tight: with a memo (Ogmios / cardano-cli) an answer can be that of a ledger state replaced less than
   1 s ago; without one (Kupo over a live tip) or without a cache (Blockfrost) it cannot *)
Example stale_within_memo :
  let ops := [OQuery "a"; OBlock 2%N 7%N; OTick 512%N; OQuery "a"; OTick 512%N; OQuery "a"] in
  map (@ev_obs N N) (run N N (fun w _ => w) (fun _ => true) (svc_cfg OgmiosV6 1024000 10) ops (init 0%N 1%N 5%N)) =
    [OAnswer "a" 5%N; ONone; ONone; OAnswer "a" 5%N; ONone; OAnswer "a" 7%N] /\
  map (@ev_obs N N) (run N N (fun w _ => w) (fun _ => true) (svc_cfg Kupo 1024000 10) ops (init 0%N 1%N 5%N)) =
    [OAnswer "a" 5%N; ONone; ONone; OAnswer "a" 7%N; ONone; OAnswer "a" 7%N].
Proof. split; vm_compute; reflexivity. Qed.

(* ================================================================ cases-file level: ledger = address -> response case *)
Definition ledger := list (string * case).
Fixpoint ledger_get (a : string) (w : ledger) : option case :=
  match w with
  | [] => None
  | (a', c) :: r => if String.eqb a' a then Some c else ledger_get a r
  end.
Definition svc_fetch (w : ledger) (a : string) : result (list autxo) :=
  match ledger_get a w with Some c => model_out c | None => Err "NoSuchAddress" end.

Inductive iobs := INone | IAns (r : result (list autxo)) | ISlot (s : N) | IPolled (b : bool).

(* service, refetch interval (ticks), utxo_cache_size, first tip slot, first ledger, operations *)
Definition seqcase := (svc * N * N * N * ledger * list (op ledger))%type.

Definition svc_eqb (a b : svc) : bool :=
  match a, b with
  | Blockfrost, Blockfrost | OgmiosV5, OgmiosV5 | OgmiosV6, OgmiosV6 | Kupo, Kupo | Cli, Cli => true
  | _, _ => false
  end.

Definition ledger_okb (x : svc) (w : ledger) : bool :=
  forallb (fun ac => let '(x', addr, us, _) := snd ac in
                     svc_eqb x x' && String.eqb (fst ac) addr && service_ok (render x addr us)) w.

Definition obs_eqb (o : obs (result (list autxo))) (i : iobs) : bool :=
  match o, i with
  | ONone, INone => true
  | OAnswer _ r, IAns r' => result_eqb r r'
  | OSlot s, ISlot s' => N.eqb s s'
  | OPolled b, IPolled b' => Bool.eqb b b'
  | _, _ => false
  end.

Definition model_obs (sc : seqcase) : list (obs (result (list autxo))) :=
  let '(x, iv, mx, sl, w, ops) := sc in
  map (@ev_obs ledger _) (run ledger _ svc_fetch is_ok (svc_cfg x iv mx) ops (init 0%N sl w)).

(* correspondence: every observation of the run (answers incl. order and exception kinds, tip slots, poll results)
   is what the state machine over parse_X (render_X ..) gives *)
Definition seq_corr (sc : seqcase) (impl : list iobs) : bool :=
  let '(x, iv, mx, sl, w, ops) := sc in
  forallb (ledger_okb x) (w :: blocks ops) && forallb2 obs_eqb (model_obs sc) impl.

(* the property's decision procedure on the adapter's answers: each answer is a faithful report (c20_oracle, i.e.
   faithfulb per UTxO) of a ledger state current now or at an event less than the memo's ttl ago *)
Definition ans_ok (w : ledger) (a : string) (r : result (list autxo)) : bool :=
  match ledger_get a w with Some c => c20_oracle c r | None => false end.
Definition ians (i : iobs) : option (result (list autxo)) := match i with IAns r => Some r | _ => None end.
Definition trace (sl : N) (w : ledger) (ops : list (op ledger)) (impl : list iobs) :=
  combine (combine ops (timeline ledger ops (0%N, sl, w))) (map ians impl).
Definition seq_oracleb (sc : seqcase) (impl : list iobs) : bool :=
  let '(x, iv, mx, sl, w, ops) := sc in
  Nat.eqb (length impl) (length ops) &&
  oracle_go ledger _ ans_ok (c_memo_ttl (svc_cfg x iv mx)) [] (trace sl w ops impl).

Definition faithful_report (w : ledger) (a : string) (r : result (list autxo)) : Prop :=
  exists x addr us ds outs, ledger_get a w = Some (x, addr, us, ds) /\ r = Ok outs /\
    (Forall (fun u => wf_assets (u_assets u)) us -> Forall2 (faithful_any addr) us outs).

Lemma ans_ok_sound w a r : ans_ok w a r = true -> faithful_report w a r.
Proof.
  unfold ans_ok. destruct (ledger_get a w) as [[[[x addr] us] ds]|] eqn:E; [|discriminate]. intros Ho.
  destruct r as [outs|k]; [|discriminate Ho].
  exists x, addr, us, ds, outs. split; [exact E|]. split; [reflexivity|]. intros Hw.
  destruct (c20_oracle_sound x addr us ds (Ok outs) Hw Ho) as (outs' & Eo & Hf). now inversion Eo; subst.
Qed.

(* zipped trace = (operation, world after it, what the adapter returned) *)
Theorem seq_oracle_sound x iv mx sl w ops impl : seq_oracleb (x, iv, mx, sl, w, ops) impl = true ->
  forall l1 a p io l2, trace sl w ops impl = l1 ++ (OQuery a, p, io) :: l2 ->
  exists r, io = Some r /\
    (faithful_report (p_w _ p) a r \/
     exists p', In p' (map (fun t => snd (fst t)) l1) /\
                (p_time _ p < p_time _ p' + c_memo_ttl (svc_cfg x iv mx))%N /\ faithful_report (p_w _ p') a r).
Proof.
  unfold seq_oracleb. intros Ho l1 a p io l2 E. apply andb_true_iff in Ho as [_ Ho].
  destruct (oracle_go_sound _ _ _ _ _ _ Ho _ _ _ _ _ E) as (r & Eio & Hr). exists r. split; [exact Eio|].
  destruct Hr as [Hr|(p' & Hin & Hlt & Hr)].
  - left. now apply ans_ok_sound.
  - right. exists p'. cbn [app] in Hin. split; [exact Hin|]. split; [exact Hlt | now apply ans_ok_sound].
Qed.
