(* Witness.v — C10 "witnesses authorise exactly this transaction": SPECIFICATION and MODEL (no proofs).

   SPEC   Module Ledger: the key hashes whose witnesses a Conway transaction needs (UTXOW rule,
          witsVKeyNeeded + the key leaves of the native scripts that are shipped in the witness set
          or that the transaction needs and finds in the output of a reference input / spent input),
          over an abstract transaction description [txdesc].
   MODEL  pycardano/txbuilder.py (TransactionBuilder): _required_signer_vkey_hashes, _input_vkey_hashes,
          _certificate_vkey_hashes, _vote_vkey_hashes, _withdrawal_vkey_hashes, _native_scripts_vkey_hashes,
          _build_required_vkeys, _witness_count, _build_fake_vkey_witnesses and the witness loop of
          build_and_sign; pycardano/key.py (SigningKey / ExtendedSigningKey: sign, to_verification_key,
          hash, to_non_extended, Key.__eq__); pycardano/witness.py (VerificationKeyWitness.__post_init__);
          pycardano/serialization.py OrderedSet.append (de-duplication by str(item));
          pycardano/crypto/bip32.py BIP32ED25519PrivateKey.sign as byte-level arithmetic over an abstract
          group (Section Ed).
          build(): the two places where the builder itself extends what has to be witnessed — UTxOs taken by coin
          selection from input addresses / potential inputs, and collateral picked by _set_collateral_return when the
          transaction runs Plutus or reference scripts and none was given ([selection], [after_build]); Plutus scripts
          count for is_smart / self.scripts (they have no key leaves).
   Python sets are lists modulo order and repetition (membership is what is compared).
   External primitives (BLAKE2b, SHA-512, NaCl Ed25519, the curve) are Section variables. *)
From Coq Require Import NArith String List Bool.
From Coq Require Import Init.Byte.
From PyC Require Import Base.
Import ListNotations.
Open Scope N_scope.

(* ------------------------------------------------------------------ small helpers *)
Definition memb (h : bytes) (l : list bytes) : bool := existsb (bytes_eqb h) l.

(* len(set(l)) is the length of this *)
Fixpoint dedup (l : list bytes) : list bytes :=
  match l with
  | [] => []
  | x :: r => if memb x r then dedup r else x :: dedup r
  end.

Definition subsetb (a b : list bytes) : bool := forallb (fun x => memb x b) a.
Definition set_eqb (a b : list bytes) : bool := subsetb a b && subsetb b a.

(* ------------------------------------------------------------------ transaction descriptions *)
Inductive cred := KeyH (h : bytes) | ScriptH (h : bytes).
Definition cred_keys (c : cred) : list bytes := match c with KeyH h => [h] | ScriptH _ => [] end.
Definition cred_scripts (c : cred) : list bytes := match c with KeyH _ => [] | ScriptH h => [h] end.

Inductive nscript :=
| NsPubkey (h : bytes)                    (* [0, key hash] *)
| NsAll (l : list nscript)                (* [1, [..]] *)
| NsAny (l : list nscript)                (* [2, [..]] *)
| NsNofK (n : N) (l : list nscript)       (* [3, n, [..]] *)
| NsInvalidBefore (s : N)                 (* [4, slot] *)
| NsInvalidHereafter (s : N).             (* [5, slot] *)

(* the 17 members of pycardano.certificate.Certificate, with the credentials relevant to witnessing *)
Inductive cert :=
| StakeRegistration (c : cred)                                  (* 0  legacy, no deposit field *)
| StakeDeregistration (c : cred)                                (* 1 *)
| StakeDelegation (c : cred)                                    (* 2 *)
| PoolRegistration (operator : bytes) (owners : list bytes)     (* 3 *)
| PoolRetirement (pool : bytes)                                 (* 4 *)
| StakeRegistrationConway (c : cred)                            (* 7 *)
| StakeDeregistrationConway (c : cred)                          (* 8 *)
| VoteDelegation (c : cred)                                     (* 9 *)
| StakeAndVoteDelegation (c : cred)                             (* 10 *)
| StakeRegistrationAndDelegation (c : cred)                     (* 11 *)
| StakeRegistrationAndVoteDelegation (c : cred)                 (* 12 *)
| StakeRegistrationAndDelegationAndVoteDelegation (c : cred)    (* 13 *)
| AuthCommitteeHotCertificate (cold hot : cred)                 (* 14 *)
| ResignCommitteeColdCertificate (cold : cred)                  (* 15 *)
| RegDRepCert (c : cred)                                        (* 16 *)
| UnregDRepCertificate (c : cred)                               (* 17 *)
| UpdateDRepCertificate (c : cred).                             (* 18 *)

Inductive voter :=
| VoterCommitteeHot (c : cred)            (* voter kinds 0 (key) / 1 (script) *)
| VoterDRep (c : cred)                    (* 2 / 3 *)
| VoterPool (h : bytes).                  (* 4 *)

(* what the LEDGER sees of a transaction (body + witness set + the resolved inputs) *)
Record txdesc := mkTx {
  d_inputs : list cred;             (* payment credential of the address of every spent UTxO *)
  d_collateral : list cred;         (* ... of every collateral UTxO *)
  d_required_signers : list bytes;  (* body field 14 *)
  d_native_scripts : list nscript;  (* native scripts shipped in the witness set (key 1) *)
  d_ref_scripts : list nscript;     (* native scripts carried by the outputs of the reference inputs (body field 18) and of
                                       the spent inputs: Babbage/Conway refScripts *)
  d_mint : list bytes;              (* policy ids of body field 9 *)
  d_certs : list cert;              (* body field 4 *)
  d_withdrawals : list cred;        (* credential of every reward account in body field 5 *)
  d_voters : list voter             (* keys of body field 19 *)
}.

(* ------------------------------------------------------------------ SPEC *)
Module Ledger.

  (* every key leaf of a native script, through all / any / n-of-k *)
  Fixpoint ns_leaves (s : nscript) : list bytes :=
    match s with
    | NsPubkey h => [h]
    | NsAll l | NsAny l | NsNofK _ l => flat_map ns_leaves l
    | NsInvalidBefore _ | NsInvalidHereafter _ => []
    end.

  (* Conway getVKeyWitnessConwayTxCert, plus the pool owners added by witsVKeyNeeded *)
  Definition cert_keys (c : cert) : list bytes :=
    match c with
    | StakeRegistration _ => []                          (* legacy registration needs no witness *)
    | StakeDeregistration c | StakeDelegation c
    | StakeRegistrationConway c | StakeDeregistrationConway c | VoteDelegation c
    | StakeAndVoteDelegation c | StakeRegistrationAndDelegation c
    | StakeRegistrationAndVoteDelegation c
    | StakeRegistrationAndDelegationAndVoteDelegation c => cred_keys c
    | PoolRegistration operator owners => operator :: owners
    | PoolRetirement pool => [pool]
    | AuthCommitteeHotCertificate cold _ | ResignCommitteeColdCertificate cold => cred_keys cold
    | RegDRepCert c | UnregDRepCertificate c | UpdateDRepCertificate c => cred_keys c
    end.

  Definition voter_keys (v : voter) : list bytes :=
    match v with
    | VoterCommitteeHot c | VoterDRep c => cred_keys c
    | VoterPool h => [h]
    end.

  (* script hashes the transaction must run (scriptsNeeded): script-locked inputs, minting policies, script
     credentials of certificates (getScriptWitnessConwayTxCert: not the legacy registration, not pool certificates),
     script reward accounts, script voters *)
  Definition cert_scripts (c : cert) : list bytes :=
    match c with
    | StakeRegistration _ => []
    | StakeDeregistration c | StakeDelegation c
    | StakeRegistrationConway c | StakeDeregistrationConway c | VoteDelegation c
    | StakeAndVoteDelegation c | StakeRegistrationAndDelegation c
    | StakeRegistrationAndVoteDelegation c
    | StakeRegistrationAndDelegationAndVoteDelegation c => cred_scripts c
    | PoolRegistration _ _ | PoolRetirement _ => []
    | AuthCommitteeHotCertificate cold _ | ResignCommitteeColdCertificate cold => cred_scripts cold
    | RegDRepCert c | UnregDRepCertificate c | UpdateDRepCertificate c => cred_scripts c
    end.
  Definition voter_scripts (v : voter) : list bytes :=
    match v with
    | VoterCommitteeHot c | VoterDRep c => cred_scripts c
    | VoterPool _ => []
    end.
  Definition scripts_needed (d : txdesc) : list bytes :=
    flat_map cred_scripts (d_inputs d) ++ d_mint d ++ flat_map cert_scripts (d_certs d)
    ++ flat_map cred_scripts (d_withdrawals d) ++ flat_map voter_scripts (d_voters d).

  (* a native script that is not in the witness set still has to validate when the transaction needs it and
     finds it in a reference / spent output; SH = script hash (BLAKE2b-224 of 0x00 || CBOR), a parameter *)
  Definition ref_scripts_needed (SH : nscript -> bytes) (d : txdesc) : list nscript :=
    filter (fun s => memb (SH s) (scripts_needed d)) (d_ref_scripts d).

  Definition required_key_hashes (SH : nscript -> bytes) (d : txdesc) : list bytes :=
    flat_map cred_keys (d_inputs d) ++ flat_map cred_keys (d_collateral d)
    ++ d_required_signers d
    ++ flat_map ns_leaves (d_native_scripts d)
    ++ flat_map ns_leaves (ref_scripts_needed SH d)
    ++ flat_map cert_keys (d_certs d)
    ++ flat_map cred_keys (d_withdrawals d)
    ++ flat_map voter_keys (d_voters d).

End Ledger.

(* ------------------------------------------------------------------ MODEL: required key hashes *)
(* the builder's fields that matter here *)
Record bdesc := mkB {
  b_inputs : list cred;               (* payment_part of i.output.address for i in self.inputs *)
  b_collateral : list cred;           (* ... self.collaterals *)
  b_required_signers : list bytes;    (* self.required_signers (None = []) *)
  b_native_scripts : list nscript;    (* the FIELD self.native_scripts *)
  b_attached : list nscript;          (* native scripts held in _inputs_to_scripts / _minting_script_to_redeemers /
                                         _withdrawal_script_to_redeemers / _certificate_script_to_redeemers, however they
                                         were supplied (script object, reference UTxO, the spent UTxO itself, context lookup);
                                         all_scripts = field ++ these (one per script hash) *)
  b_reference_scripts : list nscript; (* self._reference_scripts: scripts that add_script_input / add_*_script took from a
                                         UTxO other than the spent one (that UTxO went to self.reference_inputs) *)
  b_input_scripts : list nscript;     (* i.output.script for i in self.inputs, when present *)
  b_refin_scripts : list nscript;     (* i.output.script for the UTxOs i in self.reference_inputs, when present *)
  b_mint : list bytes;                (* policy ids of self.mint *)
  b_certs : list cert;
  b_withdrawals : list cred;          (* Address.from_primitive(k) of every key of self.withdrawals *)
  b_voters : list voter;
  b_witness_override : option N;
  b_plutus : list bytes;              (* script hashes of the Plutus members of all_scripts (held in _inputs_to_scripts /
                                         _minting_ / _withdrawal_ / _certificate_script_to_redeemers), however supplied *)
  b_plutus_reference : list bytes     (* script hashes of the Plutus members of self._reference_scripts *)
}.

(* the property all_scripts (a dict keyed by script hash: compared as a set) *)
Definition all_scripts (b : bdesc) : list nscript := b_native_scripts b ++ b_attached b.
Definition hash_in (SH : nscript -> bytes) (l : list nscript) (s : nscript) : bool := memb (SH s) (map SH l).
(* the property scripts: all_scripts minus every script whose hash is the hash of a member of _reference_scripts *)
Definition scripts (SH : nscript -> bytes) (b : bdesc) : list nscript :=
  filter (fun s => negb (hash_in SH (b_reference_scripts b) s)) (all_scripts b).
(* build_witness_set(remove_dup_script=True): self.scripts minus the scripts the spent inputs carry themselves *)
Definition witness_scripts (SH : nscript -> bytes) (b : bdesc) : list nscript :=
  filter (fun s => negb (hash_in SH (b_input_scripts b) s)) (scripts SH b).

(* the transaction such a builder emits, as the ledger sees it *)
Definition tx_of (SH : nscript -> bytes) (b : bdesc) : txdesc :=
  mkTx (b_inputs b) (b_collateral b) (b_required_signers b) (witness_scripts SH b)
       (b_input_scripts b ++ b_refin_scripts b) (b_mint b)
       (b_certs b) (b_withdrawals b) (b_voters b).

(* Two conditions on how reference scripts are used with the builder (decidable: refs_registeredb / refs_usedb).
   registered: a native script the transaction needs and finds in a spent / reference output was given to the builder
               through add_script_input / add_*_script (and not by writing to reference_inputs behind its back);
   used:       a script the builder keeps out of the witness set because a UTxO supplies it is indeed carried by a
               spent / reference output and serves a purpose of this transaction. *)
Definition refs_registered (SH : nscript -> bytes) (b : bdesc) : Prop :=
  forall s, In s (b_input_scripts b ++ b_refin_scripts b) ->
            In (SH s) (Ledger.scripts_needed (tx_of SH b)) -> In s (all_scripts b).
Definition refs_used (SH : nscript -> bytes) (b : bdesc) : Prop :=
  forall s, In s (all_scripts b) -> In (SH s) (map SH (b_reference_scripts b ++ b_input_scripts b)) ->
            In s (b_input_scripts b ++ b_refin_scripts b) /\ In (SH s) (Ledger.scripts_needed (tx_of SH b)).

Section ListEq.
  Variable A : Type.
  Variable f : A -> A -> bool.
  Fixpoint list_eqb (l l' : list A) : bool :=
    match l, l' with
    | [], [] => true
    | x :: r, y :: r' => f x y && list_eqb r r'
    | _, _ => false
    end.
End ListEq.
Arguments list_eqb {A} f l l'.
Fixpoint ns_eqb (a b : nscript) : bool :=
  match a, b with
  | NsPubkey h, NsPubkey h' => bytes_eqb h h'
  | NsAll l, NsAll l' | NsAny l, NsAny l' => list_eqb ns_eqb l l'
  | NsNofK n l, NsNofK n' l' => (n =? n') && list_eqb ns_eqb l l'
  | NsInvalidBefore s, NsInvalidBefore s' | NsInvalidHereafter s, NsInvalidHereafter s' => s =? s'
  | _, _ => false
  end.
Definition ns_memb (s : nscript) (l : list nscript) : bool := existsb (ns_eqb s) l.
Definition refs_registeredb (SH : nscript -> bytes) (b : bdesc) : bool :=
  forallb (fun s => implb (memb (SH s) (Ledger.scripts_needed (tx_of SH b))) (ns_memb s (all_scripts b)))
          (b_input_scripts b ++ b_refin_scripts b).
Definition refs_usedb (SH : nscript -> bytes) (b : bdesc) : bool :=
  forallb (fun s => implb (hash_in SH (b_reference_scripts b ++ b_input_scripts b) s)
                          (ns_memb s (b_input_scripts b ++ b_refin_scripts b)
                           && memb (SH s) (Ledger.scripts_needed (tx_of SH b))))
          (all_scripts b).

Definition required_signer_vkey_hashes (b : bdesc) : list bytes := b_required_signers b.

Definition input_vkey_hashes (b : bdesc) : list bytes :=
  flat_map cred_keys (b_inputs b ++ b_collateral b).

(* the isinstance chain of _certificate_vkey_hashes, in source order *)
Definition certificate_keys (x : cert) : list bytes :=
  match x with
  | StakeRegistration c | StakeDeregistration c | StakeDelegation c
  | StakeRegistrationConway c | StakeDeregistrationConway c | VoteDelegation c
  | StakeAndVoteDelegation c | StakeRegistrationAndDelegation c
  | StakeRegistrationAndVoteDelegation c
  | StakeRegistrationAndDelegationAndVoteDelegation c => cred_keys c
  | RegDRepCert c | UnregDRepCertificate c | UpdateDRepCertificate c => cred_keys c
  | AuthCommitteeHotCertificate cold _ | ResignCommitteeColdCertificate cold => cred_keys cold
  | PoolRegistration operator owners => operator :: owners
  | PoolRetirement pool => [pool]
  end.
Definition certificate_vkey_hashes (b : bdesc) : list bytes := flat_map certificate_keys (b_certs b).

Definition vote_keys (v : voter) : list bytes :=
  match v with
  | VoterCommitteeHot c | VoterDRep c => cred_keys c
  | VoterPool h => [h]
  end.
Definition vote_vkey_hashes (b : bdesc) : list bytes := flat_map vote_keys (b_voters b).

(* address_type == NONE_KEY: a reward account with a key credential *)
Definition withdrawal_vkey_hashes (b : bdesc) : list bytes := flat_map cred_keys (b_withdrawals b).

(* _dfs: ScriptPubkey -> its key hash; ScriptAll / ScriptAny / ScriptNofK -> union over the members *)
Fixpoint ns_dfs (s : nscript) : list bytes :=
  match s with
  | NsPubkey h => [h]
  | NsAll l | NsAny l | NsNofK _ l => flat_map ns_dfs l
  | NsInvalidBefore _ | NsInvalidHereafter _ => []
  end.
(* for script in self.all_scripts: if isinstance(script, NativeScript) — ALL of them, also those that stay out of
   the witness set because a reference UTxO or the spent UTxO supplies them *)
Definition native_scripts_vkey_hashes (b : bdesc) : list bytes :=
  flat_map ns_dfs (all_scripts b).

Definition builder_required (b : bdesc) : list bytes :=
  input_vkey_hashes b ++ required_signer_vkey_hashes b ++ native_scripts_vkey_hashes b
  ++ certificate_vkey_hashes b ++ withdrawal_vkey_hashes b ++ vote_vkey_hashes b.

(* self.witness_override or len(self._build_required_vkeys()) *)
Definition witness_count (b : bdesc) : N :=
  match b_witness_override b with
  | Some n => if n =? 0 then lenN (dedup (builder_required b)) else n
  | None => lenN (dedup (builder_required b))
  end.

(* the one place where the builder asks for MORE than the ledger: a witness for legacy stake registrations *)
Definition legacy_registration_keys (b : bdesc) : list bytes :=
  flat_map (fun x => match x with StakeRegistration c => cred_keys c | _ => [] end) (b_certs b).

(* ------------------------------------------------------------------ MODEL: placeholder witnesses *)
Definition FAKE_VKEY : bytes := hx "5797dc2cc919dfec0bb849551ebdf30d96e5cbe0f33f734a87fe826db30f7ef9".
Definition FAKE_SIG : bytes :=
  hx "577ccb5b487b64e396b0976c6f71558e52e44ad254db7d06dfb79843e5441a5d763dd42adcf5e8805d70373722ebbce62a58e3f30dd4560b9a898b8ceeab6a03".

(* bytes(x & y for x, y in zip(a, b)) *)
Definition band (a b : bytes) : bytes :=
  map (fun p => n2b (N.land (b2n (fst p)) (b2n (snd p)))) (combine a b).

Definition pair_eqb (x y : bytes * bytes) : bool := bytes_eqb (fst x) (fst y) && bytes_eqb (snd x) (snd y).
Definition mem_pair (x : bytes * bytes) (l : list (bytes * bytes)) : bool := existsb (pair_eqb x) l.
(* NonEmptyOrderedSet(list): first occurrence kept, order kept (str(witness) of two plain-key witnesses is equal
   exactly when vkey and signature are) *)
Fixpoint oset_pairs (seen l : list (bytes * bytes)) : list (bytes * bytes) :=
  match l with
  | [] => []
  | x :: r => if mem_pair x seen then oset_pairs seen r else x :: oset_pairs (x :: seen) r
  end.

Definition fake_wit (i : nat) : bytes * bytes :=
  let ib := be 32 (N.of_nat i) in (band FAKE_VKEY ib, band FAKE_SIG (ib ++ ib)).
Definition fake_vkey_witnesses (n : N) : list (bytes * bytes) :=
  oset_pairs [] (map fake_wit (seq 0 (N.to_nat n))).

(* ------------------------------------------------------------------ MODEL: build_and_sign's witnesses *)
(* meta stands for the (key_type, description) strings of a Key; meta_plain for the class defaults ("") *)
Inductive skey :=
| SkOrd (seed : bytes) (meta : N)         (* SigningKey: 32-byte NaCl seed *)
| SkExt (payload : bytes) (meta : N).     (* ExtendedSigningKey: kL(32) kR(32) public key(32) chain code(32) *)
Definition meta_plain : N := 0.
Definition sk_payload (k : skey) : bytes := match k with SkOrd s _ => s | SkExt p _ => p end.
Definition sk_meta (k : skey) : N := match k with SkOrd _ m => m | SkExt _ m => m end.
(* Key.__eq__ (and __hash__ = hash(payload)): payload, key_type and description; the class is not compared *)
Definition key_eqb (a b : skey) : bool := bytes_eqb (sk_payload a) (sk_payload b) && (sk_meta a =? sk_meta b).
Definition wf_key (k : skey) : Prop :=
  match k with SkOrd s _ => length s = 32%nat | SkExt p _ => length p = 128%nat end.

(* set(signing_keys): one representative per __eq__ class (iteration order is CPython's; compared as a set) *)
Fixpoint dedup_keys (seen l : list skey) : list skey :=
  match l with
  | [] => []
  | k :: r => if existsb (key_eqb k) seen then dedup_keys seen r else k :: dedup_keys (k :: seen) r
  end.

Record wit := mkWit { w_vk : bytes; w_sig : bytes; w_meta : N }.
Definition wit_bytes (w : wit) : bytes * bytes := (w_vk w, w_sig w).     (* what is serialized: [vkey, signature] *)
(* str(VerificationKeyWitness): signature, vkey payload, vkey type/description *)
Definition wit_eqb (a b : wit) : bool :=
  bytes_eqb (w_vk a) (w_vk b) && bytes_eqb (w_sig a) (w_sig b) && (w_meta a =? w_meta b).
Fixpoint oset_wits (seen l : list wit) : list wit :=
  match l with
  | [] => []
  | w :: r => if existsb (wit_eqb w) seen then oset_wits seen r else w :: oset_wits (w :: seen) r
  end.

Definition nilb {A} (l : list A) : bool := match l with [] => true | _ => false end.

Section Sign.
  Variable SH : nscript -> bytes.                      (* script_hash: BLAKE2b-224 of 0x00 || CBOR of the native script *)
  Variable H28 : bytes -> bytes.                       (* BLAKE2b-224 *)
  Variable H32 : bytes -> bytes.                       (* BLAKE2b-256 *)
  Variable ord_pub : bytes -> bytes.                   (* NaCl: seed -> 32-byte verification key *)
  Variable ord_sign : bytes -> bytes -> bytes.         (* NaCl: seed, message -> 64-byte signature *)
  Variable ext_sign : bytes -> bytes -> bytes -> bytes. (* BIP32ED25519PrivateKey(kL||kR, _).sign(message) *)

  (* VerificationKeyWitness.__post_init__: an ExtendedVerificationKey (payload[64:], 64 bytes) is cut to its
     first 32 bytes; the hash of an extended verification key is the hash of the same 32 bytes *)
  Definition vk32 (k : skey) : bytes :=
    match k with SkOrd s _ => ord_pub s | SkExt p _ => firstn 32 (skipn 64 p) end.
  Definition key_hash (k : skey) : bytes := H28 (vk32 k).
  Definition sign_with (k : skey) (m : bytes) : bytes :=
    match k with
    | SkOrd s _ => ord_sign s m
    | SkExt p _ => ext_sign (firstn 32 p) (firstn 32 (skipn 32 p)) m
    end.
  Definition wit_of (k : skey) (m : bytes) : wit :=
    mkWit (vk32 k) (sign_with k m) (match k with SkOrd _ mt => mt | SkExt _ _ => meta_plain end).

  (* the loop over set(signing_keys); signed = signed_vkey_hashes *)
  Fixpoint sign_loop (required : list bytes) (force : bool) (m : bytes) (signed : list bytes) (ks : list skey) : list wit :=
    match ks with
    | [] => []
    | k :: r =>
        let kh := key_hash k in
        if negb (memb kh signed) && (force || memb kh required)
        then wit_of k m :: sign_loop required force m (kh :: signed) r
        else sign_loop required force m signed r
    end.

  Definition sign_witnesses (required : list bytes) (force : bool) (keys : list skey) (m : bytes) : list wit :=
    oset_wits [] (sign_loop required force m [] (dedup_keys [] keys)).

  (* build_and_sign(signing_keys, auto_required_signers=auto, force_skeys=force) on a builder whose fields are b
     and whose body serializes to body_bytes: the vkey witnesses of the returned transaction.
     Two steps may fill required_signers first:
       build_and_sign: auto_required_signers and self.scripts and not self.required_signers
                       -> every given key becomes a required signer (self.scripts: reference scripts do not count);
       build:          is_smart (= bool(self.all_scripts): reference scripts DO count) and auto_required_signers is not
                       False and self.required_signers is None -> the key hashes of inputs and collateral
                       (AFTER coin selection, BEFORE _set_collateral_return picks collateral).
     Plutus scripts are members of all_scripts / scripts like native ones. *)
  Definition set_required_signers (b : bdesc) (rs : list bytes) : bdesc :=
    mkB (b_inputs b) (b_collateral b) rs (b_native_scripts b) (b_attached b)
        (b_reference_scripts b) (b_input_scripts b) (b_refin_scripts b) (b_mint b)
        (b_certs b) (b_withdrawals b) (b_voters b) (b_witness_override b) (b_plutus b) (b_plutus_reference b).
  (* the Plutus members of self.scripts: all_scripts minus the hashes of _reference_scripts *)
  Definition plutus_scripts (b : bdesc) : list bytes :=
    filter (fun h => negb (memb h (b_plutus_reference b))) (b_plutus b).
  Definition is_smart (b : bdesc) : bool := negb (nilb (all_scripts b)) || negb (nilb (b_plutus b)).
  Definition has_scripts (b : bdesc) : bool := negb (nilb (scripts SH b)) || negb (nilb (plutus_scripts b)).
  Definition after_auto (auto : option bool) (keys : list skey) (b : bdesc) : bdesc :=
    let unset := nilb (b_required_signers b) in
    if unset then
      match auto with
      | Some true =>
          if has_scripts b then
            match keys with
            | [] => b                       (* required_signers = [] : not None, left alone by build *)
            | _ => set_required_signers b (map key_hash keys)
            end
          else if is_smart b then set_required_signers b (input_vkey_hashes b) else b
      | None => if is_smart b then set_required_signers b (input_vkey_hashes b) else b
      | Some false => b
      end
    else b.

  (* What build() itself adds to the transaction (the values come from the implementation's run: which UTxOs the
     selectors / the collateral search pick depends on amounts and sizes that this slice does not model):
       sel_inputs      payment credentials of the UTxOs coin selection appended to self.inputs;
       sel_collateral  ... of the UTxOs _set_collateral_return appended to self.collaterals (taken from the inputs,
                       the potential inputs or the wallet at the collateral return address). *)
  Record selection := mkSel { sel_inputs : list cred; sel_collateral : list cred }.
  Definition no_selection : selection := mkSel [] [].
  Definition add_inputs (l : list cred) (b : bdesc) : bdesc :=
    mkB (b_inputs b ++ l) (b_collateral b) (b_required_signers b) (b_native_scripts b) (b_attached b)
        (b_reference_scripts b) (b_input_scripts b) (b_refin_scripts b) (b_mint b)
        (b_certs b) (b_withdrawals b) (b_voters b) (b_witness_override b) (b_plutus b) (b_plutus_reference b).
  Definition add_collateral (l : list cred) (b : bdesc) : bdesc :=
    mkB (b_inputs b) (b_collateral b ++ l) (b_required_signers b) (b_native_scripts b) (b_attached b)
        (b_reference_scripts b) (b_input_scripts b) (b_refin_scripts b) (b_mint b)
        (b_certs b) (b_withdrawals b) (b_voters b) (b_witness_override b) (b_plutus b) (b_plutus_reference b).
  (* _set_collateral_return looks for collateral only when the witness set ships a Plutus script or _reference_scripts
     is non-empty (native or Plutus), and only when self.collaterals is empty *)
  Definition collateral_wanted (b : bdesc) : bool :=
    negb (nilb (plutus_scripts b)) || negb (nilb (b_reference_scripts b)) || negb (nilb (b_plutus_reference b)).
  Definition picks_collateral (b : bdesc) : bool := collateral_wanted b && nilb (b_collateral b).
  (* the builder's fields when build() returns: coin selection, then the automatic required signers, then collateral *)
  Definition after_build (auto : option bool) (keys : list skey) (sel : selection) (b : bdesc) : bdesc :=
    add_collateral (sel_collateral sel) (after_auto auto keys (add_inputs (sel_inputs sel) b)).

  (* build_and_sign recomputes _build_required_vkeys() on the builder as build() left it *)
  Definition build_and_sign_witnesses (b : bdesc) (auto : option bool) (force : bool) (keys : list skey)
             (sel : selection) (body_bytes : bytes) : list wit :=
    sign_witnesses (builder_required (after_build auto keys sel b)) force keys (H32 body_bytes).
  (* the number of placeholder witnesses in the fake transaction of the LAST fee estimate of build()
     (_add_change_and_fee runs after _set_collateral_return) *)
  Definition fee_witness_count (b : bdesc) (auto : option bool) (keys : list skey) (sel : selection) : N :=
    witness_count (after_build auto keys sel b).
End Sign.

(* ------------------------------------------------------------------ MODEL: BIP32ED25519PrivateKey.sign *)
(* group order of edwards25519 *)
Definition L : N := 7237005577332262213973186563042994240857116359379907606001950938285454250989.
Definition two255 : N := 57896044618658097711785492504343953926634992332820282019728792003956564819968.

(* little-endian integers <-> byte strings *)
Definition le (k : nat) (n : N) : bytes := rev (be k n).
Definition unle (b : bytes) : N := unbe (rev b).

Section Ed.
  Variable G : Type.                       (* curve points *)
  Variable zero : G.
  Variable add : G -> G -> G.
  Variable neg : G -> G.
  Variable smulB : N -> G.                 (* n |-> n·B, B the base point *)
  Variable enc_pt : G -> bytes.            (* point compression *)
  Variable dec_pt : bytes -> option G.     (* decompression *)
  Variable H512 : bytes -> N.              (* SHA-512 digest read as a little-endian integer *)

  (* n·P by repeated addition (used for h·A in the verification equation) *)
  Definition smul (n : N) (P : G) : G := N.iter n (add P) zero.

  (* libsodium primitives on byte strings *)
  Definition sc_reduce (h : N) : bytes := le 32 (h mod L).                       (* crypto_core_ed25519_scalar_reduce(64-byte LE of h) *)
  Definition sc_mul (x y : bytes) : bytes := le 32 ((unle x * unle y) mod L).    (* crypto_core_ed25519_scalar_mul *)
  Definition sc_add (x y : bytes) : bytes := le 32 ((unle x + unle y) mod L).    (* crypto_core_ed25519_scalar_add *)
  (* crypto_scalarmult_ed25519_base_noclamp: bit 255 of the scalar is cleared, nothing else
     (its failure for a zero scalar / identity result is not modelled) *)
  Definition base_noclamp (s : bytes) : bytes := enc_pt (smulB (unle s mod two255)).

  (* BIP32ED25519PrivateKey(kL || kR, chain_code).sign(message) *)
  Definition ext_sign_model (kL kR m : bytes) : bytes :=
    let public_key := base_noclamp kL in
    let r := sc_reduce (H512 (kR ++ m)) in
    let R := base_noclamp r in
    let hram := sc_reduce (H512 (R ++ public_key ++ m)) in
    let S := sc_add (sc_mul hram kL) r in
    R ++ S.

  (* RFC 8032 5.1.7 (cofactorless, S < L enforced): signature R || S verifies for public key A and message m *)
  Definition ed_verify (A m sig : bytes) : Prop :=
    length sig = 64%nat /\
    exists PA PR : G,
      dec_pt A = Some PA /\ dec_pt (firstn 32 sig) = Some PR /\
      let S := unle (skipn 32 sig) in
      let h := H512 (firstn 32 sig ++ A ++ m) mod L in
      S < L /\ smulB S = add PR (smul h PA).
End Ed.
