(* LedgerShape.v — C02: the SHAPE clauses of the property, proven of the reference encoder (hence, by
   LedgerProofs, of what pycardano emits): every item of an encoded transaction body, certificate,
   output, proposal, voting procedure, native script and auxiliary data is definite-length, and the only
   semantic tags are 258 (sets), 24 (embedded CBOR), 30 (rationals) and 259 (Alonzo auxiliary data).
   Shortest-form integers hold by construction: `Cbor.head` is the only producer of heads and picks the
   shortest width (Cbor.head_length / width).  Plutus data travels inside tag-24 byte strings in the
   body; where it is embedded directly (witness-set entries 4 and 5) its own codec applies (C18), so the
   witness set is plain exactly when those two entries are absent. *)
From Coq Require Import NArith ZArith String List Bool Lia Permutation.
From PyC Require Import Base Cbor Value ValueCanon Ledger.
From PyC Require Plutus.
Import ListNotations.
Open Scope N_scope.

Definition tag_ok (t : N) : bool := (t =? 258) || (t =? 24) || (t =? 30) || (t =? 259).
Fixpoint plainb (x : cbor) : bool :=
  match x with
  | CU _ | CN _ | CB _ | CT _ | CS _ => true
  | CBi _ | CAi _ => false
  | CA xs => forallb plainb xs
  | CM kvs => forallb (fun kv => plainb (fst kv) && plainb (snd kv)) kvs
  | CTag t y => tag_ok t && plainb y
  end.

Lemma forallb_perm {A} (f : A -> bool) l l' : Permutation l l' -> forallb f l = forallb f l'.
Proof.
  induction 1 as [|x l l' _ IH|x y l|l1 l2 l3 _ IH1 _ IH2]; cbn; [reflexivity|now rewrite IH| |congruence].
  destruct (f x), (f y); reflexivity.
Qed.
Lemma plain_sorted_map kvs : plainb (CM (ksort kvs)) = forallb (fun kv => plainb (fst kv) && plainb (snd kv)) kvs.
Proof. cbn [plainb]. apply forallb_perm, ksort_perm. Qed.
Lemma plain_sorted_map' kvs : forallb (fun kv => plainb (fst kv) && plainb (snd kv)) (ksort kvs)
                              = forallb (fun kv => plainb (fst kv) && plainb (snd kv)) kvs.
Proof. apply forallb_perm, ksort_perm. Qed.
Lemma forallb_map {A B} (f : B -> bool) (g : A -> B) l : forallb f (map g l) = forallb (fun x => f (g x)) l.
Proof. induction l as [|x l IH]; cbn; [reflexivity|now rewrite IH]. Qed.
Lemma forallb_true {A} (f : A -> bool) l : (forall x, In x l -> f x = true) -> forallb f l = true.
Proof. intros H. apply forallb_forall. exact H. Qed.
Lemma forallb_all {A} (f : A -> bool) l : (forall x, f x = true) -> forallb f l = true.
Proof. intros H. apply forallb_true. auto. Qed.

Lemma plain_opt {A} (f : A -> cbor) o : (forall a, plainb (f a) = true) -> plainb (opt f o) = true.
Proof. intros H. destruct o; cbn; auto. Qed.
Lemma plain_rset t xs : forallb plainb xs = true -> plainb (rset t xs) = true.
Proof. intros H. destruct t; cbn; exact H. Qed.
Lemma plain_entries l : (forall k v, In (k, Some v) l -> plainb v = true) ->
  forallb (fun kv => plainb (fst kv) && plainb (snd kv)) (entries l) = true.
Proof.
  induction l as [|[k [v|]] r IH]; intros H; cbn [entries flat_map snd fst app] in *; [reflexivity| |].
  - cbn [forallb fst snd plainb]. rewrite (H k v (or_introl eq_refl)). apply IH. intros k' v' Hin. apply (H k' v'). now right.
  - apply IH. intros k' v' Hin. apply (H k' v'). now right.
Qed.
Lemma plain_int z : plainb (Ledger.int z) = true. Proof. unfold Ledger.int. destruct (0 <=? z)%Z; reflexivity. Qed.
Lemma plain_rational q : plainb (rational q) = true. Proof. reflexivity. Qed.
Lemma plain_cred c : plainb (ref_cred c) = true. Proof. destruct c; reflexivity. Qed.
Lemma plain_drep d : plainb (ref_drep d) = true. Proof. destruct d; reflexivity. Qed.
Lemma plain_anchor a : plainb (ref_anchor a) = true. Proof. reflexivity. Qed.
Lemma plain_relay r : plainb (ref_relay r) = true.
Proof. destruct r as [[p|] [a|] [b|] | [p|] d | d]; reflexivity. Qed.
Lemma plain_pool t p : forallb plainb (ref_pool_params t p) = true.
Proof.
  unfold ref_pool_params. cbn [forallb plainb]. rewrite plain_rset by (rewrite forallb_map; now apply forallb_all).
  rewrite forallb_map, (forallb_all _ _ plain_relay). destruct (p_meta p); reflexivity.
Qed.
Lemma plain_cert t c : plainb (ref_cert t c) = true.
Proof.
  destruct c; cbn [ref_cert plainb forallb]; rewrite ?plain_cred, ?plain_drep; try reflexivity;
    try (destruct a; reflexivity). apply plain_pool.
Qed.
Lemma plain_nscript : forall s, plainb (ref_nscript s) = true.
Proof.
  fix IH 1. intros s.
  assert (L : forall l, forallb plainb (map ref_nscript l) = true)
    by (induction l as [|x r IHr]; cbn [map forallb]; [reflexivity|now rewrite (IH x), IHr]).
  destruct s; cbn [ref_nscript plainb forallb]; rewrite ?L; reflexivity.
Qed.
Lemma plain_script_ref s : plainb (ref_script_ref s) = true. Proof. reflexivity. Qed.
Lemma plain_datum_option d : plainb (ref_datum_option d) = true. Proof. destruct d; reflexivity. Qed.
Lemma plain_multiasset m : plainb (ref_multiasset m) = true.
Proof.
  unfold ref_multiasset. rewrite ?plain_sorted_map, ?plain_sorted_map', forallb_map. apply forallb_all. intros [p a]. cbn [fst snd plainb andb].
  rewrite ?plain_sorted_map, ?plain_sorted_map', forallb_map. apply forallb_all. intros [n q]. cbn [fst snd plainb andb]. apply plain_int.
Qed.
Lemma plain_value c m : plainb (ref_value c m) = true.
Proof. unfold ref_value. destruct m; [reflexivity|]. cbn [plainb forallb]. now rewrite plain_multiasset. Qed.
Lemma plain_output o : plainb (ref_output o) = true.
Proof.
  unfold ref_output. destruct (o_map o).
  - cbn [plainb]. apply plain_entries. intros k v H. cbn [In] in H.
    repeat match goal with H : _ \/ _ |- _ => destruct H as [H|H] end; try contradiction; inversion H; subst; clear H;
      try reflexivity; try apply plain_value.
    + destruct (o_datum o); [|discriminate]. match goal with H : option_map _ _ = Some _ |- _ => inversion H end. apply plain_datum_option.
    + destruct (o_script o); [|discriminate]. match goal with H : option_map _ _ = Some _ |- _ => inversion H end. reflexivity.
  - cbn [plainb]. rewrite forallb_app. cbn [forallb plainb]. rewrite plain_value. destruct (o_datum o) as [[h|d]|]; reflexivity.
Qed.
Lemma plain_input i : plainb (ref_input i) = true. Proof. reflexivity. Qed.
Lemma plain_gaid g : plainb (ref_gaid g) = true. Proof. reflexivity. Qed.
Lemma plain_voter v : plainb (ref_voter v) = true. Proof. destruct v; reflexivity. Qed.
Lemma plain_votes v : plainb (ref_voting_procedures v) = true.
Proof.
  unfold ref_voting_procedures. rewrite ?plain_sorted_map, ?plain_sorted_map', forallb_map. apply forallb_all. intros [vt l]. cbn [fst snd].
  rewrite plain_voter. cbn [andb]. rewrite ?plain_sorted_map, ?plain_sorted_map', forallb_map. apply forallb_all. intros [g [n a]]. cbn [fst snd].
  unfold ref_voting_procedure. cbn [plainb forallb fst snd andb]. destruct a; reflexivity.
Qed.
Lemma plain_ppval v : plainb (ref_ppval v) = true.
Proof. destruct v; cbn [ref_ppval plainb forallb]; try reflexivity. rewrite forallb_map. now apply forallb_all. Qed.
Lemma plain_ppu u : plainb (ref_ppu u) = true.
Proof.
  unfold ref_ppu. cbn [plainb]. apply plain_entries. intros k v H. apply in_combine_r in H.
  apply in_map_iff in H as ([x|] & E & _); cbn in E; [|discriminate]. inversion E. apply plain_ppval.
Qed.
Lemma plain_gov_action t g : plainb (ref_gov_action t g) = true.
Proof.
  destruct g as [p u h|p ma mi|wd h|p|p rm add q|p an sc|]; cbn [ref_gov_action plainb forallb];
    rewrite ?plain_ppu; try (destruct p; cbn [opt]); try (destruct h; cbn [opt]); try (destruct sc; cbn [opt]); try reflexivity.
  - rewrite ?plain_sorted_map, ?plain_sorted_map', forallb_map. cbn [andb]. now rewrite forallb_all by (intros [? ?]; reflexivity).
  - rewrite ?plain_sorted_map, ?plain_sorted_map', forallb_map. cbn [andb]. now rewrite forallb_all by (intros [? ?]; reflexivity).
  - rewrite plain_rset by (rewrite forallb_map; apply forallb_all; apply plain_cred).
    rewrite ?plain_sorted_map, ?plain_sorted_map', forallb_map. cbn [plainb andb]. now rewrite forallb_all by (intros [? ?]; cbn [fst snd]; now rewrite plain_cred).
  - rewrite plain_rset by (rewrite forallb_map; apply forallb_all; apply plain_cred).
    rewrite ?plain_sorted_map, ?plain_sorted_map', forallb_map. cbn [plainb andb]. now rewrite forallb_all by (intros [? ?]; cbn [fst snd]; now rewrite plain_cred).
Qed.
Lemma plain_proposal t p : plainb (ref_proposal t p) = true.
Proof. unfold ref_proposal. cbn [plainb forallb]. now rewrite plain_gov_action. Qed.

Theorem plain_body t b : plainb (ref_body t b) = true.
Proof.
  unfold ref_body. cbn [plainb]. apply plain_entries. intros k v H. cbn [In] in H.
  repeat match goal with H : _ \/ _ |- _ => destruct H as [H|H] end; try contradiction; inversion H; subst; clear H;
    try reflexivity;
    try match goal with H : option_map _ ?o = Some _ |- _ => destruct o; [inversion H; subst; clear H|discriminate] end;
    try reflexivity.
  - apply plain_rset. rewrite forallb_map. now apply forallb_all.
  - cbn [plainb]. rewrite forallb_map. apply forallb_all. apply plain_output.
  - cbn [plainb]. rewrite forallb_map. apply forallb_all. apply plain_cert.
  - rewrite ?plain_sorted_map, ?plain_sorted_map', forallb_map. apply forallb_all. intros [a n]. reflexivity.
  - apply plain_multiasset.
  - apply plain_rset. rewrite forallb_map. now apply forallb_all.
  - apply plain_rset. rewrite forallb_map. now apply forallb_all.
  - apply plain_output.
  - apply plain_rset. rewrite forallb_map. now apply forallb_all.
  - apply plain_votes.
  - apply plain_rset. rewrite forallb_map. apply forallb_all. apply plain_proposal.
Qed.

Fixpoint plain_metadatum (m : metadatum) : plainb (ref_metadatum m) = true.
Proof.
  destruct m as [z|b|b|l|kvs]; cbn [ref_metadatum plainb]; try reflexivity; [apply plain_int| |].
  - induction l as [|x r IH]; cbn [map forallb]; [reflexivity|]. now rewrite (plain_metadatum x), IH.
  - induction kvs as [|[k v] r IH]; cbn [map forallb fst snd]; [reflexivity|]. now rewrite (plain_metadatum k), (plain_metadatum v), IH.
Qed.
Lemma plain_metadata m : plainb (ref_metadata m) = true.
Proof. unfold ref_metadata. rewrite ?plain_sorted_map, ?plain_sorted_map', forallb_map. apply forallb_all. intros [k v]. cbn [fst snd plainb andb]. apply plain_metadatum. Qed.
Theorem plain_aux a : plainb (ref_aux a) = true.
Proof.
  destruct a as [m|m s|m n v1 v2 v3]; cbn [ref_aux].
  - apply plain_metadata.
  - cbn [plainb forallb]. rewrite plain_metadata, forallb_map. now rewrite (forallb_all _ _ plain_nscript).
  - cbn [plainb tag_ok N.eqb Pos.eqb orb andb]. apply plain_entries. intros k v H. cbn [In] in H.
    repeat match goal with H : _ \/ _ |- _ => destruct H as [H|H] end; try contradiction; inversion H; subst; clear H;
      match goal with H : option_map _ ?o = Some _ |- _ => destruct o; [inversion H; subst; clear H|discriminate] end.
    + apply plain_metadata.
    + cbn [plainb]. rewrite forallb_map. apply forallb_all. apply plain_nscript.
    + cbn [plainb]. rewrite forallb_map. now apply forallb_all.
    + cbn [plainb]. rewrite forallb_map. now apply forallb_all.
    + cbn [plainb]. rewrite forallb_map. now apply forallb_all.
Qed.
(* the witness set is plain when it embeds no Plutus data directly *)
Theorem plain_witness_set t w : w_data w = None -> w_redeemers w = None -> plainb (ref_witness_set t w) = true.
Proof.
  intros D R. unfold ref_witness_set. rewrite D, R. cbn [plainb]. apply plain_entries. intros k v H. cbn [In option_map] in H.
  repeat match goal with H : _ \/ _ |- _ => destruct H as [H|H] end; try contradiction; try discriminate; inversion H; subst; clear H;
    match goal with H : option_map _ ?o = Some _ |- _ => destruct o; [inversion H; subst; clear H|discriminate] end.
  - apply plain_rset. rewrite forallb_map. apply forallb_all. intros [? ?]. reflexivity.
  - apply plain_rset. rewrite forallb_map. apply forallb_all. apply plain_nscript.
  - cbn [plainb]. rewrite forallb_map. apply forallb_all. intros [[[a b] c] d]. reflexivity.
  - apply plain_rset. rewrite forallb_map. now apply forallb_all.
  - apply plain_rset. rewrite forallb_map. now apply forallb_all.
  - apply plain_rset. rewrite forallb_map. now apply forallb_all.
Qed.

(* plain items encode without the indefinite-length markers: every array / map / string head carries its length *)
Fixpoint definite (x : cbor) : Prop :=
  match x with
  | CBi _ | CAi _ => False
  | CA xs => (fix all (l : list cbor) : Prop := match l with [] => True | y :: r => definite y /\ all r end) xs
  | CM kvs => (fix all (l : list (cbor * cbor)) : Prop :=
                 match l with [] => True | kv :: r => (definite (fst kv) /\ definite (snd kv)) /\ all r end) kvs
  | CTag _ y => definite y
  | _ => True
  end.
Fixpoint plain_definite (x : cbor) : plainb x = true -> definite x.
Proof.
  destruct x as [n|n|b|cs|b|xs|xs|kvs|t y|v]; cbn [plainb definite]; intros H; try exact I; try discriminate.
  - induction xs as [|y r IH]; [exact I|]. cbn [forallb] in H. apply andb_true_iff in H as [Hy Hr]. split; [now apply plain_definite|exact (IH Hr)].
  - induction kvs as [|[k v] r IH]; [exact I|]. cbn [forallb fst snd] in H. apply andb_true_iff in H as [Hkv Hr].
    apply andb_true_iff in Hkv as [Hk Hv]. split; [split; now apply plain_definite|exact (IH Hr)].
  - apply andb_true_iff in H as [_ Hy]. now apply plain_definite.
Qed.
