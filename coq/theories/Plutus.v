(* Plutus.v — C18.  (a) SPECIFICATION: Plutus `data` and the reference canonical encoder `plutus_ref`,
   transcribed from the ledger's Plutus data codec (plutus-core PlutusCore/Data.hs encodeData:
   constructor alternatives 0-6 as tags 121-127, 7-127 as tags 1280-1400, all others tag 102 [i, fields];
   `encode ds` of a Haskell list = definite 0x80 when empty, indefinite 0x9f..0xff otherwise; byte strings
   longer than 64 bytes as an indefinite string of 64-byte chunks; integers outside the 64-bit heads as
   bignum tags 2/3 whose payload goes through the same byte-string rule; maps definite, in list order).
   (b) MODEL of pycardano's three representations (pycardano/plutus.py, pycardano/serialization.py):
   typed PlutusData classes (deep embedding `ty` of a class description), RawPlutusData, the JSON dict form,
   and of the cbor2 layer underneath (pure-Python decoder with pycardano's patches, default_encoder).
   No proofs here (PlutusProofs.v). *)
From Coq Require Import NArith ZArith Ascii String List Bool Lia.
From Coq Require Import Init.Byte.
From PyC Require Import Base Cbor.
Import ListNotations.
Open Scope string_scope.
Open Scope list_scope.
Open Scope N_scope.

(* ================================================================== specification *)
Inductive data :=
| Constr (i : N) (fs : list data)
| Map (kvs : list (data * data))
| List (xs : list data)
| I (z : Z)
| Bs (b : bytes).

Definition tag_spec (i : N) : option N :=
  if i <? 7 then Some (121 + i) else if i <? 128 then Some (1280 + (i - 7)) else None.

Definition two64Z : Z := 18446744073709551616%Z.

(* encodeBs: at most 64 bytes definite, otherwise 64-byte chunks *)
Definition ref_bytes (b : bytes) : cbor :=
  if (length b <=? 64)%nat then CB b else CBi (chunks 64 b).

(* encodeInteger *)
Definition ref_int (z : Z) : cbor :=
  if (0 <=? z)%Z then
    (if (z <? two64Z)%Z then CU (Z.to_N z) else CTag 2 (ref_bytes (be_min (Z.to_N z))))
  else
    (if (- two64Z <=? z)%Z then CN (Z.to_N (-1 - z)) else CTag 3 (ref_bytes (be_min (Z.to_N (-1 - z))))).

(* Serialise [a]: encodeListLen 0 when empty, indefinite otherwise *)
Definition ref_seq (xs : list cbor) : cbor := match xs with [] => CA [] | _ => CAi xs end.

Fixpoint plutus_ref (d : data) : cbor :=
  match d with
  | Constr i fs =>
      let fl := ref_seq (map plutus_ref fs) in
      match tag_spec i with
      | Some t => CTag t fl
      | None => CTag 102 (CA [CU i; fl])
      end
  | Map kvs => CM (map (fun kv => (plutus_ref (fst kv), plutus_ref (snd kv))) kvs)
  | List xs => ref_seq (map plutus_ref xs)
  | I z => ref_int z
  | Bs b => ref_bytes b
  end.

Definition plutus_bytes (d : data) : bytes := enc (plutus_ref d).

(* the JSON form (cardano-api ScriptDataJsonDetailedSchema): one object kind per node *)
Inductive json :=
| JInt (z : Z)
| JBytes (b : bytes)                     (* {"bytes": hex b} *)
| JList (xs : list json)
| JMap (kvs : list (json * json))        (* [{"k":..,"v":..}] in order *)
| JCon (i : N) (fs : list json).

Fixpoint json_of (d : data) : json :=
  match d with
  | Constr i fs => JCon i (map json_of fs)
  | Map kvs => JMap (map (fun kv => (json_of (fst kv), json_of (snd kv))) kvs)
  | List xs => JList (map json_of xs)
  | I z => JInt z
  | Bs b => JBytes b
  end.

(* induction principle with Forall for the nested lists (pattern: cbor_ind' in Cbor.v) *)
Section DataInd.
  Variable P : data -> Prop.
  Hypothesis HC : forall i fs, Forall P fs -> P (Constr i fs).
  Hypothesis HM : forall kvs, Forall (fun kv => P (fst kv) /\ P (snd kv)) kvs -> P (Map kvs).
  Hypothesis HL : forall xs, Forall P xs -> P (List xs).
  Hypothesis HI : forall z, P (I z).
  Hypothesis HB : forall b, P (Bs b).
  Fixpoint data_ind' (d : data) : P d :=
    match d with
    | Constr i fs => HC i fs ((fix go (l : list data) : Forall P l :=
                         match l with [] => Forall_nil _ | y :: r => Forall_cons _ (data_ind' y) (go r) end) fs)
    | Map kvs => HM kvs ((fix go (l : list (data * data)) : Forall (fun kv => P (fst kv) /\ P (snd kv)) l :=
                         match l with
                         | [] => Forall_nil _
                         | kv :: r => Forall_cons _ (conj (data_ind' (fst kv)) (data_ind' (snd kv))) (go r)
                         end) kvs)
    | List xs => HL xs ((fix go (l : list data) : Forall P l :=
                         match l with [] => Forall_nil _ | y :: r => Forall_cons _ (data_ind' y) (go r) end) xs)
    | I z => HI z
    | Bs b => HB b
    end.
End DataInd.

(* ================================================================== Python side: values *)
(* class description of a typed PlutusData dataclass: CONSTR_ID and the ordered field types *)
Inductive ty :=
| TInt | TBytes | TBStr                  (* int, bytes, ByteString *)
| TList (t : ty)                         (* typing.List[t] *)
| TDict (k v : ty)                       (* typing.Dict[k, v] *)
| TCls (id : N) (fts : list ty)          (* a PlutusData subclass with CONSTR_ID = id *)
| TUnion (ts : list ty)                  (* typing.Union[...] *)
| TIList                                 (* bare IndefiniteList *)
| TDatum.                                (* pycardano.plutus.Datum *)

(* Python objects that occur in Plutus structures *)
Inductive pv :=
| PInt (z : Z)
| PBytes (b : bytes)
| PBStr (b : bytes)                      (* ByteString(b) *)
| PList (xs : list pv)                   (* list (and the tuples cbor2 builds inside map keys; FrozenList in converted keys) *)
| PIList (xs : list pv)                  (* IndefiniteList (IndefiniteFrozenList in converted keys) *)
| PDict (kvs : list (pv * pv))           (* dict, insertion order (FrozenDict in converted keys) *)
| PTag (t : N) (v : pv)                  (* cbor2.CBORTag *)
| PObj (id : N) (fts : list ty) (fs : list pv)   (* instance of the class TCls id fts *)
| PRaw (v : pv).                         (* RawPlutusData(v) *)

Inductive res (A : Type) := Ok (a : A) | Err (k : string).
Arguments Ok {A} a. Arguments Err {A} k.
Definition bind {A B} (r : res A) (f : A -> res B) : res B :=
  match r with Ok a => f a | Err k => Err k end.
Notation "'do' x <- r ; k" := (bind r (fun x => k)) (at level 200, x name, r at level 100, k at level 200).

Section MapM.
  Context {A B : Type} (f : A -> res B).
  Fixpoint mapM (l : list A) : res (list B) :=
    match l with
    | [] => Ok []
    | x :: r => match f x with
                | Ok y => match mapM r with Ok ys => Ok (y :: ys) | Err k => Err k end
                | Err k => Err k
                end
    end.
End MapM.

Definition E_Type := "TypeError".
Definition E_Deser := "DeserializeException".
Definition E_InvArg := "InvalidArgumentException".
Definition E_Key := "KeyError".
Definition E_Index := "IndexError".
Definition E_Decode := "CBORDecodeError".
Definition E_OOM := "OutOfModel".

(* ---------- structural equality (Python == on the hashable keys that occur) ---------- *)
Section ListEqb.
  Context {A : Type} (f : A -> A -> bool).
  Fixpoint list_eqb (a b : list A) : bool :=
    match a, b with
    | [], [] => true
    | x :: a', y :: b' => f x y && list_eqb a' b'
    | _, _ => false
    end.
End ListEqb.

Fixpoint ty_eqb (a b : ty) : bool :=
  match a, b with
  | TInt, TInt | TBytes, TBytes | TBStr, TBStr | TIList, TIList | TDatum, TDatum => true
  | TList x, TList y => ty_eqb x y
  | TDict k v, TDict k' v' => ty_eqb k k' && ty_eqb v v'
  | TCls i fs, TCls j gs => (i =? j) && list_eqb ty_eqb fs gs
  | TUnion fs, TUnion gs => list_eqb ty_eqb fs gs
  | _, _ => false
  end.

Fixpoint pv_eqb (a b : pv) : bool :=
  match a, b with
  | PInt x, PInt y => (x =? y)%Z
  | PBytes x, PBytes y => bytes_eqb x y
  | PBStr x, PBStr y => bytes_eqb x y
  | PList xs, PList ys => list_eqb pv_eqb xs ys
  | PIList xs, PIList ys => list_eqb pv_eqb xs ys
  | PDict xs, PDict ys =>
      list_eqb (fun p q => pv_eqb (fst p) (fst q) && pv_eqb (snd p) (snd q)) xs ys
  | PTag t x, PTag u y => (t =? u) && pv_eqb x y
  | PObj i ts xs, PObj j us ys => (i =? j) && list_eqb ty_eqb ts us && list_eqb pv_eqb xs ys
  | PRaw x, PRaw y => pv_eqb x y
  | _, _ => false
  end.

(* Python dict built by successive d[k] = v : first key object and position kept, value replaced *)
Fixpoint dict_set (d : list (pv * pv)) (k v : pv) : list (pv * pv) :=
  match d with
  | [] => [(k, v)]
  | kv :: r => if pv_eqb (fst kv) k then (fst kv, v) :: r else kv :: dict_set r k v
  end.
Definition dict_of_list (l : list (pv * pv)) : list (pv * pv) :=
  fold_left (fun d kv => dict_set d (fst kv) (snd kv)) l [].

(* hash(x) succeeds: int, bytes, ByteString, tuple of hashables, CBORTag over a hashable value;
   list, IndefiniteList, dict and RawPlutusData (a dataclass with eq=True and no hash) are unhashable.
   Typed classes are declared `@dataclass(unsafe_hash=True)` (the way the script-context classes that serve as
   Plutus map keys -- credentials, token names, slots -- have to be declared; the driver does so for every
   generated class): hash(obj) is the hash of the tuple of its field values, so it succeeds exactly when
   every field value is hashable.
   `tup` says whether a PList stands for a tuple (cbor2 immutable decoding) or a list. *)
Fixpoint hashable (tup : bool) (v : pv) : bool :=
  match v with
  | PInt _ | PBytes _ | PBStr _ => true
  | PList xs => tup && forallb (hashable tup) xs
  | PObj _ _ fs => forallb (hashable tup) fs
  | PIList _ | PDict _ | PRaw _ => false
  | PTag _ x => hashable tup x
  end.

(* ================================================================== cbor2 layer *)
(* cbor2 encode_int *)
Definition py_int (z : Z) : cbor :=
  if (0 <=? z)%Z then
    (if (z <? two64Z)%Z then CU (Z.to_N z) else CTag 2 (CB (be_min (Z.to_N z))))
  else
    (if (- two64Z <=? z)%Z then CN (Z.to_N (-1 - z)) else CTag 3 (CB (be_min (Z.to_N (-1 - z))))).

(* cbor2.dumps(v, default=default_encoder) on primitives *)
Fixpoint dumps (v : pv) : res cbor :=
  match v with
  | PInt z => Ok (py_int z)
  | PBytes b => Ok (CB b)
  | PBStr b => Ok (if (64 <? length b)%nat then CBi (chunks 64 b) else CB b)
  | PList xs => do ys <- mapM dumps xs; Ok (CA ys)
  | PIList xs => do ys <- mapM dumps xs; Ok (CAi ys)
  | PDict kvs =>
      do ys <- mapM (fun kv => do k <- dumps (fst kv); do w <- dumps (snd kv); Ok (k, w)) kvs; Ok (CM ys)
  | PTag t x => do y <- dumps x; Ok (CTag t y)
  | PObj _ _ _ | PRaw _ => Err E_OOM      (* removed by to_primitive before the encoder runs *)
  end.

(* cbor2.loads with the pure-Python decoder as patched by pycardano.serialization:
   indefinite arrays become IndefiniteList, chunked byte strings are joined, tags 2/3 become int,
   map keys are decoded in immutable mode and then hashed. *)
Fixpoint loads (c : cbor) : res pv :=
  match c with
  | CU n => Ok (PInt (Z.of_N n))
  | CN n => Ok (PInt (-1 - Z.of_N n))
  | CB b => Ok (PBytes b)
  | CBi cs => Ok (PBytes (concat cs))
  | CT _ | CS _ => Err E_OOM
  | CA xs => do ys <- mapM loads xs; Ok (PList ys)
  | CAi xs => do ys <- mapM loads xs; Ok (PIList ys)
  | CM kvs =>
      do ps <- mapM (fun kv => do k <- loads (fst kv); do w <- loads (snd kv);
                               if hashable true k then Ok (k, w) else Err E_Type) kvs;
      Ok (PDict (dict_of_list ps))
  | CTag t x =>
      if t =? 2 then
        match x with
        | CB b => Ok (PInt (Z.of_N (unbe b)))
        | CBi cs => Ok (PInt (Z.of_N (unbe (concat cs))))
        | _ => Err E_Decode
        end
      else if t =? 3 then
        match x with
        | CB b => Ok (PInt (-1 - Z.of_N (unbe b)))
        | CBi cs => Ok (PInt (-1 - Z.of_N (unbe (concat cs))))
        | _ => Err E_Decode
        end
      else do y <- loads x; Ok (PTag t y)
  end.

(* ================================================================== plutus.py: tags *)
(* get_tag (hand model; the translation of the current source is coq/gen/PlutusGen.v, tied in props/C18.v) *)
Definition get_tag (i : N) : option N :=
  if i <? 7 then Some (121 + i) else if i <? 128 then Some (1280 + (i - 7)) else None.

(* get_constructor_id_and_fields: what is returned for CBORTag(t, value) with len(value) = len *)
Inductive ures :=
| UPair                   (* return value[0], value[1] *)
| UWhole (i : N)          (* return i, value *)
| URaise                  (* DeserializeException *)
| UBad.                   (* a shape the model does not know (never produced by the model) *)
Definition untag (t len : N) : ures :=
  if t =? 102 then (if negb (len =? 2) then URaise else UPair)
  else if (121 <=? t) && (t <? 128) then UWhole (t - 121)
  else if (1280 <=? t) && (t <? 1536) then UWhole (t - 1280 + 7)
  else URaise.

(* result language of the TRANSLATED get_constructor_id_and_fields (coq/gen/PlutusGen.v) *)
Inductive gval := GInt (z : Z) | GAt (k : Z) | GValue.       (* an int; raw_tag.value[k]; raw_tag.value *)
Inductive gres := GRet (a b : gval) | GRaise (exc : string).
Definition interp_gres (g : gres) : ures :=
  match g with
  | GRet (GAt 0%Z) (GAt 1%Z) => UPair
  | GRet (GInt z) GValue => if (z <? 0)%Z then UBad else UWhole (Z.to_N z)
  | GRaise exc => if String.eqb exc E_Deser then URaise else UBad
  | _ => UBad
  end.

(* ================================================================== RawPlutusData *)
(* RawPlutusData.to_primitive._dfs *)
Fixpoint r_to_prim (v : pv) : pv :=
  match v with
  | PList (x :: r) => PIList (map r_to_prim (x :: r))
  | PDict kvs => PDict (dict_of_list (map (fun kv => (r_to_prim (fst kv), r_to_prim (snd kv))) kvs))
  | PTag t (PList (x :: r)) =>
      if t =? 102 then PTag t (PList (map r_to_prim (x :: r))) else PTag t (PIList (map r_to_prim (x :: r)))
  | _ => v
  end.

(* the items a Python `for f in fields` yields (lists only; other iterables are outside the model) *)
Definition items (v : pv) : res (list pv) :=
  match v with PList xs | PIList xs => Ok xs | PInt _ | PTag _ _ => Err E_Type | _ => Err E_OOM end.

(* RawPlutusData.to_dict._dfs on a primitive *)
Fixpoint r_dict (v : pv) : res json :=
  match v with
  | PInt z => Ok (JInt z)
  | PBytes b | PBStr b => Ok (JBytes b)
  | PList xs | PIList xs => do js <- mapM r_dict xs; Ok (JList js)
  | PDict kvs =>
      (* a list-shaped key can only be the tuple cbor2 builds in immutable mode: not handled by _dfs *)
      do js <- mapM (fun kv => do w <- r_dict (snd kv);
                               do k <- (match fst kv with PList _ => Err E_Type | _ => r_dict (fst kv) end);
                               Ok (k, w)) kvs; Ok (JMap js)
  | PTag t x =>
      match x with
      | PList xs | PIList xs =>
          match untag t (lenN xs) with
          | UPair =>
              match xs with
              | [PInt c; PList fs] | [PInt c; PIList fs] =>
                  if (c <? 0)%Z then Err E_OOM else do js <- mapM r_dict fs; Ok (JCon (Z.to_N c) js)
              | _ => Err E_OOM
              end
          | UWhole i => do js <- mapM r_dict xs; Ok (JCon i js)
          | URaise => Err E_Deser
          | UBad => Err E_OOM
          end
      | _ => if t =? 102 then Err E_Type else
             match untag t 0 with URaise => Err E_Deser | _ => Err E_OOM end
      end
  | PObj _ _ _ | PRaw _ => Err E_OOM
  end.

(* RawPlutusData.from_dict._dfs *)
Fixpoint r_undict (j : json) : res pv :=
  match j with
  | JCon i fs =>
      do cf <- mapM r_undict fs;
      match get_tag i with
      | None => Ok (PTag 102 (PList [PInt (Z.of_N i); PIList cf]))
      | Some t => Ok (PTag t (PList cf))
      end
  | JMap kvs =>
      do ps <- mapM (fun kv => do k <- r_undict (fst kv); do w <- r_undict (snd kv);
                               if hashable false k then Ok (k, w) else Err E_Type) kvs;
      Ok (PDict (dict_of_list ps))
  | JInt z => Ok (PInt z)
  | JBytes b => Ok (if (32 <? length b)%nat then PBStr b else PBytes b)   (* len(hex) > 64 *)
  | JList xs => do ys <- mapM r_undict xs; Ok (PIList ys)
  end.

(* the `data: RawDatum` check of validate() / limit_primitive_type of from_primitive *)
Definition raw_datum_ok (v : pv) : bool :=
  match v with PObj _ _ _ | PDict _ | PInt _ | PBytes _ | PIList _ | PTag _ _ => true | _ => false end.

Definition raw_from_prim (v : pv) : res pv := if raw_datum_ok v then Ok (PRaw v) else Err E_Deser.

(* one complete data item and nothing after it (Cbor.dec with fuel that always suffices: see sz_bound) *)
Definition decode_res (bs : bytes) : res cbor :=
  match dec (3 * length bs) bs with Some (c, []) => Ok c | _ => Err E_Decode end.

Definition raw_from_cbor (bs : bytes) : res pv := do c <- decode_res bs; do v <- loads c; raw_from_prim v.
Definition raw_from_dict (j : json) : res pv := do v <- r_undict j; Ok (PRaw v).

(* ================================================================== typed PlutusData *)
(* CBORSerializable.to_primitive (PlutusData.to_shallow_primitive + _dfs); identity on primitives.
   Map keys: _dfs(k, freeze=True) converts the key exactly like a value and then replaces, at every level of
   the key, list by FrozenList, IndefiniteList by IndefiniteFrozenList and dict by FrozenDict so that the
   converted key (a CBORTag when the key is a class instance) can be hashed.  The frozen twins are written by
   default_encoder the way the originals are (IndefiniteFrozenList indefinite 9f..ff, FrozenList definite,
   FrozenDict as a map), and compare equal to them; in this model PList / PIList / PDict stand for both the
   original and its frozen twin, i.e. a key is converted by to_prim like any other value.  (That the encoder
   really treats the twins alike is what the correspondence run checks on every map keyed by class instances.) *)
Fixpoint to_prim (v : pv) : pv :=
  match v with
  | PObj id _ fs =>
      let ps := map to_prim fs in
      let prims := match ps with [] => PList [] | _ => PIList ps end in
      match get_tag id with
      | Some t => PTag t prims
      | None => PTag 102 (PList [PInt (Z.of_N id); prims])
      end
  | PRaw w => r_to_prim w
  | PList xs => PList (map to_prim xs)
  | PIList xs => PIList (map to_prim xs)
  | PDict kvs => PDict (dict_of_list (map (fun kv => (to_prim (fst kv), to_prim (snd kv))) kvs))
  | PTag t x => PTag t (to_prim x)
  | PInt _ | PBytes _ | PBStr _ => v
  end.

(* validate(): v.validate() of nested serializables and the isinstance checks of _check_recursive *)
Section Forall2b.
  Context {A B : Type} (f : A -> B -> bool).
  Fixpoint forall2b (a : list A) (b : list B) : bool :=
    match a, b with
    | [], [] => true
    | x :: a', y :: b' => f x y && forall2b a' b'
    | _, _ => false
    end.
End Forall2b.

Fixpoint check (v : pv) (t0 : ty) {struct v} : bool :=
  (match v with
   | PObj _ fts fs => forall2b check fs fts
   | PRaw w => raw_datum_ok w
   | _ => true
   end) &&
  (fix shape (t : ty) : bool :=
     match t with
     | TInt => match v with PInt _ => true | _ => false end
     | TBytes => match v with PBytes _ => true | _ => false end
     | TBStr => match v with PBStr _ => true | _ => false end
     | TIList => match v with PIList _ => true | _ => false end
     | TList t' => match v with PList xs | PIList xs => forallb (fun x => check x t') xs | _ => false end
     | TDict kt vt =>
         match v with
         | PDict kvs => forallb (fun kv => check (fst kv) kt && check (snd kv) vt) kvs
         | _ => true
         end
     | TCls id fts => match v with PObj id' fts' _ => (id =? id') && list_eqb ty_eqb fts fts' | _ => false end
     | TUnion ts => existsb shape ts
     | TDatum => match v with
                 | PObj _ _ _ | PDict _ | PInt _ | PBytes _ | PIList _ | PRaw _ => true
                 | _ => false
                 end
     end) t0.

Definition validate (v : pv) : bool :=
  match v with
  | PObj _ fts fs => forall2b check fs fts
  | PRaw w => raw_datum_ok w
  | _ => false
  end.

(* x.to_cbor() = dumps(x, default=default_encoder): to_validated_primitive then the encoder *)
Definition to_cbor (v : pv) : res bytes :=
  if validate v then do c <- dumps (to_prim v); Ok (enc c) else Err E_Type.

(* the dataclass constructor: arity, then __post_init__: the long-bytes guard looks at the VALUE of every field --
   isinstance(data, bytes) and len(data) > 64 -- whatever the field's declared type is (bytes, Datum, a Union, a
   Dict[..] annotation, or the unevaluated string of a postponed annotation): `fts` does not occur in the test *)
Definition mk_obj (id : N) (fts : list ty) (vals : list pv) : res pv :=
  if (length vals <? length fts)%nat then Err E_Type
  else if existsb (fun v => match v with PBytes b => (64 <? length b)%nat | _ => false end) vals
       then Err E_InvArg
       else Ok (PObj id fts vals).

(* zip(fields, values) of ArrayCBORSerializable.from_primitive: stops at the shorter list *)
Section ZipM.
  Context {A B C : Type} (f : A -> B -> res C).
  Fixpoint zipM (a : list A) (b : list B) : res (list C) :=
    match a, b with
    | x :: a', y :: b' =>
        match f x y with
        | Ok z => match zipM a' b' with Ok zs => Ok (z :: zs) | Err k => Err k end
        | Err k => Err k
        end
    | _, _ => Ok []
    end.
End ZipM.

(* typing.Union: first alternative that does not raise DeserializeException *)
Section FirstM.
  Context {A : Type} (f : A -> res pv).
  Fixpoint firstM (ts : list A) : res pv :=
    match ts with
    | [] => Err E_Deser
    | t :: r => match f t with
                | Err k => if String.eqb k E_Deser then firstM r else Err k
                | Ok v => Ok v
                end
    end.
End FirstM.

(* _restore_typed_primitive t v, with PlutusData.from_primitive / ArrayCBORSerializable.from_primitive inlined *)
Fixpoint restore (t : ty) (v : pv) {struct t} : res pv :=
  match t with
  | TInt => match v with PInt _ => Ok v | _ => Err E_Deser end
  | TBytes => match v with PBytes _ => Ok v | _ => Err E_Deser end
  | TBStr => match v with PBytes b => Ok (PBStr b) | _ => Err E_Deser end
  | TIList =>
      match v with
      | PIList _ => Ok v
      | PList xs => Ok (PIList xs)
      | PBytes b => Ok (PIList (map (fun x => PInt (Z.of_N (b2n x))) b))
      | PDict kvs => Ok (PIList (map fst kvs))
      | _ => Err E_Deser
      end
  | TList t' =>
      match v with
      | PList xs | PIList xs => do ys <- mapM (restore t') xs; Ok (PList ys)
      | _ => Err E_Deser
      end
  | TDict kt vt =>
      match v with
      | PDict kvs =>
          do ps <- mapM (fun kv => do k <- restore kt (fst kv); do w <- restore vt (snd kv); Ok (k, w)) kvs;
          Ok (PDict (dict_of_list ps))
      | _ => Err E_Deser
      end
  | TCls id fts =>
      let arr (w : pv) : res pv :=
        match w with
        | PList xs | PIList xs => do vals <- zipM restore fts xs; mk_obj id fts vals
        | _ => Err E_Deser
        end in
      match v with
      | PTag tg val =>
          if tg =? 102 then
            match val with
            | PList (c :: r) | PIList (c :: r) =>
                if negb (pv_eqb c (PInt (Z.of_N id))) then Err E_Deser
                else match r with [w] => arr w | _ => Err E_Deser end
            | PList [] | PIList [] => Err E_Index
            | _ => Err E_Type
            end
          else match get_tag id with
               | Some t' => if t' =? tg then arr val else Err E_Deser
               | None => Err E_Deser
               end
      | _ => Err E_Deser
      end
  | TUnion ts => firstM (fun t' => restore t' v) ts
  | TDatum =>
      match v with
      | PInt _ | PBytes _ | PDict _ | PIList _ => Ok v
      | PList xs => Ok (PIList xs)
      | PTag _ _ => Ok (PRaw v)
      | _ => Err E_Deser
      end
  end.

Definition typed_from_cbor (id : N) (fts : list ty) (bs : bytes) : res pv :=
  do c <- decode_res bs; do v <- loads c; restore (TCls id fts) v.

(* PlutusData.to_dict._dfs *)
Fixpoint t_dict (v : pv) : res json :=
  match v with
  | PInt z => Ok (JInt z)
  | PBytes b | PBStr b => Ok (JBytes b)
  | PList xs | PIList xs => do js <- mapM t_dict xs; Ok (JList js)
  | PDict kvs =>
      do js <- mapM (fun kv => do w <- t_dict (snd kv); do k <- t_dict (fst kv); Ok (k, w)) kvs; Ok (JMap js)
  | PObj id _ fs => do js <- mapM t_dict fs; Ok (JCon id js)
  | PRaw w => r_dict (r_to_prim w)
  | PTag _ _ => Err E_Type
  end.

(* PlutusData.from_dict of the class (id, fts): _dfs with the field dispatch inlined.
   `pp` = the class (and every class it mentions) is declared under `from __future__ import annotations` (postponed
   evaluation of annotations) and ArrayCBORSerializable.from_primitive has not yet run on it: dataclasses.Field.type
   is then the SOURCE STRING of the annotation.  validate() and from_primitive read typing.get_type_hints and are
   unaffected; __post_init__ reads f.type only to reject invalid field classes (a string is not a class: nothing is
   rejected) and applies the long-bytes guard to every field value whatever the declared type; from_dict reads
   f.type raw: a string is not a class, is not Datum and has no __origin__, so every field is converted by the
   generic _dfs of the OUTER class -- exactly as a field declared int / bytes / ByteString / IndefiniteList is. *)
Definition is_cls (t : ty) : bool := match t with TCls _ _ => true | _ => false end.
Definition atomic_ty (t : ty) : bool := match t with TInt | TBytes | TBStr | TIList => true | _ => false end.
Definition erase_ty (t : ty) : ty := if atomic_ty t then t else TInt.

Fixpoint t_undict (pp : bool) (id : N) (fts : list ty) (j : json) {struct j} : res pv :=
  match j with
  | JCon i fs =>
      if negb (i =? id) then Err E_Deser else
      do vals <-
        (fix go (fs : list json) (ts : list ty) {struct fs} : res (list pv) :=
           match fs, ts with
           | f :: fr, t :: tr =>
               do v <-
                 (match (if pp then erase_ty t else t) with
                  | TCls id' fts' => t_undict pp id' fts' f
                  | TDatum => do w <- r_undict f; Ok (PRaw w)
                  | TUnion alts =>
                      match f with
                      | JCon c _ =>
                          (fix pick (l : list ty) : res pv :=
                             match l with
                             | [] => Err E_Deser
                             | TCls idk ftsk :: l' => if idk =? c then t_undict pp idk ftsk f else pick l'
                             | _ :: l' => pick l'
                             end) alts
                      (* f["constructor"] is evaluated for the first alternative that is a PlutusData class
                         (KeyError); without such an alternative nothing matches (DeserializeException) *)
                      | _ => if existsb is_cls alts then Err E_Key else Err E_Deser
                      end
                  | TList t' =>
                      match f with
                      | JList _ =>
                          match t' with
                          | TCls id' fts' => t_undict pp id' fts' f
                          | _ => t_undict pp id fts f
                          end
                      | _ => Err E_Deser
                      end
                  | TDict kt vt =>
                      match f with
                      | JMap kvs =>
                          do ps <- mapM (fun kv =>
                                   do k <- (match kt with TCls id' fts' => t_undict pp id' fts' (fst kv)
                                                     | _ => t_undict pp id fts (fst kv) end);
                                   do w <- (match vt with TCls id' fts' => t_undict pp id' fts' (snd kv)
                                                     | _ => t_undict pp id fts (snd kv) end);
                                   if hashable false k then Ok (k, w) else Err E_Type) kvs;
                          Ok (PDict (dict_of_list ps))
                      | _ => Err E_Deser
                      end
                  | _ => t_undict pp id fts f
                  end);
               do vs <- go fr tr; Ok (v :: vs)
           | _, _ => Ok []
           end) fs fts;
      mk_obj id fts vals
  | JMap kvs =>
      do ps <- mapM (fun kv => do k <- t_undict pp id fts (fst kv); do w <- t_undict pp id fts (snd kv);
                               if hashable false k then Ok (k, w) else Err E_Type) kvs;
      Ok (PDict (dict_of_list ps))
  | JInt z => Ok (PInt z)
  | JBytes b => Ok (if (32 <? length b)%nat then PBStr b else PBytes b)
  | JList xs => do ys <- mapM (t_undict pp id fts) xs; Ok (PIList ys)
  end.

(* ================================================================== abstraction to data *)
Definition untag_id (t : N) : N :=
  if (121 <=? t) && (t <? 128) then t - 121 else t - 1280 + 7.

Definition unlist (d : data) : list data := match d with List xs => xs | _ => [] end.

Fixpoint abs (v : pv) : data :=
  match v with
  | PInt z => I z
  | PBytes b | PBStr b => Bs b
  | PList xs | PIList xs => List (map abs xs)
  | PDict kvs => Map (map (fun kv => (abs (fst kv), abs (snd kv))) kvs)
  | PTag t x =>
      if t =? 102 then
        match x with
        | PList [PInt c; w] | PIList [PInt c; w] => Constr (Z.to_N c) (unlist (abs w))
        | _ => Constr 0 []
        end
      else Constr (untag_id t) (unlist (abs x))
  | PObj id _ fs => Constr id (map abs fs)
  | PRaw w => abs w
  end.

(* ================================================================== canonical Python shapes *)
Definition seqv (xs : list pv) : pv := match xs with [] => PList [] | _ => PIList xs end.

(* what a user builds / what to_primitive normalises to: ByteString for long bytes *)
Fixpoint raw_canon (d : data) : pv :=
  match d with
  | Constr i fs =>
      let v := seqv (map raw_canon fs) in
      match tag_spec i with
      | Some t => PTag t v
      | None => PTag 102 (PList [PInt (Z.of_N i); v])
      end
  | Map kvs => PDict (map (fun kv => (raw_canon (fst kv), raw_canon (snd kv))) kvs)
  | List xs => seqv (map raw_canon xs)
  | I z => PInt z
  | Bs b => if (length b <=? 64)%nat then PBytes b else PBStr b
  end.

(* what the decoder yields for the canonical bytes: chunked strings joined into plain bytes *)
Fixpoint raw_dec (d : data) : pv :=
  match d with
  | Constr i fs =>
      let v := seqv (map raw_dec fs) in
      match tag_spec i with
      | Some t => PTag t v
      | None => PTag 102 (PList [PInt (Z.of_N i); v])
      end
  | Map kvs => PDict (map (fun kv => (raw_dec (fst kv), raw_dec (snd kv))) kvs)
  | List xs => seqv (map raw_dec xs)
  | I z => PInt z
  | Bs b => PBytes b
  end.

(* Python lists everywhere (what RawPlutusData.to_primitive is written to normalise) *)
Fixpoint raw_py (d : data) : pv :=
  match d with
  | Constr i fs =>
      let v := PList (map raw_py fs) in
      match tag_spec i with
      | Some t => PTag t v
      | None => PTag 102 (PList [PInt (Z.of_N i); v])
      end
  | Map kvs => PDict (map (fun kv => (raw_py (fst kv), raw_py (snd kv))) kvs)
  | List xs => PList (map raw_py xs)
  | I z => PInt z
  | Bs b => if (length b <=? 64)%nat then PBytes b else PBStr b
  end.

(* what RawPlutusData.from_dict builds from json_of d: Python list for the fields of a compact-tag constructor,
   IndefiniteList for every JSON list and for the fields of a tag-102 constructor, ByteString above 32 bytes *)
Fixpoint raw_json (d : data) : pv :=
  match d with
  | Constr i fs =>
      match tag_spec i with
      | Some t => PTag t (PList (map raw_json fs))
      | None => PTag 102 (PList [PInt (Z.of_N i); PIList (map raw_json fs)])
      end
  | Map kvs => PDict (map (fun kv => (raw_json (fst kv), raw_json (snd kv))) kvs)
  | List xs => PIList (map raw_json xs)
  | I z => PInt z
  | Bs b => if (32 <? length b)%nat then PBStr b else PBytes b
  end.

(* building the Python object: every dict literal is filled key by key *)
Fixpoint pynorm (v : pv) : pv :=
  match v with
  | PList xs => PList (map pynorm xs)
  | PIList xs => PIList (map pynorm xs)
  | PDict kvs => PDict (dict_of_list (map (fun kv => (pynorm (fst kv), pynorm (snd kv))) kvs))
  | PTag t x => PTag t (pynorm x)
  | PObj id fts fs => PObj id fts (map pynorm fs)
  | PRaw w => PRaw (pynorm w)
  | _ => v
  end.
