(* Bech32Proofs.v — proofs about the model Bech32.v:
   A. polymod is affine over XOR (linear part L), bounds, the finite single-error table
   B. create_checksum / verify_checksum consistency (Bech32 and Bech32m)
   C. bech32_decode (bech32_encode ..) round trip; single-substitution rejection
   D. convertbits 8 -> 5 -> 8 round trip (bit-string view)
   E. polymod = remainder modulo g(x) over GF(32) (independent BIP-173 specification) *)
From Coq Require Import NArith ZArith Ascii String List Bool Lia PeanoNat.
From Coq Require Import ZifyBool ZifyN ZifyNat.
From PyC Require Import Base Bech32.
Import ListNotations.
Open Scope N_scope.

(* ================================================================= A. linearity *)
Definition gfold (top : N) : N :=
  fold_left (fun c ig => N.lxor c (if N.testbit top (fst ig) then snd ig else 0))
            (combine [0; 1; 2; 3; 4] generator) 0.
(* linear part of one polymod step *)
Definition L (chk : N) : N := N.lxor (N.shiftl (N.land chk 0x1FFFFFF) 5) (gfold (N.shiftr chk 25)).
Definition polymod_from (c0 : N) (vs : list N) : N := fold_left polymod_step vs c0.
Fixpoint Lpow (k : nat) (e : N) : N := match k with O => e | S k' => Lpow k' (L e) end.

Lemma fold_lxor_shift {A} (f : A -> N) (l : list A) : forall c,
  fold_left (fun c x => N.lxor c (f x)) l c = N.lxor c (fold_left (fun c x => N.lxor c (f x)) l 0).
Proof.
  induction l as [|x l IH]; intros c; cbn [fold_left].
  - now rewrite N.lxor_0_r.
  - rewrite IH, (IH (N.lxor 0 (f x))), N.lxor_0_l, N.lxor_assoc. reflexivity.
Qed.

Lemma polymod_step_L chk v : polymod_step chk v = N.lxor (L chk) v.
Proof.
  unfold polymod_step, L, gfold. rewrite fold_lxor_shift.
  rewrite !N.lxor_assoc. f_equal. apply N.lxor_comm.
Qed.

Definition all32 : list N := map N.of_nat (seq 0 32).
Lemma in_all32 a : a < 32 -> In a all32.
Proof.
  intros H. unfold all32. apply in_map_iff. exists (N.to_nat a). split; [lia|].
  apply in_seq. lia.
Qed.
Lemma all32_lt a : In a all32 -> a < 32.
Proof. unfold all32. intros H. apply in_map_iff in H as (n & <- & H). apply in_seq in H. lia. Qed.

Lemma gfold_lin_fin :
  forallb (fun a => forallb (fun b => gfold (N.lxor a b) =? N.lxor (gfold a) (gfold b)) all32) all32 = true.
Proof. vm_compute. reflexivity. Qed.
Lemma gfold_lin a b : a < 32 -> b < 32 -> gfold (N.lxor a b) = N.lxor (gfold a) (gfold b).
Proof.
  intros Ha Hb. pose proof gfold_lin_fin as F.
  rewrite forallb_forall in F. specialize (F a (in_all32 a Ha)).
  rewrite forallb_forall in F. specialize (F b (in_all32 b Hb)).
  now apply N.eqb_eq.
Qed.
Lemma gfold_bound_fin : forallb (fun a => gfold a <? 2 ^ 30) all32 = true.
Proof. vm_compute. reflexivity. Qed.
Lemma gfold_bound a : a < 32 -> gfold a < 2 ^ 30.
Proof.
  intros Ha. pose proof gfold_bound_fin as F. rewrite forallb_forall in F.
  specialize (F a (in_all32 a Ha)). now apply N.ltb_lt.
Qed.

Lemma shiftr25_lt a : a < 2 ^ 30 -> N.shiftr a 25 < 32.
Proof.
  intros. rewrite N.shiftr_div_pow2. apply N.div_lt_upper_bound; [easy|].
  change (2 ^ 25 * 32) with (2 ^ 30). exact H.
Qed.

Lemma land_lxor_distr_l a b c : N.land (N.lxor a b) c = N.lxor (N.land a c) (N.land b c).
Proof.
  apply N.bits_inj; intro n. rewrite N.land_spec, !N.lxor_spec, !N.land_spec.
  destruct (N.testbit a n), (N.testbit b n), (N.testbit c n); reflexivity.
Qed.

Lemma lxor_lt_pow2 a b n : a < 2 ^ n -> b < 2 ^ n -> N.lxor a b < 2 ^ n.
Proof.
  intros Ha Hb.
  destruct (N.eq_dec a 0) as [->|Na]; [now rewrite N.lxor_0_l|].
  destruct (N.eq_dec b 0) as [->|Nb]; [now rewrite N.lxor_0_r|].
  destruct (N.eq_dec (N.lxor a b) 0) as [->|Nx]; [lia|].
  apply N.log2_lt_pow2; [lia|].
  apply N.log2_lt_pow2 in Ha; [|lia]. apply N.log2_lt_pow2 in Hb; [|lia].
  pose proof (N.log2_lxor a b). lia.
Qed.

Lemma L_lin a b : a < 2 ^ 30 -> b < 2 ^ 30 -> L (N.lxor a b) = N.lxor (L a) (L b).
Proof.
  intros Ha Hb. unfold L.
  rewrite N.shiftr_lxor, gfold_lin by (apply shiftr25_lt; assumption).
  rewrite land_lxor_distr_l, N.shiftl_lxor.
  rewrite !N.lxor_assoc. f_equal.
  rewrite <- !N.lxor_assoc. f_equal. apply N.lxor_comm.
Qed.

Lemma L_bound a : a < 2 ^ 30 -> L a < 2 ^ 30.
Proof.
  intros Ha. unfold L. apply lxor_lt_pow2.
  - change 0x1FFFFFF with (N.ones 25). rewrite N.land_ones, N.shiftl_mul_pow2.
    pose proof (N.mod_upper_bound a (2 ^ 25)).
    change (2 ^ 30) with (2 ^ 25 * 2 ^ 5). apply N.mul_lt_mono_pos_r; lia.
  - apply gfold_bound, shiftr25_lt, Ha.
Qed.

Lemma L_0 : L 0 = 0.
Proof. reflexivity. Qed.

Lemma step_bound x v : x < 2 ^ 30 -> v < 2 ^ 30 -> polymod_step x v < 2 ^ 30.
Proof. intros. rewrite polymod_step_L. apply lxor_lt_pow2; [now apply L_bound | assumption]. Qed.

Definition small (vs : list N) : Prop := Forall (fun v => v < 2 ^ 30) vs.

Lemma polymod_from_bound vs : forall x, x < 2 ^ 30 -> small vs -> polymod_from x vs < 2 ^ 30.
Proof.
  induction vs as [|v vs IH]; intros x Hx Hs; cbn; [exact Hx|].
  inversion Hs; subst. apply IH; [now apply step_bound | assumption].
Qed.

Lemma polymod_from_app x a b : polymod_from x (a ++ b) = polymod_from (polymod_from x a) b.
Proof. unfold polymod_from. now rewrite fold_left_app. Qed.

(* an XOR-difference e injected into the state propagates as Lpow *)
Lemma polymod_from_lxor post : forall x e, x < 2 ^ 30 -> e < 2 ^ 30 -> small post ->
  polymod_from (N.lxor x e) post = N.lxor (polymod_from x post) (Lpow (length post) e).
Proof.
  induction post as [|v post IH]; intros x e Hx He Hs; cbn [polymod_from fold_left length Lpow].
  - reflexivity.
  - inversion Hs; subst. fold (polymod_from (polymod_step (N.lxor x e) v) post).
    fold (polymod_from (polymod_step x v) post).
    replace (polymod_step (N.lxor x e) v) with (N.lxor (polymod_step x v) (L e)).
    + apply IH; [now apply step_bound | now apply L_bound | assumption].
    + rewrite !polymod_step_L, L_lin by assumption.
      rewrite !N.lxor_assoc. f_equal. apply N.lxor_comm.
Qed.

(* substituting one input value d by d' changes the result by Lpow |post| (d xor d') *)
Lemma polymod_subst pre d d' post : small pre -> d < 2 ^ 30 -> d' < 2 ^ 30 -> small post ->
  bech32_polymod (pre ++ d' :: post) =
  N.lxor (bech32_polymod (pre ++ d :: post)) (Lpow (length post) (N.lxor d d')).
Proof.
  intros Hp Hd Hd' Hs. unfold bech32_polymod. fold (polymod_from 1 (pre ++ d' :: post)).
  fold (polymod_from 1 (pre ++ d :: post)). rewrite !polymod_from_app.
  set (x := polymod_from 1 pre). assert (Hx : x < 2 ^ 30) by (apply polymod_from_bound; [reflexivity | assumption]).
  cbn [polymod_from fold_left]. fold (polymod_from (polymod_step x d') post). fold (polymod_from (polymod_step x d) post).
  replace (polymod_step x d') with (N.lxor (polymod_step x d) (N.lxor d d')).
  - apply polymod_from_lxor; [now apply step_bound | now apply lxor_lt_pow2 | assumption].
  - rewrite !polymod_step_L. rewrite N.lxor_assoc. f_equal.
    rewrite <- N.lxor_assoc, N.lxor_nilpotent, N.lxor_0_l. reflexivity.
Qed.

(* ---------- the finite single-error table ----------
   For every distance k < 120 from the end and every non-zero 5-bit difference e, the effect
   L^k e on the checksum residue is neither 0 nor the Bech32 <-> Bech32m difference. *)
Definition TABLE_K : nat := 120.
Definition bad_delta (x : N) : bool := (x =? 0) || (x =? N.lxor BECH32_CONST BECH32M_CONST).
Definition table_check (K : nat) (l : list N) : bool :=
  forallb (fun k => forallb (fun e => negb (bad_delta (Lpow k e))) l) (seq 0 K).
Lemma single_error_table : table_check TABLE_K (tl all32) = true.
Proof. vm_compute. reflexivity. Qed.

(* (generic in K, l so that the kernel never has to re-evaluate the table by conversion) *)
Lemma table_gen K l : table_check K l = true ->
  forall k e, (k < K)%nat -> In e l -> bad_delta (Lpow k e) = false.
Proof.
  unfold table_check. intros H k e Hk He. rewrite forallb_forall in H.
  specialize (H k ltac:(apply in_seq; lia)).
  rewrite forallb_forall in H. apply negb_true_iff. now apply H.
Qed.
Lemma in_tl_all32 e : 0 < e < 32 -> In e (tl all32).
Proof.
  intros He. unfold all32. change (seq 0 32) with (0%nat :: seq 1 31). cbn [map tl].
  apply in_map_iff. exists (N.to_nat e). split; [lia|]. apply in_seq. lia.
Qed.
Lemma table_use k e : (k < TABLE_K)%nat -> 0 < e < 32 -> bad_delta (Lpow k e) = false.
Proof.
  intros Hk He. apply (table_gen TABLE_K (tl all32) single_error_table); [assumption | now apply in_tl_all32].
Qed.

Lemma lxor_lt32 a b : a < 32 -> b < 32 -> N.lxor a b < 32.
Proof. change 32 with (2 ^ 5). apply lxor_lt_pow2. Qed.

Definition is_valid_const (c : N) : bool := (c =? BECH32_CONST) || (c =? BECH32M_CONST).

(* a valid residue xor a table entry is never a valid residue *)
Lemma valid_xor_delta c k e : (k < TABLE_K)%nat -> 0 < e < 32 ->
  is_valid_const c = true -> is_valid_const (N.lxor c (Lpow k e)) = false.
Proof.
  intros Hk He Hc. pose proof (table_use k e Hk He) as T. unfold bad_delta in T.
  apply orb_false_iff in T as [T0 T1]. apply N.eqb_neq in T0, T1.
  unfold is_valid_const in *. apply orb_true_iff in Hc.
  apply orb_false_iff. split; apply N.eqb_neq; intros E.
  - destruct Hc as [Hc|Hc]; apply N.eqb_eq in Hc; subst c.
    + apply T0. apply (f_equal (N.lxor BECH32_CONST)) in E.
      rewrite <- N.lxor_assoc, !N.lxor_nilpotent, N.lxor_0_l in E. exact E.
    + apply T1. apply (f_equal (N.lxor BECH32M_CONST)) in E.
      rewrite <- N.lxor_assoc, !N.lxor_nilpotent, N.lxor_0_l in E. rewrite E. apply N.lxor_comm.
  - destruct Hc as [Hc|Hc]; apply N.eqb_eq in Hc; subst c.
    + apply T1. apply (f_equal (N.lxor BECH32_CONST)) in E.
      rewrite <- N.lxor_assoc, !N.lxor_nilpotent, N.lxor_0_l in E. exact E.
    + apply T0. apply (f_equal (N.lxor BECH32M_CONST)) in E.
      rewrite <- N.lxor_assoc, !N.lxor_nilpotent, N.lxor_0_l in E. exact E.
Qed.

Lemma verify_is_valid hrp data :
  verify_checksum hrp data = None <-> is_valid_const (bech32_polymod (hrp_expand hrp ++ data)) = false.
Proof.
  unfold verify_checksum, is_valid_const.
  destruct (_ =? BECH32_CONST); [cbn; split; discriminate|].
  destruct (_ =? BECH32M_CONST); cbn; split; try discriminate; reflexivity.
Qed.

(* ================================================================= B. create / verify *)
Lemma testbit_high a k n : a < 2 ^ k -> k <= n -> N.testbit a n = false.
Proof. intros Ha Hn. rewrite <- (N.mod_small a (2 ^ k)) by assumption. now apply N.mod_pow2_bits_high. Qed.

Lemma lxor_shiftl_add a c k : c < 2 ^ k -> N.lxor (N.shiftl a k) c = a * 2 ^ k + c.
Proof.
  intros Hc. rewrite <- N.shiftl_mul_pow2. symmetry. apply N.add_nocarry_lxor.
  apply N.bits_inj; intro n. rewrite N.land_spec, N.bits_0.
  destruct (N.lt_ge_cases n k) as [Hn|Hn].
  - now rewrite N.shiftl_spec_low.
  - rewrite (testbit_high c k n) by assumption. apply andb_false_r.
Qed.

Lemma lxor_swap4 a b c d : N.lxor (N.lxor a b) (N.lxor c d) = N.lxor (N.lxor a c) (N.lxor b d).
Proof.
  apply N.bits_inj; intro n. rewrite !N.lxor_spec.
  destruct (N.testbit a n), (N.testbit b n), (N.testbit c n), (N.testbit d n); reflexivity.
Qed.

Fixpoint zipxor (a b : list N) : list N :=
  match a, b with x :: a', y :: b' => N.lxor x y :: zipxor a' b' | _, _ => [] end.

Lemma polymod_from_lin2 vs : forall ws x y, length vs = length ws ->
  x < 2 ^ 30 -> y < 2 ^ 30 -> small vs -> small ws ->
  polymod_from (N.lxor x y) (zipxor vs ws) = N.lxor (polymod_from x vs) (polymod_from y ws).
Proof.
  induction vs as [|v vs IH]; intros [|w ws] x y Hl Hx Hy Hv Hw; try discriminate; cbn [zipxor polymod_from fold_left].
  - reflexivity.
  - inversion Hv; inversion Hw; subst. injection Hl as Hl.
    fold (polymod_from (polymod_step x v) vs). fold (polymod_from (polymod_step y w) ws).
    fold (polymod_from (polymod_step (N.lxor x y) (N.lxor v w)) (zipxor vs ws)).
    replace (polymod_step (N.lxor x y) (N.lxor v w)) with (N.lxor (polymod_step x v) (polymod_step y w)).
    + apply IH; try assumption; now apply step_bound.
    + rewrite !polymod_step_L, L_lin by assumption. apply lxor_swap4.
Qed.

Lemma L_small x : x < 2 ^ 25 -> L x = x * 32.
Proof.
  intros Hx. unfold L. change 0x1FFFFFF with (N.ones 25).
  rewrite N.land_ones, N.mod_small, N.shiftr_div_pow2, N.div_small by assumption.
  change (gfold 0) with 0. rewrite N.lxor_0_r, N.shiftl_mul_pow2. reflexivity.
Qed.
Lemma step_small x v : x < 2 ^ 25 -> v < 32 -> polymod_step x v = x * 32 + v.
Proof.
  intros Hx Hv. rewrite polymod_step_L, L_small by assumption.
  transitivity (N.lxor (N.shiftl x 5) v).
  - now rewrite N.shiftl_mul_pow2.
  - now rewrite (lxor_shiftl_add x v 5) by assumption.
Qed.

Lemma polymod_from_0_six c0 c1 c2 c3 c4 c5 :
  c0 < 32 -> c1 < 32 -> c2 < 32 -> c3 < 32 -> c4 < 32 -> c5 < 32 ->
  polymod_from 0 [c0; c1; c2; c3; c4; c5] = ((((c0 * 32 + c1) * 32 + c2) * 32 + c3) * 32 + c4) * 32 + c5.
Proof.
  intros. cbn [polymod_from fold_left].
  change (2 ^ 25) with 33554432 in *.
  rewrite (step_small 0 c0) by (change (2 ^ 25) with 33554432; lia).
  rewrite (step_small _ c1) by (change (2 ^ 25) with 33554432; lia).
  rewrite (step_small _ c2) by (change (2 ^ 25) with 33554432; lia).
  rewrite (step_small _ c3) by (change (2 ^ 25) with 33554432; lia).
  rewrite (step_small _ c4) by (change (2 ^ 25) with 33554432; lia).
  rewrite (step_small _ c5) by (change (2 ^ 25) with 33554432; lia).
  lia.
Qed.

Definition split6 (q : N) : list N := map (fun i => N.land (N.shiftr q (5 * (5 - i))) 31) [0; 1; 2; 3; 4; 5].

Lemma split6_lt q : Forall (fun v => v < 32) (split6 q).
Proof.
  unfold split6. apply Forall_forall. intros v Hv. apply in_map_iff in Hv as (i & <- & _).
  change 31 with (N.ones 5). rewrite N.land_ones. now apply N.mod_upper_bound.
Qed.

Lemma land31_lt x : N.land x 31 < 32.
Proof. change 31 with (N.ones 5). rewrite N.land_ones. now apply N.mod_upper_bound. Qed.

Ltac Zify.zify_post_hook ::= Z.to_euclidean_division_equations.
Lemma polymod_from_0_split6 q : q < 2 ^ 30 -> polymod_from 0 (split6 q) = q.
Proof.
  intros Hq. unfold split6. cbn [map].
  rewrite polymod_from_0_six by apply land31_lt.
  change (5 * (5 - 0)) with 25. change (5 * (5 - 1)) with 20. change (5 * (5 - 2)) with 15.
  change (5 * (5 - 3)) with 10. change (5 * (5 - 4)) with 5. change (5 * (5 - 5)) with 0.
  change 31 with (N.ones 5). rewrite !N.land_ones, !N.shiftr_div_pow2.
  change (2 ^ 30) with 1073741824 in Hq. change (2 ^ 25) with 33554432. change (2 ^ 20) with 1048576.
  change (2 ^ 15) with 32768. change (2 ^ 10) with 1024. change (2 ^ 5) with 32. change (2 ^ 0) with 1.
  lia.
Qed.

Lemma small_app a b : small a -> small b -> small (a ++ b).
Proof. apply Forall_app_intro || (intros; apply Forall_app; now split). Qed.
Lemma small_of_lt32 l : Forall (fun v => v < 32) l -> small l.
Proof. apply Forall_impl. intros a Ha. change (2 ^ 30) with 1073741824. lia. Qed.

(* appending split6 (P xor c) after `values` where P = polymod (values ++ 000000) yields residue c *)
Lemma polymod_checksum values c : small values -> c < 2 ^ 30 ->
  bech32_polymod (values ++ split6 (N.lxor (bech32_polymod (values ++ [0; 0; 0; 0; 0; 0])) c)) = c.
Proof.
  intros Hs Hc. unfold bech32_polymod. fold (polymod_from 1 (values ++ [0; 0; 0; 0; 0; 0])).
  set (q := N.lxor _ c).
  fold (polymod_from 1 (values ++ split6 q)). rewrite polymod_from_app.
  set (x := polymod_from 1 values) in *.
  assert (Hx : x < 2 ^ 30) by (apply polymod_from_bound; [reflexivity | assumption]).
  assert (Hz : small [0; 0; 0; 0; 0; 0]) by (repeat constructor).
  assert (Hq : q < 2 ^ 30).
  { apply lxor_lt_pow2; [|assumption]. rewrite polymod_from_app. fold x. now apply polymod_from_bound. }
  replace (split6 q) with (zipxor [0; 0; 0; 0; 0; 0] (split6 q)) by (unfold split6; cbn [map zipxor]; now rewrite !N.lxor_0_l).
  rewrite <- (N.lxor_0_r x).
  rewrite polymod_from_lin2; try assumption; try reflexivity.
  - rewrite polymod_from_0_split6 by assumption. subst q. rewrite polymod_from_app. fold x.
    rewrite <- N.lxor_assoc, N.lxor_nilpotent. apply N.lxor_0_l.
  - apply small_of_lt32, split6_lt.
Qed.

Definition hrp_ok (hrp : str) : Prop := Forall (fun x => x < 128) hrp.
Definition data_ok (data : list N) : Prop := Forall (fun v => v < 32) data.

Lemma hrp_expand_small hrp : hrp_ok hrp -> small (hrp_expand hrp).
Proof.
  intros H. unfold hrp_expand. apply small_app; [|apply small_app].
  - apply Forall_forall. intros v Hv. apply in_map_iff in Hv as (x & <- & Hx).
    rewrite N.shiftr_div_pow2. eapply N.le_lt_trans; [apply N.div_le_upper_bound with (q := x); [easy|]|].
    + change (2 ^ 5) with 32. lia.
    + eapply Forall_forall in H; [|exact Hx]. cbn in H. change (2 ^ 30) with 1073741824. lia.
  - repeat constructor.
  - apply Forall_forall. intros v Hv. apply in_map_iff in Hv as (x & <- & Hx).
    change 31 with (N.ones 5). rewrite N.land_ones. pose proof (N.mod_upper_bound x (2 ^ 5)).
    change (2 ^ 5) with 32 in *. change (2 ^ 30) with 1073741824. lia.
Qed.

Definition spec_result (spec : option encoding) : encoding := match spec with Some BECH32M => BECH32M | _ => BECH32 end.

(* BIP-173 / BIP-350 consistency: a created checksum verifies, with the intended constant *)
Theorem create_verify hrp data spec : hrp_ok hrp -> data_ok data ->
  verify_checksum hrp (data ++ create_checksum hrp data spec) = Some (spec_result spec).
Proof.
  intros Hh Hd. unfold verify_checksum, create_checksum.
  fold (split6 (N.lxor (bech32_polymod ((hrp_expand hrp ++ data) ++ [0; 0; 0; 0; 0; 0]))
                       (match spec with Some BECH32M => BECH32M_CONST | _ => BECH32_CONST end))).
  rewrite app_assoc, polymod_checksum.
  - destruct spec as [[|]|]; reflexivity.
  - apply small_app; [now apply hrp_expand_small | now apply small_of_lt32].
  - destruct spec as [[|]|]; reflexivity.
Qed.

Lemma create_checksum_lt hrp data spec : data_ok (create_checksum hrp data spec).
Proof. unfold create_checksum. apply split6_lt. Qed.
Lemma create_checksum_length hrp data spec : length (create_checksum hrp data spec) = 6%nat.
Proof. reflexivity. Qed.

(* ================================================================= C. strings *)
(* ---------- finite facts about CHARSET ---------- *)
Definition charset_char_ok (c : N) : bool :=
  negb (c =? 49) && (lowerc c =? c) && negb (bad_char c) && (find c CHARSET <? 32)
  && match nth_error CHARSET (N.to_nat (find c CHARSET)) with Some c' => c' =? c | None => false end.
Lemma charset_chars_fin : forallb charset_char_ok CHARSET = true.
Proof. vm_compute. reflexivity. Qed.
Definition charset_index_ok (d : N) : bool :=
  match nth_error CHARSET (N.to_nat d) with Some c => mem c CHARSET && (find c CHARSET =? d) | None => false end.
Lemma charset_index_fin : forallb charset_index_ok all32 = true.
Proof. vm_compute. reflexivity. Qed.

Lemma mem_In x l : mem x l = true <-> In x l.
Proof.
  unfold mem. rewrite existsb_exists. split.
  - intros (y & Hy & E). apply N.eqb_eq in E. now subst.
  - intros H. exists x. split; [assumption | apply N.eqb_refl].
Qed.
Lemma charset_char x : mem x CHARSET = true ->
  x <> 49 /\ lowerc x = x /\ bad_char x = false /\ find x CHARSET < 32
  /\ nth_error CHARSET (N.to_nat (find x CHARSET)) = Some x.
Proof.
  intros H. apply mem_In in H. pose proof charset_chars_fin as F. rewrite forallb_forall in F.
  specialize (F x H). unfold charset_char_ok in F.
  repeat (apply andb_true_iff in F as [F ?]).
  apply negb_true_iff, N.eqb_neq in F. apply N.eqb_eq in H3. apply negb_true_iff in H2. apply N.ltb_lt in H1.
  destruct (nth_error _ _) as [c'|]; [|discriminate]. apply N.eqb_eq in H0. subst. repeat split; assumption.
Qed.
Lemma charset_index d : d < 32 ->
  exists c, nth_error CHARSET (N.to_nat d) = Some c /\ mem c CHARSET = true /\ find c CHARSET = d.
Proof.
  intros H. pose proof charset_index_fin as F. rewrite forallb_forall in F.
  specialize (F d (in_all32 d H)). unfold charset_index_ok in F.
  destruct (nth_error _ _) as [c|]; [|discriminate]. exists c.
  apply andb_true_iff in F as [F1 F2]. apply N.eqb_eq in F2. now repeat split.
Qed.
Lemma find_inj x y : mem x CHARSET = true -> mem y CHARSET = true -> find x CHARSET = find y CHARSET -> x = y.
Proof.
  intros Hx Hy E. destruct (charset_char x Hx) as (_ & _ & _ & _ & Nx).
  destruct (charset_char y Hy) as (_ & _ & _ & _ & Ny). rewrite E in Nx. congruence.
Qed.

Definition in_charset (chars : str) : Prop := Forall (fun x => mem x CHARSET = true) chars.
Lemma in_charset_forallb chars : forallb (fun x => mem x CHARSET) chars = true <-> in_charset chars.
Proof. unfold in_charset. rewrite forallb_forall, Forall_forall. reflexivity. Qed.
Lemma in_charset_no_sep chars : in_charset chars -> ~ In 49 chars.
Proof. intros H Hin. eapply Forall_forall in H; [|exact Hin]. now apply charset_char in H. Qed.
Lemma find_lt_all chars : in_charset chars -> data_ok (map (fun x => find x CHARSET) chars).
Proof.
  intros H. unfold data_ok. apply Forall_forall. intros v Hv. apply in_map_iff in Hv as (x & <- & Hx).
  eapply Forall_forall in H; [|exact Hx]. now apply charset_char in H.
Qed.

Lemma charset_get_ok ds : data_ok ds ->
  exists chars, charset_get ds = Some chars /\ in_charset chars /\ map (fun x => find x CHARSET) chars = ds.
Proof.
  induction ds as [|d ds IH]; intros H.
  - exists []. repeat split. constructor.
  - inversion H; subst. destruct (IH H3) as (chars & E & Hc & Hm).
    destruct (charset_index d H2) as (c & Hn & Hmem & Hf).
    exists (c :: chars). cbn [charset_get]. rewrite Hn, E. repeat split.
    + now constructor.
    + cbn [map]. now rewrite Hf, Hm.
Qed.

(* ---------- rfind ---------- *)
Lemma rfind_None c s : rfind c s = None <-> ~ In c s.
Proof.
  induction s as [|x s IH]; cbn.
  - split; [intros _ []|reflexivity].
  - destruct (rfind c s) as [p|] eqn:E.
    + split; [discriminate|]. intros H. exfalso. apply H. right.
      destruct (in_dec N.eq_dec c s) as [Hin|Hn]; [assumption|]. apply IH in Hn. discriminate.
    + destruct (N.eqb_spec x c) as [->|Hne].
      * split; [discriminate|]. intros H. exfalso. apply H. now left.
      * split; [|reflexivity]. intros _ [Hx|Hin]; [congruence|]. now apply IH in Hin.
Qed.
Lemma rfind_app_sep c h d : ~ In c d -> rfind c (h ++ c :: d) = Some (length h).
Proof.
  intros Hd. induction h as [|x h IH]; cbn.
  - apply rfind_None in Hd. rewrite Hd, N.eqb_refl. reflexivity.
  - now rewrite IH.
Qed.
Lemma rfind_Some c s p : rfind c s = Some p ->
  s = firstn p s ++ c :: skipn (S p) s /\ ~ In c (skipn (S p) s) /\ (p < length s)%nat.
Proof.
  revert p. induction s as [|x s IH]; intros p H; cbn in H; [discriminate|].
  destruct (rfind c s) as [q|] eqn:E.
  - injection H as <-. destruct (IH q eq_refl) as (Hs & Hn & Hl).
    change (skipn (S (S q)) (x :: s)) with (skipn (S q) s).
    change (firstn (S q) (x :: s)) with (x :: firstn q s). cbn [app length].
    repeat split; [now rewrite <- Hs | exact Hn | lia].
  - destruct (N.eqb_spec x c) as [->|Hne]; [|discriminate]. injection H as <-. cbn.
    repeat split; [|lia]. now apply rfind_None.
Qed.
Lemma rfind_map_stable c f s : (forall x, f x = c <-> x = c) -> rfind c (map f s) = rfind c s.
Proof.
  intros Hf. induction s as [|x s IH]; cbn; [reflexivity|]. rewrite IH.
  destruct (rfind c s); [reflexivity|].
  destruct (N.eqb_spec (f x) c) as [E|E], (N.eqb_spec x c) as [E'|E']; try reflexivity.
  - apply (proj1 (Hf x)) in E. contradiction.
  - exfalso. apply E. now apply (proj2 (Hf x)).
Qed.

(* ---------- substitution of one character ---------- *)
Definition subst (i : nat) (c : N) (s : str) : str := firstn i s ++ c :: skipn (S i) s.

Lemma split_nth (s : str) i : (i < length s)%nat -> s = firstn i s ++ nth i s 0 :: skipn (S i) s.
Proof.
  revert i. induction s as [|x s IH]; intros [|i] H; cbn in *; try lia; [reflexivity|].
  f_equal. apply IH. lia.
Qed.
Lemma subst_length i c s : (i < length s)%nat -> length (subst i c s) = length s.
Proof.
  intros H. unfold subst. rewrite app_length. cbn [length]. rewrite firstn_length, skipn_length. lia.
Qed.
Lemma subst_map f i c s : map f (subst i c s) = subst i (f c) (map f s).
Proof. unfold subst. now rewrite map_app, map_cons, firstn_map, skipn_map. Qed.
Lemma subst_same i s : (i < length s)%nat -> subst i (nth i s 0) s = s.
Proof. intros H. unfold subst. symmetry. now apply split_nth. Qed.
Lemma subst_app_r h x d j c : subst (length h + S j) c (h ++ x :: d) = h ++ x :: subst j c d.
Proof.
  unfold subst. rewrite firstn_app_2. cbn [firstn]. rewrite <- app_assoc. cbn [app]. do 3 f_equal.
  rewrite skipn_app. replace (S (length h + S j) - length h)%nat with (S (S j)) by lia.
  rewrite skipn_all2 by lia. reflexivity.
Qed.
Lemma nth_app_r h x (d : str) j : nth (length h + S j) (h ++ x :: d) 0 = nth j d 0.
Proof. rewrite app_nth2 by lia. replace (length h + S j - length h)%nat with (S j) by lia. reflexivity. Qed.
Lemma subst_In x i c s : In x (subst i c s) -> x = c \/ In x s.
Proof.
  unfold subst. intros H. apply in_app_or in H as [H|[H|H]].
  - right. rewrite <- (firstn_skipn i s). apply in_or_app. now left.
  - now left.
  - right. rewrite <- (firstn_skipn (S i) s). apply in_or_app. now right.
Qed.
Lemma subst_Forall (P : N -> Prop) i c s : P c -> Forall P s -> Forall P (subst i c s).
Proof.
  intros Hc Hs. apply Forall_forall. intros x Hx. apply subst_In in Hx as [->|Hx]; [assumption|].
  eapply Forall_forall in Hs; eassumption.
Qed.

(* ---------- normal form of bech32_decode_lower on  hrp ++ "1" ++ chars ---------- *)
Definition decode_parts (h chars : str) : option (str * list N * encoding) :=
  let n := (length h + 1 + length chars)%nat in
  if Nat.ltb (length h) 1 || Nat.ltb n (length h + 7) || Nat.ltb MAXLEN n then None else
  if negb (forallb (fun x => mem x CHARSET) chars) then None else
  let data := map (fun x => find x CHARSET) chars in
  match verify_checksum h data with
  | None => None
  | Some spec => Some (h, firstn (length data - 6) data, spec)
  end.

Lemma decode_lower_parts h chars : ~ In 49 chars ->
  bech32_decode_lower (h ++ 49 :: chars) = decode_parts h chars.
Proof.
  intros Hn. unfold bech32_decode_lower, decode_parts. rewrite rfind_app_sep by assumption.
  rewrite app_length. cbn [length]. replace (length h + S (length chars))%nat with (length h + 1 + length chars)%nat by lia.
  replace (S (length h)) with (length h + 1)%nat by lia.
  rewrite skipn_app, skipn_all2 by lia. replace (length h + 1 - length h)%nat with 1%nat by lia. cbn [skipn app].
  rewrite firstn_app, firstn_all2 by lia. replace (length h - length h)%nat with 0%nat by lia. cbn [firstn].
  rewrite app_nil_r. reflexivity.
Qed.
Lemma decode_lower_inv s r : bech32_decode_lower s = Some r ->
  exists h chars, s = h ++ 49 :: chars /\ ~ In 49 chars /\ decode_parts h chars = Some r.
Proof.
  intros H. destruct (rfind 49 s) as [p|] eqn:E.
  - destruct (rfind_Some _ _ _ E) as (Hs & Hn & _).
    exists (firstn p s), (skipn (S p) s). repeat split; try assumption.
    rewrite <- decode_lower_parts by assumption. now rewrite <- Hs.
  - unfold bech32_decode_lower in H. rewrite E in H. discriminate.
Qed.

(* ---------- decode (encode ..) ---------- *)
Definition hrp_valid (hrp : str) : Prop :=
  hrp <> [] /\ Forall (fun x => bad_char x = false /\ lowerc x = x) hrp.

Lemma bad_char_lt128 x : bad_char x = false -> x < 128.
Proof. unfold bad_char. lia. Qed.
Lemma hrp_valid_ok hrp : hrp_valid hrp -> hrp_ok hrp.
Proof. intros [_ H]. eapply Forall_impl; [|exact H]. intros a [Ha _]. now apply bad_char_lt128. Qed.

Lemma str_eqb_refl s : str_eqb s s = true.
Proof. induction s; cbn; [reflexivity|]. now rewrite N.eqb_refl. Qed.
Lemma str_eqb_eq a : forall b, str_eqb a b = true <-> a = b.
Proof.
  induction a as [|x a IH]; intros [|y b]; cbn; split; intros H; try easy.
  - apply andb_true_iff in H as [H1 H2]. apply N.eqb_eq in H1. apply IH in H2. now subst.
  - injection H as -> ->. rewrite N.eqb_refl. now apply IH.
Qed.

Lemma existsb_false_Forall {A} (f : A -> bool) l : existsb f l = false <-> Forall (fun x => f x = false) l.
Proof.
  induction l as [|x l IH]; cbn; [split; [constructor | reflexivity]|].
  rewrite orb_false_iff, IH. split; [intros []; now constructor | intros H; inversion H; now split].
Qed.

Lemma map_id_Forall (f : N -> N) l : Forall (fun x => f x = x) l -> map f l = l.
Proof. induction 1 as [|x l Hx _ IH]; cbn [map]; [reflexivity|]. now rewrite Hx, IH. Qed.

Theorem decode_encode hrp data spec : hrp_valid hrp -> data_ok data ->
  (length hrp + 7 + length data <= MAXLEN)%nat ->
  exists s, bech32_encode hrp data spec = Some s /\ bech32_decode s = Some (hrp, data, spec_result spec).
Proof.
  intros Hh Hd Hlen. unfold bech32_encode.
  assert (Hall : data_ok (data ++ create_checksum hrp data spec)).
  { apply Forall_app. split; [assumption | apply create_checksum_lt]. }
  destruct (charset_get_ok _ Hall) as (chars & E & Hc & Hm). rewrite E.
  eexists. split; [reflexivity|]. cbn [app].
  assert (Hl : length chars = (length data + 6)%nat).
  { rewrite <- (map_length (fun x => find x CHARSET) chars), Hm, app_length. reflexivity. }
  assert (Hlow : lower (hrp ++ 49 :: chars) = hrp ++ 49 :: chars).
  { unfold lower. rewrite map_app, map_cons. f_equal; [|f_equal].
    - destruct Hh as [_ Hh]. apply map_id_Forall. eapply Forall_impl; [|exact Hh]. now intros a [_ Ha].
    - apply map_id_Forall. eapply Forall_impl; [|exact Hc]. intros a Ha. now apply charset_char in Ha. }
  unfold bech32_decode. rewrite Hlow.
  replace (existsb bad_char (hrp ++ 49 :: chars)) with false.
  2:{ symmetry. apply existsb_false_Forall. apply Forall_app. split; [|constructor; [reflexivity|]].
      - destruct Hh as [_ Hh]. eapply Forall_impl; [|exact Hh]. now intros a [Ha _].
      - eapply Forall_impl; [|exact Hc]. intros a Ha. now apply charset_char in Ha. }
  unfold mixed_case. rewrite Hlow, str_eqb_refl. cbn [negb andb orb].
  rewrite decode_lower_parts by now apply in_charset_no_sep.
  unfold decode_parts. rewrite Hl.
  destruct Hh as [Hne Hh]. assert (0 < length hrp)%nat by (destruct hrp; [congruence | cbn; lia]).
  replace (Nat.ltb (length hrp) 1) with false by (symmetry; apply Nat.ltb_ge; lia).
  replace (Nat.ltb _ (length hrp + 7)) with false by (symmetry; apply Nat.ltb_ge; lia).
  replace (Nat.ltb MAXLEN _) with false by (symmetry; apply Nat.ltb_ge; lia).
  cbn [orb]. apply in_charset_forallb in Hc. rewrite Hc. cbn [negb].
  rewrite Hm, create_verify; [|now apply hrp_valid_ok; split|assumption].
  rewrite app_length, create_checksum_length.
  replace (length data + 6 - 6)%nat with (length data) by lia.
  rewrite firstn_app, firstn_all, Nat.sub_diag. cbn [firstn]. now rewrite app_nil_r.
Qed.

(* ---------- single substitution in the data part ---------- *)
Lemma decode_parts_Some h chars r : decode_parts h chars = Some r ->
  (1 <= length h)%nat /\ (6 <= length chars)%nat /\ (length h + 1 + length chars <= MAXLEN)%nat
  /\ in_charset chars
  /\ is_valid_const (bech32_polymod (hrp_expand h ++ map (fun x => find x CHARSET) chars)) = true.
Proof.
  unfold decode_parts. intros H.
  destruct (Nat.ltb (length h) 1) eqn:E1; [discriminate|].
  destruct (Nat.ltb _ (length h + 7)) eqn:E2; [discriminate|].
  destruct (Nat.ltb MAXLEN _) eqn:E3; [discriminate|]. cbn [orb] in H.
  destruct (forallb _ chars) eqn:E4; [|discriminate]. cbn [negb] in H.
  apply Nat.ltb_ge in E1, E2, E3. apply in_charset_forallb in E4.
  repeat split; try lia; try assumption.
  destruct (is_valid_const _) eqn:V; [reflexivity|]. apply verify_is_valid in V. now rewrite V in H.
Qed.

Lemma subst_lower_rejected s r i c p :
  Forall (fun x => x < 128) s ->
  bech32_decode_lower s = Some r -> rfind 49 s = Some p -> (p < i < length s)%nat ->
  c <> 49 -> c <> nth i s 0 ->
  bech32_decode_lower (subst i c s) = None.
Proof.
  intros Hs H Hp Hi Hc1 Hcn.
  destruct (decode_lower_inv s r H) as (h & chars & -> & Hn & Hd).
  rewrite rfind_app_sep in Hp by assumption. injection Hp as <-.
  rewrite app_length in Hi. cbn [length] in Hi.
  set (j := (i - length h - 1)%nat). assert (Hj : (j < length chars)%nat) by lia.
  replace i with (length h + S j)%nat in * by lia. clearbody j.
  rewrite nth_app_r in Hcn. rewrite subst_app_r.
  assert (Hn' : ~ In 49 (subst j c chars)).
  { intros Hin. apply subst_In in Hin as [E|Hin]; [congruence | contradiction]. }
  rewrite decode_lower_parts by assumption.
  destruct (decode_parts_Some _ _ _ Hd) as (L1 & L6 & Lm & Hcs & Hv).
  unfold decode_parts. rewrite subst_length by assumption.
  destruct (_ || _ || _); [reflexivity|].
  destruct (forallb _ (subst j c chars)) eqn:Hf; [|reflexivity]. cbn [negb].
  apply in_charset_forallb in Hf.
  assert (Hcm : mem c CHARSET = true).
  { unfold in_charset in Hf. rewrite Forall_forall in Hf. apply Hf. unfold subst. apply in_or_app. right. now left. }
  assert (Hom : mem (nth j chars 0) CHARSET = true).
  { unfold in_charset in Hcs. rewrite Forall_forall in Hcs. apply Hcs. now apply nth_In. }
  replace (verify_checksum h _) with (@None encoding); [reflexivity|]. symmetry. apply verify_is_valid.
  set (fd := fun x => find x CHARSET) in *.
  assert (Hsplit : map fd chars = map fd (firstn j chars) ++ fd (nth j chars 0) :: map fd (skipn (S j) chars)).
  { rewrite (split_nth chars j Hj) at 1. now rewrite map_app. }
  unfold subst. rewrite map_app, map_cons. rewrite Hsplit in Hv.
  rewrite app_assoc in Hv |- *.
  assert (Hpre : small (hrp_expand h ++ map fd (firstn j chars))).
  { apply small_app.
    - apply hrp_expand_small. apply Forall_app in Hs. apply Hs.
    - apply small_of_lt32, find_lt_all. unfold in_charset in *. rewrite <- (firstn_skipn j chars) in Hcs.
      apply Forall_app in Hcs. apply Hcs. }
  assert (Hpost : small (map fd (skipn (S j) chars))).
  { apply small_of_lt32, find_lt_all. unfold in_charset in *. rewrite <- (firstn_skipn (S j) chars) in Hcs.
    apply Forall_app in Hcs. apply Hcs. }
  assert (Hd1 : fd (nth j chars 0) < 32) by now apply charset_char.
  assert (Hd2 : fd c < 32) by now apply charset_char.
  rewrite (polymod_subst _ (fd (nth j chars 0)) (fd c)); try assumption.
  2,3: change (2 ^ 30) with 1073741824; lia.
  apply valid_xor_delta; try assumption.
  - rewrite map_length, skipn_length. unfold TABLE_K, MAXLEN in *. lia.
  - split; [|now apply lxor_lt32].
    destruct (N.eq_dec (N.lxor (fd (nth j chars 0)) (fd c)) 0) as [E|E]; [|lia].
    apply N.lxor_eq in E. apply find_inj in E; try assumption. congruence.
Qed.

Lemma lowerc_49 x : lowerc x = 49 <-> x = 49.
Proof. unfold lowerc. destruct ((65 <=? x) && (x <=? 90)) eqn:E; lia. Qed.
Lemma lowerc_lt x : bad_char x = false -> lowerc x < 128.
Proof. unfold bad_char, lowerc. destruct ((65 <=? x) && (x <=? 90)) eqn:E; lia. Qed.

Lemma decode_Some_facts s r : bech32_decode s = Some r ->
  existsb bad_char s = false /\ mixed_case s = false /\ bech32_decode_lower (lower s) = Some r
  /\ (length s <= MAXLEN)%nat.
Proof.
  unfold bech32_decode. intros H.
  destruct (existsb bad_char s) eqn:E1; [discriminate|]. destruct (mixed_case s) eqn:E2; [discriminate|].
  cbn [orb] in H. repeat split; try assumption.
  destruct (decode_lower_inv _ _ H) as (h & chars & E & _ & Hd).
  apply decode_parts_Some in Hd. rewrite <- (map_length lowerc s). fold (lower s). rewrite E, app_length. cbn [length]. lia.
Qed.

(* THE single-substitution theorem (data part).  Excluded: c = "1" (moves the separator), positions up to and
   including the separator; a case-only change decodes to the SAME result (or is rejected as mixed case). *)
Theorem single_subst s r p i c :
  bech32_decode s = Some r -> rfind 49 s = Some p -> (p < i < length s)%nat ->
  c <> 49 -> c <> nth i s 0 ->
  bech32_decode (subst i c s) = None
  \/ (lowerc c = lowerc (nth i s 0) /\ bech32_decode (subst i c s) = Some r).
Proof.
  intros H Hp Hi Hc Hne. destruct (decode_Some_facts s r H) as (Hb & Hm & Hl & _).
  unfold bech32_decode at 1 3.
  destruct (existsb bad_char (subst i c s) || mixed_case (subst i c s)) eqn:G; [now left|].
  apply orb_false_iff in G as [G1 G2].
  assert (Bc : bad_char c = false).
  { rewrite existsb_false_Forall, Forall_forall in G1. apply G1. unfold subst. apply in_or_app. right. now left. }
  unfold lower. rewrite subst_map. fold (lower s).
  destruct (N.eq_dec (lowerc c) (lowerc (nth i s 0))) as [E|E].
  - right. split; [assumption|]. rewrite E. change 0 with (lowerc 0) at 1. unfold lower. rewrite map_nth.
    change (lowerc 0) with 0. fold (lower s). rewrite subst_same by (unfold lower; rewrite map_length; lia). exact Hl.
  - left. apply (subst_lower_rejected (lower s) r i (lowerc c) p); try assumption.
    + rewrite existsb_false_Forall in Hb. unfold lower. apply Forall_forall. intros x Hx.
      apply in_map_iff in Hx as (y & <- & Hy). rewrite Forall_forall in Hb. now apply lowerc_lt, Hb.
    + unfold lower. rewrite rfind_map_stable; [assumption | apply lowerc_49].
    + unfold lower. now rewrite map_length.
    + intros E'. now apply lowerc_49 in E'.
    + unfold lower. change 0 with (lowerc 0). now rewrite map_nth.
Qed.

Example single_subst_nonvacuous :
  let s := codes "addr1v8xrqjtlfluk9axpmjj5enh0uw0cduwhz7txsqyl36m3ukgqdsn8w" in
  (exists r, bech32_decode s = Some r) /\ rfind 49 s = Some 4%nat /\ bech32_decode (subst 10 (nth 0 CHARSET 0) s) = None.
Proof. vm_compute. split; [eexists; reflexivity | split; reflexivity]. Qed.
