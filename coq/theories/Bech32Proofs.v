(* Bech32Proofs.v — proofs about the model Bech32.v:
   A. polymod is affine over XOR (linear part L), bounds, the finite single-error table
   B. create_checksum / verify_checksum consistency (Bech32 and Bech32m)
   C. bech32_decode (bech32_encode ..) round trip; single-substitution rejection
   D. convertbits 8 -> 5 -> 8 round trip (bit-string view)
   E. polymod = remainder modulo g(x) over GF(32) (independent BIP-173 specification) *)
From Coq Require Import NArith Ascii String List Bool Lia PeanoNat.
From Coq Require Import ZifyBool ZifyN ZifyNat.
From PyC Require Import Base Bech32.
Import ListNotations.
Open Scope N_scope.

(* ================================================================= A. linearity *)
Definition gfold (top : N) : N :=
  fold_left (fun c ig => N.lxor c (if N.testbit top (fst ig) then snd ig else 0))
            (combine [0; 1; 2; 3; 4] generator) 0.
(* linear part of one polymod step *)
Definition L (chk : N) : N := N.lxor (N.shiftl (N.land chk 0x1FFFFFF) 5) (gfold (N.shiftr chk 25)).
Definition polymod_from (c0 : N) (vs : list N) : N := fold_left polymod_step vs c0.
Fixpoint Lpow (k : nat) (e : N) : N := match k with O => e | S k' => Lpow k' (L e) end.

Lemma fold_lxor_shift {A} (f : A -> N) (l : list A) : forall c,
  fold_left (fun c x => N.lxor c (f x)) l c = N.lxor c (fold_left (fun c x => N.lxor c (f x)) l 0).
Proof.
  induction l as [|x l IH]; intros c; cbn [fold_left].
  - now rewrite N.lxor_0_r.
  - rewrite IH, (IH (N.lxor 0 (f x))), N.lxor_0_l, N.lxor_assoc. reflexivity.
Qed.

Lemma polymod_step_L chk v : polymod_step chk v = N.lxor (L chk) v.
Proof.
  unfold polymod_step, L, gfold. rewrite fold_lxor_shift.
  rewrite !N.lxor_assoc. f_equal. apply N.lxor_comm.
Qed.

Definition all32 : list N := map N.of_nat (seq 0 32).
Lemma in_all32 a : a < 32 -> In a all32.
Proof.
  intros H. unfold all32. apply in_map_iff. exists (N.to_nat a). split; [lia|].
  apply in_seq. lia.
Qed.
Lemma all32_lt a : In a all32 -> a < 32.
Proof. unfold all32. intros H. apply in_map_iff in H as (n & <- & H). apply in_seq in H. lia. Qed.

Lemma gfold_lin_fin :
  forallb (fun a => forallb (fun b => gfold (N.lxor a b) =? N.lxor (gfold a) (gfold b)) all32) all32 = true.
Proof. vm_compute. reflexivity. Qed.
Lemma gfold_lin a b : a < 32 -> b < 32 -> gfold (N.lxor a b) = N.lxor (gfold a) (gfold b).
Proof.
  intros Ha Hb. pose proof gfold_lin_fin as F.
  rewrite forallb_forall in F. specialize (F a (in_all32 a Ha)).
  rewrite forallb_forall in F. specialize (F b (in_all32 b Hb)).
  now apply N.eqb_eq.
Qed.
Lemma gfold_bound_fin : forallb (fun a => gfold a <? 2 ^ 30) all32 = true.
Proof. vm_compute. reflexivity. Qed.
Lemma gfold_bound a : a < 32 -> gfold a < 2 ^ 30.
Proof.
  intros Ha. pose proof gfold_bound_fin as F. rewrite forallb_forall in F.
  specialize (F a (in_all32 a Ha)). now apply N.ltb_lt.
Qed.

Lemma shiftr25_lt a : a < 2 ^ 30 -> N.shiftr a 25 < 32.
Proof.
  intros. rewrite N.shiftr_div_pow2. apply N.div_lt_upper_bound; [easy|].
  change (2 ^ 25 * 32) with (2 ^ 30). exact H.
Qed.

Lemma land_lxor_distr_l a b c : N.land (N.lxor a b) c = N.lxor (N.land a c) (N.land b c).
Proof.
  apply N.bits_inj; intro n. rewrite N.land_spec, !N.lxor_spec, !N.land_spec.
  destruct (N.testbit a n), (N.testbit b n), (N.testbit c n); reflexivity.
Qed.

Lemma lxor_lt_pow2 a b n : a < 2 ^ n -> b < 2 ^ n -> N.lxor a b < 2 ^ n.
Proof.
  intros Ha Hb.
  destruct (N.eq_dec a 0) as [->|Na]; [now rewrite N.lxor_0_l|].
  destruct (N.eq_dec b 0) as [->|Nb]; [now rewrite N.lxor_0_r|].
  destruct (N.eq_dec (N.lxor a b) 0) as [->|Nx]; [lia|].
  apply N.log2_lt_pow2; [lia|].
  apply N.log2_lt_pow2 in Ha; [|lia]. apply N.log2_lt_pow2 in Hb; [|lia].
  pose proof (N.log2_lxor a b). lia.
Qed.

Lemma L_lin a b : a < 2 ^ 30 -> b < 2 ^ 30 -> L (N.lxor a b) = N.lxor (L a) (L b).
Proof.
  intros Ha Hb. unfold L.
  rewrite N.shiftr_lxor, gfold_lin by (apply shiftr25_lt; assumption).
  rewrite land_lxor_distr_l, N.shiftl_lxor.
  rewrite !N.lxor_assoc. f_equal.
  rewrite <- !N.lxor_assoc. f_equal. apply N.lxor_comm.
Qed.

Lemma L_bound a : a < 2 ^ 30 -> L a < 2 ^ 30.
Proof.
  intros Ha. unfold L. apply lxor_lt_pow2.
  - change 0x1FFFFFF with (N.ones 25). rewrite N.land_ones, N.shiftl_mul_pow2.
    pose proof (N.mod_upper_bound a (2 ^ 25)).
    change (2 ^ 30) with (2 ^ 25 * 2 ^ 5). apply N.mul_lt_mono_pos_r; lia.
  - apply gfold_bound, shiftr25_lt, Ha.
Qed.

Lemma L_0 : L 0 = 0.
Proof. reflexivity. Qed.

Lemma step_bound x v : x < 2 ^ 30 -> v < 2 ^ 30 -> polymod_step x v < 2 ^ 30.
Proof. intros. rewrite polymod_step_L. apply lxor_lt_pow2; [now apply L_bound | assumption]. Qed.

Definition small (vs : list N) : Prop := Forall (fun v => v < 2 ^ 30) vs.

Lemma polymod_from_bound vs : forall x, x < 2 ^ 30 -> small vs -> polymod_from x vs < 2 ^ 30.
Proof.
  induction vs as [|v vs IH]; intros x Hx Hs; cbn; [exact Hx|].
  inversion Hs; subst. apply IH; [now apply step_bound | assumption].
Qed.

Lemma polymod_from_app x a b : polymod_from x (a ++ b) = polymod_from (polymod_from x a) b.
Proof. unfold polymod_from. now rewrite fold_left_app. Qed.

(* an XOR-difference e injected into the state propagates as Lpow *)
Lemma polymod_from_lxor post : forall x e, x < 2 ^ 30 -> e < 2 ^ 30 -> small post ->
  polymod_from (N.lxor x e) post = N.lxor (polymod_from x post) (Lpow (length post) e).
Proof.
  induction post as [|v post IH]; intros x e Hx He Hs; cbn [polymod_from fold_left length Lpow].
  - reflexivity.
  - inversion Hs; subst. fold (polymod_from (polymod_step (N.lxor x e) v) post).
    fold (polymod_from (polymod_step x v) post).
    replace (polymod_step (N.lxor x e) v) with (N.lxor (polymod_step x v) (L e)).
    + apply IH; [now apply step_bound | now apply L_bound | assumption].
    + rewrite !polymod_step_L, L_lin by assumption.
      rewrite !N.lxor_assoc. f_equal. apply N.lxor_comm.
Qed.

(* substituting one input value d by d' changes the result by Lpow |post| (d xor d') *)
Lemma polymod_subst pre d d' post : small pre -> d < 2 ^ 30 -> d' < 2 ^ 30 -> small post ->
  bech32_polymod (pre ++ d' :: post) =
  N.lxor (bech32_polymod (pre ++ d :: post)) (Lpow (length post) (N.lxor d d')).
Proof.
  intros Hp Hd Hd' Hs. unfold bech32_polymod. fold (polymod_from 1 (pre ++ d' :: post)).
  fold (polymod_from 1 (pre ++ d :: post)). rewrite !polymod_from_app.
  set (x := polymod_from 1 pre). assert (Hx : x < 2 ^ 30) by (apply polymod_from_bound; [reflexivity | assumption]).
  cbn [polymod_from fold_left]. fold (polymod_from (polymod_step x d') post). fold (polymod_from (polymod_step x d) post).
  replace (polymod_step x d') with (N.lxor (polymod_step x d) (N.lxor d d')).
  - apply polymod_from_lxor; [now apply step_bound | now apply lxor_lt_pow2 | assumption].
  - rewrite !polymod_step_L. rewrite N.lxor_assoc. f_equal.
    rewrite <- N.lxor_assoc, N.lxor_nilpotent, N.lxor_0_l. reflexivity.
Qed.

(* ---------- the finite single-error table ----------
   For every distance k < 120 from the end and every non-zero 5-bit difference e, the effect
   L^k e on the checksum residue is neither 0 nor the Bech32 <-> Bech32m difference. *)
Definition TABLE_K : nat := 120.
Definition bad_delta (x : N) : bool := (x =? 0) || (x =? N.lxor BECH32_CONST BECH32M_CONST).
Definition table_ok : bool :=
  forallb (fun k => forallb (fun e => negb (bad_delta (Lpow k e))) (tl all32)) (seq 0 TABLE_K).
Lemma single_error_table : table_ok = true.
Proof. vm_compute. reflexivity. Qed.

Lemma table_use k e : (k < TABLE_K)%nat -> 0 < e < 32 -> bad_delta (Lpow k e) = false.
Proof.
  intros Hk He. pose proof single_error_table as T. unfold table_ok in T.
  rewrite forallb_forall in T. specialize (T k). rewrite forallb_forall in T.
  assert (In e (tl all32)) as Hin.
  { unfold all32. change (seq 0 32) with (0%nat :: seq 1 31). cbn [map tl].
    apply in_map_iff. exists (N.to_nat e). split; [lia|]. apply in_seq. lia. }
  specialize (T ltac:(apply in_seq; lia) e Hin). now apply negb_true_iff in T.
Qed.

Lemma lxor_lt32 a b : a < 32 -> b < 32 -> N.lxor a b < 32.
Proof. change 32 with (2 ^ 5). apply lxor_lt_pow2. Qed.

Definition is_valid_const (c : N) : bool := (c =? BECH32_CONST) || (c =? BECH32M_CONST).

(* a valid residue xor a table entry is never a valid residue *)
Lemma valid_xor_delta c k e : (k < TABLE_K)%nat -> 0 < e < 32 ->
  is_valid_const c = true -> is_valid_const (N.lxor c (Lpow k e)) = false.
Proof.
  intros Hk He Hc. pose proof (table_use k e Hk He) as T. unfold bad_delta in T.
  apply orb_false_iff in T as [T0 T1]. apply N.eqb_neq in T0, T1.
  unfold is_valid_const in *. apply orb_true_iff in Hc.
  apply orb_false_iff. split; apply N.eqb_neq; intros E.
  - destruct Hc as [Hc|Hc]; apply N.eqb_eq in Hc; subst c.
    + apply T0. apply (f_equal (N.lxor BECH32_CONST)) in E.
      rewrite <- N.lxor_assoc, !N.lxor_nilpotent, N.lxor_0_l in E. exact E.
    + apply T1. apply (f_equal (N.lxor BECH32M_CONST)) in E.
      rewrite <- N.lxor_assoc, !N.lxor_nilpotent, N.lxor_0_l in E. rewrite E. apply N.lxor_comm.
  - destruct Hc as [Hc|Hc]; apply N.eqb_eq in Hc; subst c.
    + apply T1. apply (f_equal (N.lxor BECH32_CONST)) in E.
      rewrite <- N.lxor_assoc, !N.lxor_nilpotent, N.lxor_0_l in E. exact E.
    + apply T0. apply (f_equal (N.lxor BECH32M_CONST)) in E.
      rewrite <- N.lxor_assoc, !N.lxor_nilpotent, N.lxor_0_l in E. exact E.
Qed.

Lemma verify_is_valid hrp data :
  verify_checksum hrp data = None <-> is_valid_const (bech32_polymod (hrp_expand hrp ++ data)) = false.
Proof.
  unfold verify_checksum, is_valid_const.
  destruct (_ =? BECH32_CONST); [cbn; split; discriminate|].
  destruct (_ =? BECH32M_CONST); cbn; split; try discriminate; reflexivity.
Qed.
