(* Bech32Proofs.v — proofs about the model Bech32.v:
   A. polymod is affine over XOR (linear part L), bounds, the finite single-error table
   B. create_checksum / verify_checksum consistency (Bech32 and Bech32m)
   C. bech32_decode (bech32_encode ..) round trip; single-substitution rejection
   D. convertbits 8 -> 5 -> 8 round trip (bit-string view)
   E. polymod = remainder modulo g(x) over GF(32) (independent BIP-173 specification) *)
From Coq Require Import NArith ZArith Ascii String List Bool Lia PeanoNat.
From Coq Require Import ZifyBool ZifyN ZifyNat.
From PyC Require Import Base Bech32.
Import ListNotations.
Open Scope N_scope.

(* ================================================================= A. linearity *)
Definition gfold (top : N) : N :=
  fold_left (fun c ig => N.lxor c (if N.testbit top (fst ig) then snd ig else 0))
            (combine [0; 1; 2; 3; 4] generator) 0.
(* linear part of one polymod step *)
Definition L (chk : N) : N := N.lxor (N.shiftl (N.land chk 0x1FFFFFF) 5) (gfold (N.shiftr chk 25)).
Definition polymod_from (c0 : N) (vs : list N) : N := fold_left polymod_step vs c0.
Fixpoint Lpow (k : nat) (e : N) : N := match k with O => e | S k' => Lpow k' (L e) end.

Lemma fold_lxor_shift {A} (f : A -> N) (l : list A) : forall c,
  fold_left (fun c x => N.lxor c (f x)) l c = N.lxor c (fold_left (fun c x => N.lxor c (f x)) l 0).
Proof.
  induction l as [|x l IH]; intros c; cbn [fold_left].
  - now rewrite N.lxor_0_r.
  - rewrite IH, (IH (N.lxor 0 (f x))), N.lxor_0_l, N.lxor_assoc. reflexivity.
Qed.

Lemma polymod_step_L chk v : polymod_step chk v = N.lxor (L chk) v.
Proof.
  unfold polymod_step, L, gfold. rewrite fold_lxor_shift.
  rewrite !N.lxor_assoc. f_equal. apply N.lxor_comm.
Qed.

Definition all32 : list N := map N.of_nat (seq 0 32).
Lemma in_all32 a : a < 32 -> In a all32.
Proof.
  intros H. unfold all32. apply in_map_iff. exists (N.to_nat a). split; [lia|].
  apply in_seq. lia.
Qed.
Lemma all32_lt a : In a all32 -> a < 32.
Proof. unfold all32. intros H. apply in_map_iff in H as (n & <- & H). apply in_seq in H. lia. Qed.

Lemma gfold_lin_fin :
  forallb (fun a => forallb (fun b => gfold (N.lxor a b) =? N.lxor (gfold a) (gfold b)) all32) all32 = true.
Proof. vm_compute. reflexivity. Qed.
Lemma gfold_lin a b : a < 32 -> b < 32 -> gfold (N.lxor a b) = N.lxor (gfold a) (gfold b).
Proof.
  intros Ha Hb. pose proof gfold_lin_fin as F.
  rewrite forallb_forall in F. specialize (F a (in_all32 a Ha)).
  rewrite forallb_forall in F. specialize (F b (in_all32 b Hb)).
  now apply N.eqb_eq.
Qed.
Lemma gfold_bound_fin : forallb (fun a => gfold a <? 2 ^ 30) all32 = true.
Proof. vm_compute. reflexivity. Qed.
Lemma gfold_bound a : a < 32 -> gfold a < 2 ^ 30.
Proof.
  intros Ha. pose proof gfold_bound_fin as F. rewrite forallb_forall in F.
  specialize (F a (in_all32 a Ha)). now apply N.ltb_lt.
Qed.

Lemma shiftr25_lt a : a < 2 ^ 30 -> N.shiftr a 25 < 32.
Proof.
  intros. rewrite N.shiftr_div_pow2. apply N.div_lt_upper_bound; [easy|].
  change (2 ^ 25 * 32) with (2 ^ 30). exact H.
Qed.

Lemma land_lxor_distr_l a b c : N.land (N.lxor a b) c = N.lxor (N.land a c) (N.land b c).
Proof.
  apply N.bits_inj; intro n. rewrite N.land_spec, !N.lxor_spec, !N.land_spec.
  destruct (N.testbit a n), (N.testbit b n), (N.testbit c n); reflexivity.
Qed.

Lemma lxor_lt_pow2 a b n : a < 2 ^ n -> b < 2 ^ n -> N.lxor a b < 2 ^ n.
Proof.
  intros Ha Hb.
  destruct (N.eq_dec a 0) as [->|Na]; [now rewrite N.lxor_0_l|].
  destruct (N.eq_dec b 0) as [->|Nb]; [now rewrite N.lxor_0_r|].
  destruct (N.eq_dec (N.lxor a b) 0) as [->|Nx]; [lia|].
  apply N.log2_lt_pow2; [lia|].
  apply N.log2_lt_pow2 in Ha; [|lia]. apply N.log2_lt_pow2 in Hb; [|lia].
  pose proof (N.log2_lxor a b). lia.
Qed.

Lemma L_lin a b : a < 2 ^ 30 -> b < 2 ^ 30 -> L (N.lxor a b) = N.lxor (L a) (L b).
Proof.
  intros Ha Hb. unfold L.
  rewrite N.shiftr_lxor, gfold_lin by (apply shiftr25_lt; assumption).
  rewrite land_lxor_distr_l, N.shiftl_lxor.
  rewrite !N.lxor_assoc. f_equal.
  rewrite <- !N.lxor_assoc. f_equal. apply N.lxor_comm.
Qed.

Lemma L_bound a : a < 2 ^ 30 -> L a < 2 ^ 30.
Proof.
  intros Ha. unfold L. apply lxor_lt_pow2.
  - change 0x1FFFFFF with (N.ones 25). rewrite N.land_ones, N.shiftl_mul_pow2.
    pose proof (N.mod_upper_bound a (2 ^ 25)).
    change (2 ^ 30) with (2 ^ 25 * 2 ^ 5). apply N.mul_lt_mono_pos_r; lia.
  - apply gfold_bound, shiftr25_lt, Ha.
Qed.

Lemma L_0 : L 0 = 0.
Proof. reflexivity. Qed.

Lemma step_bound x v : x < 2 ^ 30 -> v < 2 ^ 30 -> polymod_step x v < 2 ^ 30.
Proof. intros. rewrite polymod_step_L. apply lxor_lt_pow2; [now apply L_bound | assumption]. Qed.

Definition small (vs : list N) : Prop := Forall (fun v => v < 2 ^ 30) vs.

Lemma polymod_from_bound vs : forall x, x < 2 ^ 30 -> small vs -> polymod_from x vs < 2 ^ 30.
Proof.
  induction vs as [|v vs IH]; intros x Hx Hs; cbn; [exact Hx|].
  inversion Hs; subst. apply IH; [now apply step_bound | assumption].
Qed.

Lemma polymod_from_app x a b : polymod_from x (a ++ b) = polymod_from (polymod_from x a) b.
Proof. unfold polymod_from. now rewrite fold_left_app. Qed.

(* an XOR-difference e injected into the state propagates as Lpow *)
Lemma polymod_from_lxor post : forall x e, x < 2 ^ 30 -> e < 2 ^ 30 -> small post ->
  polymod_from (N.lxor x e) post = N.lxor (polymod_from x post) (Lpow (length post) e).
Proof.
  induction post as [|v post IH]; intros x e Hx He Hs; cbn [polymod_from fold_left length Lpow].
  - reflexivity.
  - inversion Hs; subst. fold (polymod_from (polymod_step (N.lxor x e) v) post).
    fold (polymod_from (polymod_step x v) post).
    replace (polymod_step (N.lxor x e) v) with (N.lxor (polymod_step x v) (L e)).
    + apply IH; [now apply step_bound | now apply L_bound | assumption].
    + rewrite !polymod_step_L, L_lin by assumption.
      rewrite !N.lxor_assoc. f_equal. apply N.lxor_comm.
Qed.

(* substituting one input value d by d' changes the result by Lpow |post| (d xor d') *)
Lemma polymod_subst pre d d' post : small pre -> d < 2 ^ 30 -> d' < 2 ^ 30 -> small post ->
  bech32_polymod (pre ++ d' :: post) =
  N.lxor (bech32_polymod (pre ++ d :: post)) (Lpow (length post) (N.lxor d d')).
Proof.
  intros Hp Hd Hd' Hs. unfold bech32_polymod. fold (polymod_from 1 (pre ++ d' :: post)).
  fold (polymod_from 1 (pre ++ d :: post)). rewrite !polymod_from_app.
  set (x := polymod_from 1 pre). assert (Hx : x < 2 ^ 30) by (apply polymod_from_bound; [reflexivity | assumption]).
  cbn [polymod_from fold_left]. fold (polymod_from (polymod_step x d') post). fold (polymod_from (polymod_step x d) post).
  replace (polymod_step x d') with (N.lxor (polymod_step x d) (N.lxor d d')).
  - apply polymod_from_lxor; [now apply step_bound | now apply lxor_lt_pow2 | assumption].
  - rewrite !polymod_step_L. rewrite N.lxor_assoc. f_equal.
    rewrite <- N.lxor_assoc, N.lxor_nilpotent, N.lxor_0_l. reflexivity.
Qed.

(* ---------- the finite single-error table ----------
   For every distance k < 120 from the end and every non-zero 5-bit difference e, the effect
   L^k e on the checksum residue is neither 0 nor the Bech32 <-> Bech32m difference. *)
Definition TABLE_K : nat := 120.
Definition bad_delta (x : N) : bool := (x =? 0) || (x =? N.lxor BECH32_CONST BECH32M_CONST).
Definition table_check (K : nat) (l : list N) : bool :=
  forallb (fun k => forallb (fun e => negb (bad_delta (Lpow k e))) l) (seq 0 K).
Lemma single_error_table : table_check TABLE_K (tl all32) = true.
Proof. vm_compute. reflexivity. Qed.

(* (generic in K, l so that the kernel never has to re-evaluate the table by conversion) *)
Lemma table_gen K l : table_check K l = true ->
  forall k e, (k < K)%nat -> In e l -> bad_delta (Lpow k e) = false.
Proof.
  unfold table_check. intros H k e Hk He. rewrite forallb_forall in H.
  specialize (H k ltac:(apply in_seq; lia)).
  rewrite forallb_forall in H. apply negb_true_iff. now apply H.
Qed.
Lemma in_tl_all32 e : 0 < e < 32 -> In e (tl all32).
Proof.
  intros He. unfold all32. change (seq 0 32) with (0%nat :: seq 1 31). cbn [map tl].
  apply in_map_iff. exists (N.to_nat e). split; [lia|]. apply in_seq. lia.
Qed.
Lemma table_use k e : (k < TABLE_K)%nat -> 0 < e < 32 -> bad_delta (Lpow k e) = false.
Proof.
  intros Hk He. apply (table_gen TABLE_K (tl all32) single_error_table); [assumption | now apply in_tl_all32].
Qed.

Lemma lxor_lt32 a b : a < 32 -> b < 32 -> N.lxor a b < 32.
Proof. change 32 with (2 ^ 5). apply lxor_lt_pow2. Qed.

Definition is_valid_const (c : N) : bool := (c =? BECH32_CONST) || (c =? BECH32M_CONST).

(* a valid residue xor a table entry is never a valid residue *)
Lemma valid_xor_delta c k e : (k < TABLE_K)%nat -> 0 < e < 32 ->
  is_valid_const c = true -> is_valid_const (N.lxor c (Lpow k e)) = false.
Proof.
  intros Hk He Hc. pose proof (table_use k e Hk He) as T. unfold bad_delta in T.
  apply orb_false_iff in T as [T0 T1]. apply N.eqb_neq in T0, T1.
  unfold is_valid_const in *. apply orb_true_iff in Hc.
  apply orb_false_iff. split; apply N.eqb_neq; intros E.
  - destruct Hc as [Hc|Hc]; apply N.eqb_eq in Hc; subst c.
    + apply T0. apply (f_equal (N.lxor BECH32_CONST)) in E.
      rewrite <- N.lxor_assoc, !N.lxor_nilpotent, N.lxor_0_l in E. exact E.
    + apply T1. apply (f_equal (N.lxor BECH32M_CONST)) in E.
      rewrite <- N.lxor_assoc, !N.lxor_nilpotent, N.lxor_0_l in E. rewrite E. apply N.lxor_comm.
  - destruct Hc as [Hc|Hc]; apply N.eqb_eq in Hc; subst c.
    + apply T1. apply (f_equal (N.lxor BECH32_CONST)) in E.
      rewrite <- N.lxor_assoc, !N.lxor_nilpotent, N.lxor_0_l in E. exact E.
    + apply T0. apply (f_equal (N.lxor BECH32M_CONST)) in E.
      rewrite <- N.lxor_assoc, !N.lxor_nilpotent, N.lxor_0_l in E. exact E.
Qed.

Lemma verify_is_valid hrp data :
  verify_checksum hrp data = None <-> is_valid_const (bech32_polymod (hrp_expand hrp ++ data)) = false.
Proof.
  unfold verify_checksum, is_valid_const.
  destruct (_ =? BECH32_CONST); [cbn; split; discriminate|].
  destruct (_ =? BECH32M_CONST); cbn; split; try discriminate; reflexivity.
Qed.

(* ================================================================= B. create / verify *)
Lemma testbit_high a k n : a < 2 ^ k -> k <= n -> N.testbit a n = false.
Proof. intros Ha Hn. rewrite <- (N.mod_small a (2 ^ k)) by assumption. now apply N.mod_pow2_bits_high. Qed.

Lemma lxor_shiftl_add a c k : c < 2 ^ k -> N.lxor (N.shiftl a k) c = a * 2 ^ k + c.
Proof.
  intros Hc. rewrite <- N.shiftl_mul_pow2. symmetry. apply N.add_nocarry_lxor.
  apply N.bits_inj; intro n. rewrite N.land_spec, N.bits_0.
  destruct (N.lt_ge_cases n k) as [Hn|Hn].
  - now rewrite N.shiftl_spec_low.
  - rewrite (testbit_high c k n) by assumption. apply andb_false_r.
Qed.

Lemma lxor_swap4 a b c d : N.lxor (N.lxor a b) (N.lxor c d) = N.lxor (N.lxor a c) (N.lxor b d).
Proof.
  apply N.bits_inj; intro n. rewrite !N.lxor_spec.
  destruct (N.testbit a n), (N.testbit b n), (N.testbit c n), (N.testbit d n); reflexivity.
Qed.

Fixpoint zipxor (a b : list N) : list N :=
  match a, b with x :: a', y :: b' => N.lxor x y :: zipxor a' b' | _, _ => [] end.

Lemma polymod_from_lin2 vs : forall ws x y, length vs = length ws ->
  x < 2 ^ 30 -> y < 2 ^ 30 -> small vs -> small ws ->
  polymod_from (N.lxor x y) (zipxor vs ws) = N.lxor (polymod_from x vs) (polymod_from y ws).
Proof.
  induction vs as [|v vs IH]; intros [|w ws] x y Hl Hx Hy Hv Hw; try discriminate; cbn [zipxor polymod_from fold_left].
  - reflexivity.
  - inversion Hv; inversion Hw; subst. injection Hl as Hl.
    fold (polymod_from (polymod_step x v) vs). fold (polymod_from (polymod_step y w) ws).
    fold (polymod_from (polymod_step (N.lxor x y) (N.lxor v w)) (zipxor vs ws)).
    replace (polymod_step (N.lxor x y) (N.lxor v w)) with (N.lxor (polymod_step x v) (polymod_step y w)).
    + apply IH; try assumption; now apply step_bound.
    + rewrite !polymod_step_L, L_lin by assumption. apply lxor_swap4.
Qed.

Lemma L_small x : x < 2 ^ 25 -> L x = x * 32.
Proof.
  intros Hx. unfold L. change 0x1FFFFFF with (N.ones 25).
  rewrite N.land_ones, N.mod_small, N.shiftr_div_pow2, N.div_small by assumption.
  change (gfold 0) with 0. rewrite N.lxor_0_r, N.shiftl_mul_pow2. reflexivity.
Qed.
Lemma step_small x v : x < 2 ^ 25 -> v < 32 -> polymod_step x v = x * 32 + v.
Proof.
  intros Hx Hv. rewrite polymod_step_L, L_small by assumption.
  transitivity (N.lxor (N.shiftl x 5) v).
  - now rewrite N.shiftl_mul_pow2.
  - now rewrite (lxor_shiftl_add x v 5) by assumption.
Qed.

Lemma polymod_from_0_six c0 c1 c2 c3 c4 c5 :
  c0 < 32 -> c1 < 32 -> c2 < 32 -> c3 < 32 -> c4 < 32 -> c5 < 32 ->
  polymod_from 0 [c0; c1; c2; c3; c4; c5] = ((((c0 * 32 + c1) * 32 + c2) * 32 + c3) * 32 + c4) * 32 + c5.
Proof.
  intros. cbn [polymod_from fold_left].
  change (2 ^ 25) with 33554432 in *.
  rewrite (step_small 0 c0) by (change (2 ^ 25) with 33554432; lia).
  rewrite (step_small _ c1) by (change (2 ^ 25) with 33554432; lia).
  rewrite (step_small _ c2) by (change (2 ^ 25) with 33554432; lia).
  rewrite (step_small _ c3) by (change (2 ^ 25) with 33554432; lia).
  rewrite (step_small _ c4) by (change (2 ^ 25) with 33554432; lia).
  rewrite (step_small _ c5) by (change (2 ^ 25) with 33554432; lia).
  lia.
Qed.

Definition split6 (q : N) : list N := map (fun i => N.land (N.shiftr q (5 * (5 - i))) 31) [0; 1; 2; 3; 4; 5].

Lemma split6_lt q : Forall (fun v => v < 32) (split6 q).
Proof.
  unfold split6. apply Forall_forall. intros v Hv. apply in_map_iff in Hv as (i & <- & _).
  change 31 with (N.ones 5). rewrite N.land_ones. now apply N.mod_upper_bound.
Qed.

Lemma land31_lt x : N.land x 31 < 32.
Proof. change 31 with (N.ones 5). rewrite N.land_ones. now apply N.mod_upper_bound. Qed.

Ltac Zify.zify_post_hook ::= Z.to_euclidean_division_equations.
Lemma polymod_from_0_split6 q : q < 2 ^ 30 -> polymod_from 0 (split6 q) = q.
Proof.
  intros Hq. unfold split6. cbn [map].
  rewrite polymod_from_0_six by apply land31_lt.
  change (5 * (5 - 0)) with 25. change (5 * (5 - 1)) with 20. change (5 * (5 - 2)) with 15.
  change (5 * (5 - 3)) with 10. change (5 * (5 - 4)) with 5. change (5 * (5 - 5)) with 0.
  change 31 with (N.ones 5). rewrite !N.land_ones, !N.shiftr_div_pow2.
  change (2 ^ 30) with 1073741824 in Hq. change (2 ^ 25) with 33554432. change (2 ^ 20) with 1048576.
  change (2 ^ 15) with 32768. change (2 ^ 10) with 1024. change (2 ^ 5) with 32. change (2 ^ 0) with 1.
  lia.
Qed.

Lemma small_app a b : small a -> small b -> small (a ++ b).
Proof. apply Forall_app_intro || (intros; apply Forall_app; now split). Qed.
Lemma small_of_lt32 l : Forall (fun v => v < 32) l -> small l.
Proof. apply Forall_impl. intros a Ha. change (2 ^ 30) with 1073741824. lia. Qed.

(* appending split6 (P xor c) after `values` where P = polymod (values ++ 000000) yields residue c *)
Lemma polymod_checksum values c : small values -> c < 2 ^ 30 ->
  bech32_polymod (values ++ split6 (N.lxor (bech32_polymod (values ++ [0; 0; 0; 0; 0; 0])) c)) = c.
Proof.
  intros Hs Hc. unfold bech32_polymod. fold (polymod_from 1 (values ++ [0; 0; 0; 0; 0; 0])).
  set (q := N.lxor _ c).
  fold (polymod_from 1 (values ++ split6 q)). rewrite polymod_from_app.
  set (x := polymod_from 1 values) in *.
  assert (Hx : x < 2 ^ 30) by (apply polymod_from_bound; [reflexivity | assumption]).
  assert (Hz : small [0; 0; 0; 0; 0; 0]) by (repeat constructor).
  assert (Hq : q < 2 ^ 30).
  { apply lxor_lt_pow2; [|assumption]. rewrite polymod_from_app. fold x. now apply polymod_from_bound. }
  replace (split6 q) with (zipxor [0; 0; 0; 0; 0; 0] (split6 q)) by (unfold split6; cbn [map zipxor]; now rewrite !N.lxor_0_l).
  rewrite <- (N.lxor_0_r x).
  rewrite polymod_from_lin2; try assumption; try reflexivity.
  - rewrite polymod_from_0_split6 by assumption. subst q. rewrite polymod_from_app. fold x.
    rewrite <- N.lxor_assoc, N.lxor_nilpotent. apply N.lxor_0_l.
  - apply small_of_lt32, split6_lt.
Qed.

Definition hrp_ok (hrp : str) : Prop := Forall (fun x => x < 128) hrp.
Definition data_ok (data : list N) : Prop := Forall (fun v => v < 32) data.

Lemma hrp_expand_small hrp : hrp_ok hrp -> small (hrp_expand hrp).
Proof.
  intros H. unfold hrp_expand. apply small_app; [|apply small_app].
  - apply Forall_forall. intros v Hv. apply in_map_iff in Hv as (x & <- & Hx).
    rewrite N.shiftr_div_pow2. eapply N.le_lt_trans; [apply N.div_le_upper_bound with (q := x); [easy|]|].
    + change (2 ^ 5) with 32. lia.
    + eapply Forall_forall in H; [|exact Hx]. cbn in H. change (2 ^ 30) with 1073741824. lia.
  - repeat constructor.
  - apply Forall_forall. intros v Hv. apply in_map_iff in Hv as (x & <- & Hx).
    change 31 with (N.ones 5). rewrite N.land_ones. pose proof (N.mod_upper_bound x (2 ^ 5)).
    change (2 ^ 5) with 32 in *. change (2 ^ 30) with 1073741824. lia.
Qed.

Definition spec_result (spec : option encoding) : encoding := match spec with Some BECH32M => BECH32M | _ => BECH32 end.

(* BIP-173 / BIP-350 consistency: a created checksum verifies, with the intended constant *)
Theorem create_verify hrp data spec : hrp_ok hrp -> data_ok data ->
  verify_checksum hrp (data ++ create_checksum hrp data spec) = Some (spec_result spec).
Proof.
  intros Hh Hd. unfold verify_checksum, create_checksum.
  fold (split6 (N.lxor (bech32_polymod ((hrp_expand hrp ++ data) ++ [0; 0; 0; 0; 0; 0]))
                       (match spec with Some BECH32M => BECH32M_CONST | _ => BECH32_CONST end))).
  rewrite app_assoc, polymod_checksum.
  - destruct spec as [[|]|]; reflexivity.
  - apply small_app; [now apply hrp_expand_small | now apply small_of_lt32].
  - destruct spec as [[|]|]; reflexivity.
Qed.

Lemma create_checksum_lt hrp data spec : data_ok (create_checksum hrp data spec).
Proof. unfold create_checksum. apply split6_lt. Qed.
Lemma create_checksum_length hrp data spec : length (create_checksum hrp data spec) = 6%nat.
Proof. reflexivity. Qed.

(* ================================================================= C. strings *)
(* ---------- finite facts about CHARSET ---------- *)
Definition charset_char_ok (c : N) : bool :=
  negb (c =? 49) && (lowerc c =? c) && negb (bad_char c) && (find c CHARSET <? 32)
  && match nth_error CHARSET (N.to_nat (find c CHARSET)) with Some c' => c' =? c | None => false end.
Lemma charset_chars_fin : forallb charset_char_ok CHARSET = true.
Proof. vm_compute. reflexivity. Qed.
Definition charset_index_ok (d : N) : bool :=
  match nth_error CHARSET (N.to_nat d) with Some c => mem c CHARSET && (find c CHARSET =? d) | None => false end.
Lemma charset_index_fin : forallb charset_index_ok all32 = true.
Proof. vm_compute. reflexivity. Qed.

Lemma mem_In x l : mem x l = true <-> In x l.
Proof.
  unfold mem. rewrite existsb_exists. split.
  - intros (y & Hy & E). apply N.eqb_eq in E. now subst.
  - intros H. exists x. split; [assumption | apply N.eqb_refl].
Qed.
Lemma charset_char x : mem x CHARSET = true ->
  x <> 49 /\ lowerc x = x /\ bad_char x = false /\ find x CHARSET < 32
  /\ nth_error CHARSET (N.to_nat (find x CHARSET)) = Some x.
Proof.
  intros H. apply mem_In in H. pose proof charset_chars_fin as F. rewrite forallb_forall in F.
  specialize (F x H). unfold charset_char_ok in F.
  repeat (apply andb_true_iff in F as [F ?]).
  apply negb_true_iff, N.eqb_neq in F. apply N.eqb_eq in H3. apply negb_true_iff in H2. apply N.ltb_lt in H1.
  destruct (nth_error _ _) as [c'|]; [|discriminate]. apply N.eqb_eq in H0. subst. repeat split; assumption.
Qed.
Lemma charset_index d : d < 32 ->
  exists c, nth_error CHARSET (N.to_nat d) = Some c /\ mem c CHARSET = true /\ find c CHARSET = d.
Proof.
  intros H. pose proof charset_index_fin as F. rewrite forallb_forall in F.
  specialize (F d (in_all32 d H)). unfold charset_index_ok in F.
  destruct (nth_error _ _) as [c|]; [|discriminate]. exists c.
  apply andb_true_iff in F as [F1 F2]. apply N.eqb_eq in F2. now repeat split.
Qed.
Lemma find_inj x y : mem x CHARSET = true -> mem y CHARSET = true -> find x CHARSET = find y CHARSET -> x = y.
Proof.
  intros Hx Hy E. destruct (charset_char x Hx) as (_ & _ & _ & _ & Nx).
  destruct (charset_char y Hy) as (_ & _ & _ & _ & Ny). rewrite E in Nx. congruence.
Qed.

Definition in_charset (chars : str) : Prop := Forall (fun x => mem x CHARSET = true) chars.
Lemma in_charset_forallb chars : forallb (fun x => mem x CHARSET) chars = true <-> in_charset chars.
Proof. unfold in_charset. rewrite forallb_forall, Forall_forall. reflexivity. Qed.
Lemma in_charset_no_sep chars : in_charset chars -> ~ In 49 chars.
Proof. intros H Hin. eapply Forall_forall in H; [|exact Hin]. now apply charset_char in H. Qed.
Lemma find_lt_all chars : in_charset chars -> data_ok (map (fun x => find x CHARSET) chars).
Proof.
  intros H. unfold data_ok. apply Forall_forall. intros v Hv. apply in_map_iff in Hv as (x & <- & Hx).
  eapply Forall_forall in H; [|exact Hx]. now apply charset_char in H.
Qed.

Lemma charset_get_ok ds : data_ok ds ->
  exists chars, charset_get ds = Some chars /\ in_charset chars /\ map (fun x => find x CHARSET) chars = ds.
Proof.
  induction ds as [|d ds IH]; intros H.
  - exists []. repeat split. constructor.
  - inversion H; subst. destruct (IH H3) as (chars & E & Hc & Hm).
    destruct (charset_index d H2) as (c & Hn & Hmem & Hf).
    exists (c :: chars). cbn [charset_get]. rewrite Hn, E. repeat split.
    + now constructor.
    + cbn [map]. now rewrite Hf, Hm.
Qed.

(* ---------- rfind ---------- *)
Lemma rfind_None c s : rfind c s = None <-> ~ In c s.
Proof.
  induction s as [|x s IH]; cbn.
  - split; [intros _ []|reflexivity].
  - destruct (rfind c s) as [p|] eqn:E.
    + split; [discriminate|]. intros H. exfalso. apply H. right.
      destruct (in_dec N.eq_dec c s) as [Hin|Hn]; [assumption|]. apply IH in Hn. discriminate.
    + destruct (N.eqb_spec x c) as [->|Hne].
      * split; [discriminate|]. intros H. exfalso. apply H. now left.
      * split; [|reflexivity]. intros _ [Hx|Hin]; [congruence|]. now apply IH in Hin.
Qed.
Lemma rfind_app_sep c h d : ~ In c d -> rfind c (h ++ c :: d) = Some (length h).
Proof.
  intros Hd. induction h as [|x h IH]; cbn.
  - apply rfind_None in Hd. rewrite Hd, N.eqb_refl. reflexivity.
  - now rewrite IH.
Qed.
Lemma rfind_Some c s p : rfind c s = Some p ->
  s = firstn p s ++ c :: skipn (S p) s /\ ~ In c (skipn (S p) s) /\ (p < length s)%nat.
Proof.
  revert p. induction s as [|x s IH]; intros p H; cbn in H; [discriminate|].
  destruct (rfind c s) as [q|] eqn:E.
  - injection H as <-. destruct (IH q eq_refl) as (Hs & Hn & Hl).
    change (skipn (S (S q)) (x :: s)) with (skipn (S q) s).
    change (firstn (S q) (x :: s)) with (x :: firstn q s). cbn [app length].
    repeat split; [now rewrite <- Hs | exact Hn | lia].
  - destruct (N.eqb_spec x c) as [->|Hne]; [|discriminate]. injection H as <-. cbn.
    repeat split; [|lia]. now apply rfind_None.
Qed.
Lemma rfind_map_stable c f s : (forall x, f x = c <-> x = c) -> rfind c (map f s) = rfind c s.
Proof.
  intros Hf. induction s as [|x s IH]; cbn; [reflexivity|]. rewrite IH.
  destruct (rfind c s); [reflexivity|].
  destruct (N.eqb_spec (f x) c) as [E|E], (N.eqb_spec x c) as [E'|E']; try reflexivity.
  - apply (proj1 (Hf x)) in E. contradiction.
  - exfalso. apply E. now apply (proj2 (Hf x)).
Qed.

(* ---------- substitution of one character ---------- *)
Definition subst (i : nat) (c : N) (s : str) : str := firstn i s ++ c :: skipn (S i) s.

Lemma split_nth (s : str) i : (i < length s)%nat -> s = firstn i s ++ nth i s 0 :: skipn (S i) s.
Proof.
  revert i. induction s as [|x s IH]; intros [|i] H; cbn in *; try lia; [reflexivity|].
  f_equal. apply IH. lia.
Qed.
Lemma subst_length i c s : (i < length s)%nat -> length (subst i c s) = length s.
Proof.
  intros H. unfold subst. rewrite app_length. cbn [length]. rewrite firstn_length, skipn_length. lia.
Qed.
Lemma subst_map f i c s : map f (subst i c s) = subst i (f c) (map f s).
Proof. unfold subst. now rewrite map_app, map_cons, firstn_map, skipn_map. Qed.
Lemma subst_same i s : (i < length s)%nat -> subst i (nth i s 0) s = s.
Proof. intros H. unfold subst. symmetry. now apply split_nth. Qed.
Lemma subst_app_r h x d j c : subst (length h + S j) c (h ++ x :: d) = h ++ x :: subst j c d.
Proof.
  unfold subst. rewrite firstn_app_2. cbn [firstn]. rewrite <- app_assoc. cbn [app]. do 3 f_equal.
  rewrite skipn_app. replace (S (length h + S j) - length h)%nat with (S (S j)) by lia.
  rewrite skipn_all2 by lia. reflexivity.
Qed.
Lemma nth_app_r h x (d : str) j : nth (length h + S j) (h ++ x :: d) 0 = nth j d 0.
Proof. rewrite app_nth2 by lia. replace (length h + S j - length h)%nat with (S j) by lia. reflexivity. Qed.
Lemma subst_In x i c s : In x (subst i c s) -> x = c \/ In x s.
Proof.
  unfold subst. intros H. apply in_app_or in H as [H|[H|H]].
  - right. rewrite <- (firstn_skipn i s). apply in_or_app. now left.
  - now left.
  - right. rewrite <- (firstn_skipn (S i) s). apply in_or_app. now right.
Qed.
Lemma subst_Forall (P : N -> Prop) i c s : P c -> Forall P s -> Forall P (subst i c s).
Proof.
  intros Hc Hs. apply Forall_forall. intros x Hx. apply subst_In in Hx as [->|Hx]; [assumption|].
  eapply Forall_forall in Hs; eassumption.
Qed.

(* ---------- normal form of bech32_decode_lower on  hrp ++ "1" ++ chars ---------- *)
Definition decode_parts (h chars : str) : option (str * list N * encoding) :=
  let n := (length h + 1 + length chars)%nat in
  if Nat.ltb (length h) 1 || Nat.ltb n (length h + 7) || Nat.ltb MAXLEN n then None else
  if negb (forallb (fun x => mem x CHARSET) chars) then None else
  let data := map (fun x => find x CHARSET) chars in
  match verify_checksum h data with
  | None => None
  | Some spec => Some (h, firstn (length data - 6) data, spec)
  end.

Lemma decode_lower_parts h chars : ~ In 49 chars ->
  bech32_decode_lower (h ++ 49 :: chars) = decode_parts h chars.
Proof.
  intros Hn. unfold bech32_decode_lower, decode_parts. rewrite rfind_app_sep by assumption.
  rewrite app_length. cbn [length]. replace (length h + S (length chars))%nat with (length h + 1 + length chars)%nat by lia.
  replace (S (length h)) with (length h + 1)%nat by lia.
  rewrite skipn_app, skipn_all2 by lia. replace (length h + 1 - length h)%nat with 1%nat by lia. cbn [skipn app].
  rewrite firstn_app, firstn_all2 by lia. replace (length h - length h)%nat with 0%nat by lia. cbn [firstn].
  rewrite app_nil_r. reflexivity.
Qed.
Lemma decode_lower_inv s r : bech32_decode_lower s = Some r ->
  exists h chars, s = h ++ 49 :: chars /\ ~ In 49 chars /\ decode_parts h chars = Some r.
Proof.
  intros H. destruct (rfind 49 s) as [p|] eqn:E.
  - destruct (rfind_Some _ _ _ E) as (Hs & Hn & _).
    exists (firstn p s), (skipn (S p) s). repeat split; try assumption.
    rewrite <- decode_lower_parts by assumption. now rewrite <- Hs.
  - unfold bech32_decode_lower in H. rewrite E in H. discriminate.
Qed.

(* ---------- decode (encode ..) ---------- *)
Definition hrp_valid (hrp : str) : Prop :=
  hrp <> [] /\ Forall (fun x => bad_char x = false /\ lowerc x = x) hrp.

Lemma bad_char_lt128 x : bad_char x = false -> x < 128.
Proof. unfold bad_char. lia. Qed.
Lemma hrp_valid_ok hrp : hrp_valid hrp -> hrp_ok hrp.
Proof. intros [_ H]. eapply Forall_impl; [|exact H]. intros a [Ha _]. now apply bad_char_lt128. Qed.

Lemma str_eqb_refl s : str_eqb s s = true.
Proof. induction s; cbn; [reflexivity|]. now rewrite N.eqb_refl. Qed.
Lemma str_eqb_eq a : forall b, str_eqb a b = true <-> a = b.
Proof.
  induction a as [|x a IH]; intros [|y b]; cbn; split; intros H; try easy.
  - apply andb_true_iff in H as [H1 H2]. apply N.eqb_eq in H1. apply IH in H2. now subst.
  - injection H as -> ->. rewrite N.eqb_refl. now apply IH.
Qed.

Lemma existsb_false_Forall {A} (f : A -> bool) l : existsb f l = false <-> Forall (fun x => f x = false) l.
Proof.
  induction l as [|x l IH]; cbn; [split; [constructor | reflexivity]|].
  rewrite orb_false_iff, IH. split; [intros []; now constructor | intros H; inversion H; now split].
Qed.

Lemma map_id_Forall (f : N -> N) l : Forall (fun x => f x = x) l -> map f l = l.
Proof. induction 1 as [|x l Hx _ IH]; cbn [map]; [reflexivity|]. now rewrite Hx, IH. Qed.

Theorem decode_encode hrp data spec : hrp_valid hrp -> data_ok data ->
  (length hrp + 7 + length data <= MAXLEN)%nat ->
  exists s, bech32_encode hrp data spec = Some s /\ bech32_decode s = Some (hrp, data, spec_result spec).
Proof.
  intros Hh Hd Hlen. unfold bech32_encode.
  assert (Hall : data_ok (data ++ create_checksum hrp data spec)).
  { apply Forall_app. split; [assumption | apply create_checksum_lt]. }
  destruct (charset_get_ok _ Hall) as (chars & E & Hc & Hm). rewrite E.
  eexists. split; [reflexivity|]. cbn [app].
  assert (Hl : length chars = (length data + 6)%nat).
  { rewrite <- (map_length (fun x => find x CHARSET) chars), Hm, app_length. reflexivity. }
  assert (Hlow : lower (hrp ++ 49 :: chars) = hrp ++ 49 :: chars).
  { unfold lower. rewrite map_app, map_cons. f_equal; [|f_equal].
    - destruct Hh as [_ Hh]. apply map_id_Forall. eapply Forall_impl; [|exact Hh]. now intros a [_ Ha].
    - apply map_id_Forall. eapply Forall_impl; [|exact Hc]. intros a Ha. now apply charset_char in Ha. }
  unfold bech32_decode. rewrite Hlow.
  replace (existsb bad_char (hrp ++ 49 :: chars)) with false.
  2:{ symmetry. apply existsb_false_Forall. apply Forall_app. split; [|constructor; [reflexivity|]].
      - destruct Hh as [_ Hh]. eapply Forall_impl; [|exact Hh]. now intros a [Ha _].
      - eapply Forall_impl; [|exact Hc]. intros a Ha. now apply charset_char in Ha. }
  unfold mixed_case. rewrite Hlow, str_eqb_refl. cbn [negb andb orb].
  rewrite decode_lower_parts by now apply in_charset_no_sep.
  unfold decode_parts. rewrite Hl.
  destruct Hh as [Hne Hh]. assert (0 < length hrp)%nat by (destruct hrp; [congruence | cbn; lia]).
  replace (Nat.ltb (length hrp) 1) with false by (symmetry; apply Nat.ltb_ge; lia).
  replace (Nat.ltb _ (length hrp + 7)) with false by (symmetry; apply Nat.ltb_ge; lia).
  replace (Nat.ltb MAXLEN _) with false by (symmetry; apply Nat.ltb_ge; lia).
  cbn [orb]. apply in_charset_forallb in Hc. rewrite Hc. cbn [negb].
  rewrite Hm, create_verify; [|now apply hrp_valid_ok; split|assumption].
  rewrite app_length, create_checksum_length.
  replace (length data + 6 - 6)%nat with (length data) by lia.
  rewrite firstn_app, firstn_all, Nat.sub_diag. cbn [firstn]. now rewrite app_nil_r.
Qed.

(* ---------- single substitution in the data part ---------- *)
Lemma decode_parts_Some h chars r : decode_parts h chars = Some r ->
  (1 <= length h)%nat /\ (6 <= length chars)%nat /\ (length h + 1 + length chars <= MAXLEN)%nat
  /\ in_charset chars
  /\ is_valid_const (bech32_polymod (hrp_expand h ++ map (fun x => find x CHARSET) chars)) = true.
Proof.
  unfold decode_parts. intros H.
  destruct (Nat.ltb (length h) 1) eqn:E1; [discriminate|].
  destruct (Nat.ltb _ (length h + 7)) eqn:E2; [discriminate|].
  destruct (Nat.ltb MAXLEN _) eqn:E3; [discriminate|]. cbn [orb] in H.
  destruct (forallb _ chars) eqn:E4; [|discriminate]. cbn [negb] in H.
  apply Nat.ltb_ge in E1, E2, E3. apply in_charset_forallb in E4.
  repeat split; try lia; try assumption.
  destruct (is_valid_const _) eqn:V; [reflexivity|]. apply verify_is_valid in V. now rewrite V in H.
Qed.

Lemma subst_lower_rejected s r i c p :
  Forall (fun x => x < 128) s ->
  bech32_decode_lower s = Some r -> rfind 49 s = Some p -> (p < i < length s)%nat ->
  c <> 49 -> c <> nth i s 0 ->
  bech32_decode_lower (subst i c s) = None.
Proof.
  intros Hs H Hp Hi Hc1 Hcn.
  destruct (decode_lower_inv s r H) as (h & chars & -> & Hn & Hd).
  rewrite rfind_app_sep in Hp by assumption. injection Hp as <-.
  rewrite app_length in Hi. cbn [length] in Hi.
  set (j := (i - length h - 1)%nat). assert (Hj : (j < length chars)%nat) by lia.
  replace i with (length h + S j)%nat in * by lia. clearbody j.
  rewrite nth_app_r in Hcn. rewrite subst_app_r.
  assert (Hn' : ~ In 49 (subst j c chars)).
  { intros Hin. apply subst_In in Hin as [E|Hin]; [congruence | contradiction]. }
  rewrite decode_lower_parts by assumption.
  destruct (decode_parts_Some _ _ _ Hd) as (L1 & L6 & Lm & Hcs & Hv).
  unfold decode_parts. rewrite subst_length by assumption.
  destruct (_ || _ || _); [reflexivity|].
  destruct (forallb _ (subst j c chars)) eqn:Hf; [|reflexivity]. cbn [negb].
  apply in_charset_forallb in Hf.
  assert (Hcm : mem c CHARSET = true).
  { unfold in_charset in Hf. rewrite Forall_forall in Hf. apply Hf. unfold subst. apply in_or_app. right. now left. }
  assert (Hom : mem (nth j chars 0) CHARSET = true).
  { unfold in_charset in Hcs. rewrite Forall_forall in Hcs. apply Hcs. now apply nth_In. }
  replace (verify_checksum h _) with (@None encoding); [reflexivity|]. symmetry. apply verify_is_valid.
  set (fd := fun x => find x CHARSET) in *.
  assert (Hsplit : map fd chars = map fd (firstn j chars) ++ fd (nth j chars 0) :: map fd (skipn (S j) chars)).
  { rewrite (split_nth chars j Hj) at 1. now rewrite map_app. }
  unfold subst. rewrite map_app, map_cons. rewrite Hsplit in Hv.
  rewrite app_assoc in Hv |- *.
  assert (Hpre : small (hrp_expand h ++ map fd (firstn j chars))).
  { apply small_app.
    - apply hrp_expand_small. apply Forall_app in Hs. apply Hs.
    - apply small_of_lt32, find_lt_all. unfold in_charset in *. rewrite <- (firstn_skipn j chars) in Hcs.
      apply Forall_app in Hcs. apply Hcs. }
  assert (Hpost : small (map fd (skipn (S j) chars))).
  { apply small_of_lt32, find_lt_all. unfold in_charset in *. rewrite <- (firstn_skipn (S j) chars) in Hcs.
    apply Forall_app in Hcs. apply Hcs. }
  assert (Hd1 : fd (nth j chars 0) < 32) by now apply charset_char.
  assert (Hd2 : fd c < 32) by now apply charset_char.
  rewrite (polymod_subst _ (fd (nth j chars 0)) (fd c)); try assumption.
  2,3: change (2 ^ 30) with 1073741824; lia.
  apply valid_xor_delta; try assumption.
  - rewrite map_length, skipn_length. unfold TABLE_K, MAXLEN in *. lia.
  - split; [|now apply lxor_lt32].
    destruct (N.eq_dec (N.lxor (fd (nth j chars 0)) (fd c)) 0) as [E|E]; [|lia].
    apply N.lxor_eq in E. apply find_inj in E; try assumption. congruence.
Qed.

Lemma lowerc_49 x : lowerc x = 49 <-> x = 49.
Proof. unfold lowerc. destruct ((65 <=? x) && (x <=? 90)) eqn:E; lia. Qed.
Lemma lowerc_lt x : bad_char x = false -> lowerc x < 128.
Proof. unfold bad_char, lowerc. destruct ((65 <=? x) && (x <=? 90)) eqn:E; lia. Qed.

Lemma nth_lower i s : nth i (lower s) 0 = lowerc (nth i s 0).
Proof. unfold lower. rewrite <- (map_nth lowerc s 0 i). reflexivity. Qed.

Lemma decode_Some_facts s r : bech32_decode s = Some r ->
  existsb bad_char s = false /\ mixed_case s = false /\ bech32_decode_lower (lower s) = Some r
  /\ (length s <= MAXLEN)%nat.
Proof.
  unfold bech32_decode. intros H.
  destruct (existsb bad_char s) eqn:E1; [discriminate|]. destruct (mixed_case s) eqn:E2; [discriminate|].
  cbn [orb] in H. repeat split; try assumption.
  destruct (decode_lower_inv _ _ H) as (h & chars & E & _ & Hd).
  apply decode_parts_Some in Hd. rewrite <- (map_length lowerc s). fold (lower s). rewrite E, app_length. cbn [length]. lia.
Qed.

(* THE single-substitution theorem (data part).  Excluded: c = "1" (moves the separator), positions up to and
   including the separator; a case-only change decodes to the SAME result (or is rejected as mixed case). *)
Theorem single_subst s r p i c :
  bech32_decode s = Some r -> rfind 49 s = Some p -> (p < i < length s)%nat ->
  c <> 49 -> c <> nth i s 0 ->
  bech32_decode (subst i c s) = None
  \/ (lowerc c = lowerc (nth i s 0) /\ bech32_decode (subst i c s) = Some r).
Proof.
  intros H Hp Hi Hc Hne. destruct (decode_Some_facts s r H) as (Hb & Hm & Hl & _).
  unfold bech32_decode.
  destruct (existsb bad_char (subst i c s) || mixed_case (subst i c s)) eqn:G; [now left|].
  apply orb_false_iff in G as [G1 G2].
  assert (Bc : bad_char c = false).
  { rewrite existsb_false_Forall, Forall_forall in G1. apply G1. unfold subst. apply in_or_app. right. now left. }
  unfold lower. rewrite subst_map. fold (lower s).
  destruct (N.eq_dec (lowerc c) (lowerc (nth i s 0))) as [E|E].
  - right. split; [assumption|]. rewrite E, <- nth_lower.
    rewrite subst_same by (unfold lower; rewrite map_length; lia). exact Hl.
  - left.
    assert (A1 : Forall (fun x => x < 128) (lower s)).
    { rewrite existsb_false_Forall in Hb. unfold lower. apply Forall_forall. intros x Hx.
      apply in_map_iff in Hx as (y & <- & Hy). rewrite Forall_forall in Hb. now apply lowerc_lt, Hb. }
    assert (A2 : rfind 49 (lower s) = Some p).
    { unfold lower. rewrite rfind_map_stable; [assumption | apply lowerc_49]. }
    assert (A3 : (p < i < length (lower s))%nat) by (unfold lower; now rewrite map_length).
    assert (A4 : lowerc c <> 49) by (intros E'; apply (proj1 (lowerc_49 c)) in E'; contradiction).
    assert (A5 : lowerc c <> nth i (lower s) 0) by (rewrite nth_lower; exact E).
    exact (subst_lower_rejected (lower s) r i (lowerc c) p A1 Hl A2 A3 A4 A5).
Qed.

Example single_subst_nonvacuous :
  let s := codes "addr1v8xrqjtlfluk9axpmjj5enh0uw0cduwhz7txsqyl36m3ukgqdsn8w" in
  (exists r, bech32_decode s = Some r) /\ rfind 49 s = Some 4%nat /\ bech32_decode (subst 10 (nth 0 CHARSET 0) s) = None.
Proof. vm_compute. split; [eexists; reflexivity | split; reflexivity]. Qed.

(* ================================================================= D. convertbits *)
(* bit-string view: w bits of v, most significant first *)
Fixpoint bitsMSB (w : nat) (v : N) : list bool :=
  match w with O => [] | S w' => N.testbit v (N.of_nat w') :: bitsMSB w' v end.
Definition flatbits (w : nat) (l : list N) : list bool := flat_map (bitsMSB w) l.

Lemma bitsMSB_length w v : length (bitsMSB w v) = w.
Proof. induction w; cbn; [reflexivity | now rewrite IHw]. Qed.
Lemma flatbits_length w l : length (flatbits w l) = (w * length l)%nat.
Proof.
  induction l as [|x l IH]; cbn; [lia|]. rewrite app_length, bitsMSB_length. fold (flatbits w l). rewrite IH. lia.
Qed.
Lemma flatbits_app w a b : flatbits w (a ++ b) = flatbits w a ++ flatbits w b.
Proof. apply flat_map_app. Qed.
Lemma bitsMSB_ext w u v :
  (forall i, (i < w)%nat -> N.testbit u (N.of_nat i) = N.testbit v (N.of_nat i)) -> bitsMSB w u = bitsMSB w v.
Proof.
  induction w as [|w IH]; intros H; cbn; [reflexivity|]. rewrite H by lia. f_equal. apply IH. intros. apply H. lia.
Qed.
Lemma bitsMSB_eq_bits w u v : bitsMSB w u = bitsMSB w v ->
  forall i, (i < w)%nat -> N.testbit u (N.of_nat i) = N.testbit v (N.of_nat i).
Proof.
  induction w as [|w IH]; intros H i Hi; [lia|]. cbn in H. injection H as H0 H.
  destruct (Nat.eq_dec i w) as [->|]; [assumption|]. apply IH; [assumption | lia].
Qed.
Lemma bitsMSB_app a b v : bitsMSB (a + b) v = bitsMSB a (N.shiftr v (N.of_nat b)) ++ bitsMSB b v.
Proof.
  induction a as [|a IH]; cbn; [reflexivity|]. rewrite IH. f_equal.
  rewrite N.shiftr_spec'. f_equal. lia.
Qed.
Lemma bitsMSB_land_ones w v k : (N.of_nat w <= k) -> bitsMSB w (N.land v (N.ones k)) = bitsMSB w v.
Proof.
  intros H. apply bitsMSB_ext. intros i Hi. rewrite N.land_spec, N.ones_spec_low by lia. apply andb_true_r.
Qed.
Lemma bitsMSB_0 w : bitsMSB w 0 = repeat false w.
Proof. induction w; cbn; [reflexivity|]. now rewrite IHw. Qed.
Lemma bitsMSB_inj w x y : x < 2 ^ N.of_nat w -> y < 2 ^ N.of_nat w -> bitsMSB w x = bitsMSB w y -> x = y.
Proof.
  intros Hx Hy H. apply N.bits_inj; intro n.
  destruct (N.lt_ge_cases n (N.of_nat w)) as [Hn|Hn].
  - pose proof (bitsMSB_eq_bits w x y H (N.to_nat n)) as E. rewrite N2Nat.id in E. apply E. lia.
  - rewrite (testbit_high x _ n Hx Hn), (testbit_high y _ n Hy Hn). reflexivity.
Qed.

Lemma app_inv_len {A} (a c b d : list A) : length a = length c -> a ++ b = c ++ d -> a = c /\ b = d.
Proof.
  revert c. induction a as [|x a IH]; intros [|y c] Hl H; cbn in *; try discriminate; [now split|].
  injection H as -> H. injection Hl as Hl. destruct (IH c Hl H) as [-> ->]. now split.
Qed.
Lemma flatbits_inj w l1 : forall l2, (0 < w)%nat ->
  Forall (fun x => x < 2 ^ N.of_nat w) l1 -> Forall (fun x => x < 2 ^ N.of_nat w) l2 ->
  flatbits w l1 = flatbits w l2 -> l1 = l2.
Proof.
  induction l1 as [|x l1 IH]; intros [|y l2] Hw H1 H2 H.
  - reflexivity.
  - apply (f_equal (@length bool)) in H. rewrite !flatbits_length in H. cbn in H. lia.
  - apply (f_equal (@length bool)) in H. rewrite !flatbits_length in H. cbn in H. lia.
  - cbn in H. apply app_inv_len in H as [Hx Hr]; [|now rewrite !bitsMSB_length].
    inversion H1; inversion H2; subst. f_equal; [now apply (bitsMSB_inj w) | now apply IH].
Qed.

Lemma ones_is_maxv t : N.shiftl 1 t - 1 = N.ones t.
Proof. unfold N.ones. now rewrite N.sub_1_r. Qed.

Definition bounded (t : N) (l : list N) : Prop := Forall (fun x => x < 2 ^ t) l.

Lemma land_ones_lt a t : N.land a (N.ones t) < 2 ^ t.
Proof. rewrite N.land_ones. apply N.mod_upper_bound. apply N.pow_nonzero. lia. Qed.

Lemma cb_while_spec fuel : forall acc bits t ret, 0 < t -> (N.to_nat bits < fuel)%nat ->
  exists bits' ret', cb_while fuel acc bits t (N.ones t) ret = Some (bits', ret')
    /\ bits' < t
    /\ flatbits (N.to_nat t) ret' ++ bitsMSB (N.to_nat bits') acc
       = flatbits (N.to_nat t) ret ++ bitsMSB (N.to_nat bits) acc
    /\ (bounded t ret -> bounded t ret').
Proof.
  induction fuel as [|fuel IH]; intros acc bits t ret Ht Hf; [lia|]. cbn [cb_while].
  destruct (N.leb_spec t bits) as [Hle|Hlt].
  - destruct (IH acc (bits - t) t (ret ++ [N.land (N.shiftr acc (bits - t)) (N.ones t)]) Ht ltac:(lia))
      as (b' & r' & E & Hb & Hbits & Hbd).
    exists b', r'. repeat split; try assumption.
    + rewrite Hbits, flatbits_app. cbn [flatbits flat_map]. rewrite app_nil_r, <- app_assoc. f_equal.
      rewrite bitsMSB_land_ones by lia.
      replace (N.to_nat bits) with (N.to_nat t + N.to_nat (bits - t))%nat by lia.
      rewrite bitsMSB_app. now rewrite N2Nat.id.
    + intros Hr. apply Hbd. apply Forall_app. split; [assumption|]. constructor; [apply land_ones_lt | constructor].
  - exists bits, ret. repeat split; try assumption; tauto.
Qed.

Lemma cb_loop_spec data : forall f t acc bits ret, 0 < f -> 0 < t -> bounded f data -> bits < t ->
  exists acc' bits' ret',
    cb_loop data f t (N.ones t) (N.ones (f + t - 1)) acc bits ret = Some (acc', bits', ret')
    /\ bits' < t
    /\ flatbits (N.to_nat t) ret' ++ bitsMSB (N.to_nat bits') acc'
       = flatbits (N.to_nat t) ret ++ bitsMSB (N.to_nat bits) acc ++ flatbits (N.to_nat f) data
    /\ (bounded t ret -> bounded t ret').
Proof.
  induction data as [|v data IH]; intros f t acc bits ret Hf Ht Hd Hb; cbn [cb_loop].
  - exists acc, bits, ret. cbn [flatbits flat_map]. rewrite app_nil_r. repeat split; try assumption; tauto.
  - inversion Hd as [|? ? Hv Hd']; subst.
    rewrite N.shiftr_div_pow2, N.div_small by assumption. cbn [N.eqb negb].
    set (acc1 := N.land (N.lor (N.shiftl acc f) v) (N.ones (f + t - 1))).
    destruct (cb_while_spec (S (N.to_nat (bits + f))) acc1 (bits + f) t ret Ht ltac:(lia))
      as (b2 & r2 & E & Hb2 & Hbits2 & Hbd2).
    rewrite E.
    destruct (IH f t acc1 b2 r2 Hf Ht Hd' Hb2) as (a3 & b3 & r3 & E3 & Hb3 & Hbits3 & Hbd3).
    exists a3, b3, r3. repeat split; try assumption; [|tauto].
    rewrite Hbits3, app_assoc, Hbits2. cbn [flatbits flat_map]. rewrite <- !app_assoc. f_equal.
    fold (flatbits (N.to_nat f) data). rewrite app_assoc. f_equal.
    replace (N.to_nat (bits + f)) with (N.to_nat bits + N.to_nat f)%nat by lia.
    rewrite bitsMSB_app, N2Nat.id. f_equal.
    + apply bitsMSB_ext. intros i Hi. rewrite N.shiftr_spec'. unfold acc1.
      rewrite N.land_spec, N.ones_spec_low, andb_true_r by lia.
      rewrite N.lor_spec, N.shiftl_spec_high' by lia.
      rewrite (testbit_high v f) by (assumption || lia). rewrite orb_false_r. f_equal. lia.
    + apply bitsMSB_ext. intros i Hi. unfold acc1.
      rewrite N.land_spec, N.ones_spec_low, andb_true_r by lia.
      rewrite N.lor_spec, N.shiftl_spec_low by lia. reflexivity.
Qed.

Lemma convertbits_unfold data f t pad :
  convertbits data f t pad =
  match cb_loop data f t (N.ones t) (N.ones (f + t - 1)) 0 0 [] with
  | None => None
  | Some (acc, bits, ret) =>
    if pad then
      if negb (bits =? 0) then Some (ret ++ [N.land (N.shiftl acc (t - bits)) (N.ones t)]) else Some ret
    else if (f <=? bits) || negb (N.land (N.shiftl acc (t - bits)) (N.ones t) =? 0) then None
    else Some ret
  end.
Proof. unfold convertbits. now rewrite !ones_is_maxv. Qed.

(* pad=True: the output is the input bit string, zero-padded to a multiple of t *)
Lemma convertbits_pad_spec data f t : 0 < f -> 0 < t -> bounded f data ->
  exists ret p, convertbits data f t true = Some ret /\ bounded t ret /\ (p < N.to_nat t)%nat
    /\ flatbits (N.to_nat t) ret = flatbits (N.to_nat f) data ++ repeat false p.
Proof.
  intros Hf Ht Hd. rewrite convertbits_unfold.
  destruct (cb_loop_spec data f t 0 0 [] Hf Ht Hd Ht) as (acc & bits & ret & E & Hb & Hbits & Hbd).
  rewrite E. cbn [flatbits flat_map bitsMSB app N.to_nat] in Hbits.
  assert (Hr : bounded t ret) by (apply Hbd; constructor).
  destruct (N.eqb_spec bits 0) as [->|Hnz]; cbn [negb].
  - exists ret, 0%nat. repeat split; try assumption; [lia|]. cbn [N.to_nat bitsMSB repeat] in *.
    now rewrite app_nil_r in *.
  - exists (ret ++ [N.land (N.shiftl acc (t - bits)) (N.ones t)]), (N.to_nat (t - bits)). repeat split.
    + apply Forall_app. split; [assumption|]. constructor; [apply land_ones_lt | constructor].
    + lia.
    + rewrite flatbits_app, <- Hbits. cbn [flatbits flat_map]. rewrite app_nil_r, <- app_assoc. f_equal.
      rewrite bitsMSB_land_ones by lia.
      replace (N.to_nat t) with (N.to_nat bits + N.to_nat (t - bits))%nat at 1 by lia.
      rewrite bitsMSB_app, N2Nat.id. f_equal.
      * apply bitsMSB_ext. intros i Hi. rewrite N.shiftr_spec', N.shiftl_spec_high' by lia. f_equal. lia.
      * rewrite <- bitsMSB_0. apply bitsMSB_ext. intros i Hi. rewrite N.shiftl_spec_low by lia. now rewrite N.bits_0.
Qed.

Lemma divmod_unique (t a b c d : nat) : (b < t -> d < t -> t * a + b = t * c + d -> a = c /\ b = d)%nat.
Proof. intros Hb Hd H. destruct (Nat.lt_trichotomy a c) as [L|[L|L]]; nia. Qed.

(* pad=False: a bit string that is X's t-bit groups followed by fewer than min(f,t) zero bits decodes to X *)
Lemma convertbits_nopad_spec data f t X p : 0 < f -> 0 < t -> bounded f data -> bounded t X ->
  (p < N.to_nat t)%nat -> (p < N.to_nat f)%nat ->
  flatbits (N.to_nat f) data = flatbits (N.to_nat t) X ++ repeat false p ->
  convertbits data f t false = Some X.
Proof.
  intros Hf Ht Hd HX Hp Hpf HB. rewrite convertbits_unfold.
  destruct (cb_loop_spec data f t 0 0 [] Hf Ht Hd Ht) as (acc & bits & ret & E & Hb & Hbits & Hbd).
  rewrite E. cbn [flatbits flat_map bitsMSB app N.to_nat] in Hbits.
  assert (Hr : bounded t ret) by (apply Hbd; constructor).
  rewrite HB in Hbits.
  assert (Hlen : length ret = length X /\ N.to_nat bits = p).
  { apply (f_equal (@length bool)) in Hbits. rewrite !app_length, !flatbits_length, bitsMSB_length, repeat_length in Hbits.
    apply (divmod_unique (N.to_nat t)); [lia | lia | exact Hbits]. }
  destruct Hlen as [Hl Hbp].
  apply app_inv_len in Hbits as [Hret Hz]; [|rewrite !flatbits_length; now rewrite Hl].
  apply flatbits_inj in Hret; try assumption; try lia; try (now rewrite N2Nat.id). subst ret.
  replace (f <=? bits) with false by (symmetry; apply N.leb_gt; lia). cbn [orb].
  replace (N.land (N.shiftl acc (t - bits)) (N.ones t)) with 0; [reflexivity|].
  symmetry. apply N.bits_inj; intro n. rewrite N.bits_0, N.land_spec.
  destruct (N.lt_ge_cases n (t - bits)) as [Hn|Hn]; [now rewrite N.shiftl_spec_low|].
  destruct (N.lt_ge_cases n t) as [Hnt|Hnt]; [|rewrite N.ones_spec_high by assumption; apply andb_false_r].
  rewrite N.shiftl_spec_high' by assumption.
  rewrite <- Hbp, <- bitsMSB_0 in Hz.
  pose proof (bitsMSB_eq_bits _ _ _ Hz (N.to_nat (n - (t - bits))) ltac:(lia)) as Hbit.
  rewrite N2Nat.id, N.bits_0 in Hbit. now rewrite Hbit.
Qed.

(* round trip 8 -> 5 (padded) -> 8 (unpadded), for every byte string *)
Theorem convertbits_roundtrip bs : bounded 8 bs ->
  exists d, convertbits bs 8 5 true = Some d /\ bounded 5 d /\ convertbits d 5 8 false = Some bs.
Proof.
  intros Hb. destruct (convertbits_pad_spec bs 8 5 ltac:(lia) ltac:(lia) Hb) as (d & p & E & Hd & Hp & HB).
  exists d. repeat split; try assumption.
  apply (convertbits_nopad_spec d 5 8 bs p); try assumption; lia.
Qed.

Lemma convertbits_pad_length bs d : bounded 8 bs -> convertbits bs 8 5 true = Some d ->
  length d = ((8 * length bs + 4) / 5)%nat.
Proof.
  intros Hb E. destruct (convertbits_pad_spec bs 8 5 ltac:(lia) ltac:(lia) Hb) as (d' & p & E' & _ & Hp & HB).
  rewrite E in E'. injection E' as <-. apply (f_equal (@length bool)) in HB.
  rewrite app_length, !flatbits_length, repeat_length in HB.
  change (N.to_nat 5) with 5%nat in *. change (N.to_nat 8) with 8%nat in *. lia.
Qed.

(* ================================================================= E. BIP-173 as polynomial arithmetic over GF(32)
   Independent specification written from the BIP text:
   GF(32) = GF(2)[a]/(a^5 + a^3 + 1), elements are 5-bit numbers (bit i = coefficient of a^i);
   g(x) = x^6 + {29}x^5 + {22}x^4 + {20}x^3 + {21}x^2 + {29}x + {18};
   the checksum residue of v_0..v_{n-1} is  (x^n + v_0 x^(n-1) + ... + v_{n-1})  mod g(x),
   computed here by Horner's rule on the 6 coefficients [c5; c4; c3; c2; c1; c0] of the running remainder. *)
Definition gf_double (x : N) : N :=                       (* x * a *)
  let y := N.shiftl x 1 in if N.testbit y 5 then N.lxor y 41 else y.      (* 41 = a^5 + a^3 + 1 *)
Definition gf_mul (x y : N) : N :=                        (* x * y, Horner over the bits of y *)
  fold_left (fun acc i => N.lxor (gf_double acc) (if N.testbit y i then x else 0)) [4; 3; 2; 1; 0] 0.
Definition g_low : list N := [29; 22; 20; 21; 29; 18].    (* x^6 = g_low(x)  (mod g), characteristic 2 *)
(* remainder * x + v  (mod g) *)
Definition gf_step (st : list N) (v : N) : list N :=
  match st with
  | c5 :: rest => zipxor (rest ++ [v]) (map (fun gk => gf_mul gk c5) g_low)
  | [] => []
  end.
Definition gf_polymod (values : list N) : list N := fold_left gf_step values [0; 0; 0; 0; 0; 1].
Definition pack (st : list N) : N := fold_left (fun acc c => acc * 32 + c) st 0.

Lemma gf_table_fin :
  forallb (fun c => (gfold c =? pack (map (fun gk => gf_mul gk c) g_low))
                    && forallb (fun gk => gf_mul gk c <? 32) g_low) all32 = true.
Proof. vm_compute. reflexivity. Qed.
Lemma gf_table c : c < 32 ->
  gfold c = pack (map (fun gk => gf_mul gk c) g_low) /\ Forall (fun v => v < 32) (map (fun gk => gf_mul gk c) g_low).
Proof.
  intros H. pose proof gf_table_fin as F. rewrite forallb_forall in F. specialize (F c (in_all32 c H)).
  apply andb_true_iff in F as [F1 F2]. apply N.eqb_eq in F1. split; [assumption|].
  rewrite forallb_forall in F2. apply Forall_forall. intros v Hv. apply in_map_iff in Hv as (gk & <- & Hg).
  now apply N.ltb_lt, F2.
Qed.

Lemma pack_step_lxor x y c d : c < 32 -> d < 32 ->
  N.lxor x y * 32 + N.lxor c d = N.lxor (x * 32 + c) (y * 32 + d).
Proof.
  intros Hc Hd. change 32 with (2 ^ 5) in *.
  rewrite <- !lxor_shiftl_add by (assumption || now apply lxor_lt_pow2).
  rewrite N.shiftl_lxor. apply lxor_swap4.
Qed.
Lemma pack_zipxor a : forall b x y, length a = length b ->
  Forall (fun v => v < 32) a -> Forall (fun v => v < 32) b ->
  fold_left (fun acc c => acc * 32 + c) (zipxor a b) (N.lxor x y)
  = N.lxor (fold_left (fun acc c => acc * 32 + c) a x) (fold_left (fun acc c => acc * 32 + c) b y).
Proof.
  induction a as [|c a IH]; intros [|d b] x y Hl Ha Hb; try discriminate; cbn [zipxor fold_left]; [reflexivity|].
  inversion Ha; inversion Hb; subst. rewrite pack_step_lxor by assumption. apply IH; [now injection Hl | assumption..].
Qed.
Lemma pack_zipxor0 a b : length a = length b ->
  Forall (fun v => v < 32) a -> Forall (fun v => v < 32) b -> pack (zipxor a b) = N.lxor (pack a) (pack b).
Proof. intros. unfold pack. now apply (pack_zipxor a b 0 0). Qed.
Lemma zipxor_lt32 a : forall b, Forall (fun v => v < 32) a -> Forall (fun v => v < 32) b ->
  Forall (fun v => v < 32) (zipxor a b).
Proof.
  induction a as [|c a IH]; intros [|d b] Ha Hb; cbn; try constructor.
  - inversion Ha; inversion Hb; subst. now apply lxor_lt32.
  - inversion Ha; inversion Hb; subst. now apply IH.
Qed.

Definition gf_state (st : list N) : Prop := length st = 6%nat /\ Forall (fun v => v < 32) st.

Lemma gf_step_state st v : gf_state st -> v < 32 -> gf_state (gf_step st v).
Proof.
  intros [Hl Hs] Hv. destruct st as [|c5 [|c4 [|c3 [|c2 [|c1 [|c0 [|]]]]]]]; try discriminate.
  repeat match goal with H : Forall _ (_ :: _) |- _ => apply Forall_cons_iff in H as [? H] end.
  destruct (gf_table c5 ltac:(assumption)) as [_ Hg]. split; [reflexivity|].
  unfold gf_step. apply zipxor_lt32; [|exact Hg]. cbn [app]. repeat (constructor; [assumption|]). constructor.
Qed.

Lemma gf_step_correct st v : gf_state st -> v < 32 -> polymod_step (pack st) v = pack (gf_step st v).
Proof.
  intros [Hl Hs] Hv. destruct st as [|c5 [|c4 [|c3 [|c2 [|c1 [|c0 [|]]]]]]]; try discriminate.
  repeat match goal with H : Forall _ (_ :: _) |- _ => apply Forall_cons_iff in H as [? H] end.
  destruct (gf_table c5 ltac:(assumption)) as [Hgf Hg].
  unfold gf_step.
  rewrite pack_zipxor0; [| reflexivity | cbn [app]; repeat (constructor; [assumption|]); constructor | exact Hg].
  rewrite <- Hgf. unfold pack at 2.
  rewrite polymod_step_L. unfold L.
  set (R := (((c4 * 32 + c3) * 32 + c2) * 32 + c1) * 32 + c0).
  assert (HR : R < 2 ^ 25) by (subst R; change (2 ^ 25) with 33554432; lia).
  assert (Hp : pack [c5; c4; c3; c2; c1; c0] = c5 * 2 ^ 25 + R).
  { unfold pack. cbn [fold_left]. subst R. change (2 ^ 25) with 33554432. lia. }
  rewrite Hp. change 0x1FFFFFF with (N.ones 25).
  rewrite N.land_ones, N.shiftr_div_pow2.
  replace ((c5 * 2 ^ 25 + R) mod 2 ^ 25) with R.
  2:{ rewrite N.add_comm, N.mod_add by (apply N.pow_nonzero; lia). now rewrite N.mod_small. }
  replace ((c5 * 2 ^ 25 + R) / 2 ^ 25) with c5.
  2:{ rewrite N.add_comm, N.div_add by (apply N.pow_nonzero; lia). rewrite N.div_small by assumption. reflexivity. }
  cbn [app fold_left].
  replace (0 * 32 + c4) with c4 by lia. fold R.
  replace (R * 32 + v) with (N.lxor (N.shiftl R 5) v) by (rewrite (lxor_shiftl_add R v 5) by assumption; reflexivity).
  rewrite !N.lxor_assoc. f_equal. apply N.lxor_comm.
Qed.

(* the code's bech32_polymod is the packed remainder of the BIP-173 polynomial modulo g over GF(32) *)
Theorem polymod_is_gf32_remainder values : Forall (fun v => v < 32) values ->
  bech32_polymod values = pack (gf_polymod values) /\ gf_state (gf_polymod values).
Proof.
  unfold bech32_polymod, gf_polymod. change 1 with (pack [0; 0; 0; 0; 0; 1]) at 1.
  assert (H0 : gf_state [0; 0; 0; 0; 0; 1]) by (split; [reflexivity | repeat constructor]).
  revert H0. generalize [0; 0; 0; 0; 0; 1] as st.
  induction values as [|v values IH]; intros st Hst Hv; cbn [fold_left]; [now split|].
  inversion Hv; subst. rewrite gf_step_correct by assumption. apply IH; [now apply gf_step_state | assumption].
Qed.

(* BIP-173 test vector "a12uel5l": residue 1, i.e. remainder [0;0;0;0;0;1] *)
Example gf_polymod_test_vector :
  gf_polymod (hrp_expand (codes "a") ++ map (fun x => find x CHARSET) (codes "2uel5l")) = [0; 0; 0; 0; 0; 1].
Proof. vm_compute. reflexivity. Qed.

(* ================================================================= F. substitution in the human-readable part *)
Lemma Lpow_bound k : forall e, e < 2 ^ 30 -> Lpow k e < 2 ^ 30.
Proof. induction k as [|k IH]; intros e He; cbn [Lpow]; [assumption|]. apply IH. now apply L_bound. Qed.
Lemma Lpow_lin k : forall a b, a < 2 ^ 30 -> b < 2 ^ 30 -> Lpow k (N.lxor a b) = N.lxor (Lpow k a) (Lpow k b).
Proof.
  induction k as [|k IH]; intros a b Ha Hb; cbn [Lpow]; [reflexivity|].
  rewrite L_lin by assumption. apply IH; now apply L_bound.
Qed.
Lemma Lpow_add a : forall b e, Lpow (a + b) e = Lpow a (Lpow b e).
Proof.
  induction a as [|a IH]; intros b e; [reflexivity|]. cbn [Nat.add Lpow].
  rewrite IH. f_equal. clear. revert e. induction b as [|b IHb]; intros e; cbn [Lpow]; [reflexivity|]. now rewrite IHb.
Qed.

Fixpoint iter_ok (n : nat) (v : N) : bool :=
  match n with O => true | S n' => negb (bad_delta v) && iter_ok n' (L v) end.
Lemma iter_ok_spec n : forall v, iter_ok n v = true -> forall k, (k < n)%nat -> bad_delta (Lpow k v) = false.
Proof.
  induction n as [|n IH]; intros v H k Hk; [lia|]. cbn [iter_ok] in H. apply andb_true_iff in H as [H0 H1].
  destruct k as [|k]; cbn [Lpow]; [now apply negb_true_iff in H0|]. apply IH; [assumption | lia].
Qed.

(* a character of the prefix enters polymod twice (x >> 5 at distance d = |hrp| + 1 before x & 31):
   for every d <= 103, every pair of differences (e1 < 4, e2 < 32) not both zero and every distance k < 108 from the end *)
Definition HRP_D : nat := 102.
Definition pair_table_check (D : nat) (l1 l2 : list N) : bool :=
  forallb (fun d => forallb (fun e1 => forallb (fun e2 =>
     if (e1 =? 0) && (e2 =? 0) then true else iter_ok 108 (N.lxor (Lpow d e1) e2)) l2) l1) (seq 2 D).
Lemma pair_error_table : pair_table_check HRP_D [0; 1; 2; 3] all32 = true.
Proof. vm_compute. reflexivity. Qed.
Lemma pair_table_gen D l1 l2 : pair_table_check D l1 l2 = true ->
  forall d e1 e2 k, (2 <= d < 2 + D)%nat -> In e1 l1 -> In e2 l2 -> (k < 108)%nat -> (e1 <> 0 \/ e2 <> 0) ->
  bad_delta (Lpow k (N.lxor (Lpow d e1) e2)) = false.
Proof.
  unfold pair_table_check. intros H d e1 e2 k Hd H1 H2 Hk Hne.
  rewrite forallb_forall in H. specialize (H d ltac:(apply in_seq; lia)).
  rewrite forallb_forall in H. specialize (H e1 H1). rewrite forallb_forall in H. specialize (H e2 H2).
  destruct ((e1 =? 0) && (e2 =? 0)) eqn:Z; [lia|]. now apply (iter_ok_spec 108).
Qed.

Lemma pair_table_use d e1 e2 k : (2 <= d < 104)%nat -> e1 < 4 -> e2 < 32 -> (k < 108)%nat -> (e1 <> 0 \/ e2 <> 0) ->
  bad_delta (Lpow k (N.lxor (Lpow d e1) e2)) = false.
Proof.
  intros Hd H1 H2 Hk Hne. apply (pair_table_gen HRP_D [0; 1; 2; 3] all32 pair_error_table); try assumption.
  - assert (E : e1 = 0 \/ e1 = 1 \/ e1 = 2 \/ e1 = 3) by lia. destruct E as [E|[E|[E|E]]]; subst e1; cbn; tauto.
  - now apply in_all32.
Qed.

(* ---------- the theorem ---------- *)
Definition hi5 (x : N) : N := N.shiftr x 5.
Definition lo5 (x : N) : N := N.land x 31.
Lemma hi5_lt x : x < 128 -> hi5 x < 4.
Proof. intros H. unfold hi5. rewrite N.shiftr_div_pow2. apply N.div_lt_upper_bound; [easy|]. change (2 ^ 5 * 4) with 128. exact H. Qed.
Lemma lo5_lt x : lo5 x < 32.
Proof. apply land31_lt. Qed.
Ltac Zify.zify_post_hook ::= Z.to_euclidean_division_equations.
Lemma hi_lo_inj x y : hi5 x = hi5 y -> lo5 x = lo5 y -> x = y.
Proof.
  unfold hi5, lo5. change 31 with (N.ones 5). rewrite !N.land_ones, !N.shiftr_div_pow2. change (2 ^ 5) with 32. lia.
Qed.

Lemma hrp_expand_split pre x post :
  hrp_expand (pre ++ x :: post) =
  map hi5 pre ++ hi5 x :: (map hi5 post ++ [0] ++ map lo5 pre) ++ lo5 x :: map lo5 post.
Proof.
  unfold hrp_expand. fold hi5. change (fun x => N.land x 31) with lo5.
  rewrite !map_app, !map_cons, <- !app_assoc. cbn [app]. reflexivity.
Qed.

Lemma small_map_hi l : Forall (fun x => x < 128) l -> small (map hi5 l).
Proof.
  intros H. apply Forall_forall. intros v Hv. apply in_map_iff in Hv as (x & <- & Hx).
  eapply Forall_forall in H; [|exact Hx]. cbn in H. pose proof (hi5_lt x H). change (2 ^ 30) with 1073741824. lia.
Qed.
Lemma small_map_lo l : small (map lo5 l).
Proof.
  apply Forall_forall. intros v Hv. apply in_map_iff in Hv as (x & <- & Hx).
  pose proof (lo5_lt x). change (2 ^ 30) with 1073741824. lia.
Qed.

(* polymod after replacing prefix character x by y *)
Lemma polymod_hrp_subst pre x y post data :
  Forall (fun v => v < 128) pre -> Forall (fun v => v < 128) post -> x < 128 -> y < 128 -> small data ->
  bech32_polymod (hrp_expand (pre ++ y :: post) ++ data) =
  N.lxor (bech32_polymod (hrp_expand (pre ++ x :: post) ++ data))
         (Lpow (length post + length data)
               (N.lxor (Lpow (length pre + length post + 2) (N.lxor (hi5 x) (hi5 y))) (N.lxor (lo5 x) (lo5 y)))).
Proof.
  intros Hpre Hpost Hx Hy Hd. rewrite !hrp_expand_split.
  set (A := map hi5 pre). set (B := map hi5 post ++ [0] ++ map lo5 pre). set (C := map lo5 post).
  assert (HA : small A) by now apply small_map_hi.
  assert (HB : small B).
  { apply small_app; [now apply small_map_hi | apply small_app; [repeat constructor | apply small_map_lo]]. }
  assert (HC : small C) by apply small_map_lo.
  assert (Hh : forall z, z < 128 -> hi5 z < 2 ^ 30) by (intros z Hz; pose proof (hi5_lt z Hz); change (2 ^ 30) with 1073741824; lia).
  assert (Hl : forall z, lo5 z < 2 ^ 30) by (intros z; pose proof (lo5_lt z); change (2 ^ 30) with 1073741824; lia).
  (* step 1: high part *)
  replace ((A ++ hi5 y :: B ++ lo5 y :: C) ++ data) with (A ++ hi5 y :: (B ++ lo5 y :: C ++ data))
    by (rewrite <- !app_assoc; cbn [app]; now rewrite <- !app_assoc).
  rewrite (polymod_subst A (hi5 x) (hi5 y)); auto.
  2:{ apply small_app; [assumption|]. constructor; [apply Hl | now apply small_app]. }
  (* step 2: low part *)
  replace (A ++ hi5 x :: B ++ lo5 y :: C ++ data) with ((A ++ hi5 x :: B) ++ lo5 y :: (C ++ data))
    by (rewrite <- !app_assoc; cbn [app]; reflexivity).
  rewrite (polymod_subst (A ++ hi5 x :: B) (lo5 x) (lo5 y)); auto.
  2:{ apply small_app; [assumption|]. constructor; [now apply Hh | assumption]. }
  2:{ now apply small_app. }
  replace ((A ++ hi5 x :: B) ++ lo5 x :: C ++ data) with ((A ++ hi5 x :: B ++ lo5 x :: C) ++ data)
    by (rewrite <- !app_assoc; cbn [app]; now rewrite <- !app_assoc).
  rewrite N.lxor_assoc. f_equal.
  set (e1 := N.lxor (hi5 x) (hi5 y)). set (e2 := N.lxor (lo5 x) (lo5 y)).
  assert (He1 : e1 < 2 ^ 30) by (apply lxor_lt_pow2; now apply Hh).
  assert (He2 : e2 < 2 ^ 30) by (apply lxor_lt_pow2; apply Hl).
  rewrite Lpow_lin; [| now apply Lpow_bound | assumption].
  rewrite N.lxor_comm. f_equal.
  - rewrite <- Lpow_add. f_equal.
    subst A B C. rewrite !app_length, !map_length. cbn [length]. rewrite !app_length, !map_length. cbn [length]. lia.
  - f_equal. subst C. now rewrite app_length, map_length.
Qed.

Lemma valid_xor_not_bad c delta : is_valid_const c = true -> bad_delta delta = false ->
  is_valid_const (N.lxor c delta) = false.
Proof.
  intros Hc T. unfold bad_delta in T.
  apply orb_false_iff in T as [T0 T1]. apply N.eqb_neq in T0, T1.
  unfold is_valid_const in *. apply orb_true_iff in Hc.
  apply orb_false_iff. split; apply N.eqb_neq; intros E.
  - destruct Hc as [Hc|Hc]; apply N.eqb_eq in Hc; subst c.
    + apply T0. apply (f_equal (N.lxor BECH32_CONST)) in E.
      rewrite <- N.lxor_assoc, !N.lxor_nilpotent, N.lxor_0_l in E. exact E.
    + apply T1. apply (f_equal (N.lxor BECH32M_CONST)) in E.
      rewrite <- N.lxor_assoc, !N.lxor_nilpotent, N.lxor_0_l in E. rewrite E. apply N.lxor_comm.
  - destruct Hc as [Hc|Hc]; apply N.eqb_eq in Hc; subst c.
    + apply T1. apply (f_equal (N.lxor BECH32_CONST)) in E.
      rewrite <- N.lxor_assoc, !N.lxor_nilpotent, N.lxor_0_l in E. exact E.
    + apply T0. apply (f_equal (N.lxor BECH32M_CONST)) in E.
      rewrite <- N.lxor_assoc, !N.lxor_nilpotent, N.lxor_0_l in E. exact E.
Qed.

Lemma subst_app_l (h rest : str) i c : (i < length h)%nat -> subst i c (h ++ rest) = subst i c h ++ rest.
Proof.
  intros Hi. unfold subst. rewrite firstn_app, skipn_app.
  replace (i - length h)%nat with 0%nat by lia. replace (S i - length h)%nat with 0%nat by lia.
  cbn [firstn skipn]. rewrite app_nil_r, <- app_assoc. reflexivity.
Qed.

Lemma hrp_subst_lower_rejected s r i c p :
  Forall (fun x => x < 128) s ->
  bech32_decode_lower s = Some r -> rfind 49 s = Some p -> (i < p)%nat ->
  c < 128 -> c <> nth i s 0 ->
  bech32_decode_lower (subst i c s) = None.
Proof.
  intros Hs H Hp Hi Hc Hcn.
  destruct (decode_lower_inv s r H) as (h & chars & -> & Hn & Hd).
  rewrite rfind_app_sep in Hp by assumption. injection Hp as <-.
  rewrite app_nth1 in Hcn by assumption. rewrite subst_app_l by assumption.
  pose proof (split_nth h i Hi) as Hh. set (x := nth i h 0) in *.
  assert (Esub : subst i c h = firstn i h ++ c :: skipn (S i) h) by reflexivity. rewrite Esub.
  set (pre := firstn i h) in *. set (post := skipn (S i) h) in *. clearbody x pre post. subst h. clear Esub Hi.
  rewrite <- app_assoc. cbn [app].
  change (pre ++ c :: post ++ 49 :: chars) with (pre ++ (c :: post) ++ 49 :: chars). rewrite app_assoc.
  rewrite decode_lower_parts by assumption.
  destruct (decode_parts_Some _ _ _ Hd) as (L1 & L6 & Lm & Hcs & Hv).
  assert (Hlen : length (pre ++ c :: post) = length (pre ++ x :: post)) by (rewrite !app_length; reflexivity).
  unfold decode_parts. rewrite Hlen.
  destruct (_ || _ || _); [reflexivity|].
  destruct (forallb _ chars); [|reflexivity]. cbn [negb].
  replace (verify_checksum (pre ++ c :: post) _) with (@None encoding); [reflexivity|]. symmetry. apply verify_is_valid.
  apply Forall_app in Hs as [Hsh _]. apply Forall_app in Hsh as [Hpre Hxpost].
  apply Forall_cons_iff in Hxpost as [Hx Hpost].
  rewrite (polymod_hrp_subst pre x c post); try assumption.
  2:{ apply small_of_lt32, find_lt_all, Hcs. }
  apply valid_xor_not_bad; [assumption|].
  rewrite app_length in L1, Lm. cbn [length] in L1, Lm.
  apply pair_table_use.
  - unfold MAXLEN in *. lia.
  - change 4 with (2 ^ 2). apply lxor_lt_pow2; apply hi5_lt; assumption.
  - apply lxor_lt32; apply lo5_lt.
  - rewrite map_length. unfold MAXLEN in *. lia.
  - destruct (N.eq_dec (N.lxor (hi5 x) (hi5 c)) 0) as [E1|E1]; [|now left].
    destruct (N.eq_dec (N.lxor (lo5 x) (lo5 c)) 0) as [E2|E2]; [|now right].
    apply N.lxor_eq in E1, E2. exfalso. apply Hcn. symmetry. now apply hi_lo_inj.
Qed.

Lemma sep_subst_lower_rejected s r c p :
  bech32_decode_lower s = Some r -> rfind 49 s = Some p -> ~ In 49 (firstn p s) -> c <> 49 ->
  bech32_decode_lower (subst p c s) = None.
Proof.
  intros H Hp Hnh Hc.
  destruct (decode_lower_inv s r H) as (h & chars & -> & Hn & Hd).
  rewrite rfind_app_sep in Hp by assumption. injection Hp as <-.
  rewrite firstn_app, firstn_all, Nat.sub_diag in Hnh. cbn [firstn] in Hnh. rewrite app_nil_r in Hnh.
  unfold subst. rewrite firstn_app, firstn_all, Nat.sub_diag. cbn [firstn]. rewrite app_nil_r.
  rewrite skipn_app, skipn_all2 by lia. replace (S (length h) - length h)%nat with 1%nat by lia. cbn [skipn app].
  unfold bech32_decode_lower.
  replace (rfind 49 (h ++ c :: chars)) with (@None nat); [reflexivity|]. symmetry. apply rfind_None.
  intros Hin. apply in_app_or in Hin as [Hin|[Hin|Hin]]; [contradiction | congruence | contradiction].
Qed.

(* all positions: the only exclusions are the substitutions that move the separator *)
Lemma subst_lower_rejected_any s r i c p :
  Forall (fun x => x < 128) s ->
  bech32_decode_lower s = Some r -> rfind 49 s = Some p -> (i < length s)%nat ->
  c < 128 -> c <> nth i s 0 ->
  ((p < i)%nat -> c <> 49) -> (i = p -> ~ In 49 (firstn p s)) ->
  bech32_decode_lower (subst i c s) = None.
Proof.
  intros Hs H Hp Hi Hc Hcn Hd Hsep.
  destruct (Nat.lt_trichotomy i p) as [Lt|[->|Gt]].
  - now apply (hrp_subst_lower_rejected s r i c p).
  - apply (sep_subst_lower_rejected s r c p); try assumption; [now apply Hsep|].
    intros ->. apply Hcn. destruct (rfind_Some _ _ _ Hp) as (E & _ & _).
    rewrite E at 1. rewrite app_nth2 by (rewrite firstn_length; lia).
    rewrite firstn_length. replace (p - Nat.min p (length s))%nat with 0%nat by lia. reflexivity.
  - apply (subst_lower_rejected s r i c p); try assumption; [lia | now apply Hd].
Qed.

Theorem single_subst_any s r p i c :
  bech32_decode s = Some r -> rfind 49 s = Some p -> (i < length s)%nat -> c <> nth i s 0 ->
  ((p < i)%nat -> c <> 49) -> (i = p -> ~ In 49 (firstn p s)) ->
  bech32_decode (subst i c s) = None
  \/ (lowerc c = lowerc (nth i s 0) /\ bech32_decode (subst i c s) = Some r).
Proof.
  intros H Hp Hi Hne Hc Hsep. destruct (decode_Some_facts s r H) as (Hb & Hm & Hl & _).
  unfold bech32_decode.
  destruct (existsb bad_char (subst i c s) || mixed_case (subst i c s)) eqn:G; [now left|].
  apply orb_false_iff in G as [G1 G2].
  assert (Bc : bad_char c = false).
  { rewrite existsb_false_Forall, Forall_forall in G1. apply G1. unfold subst. apply in_or_app. right. now left. }
  unfold lower. rewrite subst_map. fold (lower s).
  destruct (N.eq_dec (lowerc c) (lowerc (nth i s 0))) as [E|E].
  - right. split; [assumption|]. rewrite E, <- nth_lower.
    rewrite subst_same by (unfold lower; rewrite map_length; lia). exact Hl.
  - left.
    assert (A1 : Forall (fun x => x < 128) (lower s)).
    { rewrite existsb_false_Forall in Hb. unfold lower. apply Forall_forall. intros x Hx.
      apply in_map_iff in Hx as (y & <- & Hy). rewrite Forall_forall in Hb. now apply lowerc_lt, Hb. }
    assert (A2 : rfind 49 (lower s) = Some p).
    { unfold lower. rewrite rfind_map_stable; [assumption | apply lowerc_49]. }
    assert (A3 : (i < length (lower s))%nat) by (unfold lower; now rewrite map_length).
    assert (A4 : (p < i)%nat -> lowerc c <> 49).
    { intros Hpi E'. apply (proj1 (lowerc_49 c)) in E'. now apply Hc. }
    assert (A5 : lowerc c <> nth i (lower s) 0) by (rewrite nth_lower; exact E).
    assert (A6 : i = p -> ~ In 49 (firstn p (lower s))).
    { intros Hip Hin. apply (Hsep Hip). unfold lower in Hin. rewrite firstn_map in Hin.
      apply in_map_iff in Hin as (y & Ey & Hy). apply (proj1 (lowerc_49 y)) in Ey. now subst y. }
    exact (subst_lower_rejected_any (lower s) r i (lowerc c) p A1 Hl A2 A3 (lowerc_lt c Bc) A5 A4 A6).
Qed.

(* ---------- packaging for props/C15.v ---------- *)
Lemma single_error_table_stmt k e : (k < 120)%nat -> 0 < e < 32 ->
  Lpow k e <> 0 /\ Lpow k e <> N.lxor BECH32_CONST BECH32M_CONST.
Proof.
  intros Hk He. pose proof (table_use k e Hk He) as T. unfold bad_delta in T.
  apply orb_false_iff in T as [T0 T1]. now apply N.eqb_neq in T0, T1.
Qed.
Lemma single_subst_with_length s r p i c :
  bech32_decode s = Some r -> rfind 49 s = Some p -> (p < i < length s)%nat ->
  c <> 49 -> c <> nth i s 0 ->
  (length s <= MAXLEN)%nat
  /\ (bech32_decode (subst i c s) = None
      \/ (lowerc c = lowerc (nth i s 0) /\ bech32_decode (subst i c s) = Some r)).
Proof.
  intros H Hp Hi Hc Hn. split; [now apply decode_Some_facts in H | now apply single_subst with p].
Qed.
Lemma pair_error_table_stmt d e1 e2 k : (2 <= d < 104)%nat -> e1 < 4 -> e2 < 32 -> (k < 108)%nat -> (e1 <> 0 \/ e2 <> 0) ->
  let delta := Lpow k (N.lxor (Lpow d e1) e2) in delta <> 0 /\ delta <> N.lxor BECH32_CONST BECH32M_CONST.
Proof.
  intros Hd H1 H2 Hk Hne. pose proof (pair_table_use d e1 e2 k Hd H1 H2 Hk Hne) as T. unfold bad_delta in T.
  apply orb_false_iff in T as [T0 T1]. cbv zeta. now apply N.eqb_neq in T0, T1.
Qed.
