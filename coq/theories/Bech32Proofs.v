(* Bech32Proofs.v — proofs about the model Bech32.v:
   A. polymod is affine over XOR (linear part L), bounds, the finite single-error table
   B. create_checksum / verify_checksum consistency (Bech32 and Bech32m)
   C. bech32_decode (bech32_encode ..) round trip; single-substitution rejection
   D. convertbits 8 -> 5 -> 8 round trip (bit-string view)
   E. polymod = remainder modulo g(x) over GF(32) (independent BIP-173 specification) *)
From Coq Require Import NArith ZArith Ascii String List Bool Lia PeanoNat.
From Coq Require Import ZifyBool ZifyN ZifyNat.
From PyC Require Import Base Bech32.
Import ListNotations.
Open Scope N_scope.

(* ================================================================= A. linearity *)
Definition gfold (top : N) : N :=
  fold_left (fun c ig => N.lxor c (if N.testbit top (fst ig) then snd ig else 0))
            (combine [0; 1; 2; 3; 4] generator) 0.
(* linear part of one polymod step *)
Definition L (chk : N) : N := N.lxor (N.shiftl (N.land chk 0x1FFFFFF) 5) (gfold (N.shiftr chk 25)).
Definition polymod_from (c0 : N) (vs : list N) : N := fold_left polymod_step vs c0.
Fixpoint Lpow (k : nat) (e : N) : N := match k with O => e | S k' => Lpow k' (L e) end.

Lemma fold_lxor_shift {A} (f : A -> N) (l : list A) : forall c,
  fold_left (fun c x => N.lxor c (f x)) l c = N.lxor c (fold_left (fun c x => N.lxor c (f x)) l 0).
Proof.
  induction l as [|x l IH]; intros c; cbn [fold_left].
  - now rewrite N.lxor_0_r.
  - rewrite IH, (IH (N.lxor 0 (f x))), N.lxor_0_l, N.lxor_assoc. reflexivity.
Qed.

Lemma polymod_step_L chk v : polymod_step chk v = N.lxor (L chk) v.
Proof.
  unfold polymod_step, L, gfold. rewrite fold_lxor_shift.
  rewrite !N.lxor_assoc. f_equal. apply N.lxor_comm.
Qed.

Definition all32 : list N := map N.of_nat (seq 0 32).
Lemma in_all32 a : a < 32 -> In a all32.
Proof.
  intros H. unfold all32. apply in_map_iff. exists (N.to_nat a). split; [lia|].
  apply in_seq. lia.
Qed.
Lemma all32_lt a : In a all32 -> a < 32.
Proof. unfold all32. intros H. apply in_map_iff in H as (n & <- & H). apply in_seq in H. lia. Qed.

Lemma gfold_lin_fin :
  forallb (fun a => forallb (fun b => gfold (N.lxor a b) =? N.lxor (gfold a) (gfold b)) all32) all32 = true.
Proof. vm_compute. reflexivity. Qed.
Lemma gfold_lin a b : a < 32 -> b < 32 -> gfold (N.lxor a b) = N.lxor (gfold a) (gfold b).
Proof.
  intros Ha Hb. pose proof gfold_lin_fin as F.
  rewrite forallb_forall in F. specialize (F a (in_all32 a Ha)).
  rewrite forallb_forall in F. specialize (F b (in_all32 b Hb)).
  now apply N.eqb_eq.
Qed.
Lemma gfold_bound_fin : forallb (fun a => gfold a <? 2 ^ 30) all32 = true.
Proof. vm_compute. reflexivity. Qed.
Lemma gfold_bound a : a < 32 -> gfold a < 2 ^ 30.
Proof.
  intros Ha. pose proof gfold_bound_fin as F. rewrite forallb_forall in F.
  specialize (F a (in_all32 a Ha)). now apply N.ltb_lt.
Qed.

Lemma shiftr25_lt a : a < 2 ^ 30 -> N.shiftr a 25 < 32.
Proof.
  intros. rewrite N.shiftr_div_pow2. apply N.div_lt_upper_bound; [easy|].
  change (2 ^ 25 * 32) with (2 ^ 30). exact H.
Qed.

Lemma land_lxor_distr_l a b c : N.land (N.lxor a b) c = N.lxor (N.land a c) (N.land b c).
Proof.
  apply N.bits_inj; intro n. rewrite N.land_spec, !N.lxor_spec, !N.land_spec.
  destruct (N.testbit a n), (N.testbit b n), (N.testbit c n); reflexivity.
Qed.

Lemma lxor_lt_pow2 a b n : a < 2 ^ n -> b < 2 ^ n -> N.lxor a b < 2 ^ n.
Proof.
  intros Ha Hb.
  destruct (N.eq_dec a 0) as [->|Na]; [now rewrite N.lxor_0_l|].
  destruct (N.eq_dec b 0) as [->|Nb]; [now rewrite N.lxor_0_r|].
  destruct (N.eq_dec (N.lxor a b) 0) as [->|Nx]; [lia|].
  apply N.log2_lt_pow2; [lia|].
  apply N.log2_lt_pow2 in Ha; [|lia]. apply N.log2_lt_pow2 in Hb; [|lia].
  pose proof (N.log2_lxor a b). lia.
Qed.

Lemma L_lin a b : a < 2 ^ 30 -> b < 2 ^ 30 -> L (N.lxor a b) = N.lxor (L a) (L b).
Proof.
  intros Ha Hb. unfold L.
  rewrite N.shiftr_lxor, gfold_lin by (apply shiftr25_lt; assumption).
  rewrite land_lxor_distr_l, N.shiftl_lxor.
  rewrite !N.lxor_assoc. f_equal.
  rewrite <- !N.lxor_assoc. f_equal. apply N.lxor_comm.
Qed.

Lemma L_bound a : a < 2 ^ 30 -> L a < 2 ^ 30.
Proof.
  intros Ha. unfold L. apply lxor_lt_pow2.
  - change 0x1FFFFFF with (N.ones 25). rewrite N.land_ones, N.shiftl_mul_pow2.
    pose proof (N.mod_upper_bound a (2 ^ 25)).
    change (2 ^ 30) with (2 ^ 25 * 2 ^ 5). apply N.mul_lt_mono_pos_r; lia.
  - apply gfold_bound, shiftr25_lt, Ha.
Qed.

Lemma L_0 : L 0 = 0.
Proof. reflexivity. Qed.

Lemma step_bound x v : x < 2 ^ 30 -> v < 2 ^ 30 -> polymod_step x v < 2 ^ 30.
Proof. intros. rewrite polymod_step_L. apply lxor_lt_pow2; [now apply L_bound | assumption]. Qed.

Definition small (vs : list N) : Prop := Forall (fun v => v < 2 ^ 30) vs.

Lemma polymod_from_bound vs : forall x, x < 2 ^ 30 -> small vs -> polymod_from x vs < 2 ^ 30.
Proof.
  induction vs as [|v vs IH]; intros x Hx Hs; cbn; [exact Hx|].
  inversion Hs; subst. apply IH; [now apply step_bound | assumption].
Qed.

Lemma polymod_from_app x a b : polymod_from x (a ++ b) = polymod_from (polymod_from x a) b.
Proof. unfold polymod_from. now rewrite fold_left_app. Qed.

(* an XOR-difference e injected into the state propagates as Lpow *)
Lemma polymod_from_lxor post : forall x e, x < 2 ^ 30 -> e < 2 ^ 30 -> small post ->
  polymod_from (N.lxor x e) post = N.lxor (polymod_from x post) (Lpow (length post) e).
Proof.
  induction post as [|v post IH]; intros x e Hx He Hs; cbn [polymod_from fold_left length Lpow].
  - reflexivity.
  - inversion Hs; subst. fold (polymod_from (polymod_step (N.lxor x e) v) post).
    fold (polymod_from (polymod_step x v) post).
    replace (polymod_step (N.lxor x e) v) with (N.lxor (polymod_step x v) (L e)).
    + apply IH; [now apply step_bound | now apply L_bound | assumption].
    + rewrite !polymod_step_L, L_lin by assumption.
      rewrite !N.lxor_assoc. f_equal. apply N.lxor_comm.
Qed.

(* substituting one input value d by d' changes the result by Lpow |post| (d xor d') *)
Lemma polymod_subst pre d d' post : small pre -> d < 2 ^ 30 -> d' < 2 ^ 30 -> small post ->
  bech32_polymod (pre ++ d' :: post) =
  N.lxor (bech32_polymod (pre ++ d :: post)) (Lpow (length post) (N.lxor d d')).
Proof.
  intros Hp Hd Hd' Hs. unfold bech32_polymod. fold (polymod_from 1 (pre ++ d' :: post)).
  fold (polymod_from 1 (pre ++ d :: post)). rewrite !polymod_from_app.
  set (x := polymod_from 1 pre). assert (Hx : x < 2 ^ 30) by (apply polymod_from_bound; [reflexivity | assumption]).
  cbn [polymod_from fold_left]. fold (polymod_from (polymod_step x d') post). fold (polymod_from (polymod_step x d) post).
  replace (polymod_step x d') with (N.lxor (polymod_step x d) (N.lxor d d')).
  - apply polymod_from_lxor; [now apply step_bound | now apply lxor_lt_pow2 | assumption].
  - rewrite !polymod_step_L. rewrite N.lxor_assoc. f_equal.
    rewrite <- N.lxor_assoc, N.lxor_nilpotent, N.lxor_0_l. reflexivity.
Qed.

(* ---------- the finite single-error table ----------
   For every distance k < 120 from the end and every non-zero 5-bit difference e, the effect
   L^k e on the checksum residue is neither 0 nor the Bech32 <-> Bech32m difference. *)
Definition TABLE_K : nat := 120.
Definition bad_delta (x : N) : bool := (x =? 0) || (x =? N.lxor BECH32_CONST BECH32M_CONST).
Definition table_check (K : nat) (l : list N) : bool :=
  forallb (fun k => forallb (fun e => negb (bad_delta (Lpow k e))) l) (seq 0 K).
Lemma single_error_table : table_check TABLE_K (tl all32) = true.
Proof. vm_compute. reflexivity. Qed.

(* (generic in K, l so that the kernel never has to re-evaluate the table by conversion) *)
Lemma table_gen K l : table_check K l = true ->
  forall k e, (k < K)%nat -> In e l -> bad_delta (Lpow k e) = false.
Proof.
  unfold table_check. intros H k e Hk He. rewrite forallb_forall in H.
  specialize (H k ltac:(apply in_seq; lia)).
  rewrite forallb_forall in H. apply negb_true_iff. now apply H.
Qed.
Lemma in_tl_all32 e : 0 < e < 32 -> In e (tl all32).
Proof.
  intros He. unfold all32. change (seq 0 32) with (0%nat :: seq 1 31). cbn [map tl].
  apply in_map_iff. exists (N.to_nat e). split; [lia|]. apply in_seq. lia.
Qed.
Lemma table_use k e : (k < TABLE_K)%nat -> 0 < e < 32 -> bad_delta (Lpow k e) = false.
Proof.
  intros Hk He. apply (table_gen TABLE_K (tl all32) single_error_table); [assumption | now apply in_tl_all32].
Qed.

Lemma lxor_lt32 a b : a < 32 -> b < 32 -> N.lxor a b < 32.
Proof. change 32 with (2 ^ 5). apply lxor_lt_pow2. Qed.

Definition is_valid_const (c : N) : bool := (c =? BECH32_CONST) || (c =? BECH32M_CONST).

(* a valid residue xor a table entry is never a valid residue *)
Lemma valid_xor_delta c k e : (k < TABLE_K)%nat -> 0 < e < 32 ->
  is_valid_const c = true -> is_valid_const (N.lxor c (Lpow k e)) = false.
Proof.
  intros Hk He Hc. pose proof (table_use k e Hk He) as T. unfold bad_delta in T.
  apply orb_false_iff in T as [T0 T1]. apply N.eqb_neq in T0, T1.
  unfold is_valid_const in *. apply orb_true_iff in Hc.
  apply orb_false_iff. split; apply N.eqb_neq; intros E.
  - destruct Hc as [Hc|Hc]; apply N.eqb_eq in Hc; subst c.
    + apply T0. apply (f_equal (N.lxor BECH32_CONST)) in E.
      rewrite <- N.lxor_assoc, !N.lxor_nilpotent, N.lxor_0_l in E. exact E.
    + apply T1. apply (f_equal (N.lxor BECH32M_CONST)) in E.
      rewrite <- N.lxor_assoc, !N.lxor_nilpotent, N.lxor_0_l in E. rewrite E. apply N.lxor_comm.
  - destruct Hc as [Hc|Hc]; apply N.eqb_eq in Hc; subst c.
    + apply T1. apply (f_equal (N.lxor BECH32_CONST)) in E.
      rewrite <- N.lxor_assoc, !N.lxor_nilpotent, N.lxor_0_l in E. exact E.
    + apply T0. apply (f_equal (N.lxor BECH32M_CONST)) in E.
      rewrite <- N.lxor_assoc, !N.lxor_nilpotent, N.lxor_0_l in E. exact E.
Qed.

Lemma verify_is_valid hrp data :
  verify_checksum hrp data = None <-> is_valid_const (bech32_polymod (hrp_expand hrp ++ data)) = false.
Proof.
  unfold verify_checksum, is_valid_const.
  destruct (_ =? BECH32_CONST); [cbn; split; discriminate|].
  destruct (_ =? BECH32M_CONST); cbn; split; try discriminate; reflexivity.
Qed.

(* ================================================================= B. create / verify *)
Lemma testbit_high a k n : a < 2 ^ k -> k <= n -> N.testbit a n = false.
Proof. intros Ha Hn. rewrite <- (N.mod_small a (2 ^ k)) by assumption. now apply N.mod_pow2_bits_high. Qed.

Lemma lxor_shiftl_add a c k : c < 2 ^ k -> N.lxor (N.shiftl a k) c = a * 2 ^ k + c.
Proof.
  intros Hc. rewrite <- N.shiftl_mul_pow2. symmetry. apply N.add_nocarry_lxor.
  apply N.bits_inj; intro n. rewrite N.land_spec, N.bits_0.
  destruct (N.lt_ge_cases n k) as [Hn|Hn].
  - now rewrite N.shiftl_spec_low.
  - rewrite (testbit_high c k n) by assumption. apply andb_false_r.
Qed.

Lemma lxor_swap4 a b c d : N.lxor (N.lxor a b) (N.lxor c d) = N.lxor (N.lxor a c) (N.lxor b d).
Proof.
  apply N.bits_inj; intro n. rewrite !N.lxor_spec.
  destruct (N.testbit a n), (N.testbit b n), (N.testbit c n), (N.testbit d n); reflexivity.
Qed.

Fixpoint zipxor (a b : list N) : list N :=
  match a, b with x :: a', y :: b' => N.lxor x y :: zipxor a' b' | _, _ => [] end.

Lemma polymod_from_lin2 vs : forall ws x y, length vs = length ws ->
  x < 2 ^ 30 -> y < 2 ^ 30 -> small vs -> small ws ->
  polymod_from (N.lxor x y) (zipxor vs ws) = N.lxor (polymod_from x vs) (polymod_from y ws).
Proof.
  induction vs as [|v vs IH]; intros [|w ws] x y Hl Hx Hy Hv Hw; try discriminate; cbn [zipxor polymod_from fold_left].
  - reflexivity.
  - inversion Hv; inversion Hw; subst. injection Hl as Hl.
    fold (polymod_from (polymod_step x v) vs). fold (polymod_from (polymod_step y w) ws).
    fold (polymod_from (polymod_step (N.lxor x y) (N.lxor v w)) (zipxor vs ws)).
    replace (polymod_step (N.lxor x y) (N.lxor v w)) with (N.lxor (polymod_step x v) (polymod_step y w)).
    + apply IH; try assumption; now apply step_bound.
    + rewrite !polymod_step_L, L_lin by assumption. apply lxor_swap4.
Qed.

Lemma L_small x : x < 2 ^ 25 -> L x = x * 32.
Proof.
  intros Hx. unfold L. change 0x1FFFFFF with (N.ones 25).
  rewrite N.land_ones, N.mod_small, N.shiftr_div_pow2, N.div_small by assumption.
  change (gfold 0) with 0. rewrite N.lxor_0_r, N.shiftl_mul_pow2. reflexivity.
Qed.
Lemma step_small x v : x < 2 ^ 25 -> v < 32 -> polymod_step x v = x * 32 + v.
Proof.
  intros Hx Hv. rewrite polymod_step_L, L_small by assumption.
  transitivity (N.lxor (N.shiftl x 5) v).
  - now rewrite N.shiftl_mul_pow2.
  - now rewrite (lxor_shiftl_add x v 5) by assumption.
Qed.

Lemma polymod_from_0_six c0 c1 c2 c3 c4 c5 :
  c0 < 32 -> c1 < 32 -> c2 < 32 -> c3 < 32 -> c4 < 32 -> c5 < 32 ->
  polymod_from 0 [c0; c1; c2; c3; c4; c5] = ((((c0 * 32 + c1) * 32 + c2) * 32 + c3) * 32 + c4) * 32 + c5.
Proof.
  intros. cbn [polymod_from fold_left].
  change (2 ^ 25) with 33554432 in *.
  rewrite (step_small 0 c0) by (change (2 ^ 25) with 33554432; lia).
  rewrite (step_small _ c1) by (change (2 ^ 25) with 33554432; lia).
  rewrite (step_small _ c2) by (change (2 ^ 25) with 33554432; lia).
  rewrite (step_small _ c3) by (change (2 ^ 25) with 33554432; lia).
  rewrite (step_small _ c4) by (change (2 ^ 25) with 33554432; lia).
  rewrite (step_small _ c5) by (change (2 ^ 25) with 33554432; lia).
  lia.
Qed.

Definition split6 (q : N) : list N := map (fun i => N.land (N.shiftr q (5 * (5 - i))) 31) [0; 1; 2; 3; 4; 5].

Lemma split6_lt q : Forall (fun v => v < 32) (split6 q).
Proof.
  unfold split6. apply Forall_forall. intros v Hv. apply in_map_iff in Hv as (i & <- & _).
  change 31 with (N.ones 5). rewrite N.land_ones. now apply N.mod_upper_bound.
Qed.

Ltac Zify.zify_post_hook ::= Z.to_euclidean_division_equations.
Lemma polymod_from_0_split6 q : q < 2 ^ 30 -> polymod_from 0 (split6 q) = q.
Proof.
  intros Hq. pose proof (split6_lt q) as F. unfold split6 in *. cbn [map] in *.
  repeat match goal with H : Forall _ (_ :: _) |- _ => inversion H; clear H; subst end.
  rewrite polymod_from_0_six by assumption.
  change (5 * (5 - 0)) with 25. change (5 * (5 - 1)) with 20. change (5 * (5 - 2)) with 15.
  change (5 * (5 - 3)) with 10. change (5 * (5 - 4)) with 5. change (5 * (5 - 5)) with 0.
  change 31 with (N.ones 5). rewrite !N.land_ones, !N.shiftr_div_pow2.
  change (2 ^ 30) with 1073741824 in Hq. change (2 ^ 25) with 33554432. change (2 ^ 20) with 1048576.
  change (2 ^ 15) with 32768. change (2 ^ 10) with 1024. change (2 ^ 5) with 32. change (2 ^ 0) with 1.
  lia.
Qed.

Lemma small_app a b : small a -> small b -> small (a ++ b).
Proof. apply Forall_app_intro || (intros; apply Forall_app; now split). Qed.
Lemma small_of_lt32 l : Forall (fun v => v < 32) l -> small l.
Proof. apply Forall_impl. intros a Ha. change (2 ^ 30) with 1073741824. lia. Qed.

(* appending split6 (P xor c) after `values` where P = polymod (values ++ 000000) yields residue c *)
Lemma polymod_checksum values c : small values -> c < 2 ^ 30 ->
  bech32_polymod (values ++ split6 (N.lxor (bech32_polymod (values ++ [0; 0; 0; 0; 0; 0])) c)) = c.
Proof.
  intros Hs Hc. unfold bech32_polymod. fold (polymod_from 1 (values ++ [0; 0; 0; 0; 0; 0])).
  set (q := N.lxor _ c).
  fold (polymod_from 1 (values ++ split6 q)). rewrite polymod_from_app.
  set (x := polymod_from 1 values) in *.
  assert (Hx : x < 2 ^ 30) by (apply polymod_from_bound; [reflexivity | assumption]).
  assert (Hz : small [0; 0; 0; 0; 0; 0]) by (repeat constructor).
  assert (Hq : q < 2 ^ 30).
  { apply lxor_lt_pow2; [|assumption]. rewrite polymod_from_app. fold x. now apply polymod_from_bound. }
  replace (split6 q) with (zipxor [0; 0; 0; 0; 0; 0] (split6 q)) by (unfold split6; cbn; now rewrite !N.lxor_0_l).
  rewrite <- (N.lxor_0_r x).
  rewrite polymod_from_lin2; try assumption; try reflexivity.
  - rewrite polymod_from_0_split6 by assumption. subst q. rewrite polymod_from_app. fold x.
    rewrite <- N.lxor_assoc, N.lxor_nilpotent. apply N.lxor_0_l.
  - apply small_of_lt32, split6_lt.
Qed.

Definition hrp_ok (hrp : str) : Prop := Forall (fun x => x < 128) hrp.
Definition data_ok (data : list N) : Prop := Forall (fun v => v < 32) data.

Lemma hrp_expand_small hrp : hrp_ok hrp -> small (hrp_expand hrp).
Proof.
  intros H. unfold hrp_expand. apply small_app; [|apply small_app].
  - apply Forall_forall. intros v Hv. apply in_map_iff in Hv as (x & <- & Hx).
    rewrite N.shiftr_div_pow2. eapply N.le_lt_trans; [apply N.div_le_upper_bound with (q := x); [easy|]|].
    + change (2 ^ 5) with 32. lia.
    + eapply Forall_forall in H; [|exact Hx]. cbn in H. change (2 ^ 30) with 1073741824. lia.
  - repeat constructor.
  - apply Forall_forall. intros v Hv. apply in_map_iff in Hv as (x & <- & Hx).
    change 31 with (N.ones 5). rewrite N.land_ones. pose proof (N.mod_upper_bound x (2 ^ 5)).
    change (2 ^ 5) with 32 in *. change (2 ^ 30) with 1073741824. lia.
Qed.

Definition spec_result (spec : option encoding) : encoding := match spec with Some BECH32M => BECH32M | _ => BECH32 end.

(* BIP-173 / BIP-350 consistency: a created checksum verifies, with the intended constant *)
Theorem create_verify hrp data spec : hrp_ok hrp -> data_ok data ->
  verify_checksum hrp (data ++ create_checksum hrp data spec) = Some (spec_result spec).
Proof.
  intros Hh Hd. unfold verify_checksum, create_checksum.
  fold (split6 (N.lxor (bech32_polymod ((hrp_expand hrp ++ data) ++ [0; 0; 0; 0; 0; 0]))
                       (match spec with Some BECH32M => BECH32M_CONST | _ => BECH32_CONST end))).
  rewrite app_assoc, polymod_checksum.
  - destruct spec as [[|]|]; reflexivity.
  - apply small_app; [now apply hrp_expand_small | now apply small_of_lt32].
  - destruct spec as [[|]|]; reflexivity.
Qed.

Lemma create_checksum_lt hrp data spec : data_ok (create_checksum hrp data spec).
Proof. unfold create_checksum. apply split6_lt. Qed.
Lemma create_checksum_length hrp data spec : length (create_checksum hrp data spec) = 6%nat.
Proof. reflexivity. Qed.
