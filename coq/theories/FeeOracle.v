(* FeeOracle.v — C07: boolean oracles and correspondence glue evaluated by the cases files.

   Function level: the GENERATED functions (coq/gen/FeeGen.v, translated from the current utils.py) are run
   on the case and compared with what the implementation returned; the oracle compares the implementation's
   numbers with the ledger rule in exact rationals.
   Builder level: the signed transaction's bytes are decoded here (fee, output coins, execution units are
   read from the bytes, the size is the length of the bytes); the two-pass slice is checked against the
   recorded `_estimate_fee` calls; the oracle is the ledger minimum fee against the fee in the body. *)
From Coq Require Import ZArith NArith QArith Qround String List Bool.
From Coq Require Import PrimFloat.
From PyC Require Import Base Cbor Fee.
From PyCGen Require Import FeeGen.
Import ListNotations.
Open Scope Z_scope.

Definition FUEL : nat := 4000.

(* ---------------------------------------------------------------- outcomes *)
Definition err_eqb (a b : err) : bool :=
  match a, b with
  | EValue, EValue | EType, EType | EOverflow, EOverflow | EKey, EKey | EFuel, EFuel | EUnsup, EUnsup => true
  | _, _ => false
  end.
(* an implementation outcome is an int or an exception kind *)
Definition outcome_eqb (model impl : pyval) : bool :=
  match model, impl with
  | VInt a, VInt b => a =? b
  | VErr a, VErr b => err_eqb a b
  | _, _ => false
  end.

Definition mk_params (a b maxsize : Z) (pm ps : pyval) (maxmem maxsteps : Z) (mrs mfr : pyval) : context :=
  {| protocol_param := {| min_fee_constant := VInt b; min_fee_coefficient := VInt a; max_tx_size := VInt maxsize;
       price_mem := pm; price_step := ps; max_tx_ex_mem := VInt maxmem; max_tx_ex_steps := VInt maxsteps;
       maximum_reference_scripts_size := mrs; min_fee_reference_scripts := mfr |} |}.

(* ---------------------------------------------------------------- function level *)
Record fcase := {
  fc_ctx : context;             (* the parameters as the code sees them *)
  fc_lp : Ledger.lparams;       (* the same parameters as exact rationals (what the ledger holds) *)
  fc_has_ref : bool;            (* reference-script parameters present *)
  fc_exact_prices : bool;       (* prices handed to the code as Fractions *)
  fc_maxsize : Z; fc_maxsteps : Z; fc_maxmem : Z;
  fc_l : Z; fc_s : Z; fc_m : Z; fc_r : Z;
  fc_fee : pyval; fc_max : pyval; fc_tier : pyval      (* implementation outcomes *)
}.

Definition fn_corr (c : fcase) : bool :=
  outcome_eqb (g_fee FUEL (fc_ctx c) (VInt (fc_l c)) (VInt (fc_s c)) (VInt (fc_m c)) (VInt (fc_r c))) (fc_fee c)
  && outcome_eqb (g_max_tx_fee FUEL (fc_ctx c) (VInt (fc_r c))) (fc_max c)
  && outcome_eqb (g_tiered_reference_script_fee FUEL (fc_ctx c) (VInt (fc_r c))) (fc_tier c).

Definition ledger_tier_floor (c : fcase) : Z :=
  if fc_has_ref c then Qfloor (Ledger.tier (fc_lp c) (fc_r c)) else 0.

Definition ledger_min_fee (lp : Ledger.lparams) (has_ref : bool) (size s m r : Z) : Z :=
  Ledger.la lp * size + Ledger.lb lp
  + Qceiling (Ledger.lpm lp * inject_Z m + Ledger.lps lp * inject_Z s)%Q
  + (if has_ref then Qfloor (Ledger.tier lp r) else 0).

(* property on the implementation's outputs: when the functions return, the tier term is the exact tier value
   rounded (floor..floor+1), the fee is the formula in exact rationals with that tier term (Fraction prices;
   float prices: within the same two-lovelace band above the ledger minimum), max fee is the fee at the maxima *)
Definition fn_oracle (c : fcase) : bool :=
  let lp := fc_lp c in
  let maxsize := fc_maxsize c in let maxsteps := fc_maxsteps c in let maxmem := fc_maxmem c in
  match fc_tier c, fc_fee c, fc_max c with
  | VInt t, VInt f, VInt mx =>
      let fl := ledger_tier_floor c in
      let lo := ledger_min_fee lp (fc_has_ref c) (fc_l c) (fc_s c) (fc_m c) (fc_r c) in
      let lomax := ledger_min_fee lp (fc_has_ref c) maxsize maxsteps maxmem (fc_r c) in
      (fl <=? t) && (t <=? fl + 1) && (lo <=? f) && (f <=? lo + 2) && (lomax <=? mx) && (mx <=? lomax + 2)
      && (if fc_exact_prices c then
            (f =? fee_typed (Ledger.la lp) (Ledger.lb lp) (Ledger.lps lp) (Ledger.lpm lp) t (fc_l c) (fc_s c) (fc_m c))
            && (mx =? fee_typed (Ledger.la lp) (Ledger.lb lp) (Ledger.lps lp) (Ledger.lpm lp) t maxsize maxsteps maxmem)
          else true)
  | VErr _, VErr _, VErr _ => true          (* the size exceeds the configured maximum: all three refuse *)
  | _, _, _ => false
  end.

(* ---------------------------------------------------------------- reading a signed transaction *)
Fixpoint map_get (k : N) (kvs : list (cbor * cbor)) : option cbor :=
  match kvs with
  | [] => None
  | (CU k', v) :: r => if (k =? k')%N then Some v else map_get k r
  | _ :: r => map_get k r
  end.

Definition amount_coin (x : cbor) : option Z :=
  match x with
  | CU n => Some (Z.of_N n)
  | CA (CU n :: _) => Some (Z.of_N n)
  | _ => None
  end.

Definition output_coin (o : cbor) : option Z :=
  match o with
  | CA (_ :: amt :: _) => amount_coin amt
  | CM kvs => match map_get 1 kvs with Some amt => amount_coin amt | None => None end
  | _ => None
  end.

Fixpoint all_some {A} (l : list (option A)) : option (list A) :=
  match l with
  | [] => Some []
  | Some x :: r => match all_some r with Some xs => Some (x :: xs) | None => None end
  | None :: _ => None
  end.

(* (mem, steps) of one redeemer's ex_units [mem, steps] *)
Definition exu (x : cbor) : option (Z * Z) :=
  match x with CA [CU m; CU s] => Some (Z.of_N m, Z.of_N s) | _ => None end.

Definition redeemer_units (w : list (cbor * cbor)) : option (Z * Z) :=
  match map_get 5 w with
  | None => Some (0, 0)
  | Some (CA rs) =>            (* [[tag, index, data, ex_units], ...] *)
      match all_some (map (fun r => match r with CA [_; _; _; u] => exu u | _ => None end) rs) with
      | Some us => Some (fold_left (fun acc u => (fst acc + fst u, snd acc + snd u)) us (0, 0))
      | None => None
      end
  | Some (CM rs) =>            (* {[tag, index]: [data, ex_units]} *)
      match all_some (map (fun kv => match snd kv with CA [_; u] => exu u | _ => None end) rs) with
      | Some us => Some (fold_left (fun acc u => (fst acc + fst u, snd acc + snd u)) us (0, 0))
      | None => None
      end
  | _ => None
  end.

(* a CBOR set: plain array, or tag 258 around an array *)
Definition set_items (x : cbor) : option (list cbor) :=
  match x with
  | CA xs => Some xs
  | CTag 258 (CA xs) => Some xs
  | _ => None
  end.

Definition oref_of (x : cbor) : option oref :=
  match x with CA [CB i; CU n] => Some (i, n) | _ => None end.

(* the set of references under body key k (absent: empty) *)
Definition body_refs (k : N) (body : list (cbor * cbor)) : option (list oref) :=
  match map_get k body with
  | None => Some []
  | Some x => match set_items x with Some xs => all_some (map oref_of xs) | None => None end
  end.

Definition body_hashes (k : N) (body : list (cbor * cbor)) : option (list bytes) :=
  match map_get k body with
  | None => Some []
  | Some x => match set_items x with
              | Some xs => all_some (map (fun y => match y with CB h => Some h | _ => None end) xs)
              | None => None
              end
  end.

Definition vkey_witnesses (w : list (cbor * cbor)) : option Z :=
  match map_get 0 w with
  | None => Some 0
  | Some x => match set_items x with Some xs => Some (Z.of_nat (List.length xs)) | None => None end
  end.

Record txview := { tv_size : Z; tv_fee : Z; tv_coins : list Z; tv_mem : Z; tv_steps : Z;
                   tv_inputs : list oref;        (* body key 0 *)
                   tv_collateral : list oref;    (* body key 13 *)
                   tv_refs : list oref;          (* body key 18 *)
                   tv_required : list bytes;     (* body key 14 *)
                   tv_nwit : Z }.                (* number of vkey witnesses *)

Definition read_tx (tx : bytes) : option txview :=
  match decode tx with
  | Some (CA (CM body :: CM wit :: _)) =>
      match map_get 2 body, redeemer_units wit with
      | Some (CU fee), Some (mem, steps) =>
          let outs := match map_get 1 body with Some (CA os) => all_some (map output_coin os) | None => Some [] | _ => None end in
          match outs, body_refs 0 body, body_refs 13 body, body_refs 18 body, body_hashes 14 body, vkey_witnesses wit with
          | Some coins, Some ins, Some coll, Some refs, Some req, Some nw =>
              Some {| tv_size := Z.of_nat (List.length tx); tv_fee := Z.of_N fee; tv_coins := coins;
                      tv_mem := mem; tv_steps := steps; tv_inputs := ins; tv_collateral := coll; tv_refs := refs;
                      tv_required := req; tv_nwit := nw |}
          | _, _, _, _, _, _ => None
          end
      | _, _ => None
      end
  | _ => None
  end.

(* ---------------------------------------------------------------- builder level *)
(* one recorded call of TransactionBuilder._estimate_fee: size of the fake transaction, the fee placeholder in
   its body, the coins of its outputs, the returned estimate *)
Record estcall := { ec_size : Z; ec_placeholder : Z; ec_coins : list Z; ec_result : Z }.

Record bcase := {
  bc_ctx : context;
  bc_lp : Ledger.lparams;
  bc_has_ref : bool;
  bc_buffer : Z;
  bc_ref_builder : Z;          (* builder._ref_script_size() *)
  bc_utxos : list futxo;       (* the scenario's UTxO set: reference, bytes of the script on the output, locking key *)
  bc_script_keys : list bytes; (* key leaves of the native scripts the scenario runs *)
  bc_fake_wit : Z;             (* placeholder witnesses in the last fake transaction *)
  bc_omitted : Z;              (* script bytes in the fake witness set that the final witness set omits *)
  bc_shrunk : Z;               (* bytes by which build() shortens the outputs it ships against the outputs it estimated with:
                                  it ships deepcopy(outputs), and PlutusData.__deepcopy__ is a CBOR round trip that turns an
                                  IndefiniteList held by a List field of a typed inline datum into a plain list — 9f..ff
                                  becomes 8n (one byte less below 24 elements), 98 nn (the same), 99 nnnn (one more from 256
                                  elements); scenario data: the sum over those lists *)
  bc_has_change : bool;        (* a change address was given: two passes *)
  bc_calls : list estcall;     (* all _estimate_fee calls of the builder, in order *)
  bc_tx : bytes                (* the signed transaction *)
}.

Definition Zsumw (l : list Z) : Z := fold_right (fun c acc => widthZ c + acc) 0 l.
Definition Zsuml (l : list Z) : Z := fold_right Z.add 0 l.

Fixpoint ndiff (a b : list Z) : option nat :=       (* number of positions where the lists differ; None: lengths differ *)
  match a, b with
  | [], [] => Some O
  | x :: a', y :: b' => match ndiff a' b' with Some n => Some (if x =? y then n else S n) | None => None end
  | _, _ => None
  end.

(* what the LEDGER sees: the references are read from the signed bytes and looked up in the UTxO set *)
Definition ref_ledger (c : bcase) (v : txview) : Z := Touched.ref_script_bytes (bc_utxos c) (tv_inputs v) (tv_refs v).
Definition needed_wit (c : bcase) (v : txview) : Z :=
  Z.of_nat (List.length (Touched.needed_keys (bc_utxos c) (tv_inputs v) (tv_collateral v) (tv_required v) (bc_script_keys c))).
Definition resolved (c : bcase) (v : txview) : bool :=
  match Touched.resolve_all (bc_utxos c) (tv_inputs v ++ tv_collateral v ++ tv_refs v) with Some _ => true | None => false end.

(* slice models on the UTxOs of the final body: `_ref_script_size()` and `_witness_count()` *)
Definition ref_model (c : bcase) (v : txview) : option Z :=
  match Touched.resolve_all (bc_utxos c) (tv_inputs v), Touched.resolve_all (bc_utxos c) (tv_refs v) with
  | Some ui, Some ur => Some (builder_ref_size ui ur)
  | _, _ => None
  end.
Definition wit_model (c : bcase) (v : txview) : option Z :=
  match Touched.resolve_all (bc_utxos c) (tv_inputs v), Touched.resolve_all (bc_utxos c) (tv_collateral v) with
  | Some ui, Some uc => Some (builder_witness_count ui uc (tv_required v) (bc_script_keys c))
  | _, _ => None
  end.
Definition optZ_is (o : option Z) (z : Z) : bool := match o with Some x => x =? z | None => false end.

Definition est_model (c : bcase) (v : txview) (size : Z) : pyval :=
  match g_fee FUEL (bc_ctx c) (VInt size) (VInt (tv_steps v)) (VInt (tv_mem v)) (VInt (bc_ref_builder c)) with
  | VInt f => VInt (f + bc_buffer c)
  | x => x
  end.

Definition max_model (c : bcase) : pyval :=
  match g_max_tx_fee FUEL (bc_ctx c) (VInt (bc_ref_builder c)) with
  | VInt f => VInt (f + bc_buffer c)
  | x => x
  end.

Definition last2 {A} (l : list A) : option (option A * A) :=
  match rev l with
  | z :: y :: _ => Some (Some y, z)
  | [z] => Some (None, z)
  | [] => None
  end.

(* slice correspondence: _estimate_fee = generated fee at the recorded size (+ buffer); placeholder of every fake
   transaction = max(previous fee, generated max fee + buffer); body fee = result of the last call; the signed
   transaction is the last fake transaction with the fee and coin fields replaced (size algebra) and the
   omitted scripts removed; only the absorbing coin changed, by exactly the fee difference;
   `_ref_script_size()` = the model on the UTxOs of the final body; the placeholder witnesses of the last fake
   transaction = the model's count on the final body = the witnesses of the signed transaction = the keys the ledger
   asks for (the transaction is signed with the keys it requires: premise of the property) *)
Definition build_corr (c : bcase) : bool :=
  match read_tx (bc_tx c), last2 (bc_calls c), max_model c with
  | Some v, Some (p1, p2), VInt M =>
      outcome_eqb (est_model c v (ec_size p2)) (VInt (ec_result p2))
      && optZ_is (ref_model c v) (bc_ref_builder c)
      && optZ_is (wit_model c v) (bc_fake_wit c)
      && (tv_nwit v =? bc_fake_wit c)
      && (tv_nwit v =? needed_wit c v)
      && (tv_fee v =? ec_result p2)
      && (tv_size v =? ec_size p2 - widthZ (ec_placeholder p2) + widthZ (tv_fee v)
                       - Zsumw (ec_coins p2) + Zsumw (tv_coins v) - bc_omitted c - bc_shrunk c)
      && match ndiff (ec_coins p2) (tv_coins v) with Some n => (n <=? 1)%nat | None => false end
      && match p1 with
         | Some q1 =>
             if bc_has_change c then
               outcome_eqb (est_model c v (ec_size q1)) (VInt (ec_result q1))
               && (ec_placeholder q1 =? Z.max 0 M)
               && (ec_placeholder p2 =? Z.max (ec_result q1) M)
               && (Zsuml (tv_coins v) =? Zsuml (ec_coins p2) - (ec_result p2 - ec_result q1))
             else (ec_placeholder p2 =? Z.max 0 M) && (Zsuml (tv_coins v) =? Zsuml (ec_coins p2))
         | None => negb (bc_has_change c) && (ec_placeholder p2 =? Z.max 0 M)
         end
  | _, _, _ => false
  end.

(* "a few dozen bytes": 8 (fee field: 9-byte placeholder vs 1-byte fee) + 8 (absorbing coin field) are proved
   (FeeProofs.builder_tight: 16); dropping a script also drops its framing in the witness set, at most
   3 script kinds * (1 map key + 3 tag 258 + 3 array head) = 21 bytes, and shortens the witness map head by <= 2.
   That framing is already part of bc_omitted (measured as the difference of the two witness-set encodings), so 16 + 8 spare = 24. *)
Definition FEW_DOZEN : Z := 24.

(* the property, on the implementation's output only: when the transaction carries exactly the witnesses the ledger
   asks for (premise "signed with the keys it requires"; build_corr reports a run where it does not hold),
   ledger minimum for the FINAL bytes, the execution units in the final redeemers and the reference-script bytes of
   ALL outputs the final body spends or references (looked up here, every output once, equal scripts on different
   outputs each time)  <=  body fee  <=  minimum + a*(24 + omitted + max 0 shrunk) + 2 + buffer *)
Definition build_oracle (c : bcase) : bool :=
  match read_tx (bc_tx c) with
  | Some v =>
      resolved c v &&
      (negb (tv_nwit v =? needed_wit c v) ||
       let lo := ledger_min_fee (bc_lp c) (bc_has_ref c) (tv_size v) (tv_steps v) (tv_mem v) (ref_ledger c v) in
       (lo <=? tv_fee v)
       && (tv_fee v <=? lo + Ledger.la (bc_lp c) * (FEW_DOZEN + bc_omitted c + Z.max 0 (bc_shrunk c)) + 2 + bc_buffer c))
  | None => false
  end.
