(* ChangeProofs.v — C08: proofs about the model of Change.v.
   A. the packer returns a split of the bundle (pack_partition) with valid parts;
   B. size arithmetic of the encoders; canonical-encoding lemma for the size test;
   C. every part fits (pack_fits) when every single asset fits;
   D. _calc_change: valid amounts, change = provided - requested, min ADA, size bounds, refusal;
   E. serialization refuses negatives; the min-ADA utility is the ledger formula. *)
From Coq Require Import NArith ZArith Ascii String List Bool Lia Permutation.
From Coq Require Import ZifyBool ZifyN ZifyNat.
From PyC Require Import Base Cbor CborProofs Dict Value ValueProofs ValueCanon Change.
Import ListNotations.
Open Scope Z_scope.

(* ================================================================== A. partition *)
Lemma Zsum_app a b : Zsum (a ++ b) = Zsum a + Zsum b.
Proof. unfold Zsum. induction a as [|x a IH]; cbn; [reflexivity | rewrite IH; lia]. Qed.

Lemma msum_app l x p n : msum (l ++ [x]) p n = msum l p n + content x p n.
Proof. unfold msum. rewrite map_app, Zsum_app. cbn. lia. Qed.

(* "flat" reading of a dict of dicts: add up every entry stored under (p, n) *)
Definition flata (a : asset) (n : bytes) : Z := Zsum (map (fun kv => if bytes_eqb (fst kv) n then snd kv else 0) a).
Definition flatm (m : masset) (p n : bytes) : Z :=
  Zsum (map (fun kv => if bytes_eqb (fst kv) p then flata (snd kv) n else 0) m).

Lemma flata_cons k q a n : flata ((k, q) :: a) n = (if bytes_eqb k n then q else 0) + flata a n.
Proof. reflexivity. Qed.
Lemma flatm_cons k a m p n : flatm ((k, a) :: m) p n = (if bytes_eqb k p then flata a n else 0) + flatm m p n.
Proof. reflexivity. Qed.
Lemma flata_nil n : flata [] n = 0.
Proof. reflexivity. Qed.
Lemma flatm_nil p n : flatm [] p n = 0.
Proof. reflexivity. Qed.

Lemma flata_notin a n : ~ In n (keys a) -> flata a n = 0.
Proof.
  induction a as [|[k q] a IH]; intros H; [reflexivity|]. rewrite flata_cons.
  destruct (bytes_eqb k n) eqn:E.
  - apply bytes_eqb_eq in E. subst. exfalso. apply H. now left.
  - rewrite IH; [reflexivity | intros X; apply H; now right].
Qed.
Lemma flata_aget a n : wfd a -> flata a n = aget a n.
Proof.
  induction a as [|[k q] a IH]; intros W; [reflexivity|].
  inversion W as [|? ? Hn Hr]; subst. rewrite aget_cons, flata_cons.
  destruct (bytes_eqb k n) eqn:E.
  - apply bytes_eqb_eq in E. subst. rewrite (flata_notin a n Hn). lia.
  - rewrite <- IH by exact Hr. reflexivity.
Qed.
Lemma flatm_notin m p n : ~ In p (keys m) -> flatm m p n = 0.
Proof.
  induction m as [|[k a] m IH]; intros H; [reflexivity|]. rewrite flatm_cons.
  destruct (bytes_eqb k p) eqn:E.
  - apply bytes_eqb_eq in E. subst. exfalso. apply H. now left.
  - rewrite IH; [reflexivity | intros X; apply H; now right].
Qed.
Lemma flatm_content m p n : wfm m -> flatm m p n = content m p n.
Proof.
  induction m as [|[k a] m IH]; intros [W F]; [reflexivity|].
  inversion W as [|? ? Hn Hr]; subst. inversion F as [|? ? Wa Fr]; subst. cbn in Wa.
  unfold content. rewrite mget_cons, flatm_cons.
  destruct (bytes_eqb k p) eqn:E.
  - apply bytes_eqb_eq in E. subst. rewrite (flatm_notin m p n Hn).
    rewrite flata_aget by exact Wa. lia.
  - rewrite IH by (split; assumption). reflexivity.
Qed.
Lemma flata_app a b n : flata (a ++ b) n = flata a n + flata b n.
Proof. unfold flata. now rewrite map_app, Zsum_app. Qed.
Lemma flatm_app a b p n : flatm (a ++ b) p n = flatm a p n + flatm b p n.
Proof. unfold flatm. now rewrite map_app, Zsum_app. Qed.

Lemma aget_single k q n : aget [(k, q)] n = if bytes_eqb k n then q else 0.
Proof. now rewrite aget_cons, aget_nil. Qed.
Lemma content_nil p n : content [] p n = 0.
Proof. reflexivity. Qed.
Lemma content_single k a p n : content [(k, a)] p n = if bytes_eqb k p then aget a n else 0.
Proof. unfold content. rewrite mget_cons. destruct (bytes_eqb k p); reflexivity. Qed.
Lemma wfd_single {V} k (v : V) : wfd [(k, v)].
Proof. unfold wfd. cbn. constructor; [intros [] | constructor]. Qed.
Lemma wfm_nil : wfm [].
Proof. split; constructor. Qed.
Lemma wfm_single k a : wfd a -> wfm [(k, a)].
Proof. intros W. split; [apply wfd_single | constructor; [exact W | constructor]]. Qed.
Lemma wfv_mk c m : wfm m -> wfv (mkValue c m).
Proof. intros W. exact W. Qed.

Lemma a_add_single_get tmp k q n : wfd tmp -> aget (a_add tmp [(k, q)]) n = aget tmp n + (if bytes_eqb k n then q else 0).
Proof. intros W. rewrite a_add_get by (try exact W; apply wfd_single). now rewrite aget_single. Qed.

(* the flushed amount *)
Lemma flush_spec out pid tmp : wfv out -> wfd tmp ->
  wfv (flush out pid tmp) /\ coin (flush out pid tmp) = coin out /\ normalized_m (massets (flush out pid tmp))
  /\ forall p n, content (massets (flush out pid tmp)) p n
                 = content (massets out) p n + (if bytes_eqb pid p then aget tmp n else 0).
Proof.
  intros Wo Wt. unfold flush.
  assert (W2 : wfv (mkValue 0 (m_add [] [(pid, tmp)]))) by (apply wfv_mk, m_add_wfm, wfm_nil).
  destruct (v_add_spec out _ Wo W2) as (C & M & Nm & W).
  split; [exact W|]. split; [cbn [coin] in C; rewrite Z.add_0_r in C; exact C|]. split; [exact Nm|].
  intros p n. rewrite M. cbn [massets]. rewrite m_add_content by (try apply wfm_nil; now apply wfm_single).
    rewrite content_nil, content_single. lia.
Qed.

(* well-formedness of a packer state *)
Definition wfst (st : pstate) : Prop :=
  Forall wfm (fst (fst st)) /\ wfv (snd (fst st)) /\ wfd (snd st).
(* what a state holds under (p, n), the buffered assets belonging to policy pid *)
Definition held (pid : bytes) (st : pstate) (p n : bytes) : Z :=
  msum (fst (fst st)) p n + content (massets (snd (fst st))) p n + (if bytes_eqb pid p then aget (snd st) n else 0).

Lemma asset_step_held c addr mc pid st nq : wfst st ->
  wfst (asset_step c addr mc pid st nq)
  /\ forall p n, held pid (asset_step c addr mc pid st nq) p n
                 = held pid st p n + (if bytes_eqb pid p then (if bytes_eqb (fst nq) n then snd nq else 0) else 0).
Proof.
  destruct st as [[arr out] tmp]. destruct nq as [k q]. intros (Wa & Wo & Wt). cbn [fst snd] in *.
  unfold asset_step. cbn [fst snd].
  destruct (overflow c addr mc out tmp pid k q).
  - assert (X : wfv (if is_nil tmp then out else flush out pid tmp)
                /\ forall p n, content (massets (if is_nil tmp then out else flush out pid tmp)) p n
                               = content (massets out) p n + (if bytes_eqb pid p then aget tmp n else 0)).
    { destruct tmp as [|x r]; cbn [is_nil].
      - split; [exact Wo|]. intros p n. rewrite aget_nil. destruct (bytes_eqb pid p); lia.
      - destruct (flush_spec out pid (x :: r) Wo Wt) as (W & _ & _ & M). split; assumption. }
    destruct X as [W1 M1]. split.
    + repeat split; cbn [fst snd].
      * apply Forall_app. split; [exact Wa | constructor; [exact W1 | constructor]].
      * apply wfm_nil.
      * apply wfm_nil.
      * apply a_add_wfd. constructor.
    + intros p n. unfold held. cbn [fst snd massets]. rewrite msum_app, M1, content_nil.
      rewrite a_add_single_get by constructor. rewrite aget_nil.
      destruct (bytes_eqb pid p); lia.
  - split.
    + repeat split; cbn [fst snd]; try assumption; try apply Wo. now apply a_add_wfd.
    + intros p n. unfold held. cbn [fst snd]. rewrite a_add_single_get by exact Wt.
      destruct (bytes_eqb pid p); lia.
Qed.

Lemma asset_fold_held c addr mc pid assets : forall st, wfst st ->
  wfst (fold_left (asset_step c addr mc pid) assets st)
  /\ forall p n, held pid (fold_left (asset_step c addr mc pid) assets st) p n
                 = held pid st p n + (if bytes_eqb pid p then flata assets n else 0).
Proof.
  induction assets as [|nq assets IH]; intros st W; cbn [fold_left].
  - split; [exact W|]. intros p n. rewrite flata_nil. destruct (bytes_eqb pid p); lia.
  - destruct (asset_step_held c addr mc pid st nq W) as [W1 H1].
    destruct (IH _ W1) as [W2 H2]. split; [exact W2|].
    intros p n. rewrite H2, H1. destruct nq as [k q]. rewrite flata_cons. cbn [fst snd]. destruct (bytes_eqb pid p); lia.
Qed.

(* between policies: (arr, out) *)
Definition wfpo (s : list masset * value) : Prop := Forall wfm (fst s) /\ wfv (snd s).
Definition held2 (s : list masset * value) (p n : bytes) : Z := msum (fst s) p n + content (massets (snd s)) p n.

Lemma policy_step_held c addr mc s pa s' : wfpo s ->
  policy_step c addr mc (Ok s) pa = Ok s' ->
  wfpo s' /\ forall p n, held2 s' p n = held2 s p n + (if bytes_eqb (fst pa) p then flata (snd pa) n else 0).
Proof.
  destruct s as [arr out]. destruct pa as [pid assets]. intros [Wa Wo] H. cbn [policy_step fst snd] in H.
  assert (W0 : wfst (arr, out, [])) by (repeat split; cbn [fst snd]; try assumption; try apply Wo; constructor).
  destruct (asset_fold_held c addr mc pid assets _ W0) as [(Wa1 & Wo1 & Wt1) H1].
  set (st1 := fold_left (asset_step c addr mc pid) assets (arr, out, [])) in *.
  destruct (too_big c addr mc (flush (snd (fst st1)) pid (snd st1))); [discriminate|].
  inversion H; subst s'. clear H.
  destruct (flush_spec (snd (fst st1)) pid (snd st1) Wo1 Wt1) as (W & _ & _ & M).
  split; [split; assumption|].
  intros p n. unfold held2. cbn [fst snd]. rewrite M.
  specialize (H1 p n). unfold held in H1. cbn [fst snd] in H1. rewrite aget_nil in H1.
  destruct (bytes_eqb pid p); lia.
Qed.

Lemma policy_step_err c addr mc e pa : policy_step c addr mc (Err e) pa = Err e.
Proof. reflexivity. Qed.
Lemma policy_fold_err c addr mc e l : fold_left (policy_step c addr mc) l (Err e) = Err e.
Proof. induction l; cbn; auto. Qed.

Lemma policy_fold_held c addr mc l : forall s s', wfpo s ->
  fold_left (policy_step c addr mc) l (Ok s) = Ok s' ->
  wfpo s' /\ forall p n, held2 s' p n = held2 s p n + flatm l p n.
Proof.
  induction l as [|pa l IH]; intros s s' W H; cbn [fold_left] in H.
  - inversion H; subst. split; [exact W|]. intros p n. rewrite flatm_nil. lia.
  - destruct (policy_step c addr mc (Ok s) pa) as [s1|e] eqn:E.
    + destruct (policy_step_held c addr mc s pa s1 W E) as [W1 H1].
      destruct (IH _ _ W1 H) as [W2 H2]. split; [exact W2|].
      intros p n. rewrite H2, H1. destruct pa as [k a]. rewrite flatm_cons. cbn [fst snd]. lia.
    + rewrite policy_fold_err in H. discriminate.
Qed.

(* pack_partition: whatever the packer returns is a split of the bundle it was given *)
Theorem pack_partition c addr change arr : wfm (massets change) ->
  pack_tokens c addr change = Ok arr ->
  partition_of arr (massets change) /\ Forall wfm arr.
Proof.
  intros W H. unfold pack_tokens in H.
  destruct (fold_left (policy_step c addr (coin change)) (massets change) (Ok ([], mkValue (coin change) []))) as [[arr1 out]|e] eqn:E;
    [|discriminate].
  inversion H; subst arr. clear H.
  assert (W0 : wfpo ([], mkValue (coin change) [])) by (split; [constructor | apply wfm_nil]).
  destruct (policy_fold_held c addr _ _ _ _ W0 E) as [[Wa Wo] H1]. cbn [fst snd] in *.
  split.
  - intros p n. rewrite msum_app. specialize (H1 p n).
    assert (Z0 : held2 ([], mkValue (coin change) []) p n = 0) by reflexivity.
    rewrite Z0 in H1. unfold held2 in H1. cbn [fst snd] in H1.
    rewrite <- (flatm_content (massets change) p n W). lia.
  - apply Forall_app. split; [exact Wa | constructor; [exact Wo | constructor]].
Qed.

(* ---------- the parts hold strictly positive quantities ---------- *)
Definition nonneg_a (a : asset) : Prop := Forall (fun nq => 0 <= snd nq) a.
Definition nonneg_m (m : masset) : Prop := Forall (fun pa => nonneg_a (snd pa)) m.
Definition good_m (m : masset) : Prop := normalized_m m /\ forall p n, 0 <= content m p n.

Lemma all_pos_of_content m : wfm m -> good_m m -> all_pos m.
Proof.
  intros [W F] [Nm Hc]. unfold all_pos. apply Forall_forall. intros [p a] Hp. cbn [snd].
  apply Forall_forall. intros [n q] Hn. cbn [snd].
  assert (Wa : wfd a) by (rewrite Forall_forall in F; apply (F _ Hp)).
  assert (C : content m p n = q).
  { unfold content, mget. rewrite (In_dget _ _ _ W Hp). unfold aget. now rewrite (In_dget _ _ _ Wa Hn). }
  unfold normalized_m in Nm. rewrite Forall_forall in Nm. destruct (Nm _ Hp) as [_ Na]. cbn [snd] in Na.
  unfold normalized_a in Na. rewrite Forall_forall in Na. specialize (Na _ Hn). cbn [snd] in Na.
  specialize (Hc p n). lia.
Qed.

Lemma good_nil : good_m [].
Proof. split; [constructor | intros; rewrite content_nil; lia]. Qed.

Definition posst (st : pstate) : Prop :=
  Forall good_m (fst (fst st)) /\ good_m (massets (snd (fst st))) /\ forall n, 0 <= aget (snd st) n.

Lemma asset_step_pos c addr mc pid st nq : wfst st -> posst st -> 0 <= snd nq ->
  posst (asset_step c addr mc pid st nq).
Proof.
  destruct st as [[arr out] tmp]. destruct nq as [k q]. intros (Wa & Wo & Wt) (Pa & Po & Pt) Hq. cbn [fst snd] in *.
  unfold asset_step. cbn [fst snd].
  destruct (overflow c addr mc out tmp pid k q).
  - repeat split; cbn [fst snd massets].
    + apply Forall_app. split; [exact Pa|]. constructor; [|constructor].
      destruct tmp as [|x r]; cbn [is_nil]; [exact Po|].
      destruct (flush_spec out pid (x :: r) Wo Wt) as (_ & _ & Nm & M). split; [exact Nm|].
      intros p n. rewrite M. destruct Po as [_ Hc]. specialize (Hc p n). specialize (Pt n).
      destruct (bytes_eqb pid p); lia.
    + constructor.
    + intros; rewrite content_nil; lia.
    + intros n. rewrite a_add_single_get by constructor. rewrite aget_nil. destruct (bytes_eqb k n); lia.
  - repeat split; cbn [fst snd]; try assumption; try apply Po.
    intros n. rewrite a_add_single_get by exact Wt. specialize (Pt n). destruct (bytes_eqb k n); lia.
Qed.

Lemma asset_fold_pos c addr mc pid assets : forall st, wfst st -> posst st -> nonneg_a assets ->
  posst (fold_left (asset_step c addr mc pid) assets st).
Proof.
  induction assets as [|nq assets IH]; intros st W P Hn; cbn [fold_left]; [exact P|].
  inversion Hn; subst. apply IH; [apply asset_step_held, W | now apply asset_step_pos | assumption].
Qed.

Definition pospo (s : list masset * value) : Prop := Forall good_m (fst s) /\ good_m (massets (snd s)).

Lemma policy_step_pos c addr mc s pa s' : wfpo s -> pospo s -> nonneg_a (snd pa) ->
  policy_step c addr mc (Ok s) pa = Ok s' -> pospo s'.
Proof.
  destruct s as [arr out]. destruct pa as [pid assets]. intros [Wa Wo] [Pa Po] Hn H. cbn [policy_step fst snd] in *.
  assert (W0 : wfst (arr, out, [])) by (repeat split; cbn [fst snd]; try assumption; try apply Wo; constructor).
  assert (P0 : posst (arr, out, [])) by (repeat split; cbn [fst snd]; try assumption; try apply Po; intros; rewrite aget_nil; lia).
  destruct (asset_fold_held c addr mc pid assets _ W0) as [(Wa1 & Wo1 & Wt1) _].
  pose proof (asset_fold_pos c addr mc pid assets _ W0 P0 Hn) as (Pa1 & Po1 & Pt1).
  set (st1 := fold_left (asset_step c addr mc pid) assets (arr, out, [])) in *.
  destruct (too_big c addr mc (flush (snd (fst st1)) pid (snd st1))); [discriminate|].
  inversion H; subst s'. clear H.
  destruct (flush_spec (snd (fst st1)) pid (snd st1) Wo1 Wt1) as (_ & _ & Nm & M).
  split; cbn [fst snd]; [exact Pa1|]. split; [exact Nm|].
  intros p n. rewrite M. destruct Po1 as [_ Hc]. specialize (Hc p n). specialize (Pt1 n).
  destruct (bytes_eqb pid p); lia.
Qed.

Lemma policy_fold_pos c addr mc l : forall s s', wfpo s -> pospo s -> nonneg_m l ->
  fold_left (policy_step c addr mc) l (Ok s) = Ok s' -> pospo s'.
Proof.
  induction l as [|pa l IH]; intros s s' W P Hn H; cbn [fold_left] in H.
  - inversion H; subst. exact P.
  - inversion Hn as [|? ? Hpa Hl]; subst. destruct (policy_step c addr mc (Ok s) pa) as [s1|e] eqn:E.
    + destruct (policy_step_held c addr mc s pa s1 W E) as [W1 _].
      apply (IH s1 s' W1); [exact (policy_step_pos c addr mc s pa s1 W P Hpa E) | exact Hl | exact H].
    + rewrite policy_fold_err in H. discriminate.
Qed.

Theorem pack_parts_pos c addr change arr : wfm (massets change) -> nonneg_m (massets change) ->
  pack_tokens c addr change = Ok arr -> Forall all_pos arr.
Proof.
  intros W Hn H. destruct (pack_partition c addr change arr W H) as [_ Wf].
  unfold pack_tokens in H.
  destruct (fold_left (policy_step c addr (coin change)) (massets change) (Ok ([], mkValue (coin change) []))) as [[arr1 out]|e] eqn:E;
    [|discriminate].
  inversion H; subst arr. clear H.
  assert (W0 : wfpo ([], mkValue (coin change) [])) by (split; [constructor | apply wfm_nil]).
  assert (P0 : pospo ([], mkValue (coin change) [])) by (split; [constructor | apply good_nil]).
  pose proof (policy_fold_pos c addr _ _ _ _ W0 P0 Hn E) as [Pa Po]. cbn [fst snd] in *.
  assert (G : Forall good_m (arr1 ++ [massets out])) by (apply Forall_app; split; [exact Pa | constructor; [exact Po | constructor]]).
  rewrite Forall_forall in *. intros m Hm. apply all_pos_of_content; [apply Wf, Hm | apply G, Hm].
Qed.

(* ================================================================== B. sizes *)
Definition Wd (z : Z) : N := lenN (enc (cint z)).                       (* bytes of an encoded integer *)
Definition msz (m : masset) : N :=                                      (* what the bundle adds to a value *)
  if is_nil (m_norm m) then 0%N else (1 + lenN (enc (masset_prim m)))%N.
Definition Kaddr (addr : bytes) : N := (3 + lenN (enc (CB addr)))%N.    (* map head, two keys, the address item *)

Lemma enc_CA2 x y : enc (CA [x; y]) = head 4 2 ++ enc x ++ enc y ++ [].
Proof. reflexivity. Qed.

Lemma vsize_split c m : lenN (value_cbor (mkValue c m)) = (Wd c + msz m)%N.
Proof.
  unfold value_cbor, value_prim, msz, Wd. cbn [coin massets].
  destruct (is_nil (m_norm m)); [lia|].
  rewrite enc_CA2, !lenN_app, head_length. cbn [lenN]. change (width 2) with 1%N. lia.
Qed.

Lemma out_plain_enc addr v :
  out_cbor_map (plain addr v) = head 5 2 ++ (head 0 0 ++ enc (CB addr)) ++ (head 0 1 ++ value_cbor v) ++ [].
Proof. reflexivity. Qed.

Lemma out_size_plain addr v : out_size (plain addr v) = (Kaddr addr + lenN (value_cbor v))%N.
Proof.
  unfold out_size, Kaddr. rewrite out_plain_enc, !lenN_app, !head_length. cbn [lenN].
  change (width 2) with 1%N. change (width 0) with 1%N. change (width 1) with 1%N. lia.
Qed.

Lemma Wd_small z : 0 <= z < 4294967296 -> (Wd z <= 5)%N.
Proof.
  intros H. unfold Wd, cint. destruct (0 <=? z) eqn:E1; [|lia].
  destruct (z <? two64z) eqn:E2; [|unfold two64z in *; lia].
  cbn [enc]. rewrite head_length. unfold width.
  repeat match goal with |- context [(?a <? ?b)%N] => destruct (a <? b)%N eqn:? end; lia.
Qed.
Lemma Wd_le9 z : 0 <= z < two64z -> (Wd z <= 9)%N.
Proof.
  intros H. unfold Wd, cint. destruct (0 <=? z) eqn:E1; [|lia].
  destruct (z <? two64z) eqn:E2; [|lia].
  cbn [enc]. rewrite head_length. unfold width.
  repeat match goal with |- context [(?a <? ?b)%N] => destruct (a <? b)%N eqn:? end; lia.
Qed.
Lemma Wd_1e6 : Wd 1000000 = 5%N.
Proof. reflexivity. Qed.

(* ---------- the size test depends on (coin, content) only ---------- *)
Lemma value_prim_canonical v1 v2 : wfv v1 -> wfv v2 -> coin v1 = coin v2 ->
  (forall p n, content (massets v1) p n = content (massets v2) p n) -> value_prim v1 = value_prim v2.
Proof.
  intros W1 W2 C H. unfold value_prim.
  rewrite (m_norm_nil_iff _ _ W1 W2 H), C, (masset_prim_canonical _ _ W1 W2 H). reflexivity.
Qed.

Lemma msz_canonical m1 m2 : wfm m1 -> wfm m2 -> (forall p n, content m1 p n = content m2 p n) -> msz m1 = msz m2.
Proof.
  intros W1 W2 H. unfold msz. now rewrite (m_norm_nil_iff _ _ W1 W2 H), (masset_prim_canonical _ _ W1 W2 H).
Qed.

(* closed forms of the model's numbers *)
Lemma min_lovelace_plain c addr v :
  min_lovelace c (plain addr v)
  = (160 + Z.of_N (Kaddr addr + Wd (if coin v =? 0 then 1000000 else coin v) + msz (massets v))) * cpb c.
Proof.
  unfold min_lovelace. cbn [o_addr o_val o_datum o_script plain].
  change (mkOut addr (subst_coin v) None None) with (plain addr (subst_coin v)).
  rewrite out_size_plain. unfold subst_coin. destruct v as [cn m]. cbn [coin massets].
  destruct (cn =? 0); rewrite vsize_split; f_equal; lia.
Qed.

Definition reqd (c : cfg) (addr : bytes) (v : value) : Z := min_lovelace c (plain addr v).
Lemma too_big_eq c addr mc v :
  too_big c addr mc v = (max_val_size c <? Z.of_N (Wd (Z.max (reqd c addr v) mc) + msz (massets v))).
Proof. unfold too_big, vsize, reqd. now rewrite vsize_split. Qed.

Lemma too_big_canon c addr mc v1 v2 : wfv v1 -> wfv v2 -> coin v1 = coin v2 ->
  (forall p n, content (massets v1) p n = content (massets v2) p n) -> too_big c addr mc v1 = too_big c addr mc v2.
Proof.
  intros W1 W2 C H. rewrite !too_big_eq. unfold reqd. rewrite !min_lovelace_plain.
  now rewrite C, (msz_canonical _ _ W1 W2 H).
Qed.

(* ================================================================== C. every part fits *)
Definition fit (c : cfg) (addr : bytes) (mc : Z) (v : value) : Prop := too_big c addr mc v = false.
(* every single asset of the bundle fits into a value of its own *)
Definition singles_fit (c : cfg) (addr : bytes) (mc : Z) (m : masset) : Prop :=
  Forall (fun pa => Forall (fun nq => fit c addr mc (mkValue 0 [(fst pa, [nq])])) (snd pa)) m.
Definition part_fits (c : cfg) (addr : bytes) (mc : Z) (ma : masset) : Prop := exists c0, fit c addr mc (mkValue c0 ma).

Lemma value_eta v : mkValue (coin v) (massets v) = v.
Proof. now destruct v. Qed.

Lemma fit_flush_nil c addr mc out pid : wfv out -> fit c addr mc (flush out pid []) <-> fit c addr mc out.
Proof.
  intros Wo. destruct (flush_spec out pid [] Wo ltac:(constructor)) as (W & C & _ & M).
  unfold fit. rewrite (too_big_canon c addr mc (flush out pid []) out W Wo C); [reflexivity|].
  intros p n. rewrite M, aget_nil. destruct (bytes_eqb pid p); lia.
Qed.

Definition fitst (c : cfg) (addr : bytes) (mc : Z) (pid : bytes) (st : pstate) : Prop :=
  Forall (part_fits c addr mc) (fst (fst st)) /\ fit c addr mc (flush (snd (fst st)) pid (snd st)).

Lemma asset_step_fit c addr mc pid st nq : wfst st -> fitst c addr mc pid st ->
  fit c addr mc (mkValue 0 [(pid, [nq])]) -> fitst c addr mc pid (asset_step c addr mc pid st nq).
Proof.
  destruct st as [[arr out] tmp]. destruct nq as [k q]. intros (Wa & Wo & Wt) [Fa Fo] Hs. cbn [fst snd] in *.
  unfold asset_step. cbn [fst snd].
  destruct (overflow c addr mc out tmp pid k q) eqn:Ov.
  - split; cbn [fst snd].
    + apply Forall_app. split; [exact Fa|]. constructor; [|constructor].
      destruct tmp as [|x r]; cbn [is_nil].
      * exists (coin out). rewrite value_eta. now apply (fit_flush_nil c addr mc out pid Wo).
      * exists (coin (flush out pid (x :: r))). now rewrite value_eta.
    + (* a fresh output holding just this asset *)
      assert (Wt' : wfd (a_add [] [(k, q)])) by (apply a_add_wfd; constructor).
      assert (W0 : wfv (mkValue 0 [])) by apply wfm_nil.
      destruct (flush_spec (mkValue 0 []) pid _ W0 Wt') as (W & C & _ & M).
      unfold fit. rewrite (too_big_canon c addr mc _ (mkValue 0 [(pid, [(k, q)])]) W); [exact Hs | | exact C |].
      * apply wfm_single, wfd_single.
      * intros p n. rewrite M. cbn [massets]. rewrite content_nil, content_single, aget_single.
        rewrite a_add_single_get by constructor. rewrite aget_nil. destruct (bytes_eqb pid p); lia.
  - split; cbn [fst snd]; [exact Fa|].
    assert (Wt' : wfd (a_add tmp [(k, q)])) by now apply a_add_wfd.
    destruct (flush_spec out pid _ Wo Wt') as (W & C & _ & M).
    unfold overflow in Ov.
    assert (W2 : wfv (mkValue 0 [(pid, a_add tmp [(k, q)])])) by now apply wfm_single.
    destruct (v_add_spec _ out W2 Wo) as (C3 & M3 & _ & W3).
    unfold fit. rewrite <- Ov. apply too_big_canon; [exact W | exact W3 | rewrite C, C3; cbn; lia |].
    intros p n. rewrite M, M3. cbn [massets]. rewrite content_single. destruct (bytes_eqb pid p); lia.
Qed.

Lemma asset_fold_fit c addr mc pid assets : forall st, wfst st -> fitst c addr mc pid st ->
  Forall (fun nq => fit c addr mc (mkValue 0 [(pid, [nq])])) assets ->
  fitst c addr mc pid (fold_left (asset_step c addr mc pid) assets st).
Proof.
  induction assets as [|nq assets IH]; intros st W F Hs; cbn [fold_left]; [exact F|].
  inversion Hs as [|? ? H1 H2]; subst.
  apply IH; [apply asset_step_held, W | now apply asset_step_fit | exact H2].
Qed.

Definition fitpo (c : cfg) (addr : bytes) (mc : Z) (s : list masset * value) : Prop :=
  Forall (part_fits c addr mc) (fst s) /\ fit c addr mc (snd s).

Lemma policy_step_fit c addr mc s pa s' : wfpo s -> fitpo c addr mc s ->
  Forall (fun nq => fit c addr mc (mkValue 0 [(fst pa, [nq])])) (snd pa) ->
  policy_step c addr mc (Ok s) pa = Ok s' -> fitpo c addr mc s'.
Proof.
  destruct s as [arr out]. destruct pa as [pid assets]. intros [Wa Wo] [Fa Fo] Hs H. cbn [policy_step fst snd] in *.
  assert (W0 : wfst (arr, out, [])) by (repeat split; cbn [fst snd]; try assumption; try apply Wo; constructor).
  assert (F0 : fitst c addr mc pid (arr, out, [])) by (split; cbn [fst snd]; [exact Fa | now apply fit_flush_nil]).
  pose proof (asset_fold_fit c addr mc pid assets _ W0 F0 Hs) as [Fa1 _].
  set (st1 := fold_left (asset_step c addr mc pid) assets (arr, out, [])) in *.
  destruct (too_big c addr mc (flush (snd (fst st1)) pid (snd st1))) eqn:T; [discriminate|].
  inversion H; subst s'. split; cbn [fst snd]; [exact Fa1 | exact T].
Qed.

Lemma policy_fold_fit c addr mc l : forall s s', wfpo s -> fitpo c addr mc s -> singles_fit c addr mc l ->
  fold_left (policy_step c addr mc) l (Ok s) = Ok s' -> fitpo c addr mc s'.
Proof.
  induction l as [|pa l IH]; intros s s' W F Hs H; cbn [fold_left] in H.
  - inversion H; subst. exact F.
  - inversion Hs as [|? ? Hpa Hl]; subst. destruct (policy_step c addr mc (Ok s) pa) as [s1|e] eqn:E.
    + destruct (policy_step_held c addr mc s pa s1 W E) as [W1 _].
      apply (IH s1 s' W1); [exact (policy_step_fit c addr mc s pa s1 W F Hpa E) | exact Hl | exact H].
    + rewrite policy_fold_err in H. discriminate.
Qed.

(* pack_fits: when every single asset fits, every part passed the size test (sized with the minimum ADA
   of the output carrying it) *)
Theorem pack_fits c addr change arr : wfm (massets change) ->
  singles_fit c addr (coin change) (massets change) -> fit c addr (coin change) (mkValue (coin change) []) ->
  pack_tokens c addr change = Ok arr -> Forall (part_fits c addr (coin change)) arr.
Proof.
  intros W Hs Hb H. unfold pack_tokens in H.
  destruct (fold_left (policy_step c addr (coin change)) (massets change) (Ok ([], mkValue (coin change) []))) as [[arr1 out]|e] eqn:E;
    [|discriminate].
  inversion H; subst arr. clear H.
  assert (W0 : wfpo ([], mkValue (coin change) [])) by (split; [constructor | apply wfm_nil]).
  assert (F0 : fitpo c addr (coin change) ([], mkValue (coin change) [])) by (split; [constructor | exact Hb]).
  pose proof (policy_fold_fit c addr _ _ _ _ W0 F0 Hs E) as [Fa Fo]. cbn [fst snd] in *.
  apply Forall_app. split; [exact Fa|]. constructor; [|constructor].
  exists (coin out). now rewrite value_eta.
Qed.

(* and then the packer does not refuse: the InvalidTransactionException of the final re-check needs an
   asset that does not fit on its own *)
Theorem pack_total c addr change : wfm (massets change) ->
  singles_fit c addr (coin change) (massets change) -> fit c addr (coin change) (mkValue (coin change) []) ->
  exists arr, pack_tokens c addr change = Ok arr.
Proof.
  intros W Hs Hb. unfold pack_tokens. set (mc := coin change) in *.
  assert (G : forall l s, wfpo s -> fitpo c addr mc s -> singles_fit c addr mc l ->
              exists s', fold_left (policy_step c addr mc) l (Ok s) = Ok s').
  { induction l as [|pa l IH]; intros s Ws Fs Hl; cbn [fold_left]; [now exists s|].
    inversion Hl as [|? ? Hpa Hl']; subst.
    destruct s as [arr out]. destruct pa as [pid assets]. destruct Ws as [Wa Wo]. destruct Fs as [Fa Fo].
    cbn [fst snd] in *.
    assert (W0 : wfst (arr, out, [])) by (repeat split; cbn [fst snd]; try assumption; try apply Wo; constructor).
    assert (F0 : fitst c addr mc pid (arr, out, [])) by (split; cbn [fst snd]; [exact Fa | now apply fit_flush_nil]).
    pose proof (asset_fold_fit c addr mc pid assets _ W0 F0 Hpa) as [Fa1 Fo1].
    destruct (policy_step c addr mc (Ok (arr, out)) (pid, assets)) as [s1|e] eqn:E.
    - assert (Wp : wfpo (arr, out)) by (split; assumption).
      assert (Fp : fitpo c addr mc (arr, out)) by (split; assumption).
      destruct (policy_step_held c addr mc (arr, out) (pid, assets) s1 Wp E) as [W1 _].
      apply IH; [exact W1 | exact (policy_step_fit c addr mc (arr, out) (pid, assets) s1 Wp Fp Hpa E) | exact Hl'].
    - exfalso. cbn [policy_step fst snd] in E. unfold fit in Fo1. rewrite Fo1 in E. discriminate. }
  assert (W0 : wfpo ([], mkValue mc [])) by (split; [constructor | apply wfm_nil]).
  assert (F0 : fitpo c addr mc ([], mkValue mc [])) by (split; [constructor | exact Hb]).
  destruct (G _ _ W0 F0 Hs) as [[arr out] E]. rewrite E. eauto.
Qed.

(* ---------- in the property's range every single asset fits ---------- *)
Lemma enc_CB_len b : lenN (enc (CB b)) = (width (lenN b) + lenN b)%N.
Proof. cbn [enc]. now rewrite lenN_app, head_length. Qed.

Lemma msz_single p n q : q <> 0 ->
  msz [(p, [(n, q)])] = (1 + (1 + (lenN (enc (CB p)) + (1 + (lenN (enc (CB n)) + Wd q)))))%N.
Proof.
  intros Hq. assert (E : (q =? 0) = false) by lia.
  unfold msz, masset_prim, m_norm, asset_prim, a_norm, Wd.
  cbn [map filter fst snd]. rewrite E. cbn [negb is_nil map filter fst snd]. rewrite E.
  cbn [negb is_nil map filter fst snd ksort fold_right kinsert].
  cbn [enc lenN map concat fst snd]. rewrite !lenN_app, !head_length. cbn [lenN].
  change (width (1 + 0)) with 1%N. lia.
Qed.

Lemma msz_nil : msz [] = 0%N.
Proof. reflexivity. Qed.

Theorem singles_fit_in_range c addr mc p n q c0 :
  lenN p = 28%N -> (lenN n <= 32)%N -> 0 < q < two64z ->
  0 <= Z.max (reqd c addr (mkValue c0 [(p, [(n, q)])])) mc < two64z -> 85 <= max_val_size c ->
  fit c addr mc (mkValue c0 [(p, [(n, q)])]).
Proof.
  intros Lp Ln Hq Hr Hm. unfold fit. rewrite too_big_eq. cbn [massets].
  rewrite msz_single by lia. rewrite !enc_CB_len, Lp.
  pose proof (Wd_le9 _ Hr). pose proof (Wd_le9 q ltac:(lia)).
  change (width 28) with 2%N.
  assert (width (lenN n) <= 2)%N.
  { unfold width. repeat match goal with |- context [(?a <? ?b)%N] => destruct (a <? b)%N eqn:? end; lia. }
  lia.
Qed.

Theorem base_fit_in_range c addr mc c0 :
  0 <= Z.max (reqd c addr (mkValue c0 [])) mc < two64z -> 9 <= max_val_size c -> fit c addr mc (mkValue c0 []).
Proof.
  intros Hr Hm. unfold fit. rewrite too_big_eq. cbn [massets]. rewrite msz_nil.
  pose proof (Wd_le9 _ Hr). lia.
Qed.

(* the encoded length of an integer is monotone (for the smaller one below 2^64) *)
Lemma be_min_fuel_ge : forall k f n, (k <= f)%nat -> (256 ^ N.of_nat k <= 256 * n)%N ->
  (N.of_nat k <= lenN (be_min_fuel f n))%N.
Proof.
  induction k as [|k IH]; intros f n Hf Hn; [lia|].
  destruct f as [|f]; [lia|]. cbn [be_min_fuel].
  rewrite Nnat.Nat2N.inj_succ, N.pow_succ_r' in Hn.
  assert (Hk : (256 ^ N.of_nat k <= n)%N) by lia.
  pose proof (N.pow_nonzero 256 (N.of_nat k) ltac:(lia)) as Hnz.
  assert (E : (n =? 0)%N = false) by lia. rewrite E, lenN_app. cbn [lenN].
  destruct k as [|k']; [lia|].
  assert (G : (256 ^ N.of_nat (S k') <= 256 * (n / 256))%N).
  { rewrite Nnat.Nat2N.inj_succ, N.pow_succ_r' in Hk |- * by lia.
    assert (256 ^ N.of_nat k' <= n / 256)%N by (apply N.div_le_lower_bound; lia). lia. }
  specialize (IH f (n / 256)%N ltac:(lia) G). lia.
Qed.

Lemma Wd_big y : two64z <= y -> (11 <= Wd y)%N.
Proof.
  intros H. unfold Wd, cint. destruct (0 <=? y) eqn:E1; [|unfold two64z in *; lia].
  destruct (y <? two64z) eqn:E2; [lia|].
  cbn [enc]. rewrite !lenN_app, !head_length.
  assert (G : (9 <= lenN (be_min (Z.to_N y)))%N).
  { unfold be_min. change 9%N with (N.of_nat 9). apply be_min_fuel_ge.
    - assert (L : (64 <= N.log2 (Z.to_N y))%N) by (apply N.log2_le_pow2; unfold two64z in *; lia). lia.
    - unfold two64z in *. change (256 ^ N.of_nat 9)%N with 4722366482869645213696%N. lia. }
  pose proof (width_mono 0 (lenN (be_min (Z.to_N y))) ltac:(lia)) as M1.
  change (width 0) with 1%N in M1. change (width 2) with 1%N. lia.
Qed.

Lemma Wd_mono x y : 0 <= x <= y -> x < two64z -> (Wd x <= Wd y)%N.
Proof.
  intros H Hx. destruct (Z.lt_ge_cases y two64z) as [Hy|Hy].
  - unfold Wd, cint. destruct (0 <=? x) eqn:E1; [|lia]. destruct (0 <=? y) eqn:E2; [|lia].
    destruct (x <? two64z) eqn:E3; [|lia]. destruct (y <? two64z) eqn:E4; [|lia].
    cbn [enc]. rewrite !head_length. apply width_mono. lia.
  - pose proof (Wd_le9 x ltac:(lia)). pose proof (Wd_big y Hy). lia.
Qed.

(* ================================================================== D. _calc_change *)
Definition mn (c : cfg) (addr : bytes) (ma : masset) : Z := min_lovelace c (plain addr (mkValue 0 ma)).

Lemma min_lovelace_nonneg c o : 0 <= cpb c -> 0 <= min_lovelace c o.
Proof. intros H. unfold min_lovelace. apply Z.mul_nonneg_nonneg; lia. Qed.

(* the splitting loop looks at the remaining change only through its ADA *)
Fixpoint split_coins (c : cfg) (addr : bytes) (respect : bool) (arr : list masset) (C : Z) (acc : list value)
  : res (list value) :=
  match arr with
  | [] => Ok acc
  | ma :: rest =>
      if (C <? 0) || (respect && (C <? mn c addr ma)) then Err EInsufficient
      else
        let cv := match rest with [] => mkValue C ma | _ => mkValue (mn c addr ma) ma end in
        split_coins c addr respect rest (C - coin cv) (acc ++ [cv])
  end.

Lemma split_loop_coins c addr r arr : forall change acc,
  split_loop c addr r arr change acc = split_coins c addr r arr (coin change) acc.
Proof.
  induction arr as [|ma rest IH]; intros change acc; cbn [split_loop split_coins]; [reflexivity|].
  unfold mn. destruct ((coin change <? 0) || (r && (coin change <? min_lovelace c (plain addr (mkValue 0 ma))))); [reflexivity|].
  rewrite IH. reflexivity.
Qed.

Lemma split_coins_spec c addr r : 0 <= cpb c -> forall arr C acc outs, arr <> [] ->
  split_coins c addr r arr C acc = Ok outs ->
  exists new, outs = acc ++ new /\ map massets new = arr
    /\ Zsum (map coin new) = C
    /\ Forall (fun v => 0 <= coin v) new
    /\ (r = true -> Forall (fun v => mn c addr (massets v) <= coin v) new).
Proof.
  intros Hc. induction arr as [|ma rest IH]; intros C acc outs Hne H; [congruence|].
  cbn [split_coins] in H.
  destruct ((C <? 0) || (r && (C <? mn c addr ma))) eqn:Chk; [discriminate|].
  destruct rest as [|m2 rest'].
  - cbn [split_coins coin] in H. inversion H; subst outs.
    exists [mkValue C ma]. repeat split; cbn; try lia.
    + constructor; [cbn; lia | constructor].
    + intros ->. constructor; [cbn; lia | constructor].
  - cbn [coin] in H. apply IH in H; [|discriminate].
    destruct H as (new & -> & Hm & Hs & Hp & Hr).
    pose proof (min_lovelace_nonneg c (plain addr (mkValue 0 ma)) Hc) as Hmn. fold (mn c addr ma) in Hmn.
    exists (mkValue (mn c addr ma) ma :: new). repeat split.
    + now rewrite <- app_assoc.
    + cbn [map massets]. now rewrite Hm.
    + cbn [map coin]. change (Zsum (mn c addr ma :: map coin new)) with (mn c addr ma + Zsum (map coin new)). lia.
    + constructor; [exact Hmn | exact Hp].
    + intros R. constructor; [cbn; lia | now apply Hr].
Qed.

(* a change output that received at least the minimum computed for a 5-byte coin holds the minimum
   for its own serialized size as long as its coin needs at most 5 bytes *)
Lemma own_min_ada c addr cn ma : 0 <= cpb c -> 0 <= cn < 4294967296 -> mn c addr ma <= cn ->
  min_ada (cpb c) (out_size (plain addr (mkValue cn ma))) <= cn.
Proof.
  intros Hc Hcn H. unfold mn in H. rewrite min_lovelace_plain in H. cbn [coin massets] in H.
  change (0 =? 0) with true in H. cbv iota in H. rewrite Wd_1e6 in H.
  unfold min_ada. rewrite out_size_plain, vsize_split. pose proof (Wd_small cn Hcn). nia.
Qed.

Lemma own_min_ada_v c addr v : 0 <= cpb c -> 0 <= coin v < 4294967296 -> mn c addr (massets v) <= coin v ->
  min_ada (cpb c) (out_size (plain addr v)) <= coin v.
Proof. destruct v as [cn ma]. cbn [coin massets]. apply own_min_ada. Qed.

Lemma own_min_ada_only c addr C : 0 <= cpb c -> min_lovelace c (plain addr (mkValue C [])) <= C ->
  min_ada (cpb c) (out_size (plain addr (mkValue C []))) <= C.
Proof.
  intros Hc H. rewrite min_lovelace_plain in H. cbn [coin massets] in H.
  unfold min_ada. rewrite out_size_plain, vsize_split.
  destruct (C =? 0) eqn:E; [|nia].
  assert (C = 0) by lia. subst C. nia.
Qed.

(* ---------- the change value ---------- *)
Lemma fold_v_add_wfv l : forall acc, wfv acc -> Forall wfv l -> wfv (fold_left v_add l acc).
Proof.
  induction l as [|v l IH]; intros acc Wa F; cbn [fold_left]; [exact Wa|].
  inversion F; subst. apply IH; [|assumption]. now apply v_add_spec.
Qed.

Definition wf_in (i : cc_in) : Prop := Forall wfv (cc_inputs i) /\ Forall wfv (cc_outputs i) /\ wfm (cc_mint i).

Lemma requested_wfv i : wf_in i -> wfv (requested_of i).
Proof. intros (_ & Wo & _). apply fold_v_add_wfv; [apply wfm_nil | exact Wo]. Qed.
Lemma provided_wfv i : wf_in i -> wfv (provided_of i).
Proof.
  intros (Wi & _ & Wm). unfold provided_of.
  assert (W0 : wfv (fold_left v_add (cc_inputs i) (mkValue 0 []))) by (apply fold_v_add_wfv; [apply wfm_nil | exact Wi]).
  destruct (is_nil (cc_mint i)); cbn [massets]; [exact W0 | now apply m_add_wfm].
Qed.

Lemma m_filter_posq_all_pos m : all_pos (m_filter posq m).
Proof.
  unfold all_pos, m_filter. apply Forall_forall. intros pa H. apply filter_In in H as [H _].
  apply in_map_iff in H as (x & <- & _). cbn [snd]. apply Forall_forall. intros nq Hn.
  apply filter_In in Hn as [_ Hn]. unfold posq in Hn. lia.
Qed.

Lemma all_pos_nonneg m : all_pos m -> nonneg_m m.
Proof.
  unfold all_pos, nonneg_m, nonneg_a. intros H. eapply Forall_impl; [|exact H].
  intros pa Hp. eapply Forall_impl; [|exact Hp]. intros nq Hq. cbn in *. lia.
Qed.

Lemma Ok_inj {A} (a b : A) : Ok a = Ok b -> a = b.
Proof. intros H. now injection H. Qed.

Lemma change_of_spec i change : wf_in i -> change_of i = Ok change ->
  wfv change /\ all_pos (massets change)
  /\ coin change = coin (provided_of i) - coin (requested_of i) /\ 0 <= coin change
  /\ forall p n, content (massets change) p n
                 = content (massets (provided_of i)) p n - content (massets (requested_of i)) p n.
Proof.
  intros Wi H. unfold change_of in H.
  pose proof (requested_wfv i Wi) as Wr. pose proof (provided_wfv i Wi) as Wp.
  destruct (v_lt (requested_of i) (provided_of i)) eqn:Lt; cbn [negb] in H; [|discriminate].
  apply v_lt_spec in Lt as [[Lc Lm] _].
  destruct (v_sub_spec _ _ Wp Wr) as (C & M & Nm & W).
  set (ch := v_sub (provided_of i) (requested_of i)) in *.
  apply Ok_inj in H. subst change.
  destruct (is_nil (massets ch)) eqn:Nil.
  - split; [exact W|]. split; [|split; [exact C|split; [lia|exact M]]].
    destruct (massets ch) as [|x r]; [constructor | discriminate].
  - cbn [coin massets].
    split; [apply m_filter_wfm, W|]. split; [apply m_filter_posq_all_pos|]. split; [exact C|]. split; [lia|].
    intros p n. rewrite m_filter_content by exact W. rewrite M. unfold posq.
    specialize (Lm p n).
    destruct (0 <? content (massets (provided_of i)) p n - content (massets (requested_of i)) p n) eqn:E; [reflexivity|].
    destruct (dget (mget (massets ch) p) n); lia.
Qed.

(* ---------- the change outputs ---------- *)
Definition two32z : Z := 4294967296.

Lemma pack_nonempty c addr change arr : pack_tokens c addr change = Ok arr -> arr <> [].
Proof.
  unfold pack_tokens. destruct (fold_left _ _ _) as [[a o]|e]; [|discriminate].
  intros H. apply Ok_inj in H. subst. destruct a; discriminate.
Qed.

Theorem calc_change_outputs c i outs : 0 <= cpb c -> wf_in i -> calc_change c i = Ok outs ->
  Forall valid_amount outs
  /\ (cc_respect i = true ->
      Forall (fun v => (coin v < two32z \/ min_ada (cpb c) (out_size (plain (cc_addr i) v)) <= two32z) ->
                       min_ada (cpb c) (out_size (plain (cc_addr i) v)) <= coin v) outs)
  /\ Zsum (map coin outs) = coin (provided_of i) - coin (requested_of i)
  /\ (forall p n, msum (map massets outs) p n
                  = content (massets (provided_of i)) p n - content (massets (requested_of i)) p n).
Proof.
  intros Hc Wi H. unfold calc_change in H.
  destruct (change_of i) as [change|e] eqn:Ch; [|discriminate].
  destruct (change_of_spec i change Wi Ch) as (Wc & Pc & Cc & C0 & Mc).
  unfold split_change in H. set (addr := cc_addr i) in *.
  destruct (is_nil (massets change)) eqn:Nil.
  - (* only ADA *)
    assert (Em : massets change = []) by (destruct (massets change); [reflexivity | discriminate]).
    destruct (cc_respect i && (coin change <? min_lovelace c (plain addr change))) eqn:Chk; [discriminate|].
    apply Ok_inj in H. subst outs. split; [|split; [|split]].
    + constructor; [|constructor]. split; cbn; [lia | constructor].
    + intros R. constructor; [|constructor]. intros _. cbn [coin].
      rewrite R in Chk. cbn [andb] in Chk.
      apply own_min_ada_only; [exact Hc|].
      rewrite <- Em. rewrite value_eta. lia.
    + cbn [map coin]. change (Zsum [coin change]) with (coin change + 0). lia.
    + intros p n. unfold msum. cbn [map massets]. change (Zsum [content [] p n]) with (content [] p n + 0).
      rewrite <- Mc, Em. lia.
  - destruct (pack_tokens c addr change) as [arr|e] eqn:Pk; [|discriminate].
    rewrite split_loop_coins in H.
    destruct (split_coins_spec c addr (cc_respect i) Hc arr (coin change) [] outs (pack_nonempty _ _ _ _ Pk) H)
      as (new & E & Hm & Hs & Hp & Hr).
    cbn [app] in E. subst new.
    destruct (pack_partition c addr change arr Wc Pk) as [Part _].
    pose proof (pack_parts_pos c addr change arr Wc (all_pos_nonneg _ Pc) Pk) as Pos.
    rewrite <- Hm in Pos. rewrite Forall_map in Pos.
    split; [|split; [|split]].
    + rewrite Forall_forall in *. intros v Hv. split; [apply Hp, Hv | apply Pos, Hv].
    + intros R. specialize (Hr R). rewrite Forall_forall in *. intros v Hv [Hlt|Hle].
      * apply own_min_ada_v; [exact Hc | unfold two32z in Hlt; specialize (Hp v Hv); cbn beta in Hp; lia | now apply Hr].
      * destruct (Z.lt_ge_cases (coin v) two32z) as [Hlt|Hge]; [|lia].
        apply own_min_ada_v; [exact Hc | unfold two32z in Hlt; specialize (Hp v Hv); cbn beta in Hp; lia | now apply Hr].
    + lia.
    + intros p n. rewrite Hm, <- Mc. apply Part.
Qed.

(* ---------- sizes of the change values ---------- *)
Lemma vsize_eq v : vsize v = Z.of_N (Wd (coin v) + msz (massets v)).
Proof. unfold vsize. rewrite <- (value_eta v) at 1. now rewrite vsize_split. Qed.

(* no change output receives more ADA than the change holds *)
Lemma split_coins_le c addr r : 0 <= cpb c -> forall arr C acc outs, arr <> [] ->
  split_coins c addr r arr C acc = Ok outs ->
  exists new, outs = acc ++ new /\ Forall (fun v => 0 <= coin v <= C) new.
Proof.
  intros Hc. induction arr as [|ma rest IH]; intros C acc outs Hne H; [congruence|].
  cbn [split_coins] in H.
  destruct ((C <? 0) || (r && (C <? mn c addr ma))) eqn:Chk; [discriminate|].
  destruct rest as [|m2 rest'].
  - cbn [split_coins coin] in H. apply Ok_inj in H. subst outs.
    exists [mkValue C ma]. split; [reflexivity|]. constructor; [cbn; lia | constructor].
  - cbn [coin] in H.
    pose proof (min_lovelace_nonneg c (plain addr (mkValue 0 ma)) Hc) as Hmn. fold (mn c addr ma) in Hmn.
    (* the next iteration exists and did not refuse: the ADA left after this output is not negative *)
    assert (Nx : 0 <= C - mn c addr ma).
    { cbn [split_coins] in H. destruct (C - mn c addr ma <? 0) eqn:Chk2; [cbn [orb] in H; discriminate | lia]. }
    apply IH in H; [|discriminate].
    destruct H as (new & -> & Hp).
    exists (mkValue (mn c addr ma) ma :: new). split; [now rewrite <- app_assoc|].
    constructor; [cbn; lia|]. eapply Forall_impl; [|exact Hp]. cbn. intros v Hv. lia.
Qed.

(* C08_size: every change value fits max_val_size.  The packer sized each part with
   max(minimum ADA, ADA of the whole change); no output receives more than the latter. *)
Theorem calc_change_sizes c i change outs : 0 <= cpb c -> wf_in i -> change_of i = Ok change ->
  singles_fit c (cc_addr i) (coin change) (massets change) ->
  fit c (cc_addr i) (coin change) (mkValue (coin change) []) ->
  coin change < two64z -> calc_change c i = Ok outs ->
  Forall (fun v => vsize v <= max_val_size c) outs.
Proof.
  intros Hcp Wi Ch Hs Hb H64 H. unfold calc_change in H. rewrite Ch in H.
  destruct (change_of_spec i change Wi Ch) as (Wc & Pc & Cc & C0 & Mc).
  unfold split_change in H. set (addr := cc_addr i) in *.
  assert (Bound : forall ma, part_fits c addr (coin change) ma -> forall v, massets v = ma -> 0 <= coin v <= coin change ->
            vsize v <= max_val_size c).
  { intros ma [c0 F] v Ev Hv. unfold fit in F. rewrite too_big_eq in F. cbn [massets] in F.
    rewrite vsize_eq, Ev.
    pose proof (Wd_mono (coin v) (Z.max (reqd c addr (mkValue c0 ma)) (coin change)) ltac:(lia) ltac:(lia)). lia. }
  destruct (is_nil (massets change)) eqn:Nil.
  - destruct (cc_respect i && (coin change <? min_lovelace c (plain addr change))); [discriminate|].
    apply Ok_inj in H. subst outs. constructor; [|constructor].
    apply (Bound []); [now exists (coin change) | reflexivity | cbn [coin]; lia].
  - destruct (pack_tokens c addr change) as [arr|e] eqn:Pk; [|discriminate].
    rewrite split_loop_coins in H.
    destruct (split_coins_spec c addr (cc_respect i) Hcp arr (coin change) [] outs (pack_nonempty _ _ _ _ Pk) H)
      as (new & E & Hm & _). cbn [app] in E. subst new.
    destruct (split_coins_le c addr (cc_respect i) Hcp arr (coin change) [] outs (pack_nonempty _ _ _ _ Pk) H)
      as (new & E & Hle). cbn [app] in E. subst new.
    pose proof (pack_fits c addr change arr Wc Hs Hb Pk) as Pf.
    rewrite <- Hm in Pf. rewrite Forall_map in Pf.
    rewrite Forall_forall in *. intros v Hv. apply (Bound (massets v)); [apply Pf, Hv | reflexivity | apply Hle, Hv].
Qed.

(* ---------- refusal ---------- *)
Lemma Zsum_mn_nonneg c addr arr : 0 <= cpb c -> 0 <= Zsum (map (mn c addr) arr).
Proof.
  intros H. induction arr as [|ma arr IH]; [cbn; lia|].
  change (Zsum (map (mn c addr) (ma :: arr))) with (mn c addr ma + Zsum (map (mn c addr) arr)).
  pose proof (min_lovelace_nonneg c (plain addr (mkValue 0 ma)) H). unfold mn at 1. lia.
Qed.

(* respect_min_utxo: refused exactly when the ADA left is below the sum of the minimums *)
Lemma split_coins_respect c addr : 0 <= cpb c -> forall arr C acc, arr <> [] ->
  if C <? Zsum (map (mn c addr) arr) then split_coins c addr true arr C acc = Err EInsufficient
  else exists outs, split_coins c addr true arr C acc = Ok outs.
Proof.
  intros Hc. induction arr as [|ma rest IH]; intros C acc Hne; [congruence|].
  change (Zsum (map (mn c addr) (ma :: rest))) with (mn c addr ma + Zsum (map (mn c addr) rest)).
  pose proof (min_lovelace_nonneg c (plain addr (mkValue 0 ma)) Hc) as Hmn. fold (mn c addr ma) in Hmn.
  pose proof (Zsum_mn_nonneg c addr rest Hc) as Hr.
  cbn [split_coins andb].
  destruct rest as [|m2 rest'].
  - cbn [map] in *. change (Zsum []) with 0 in *.
    destruct (C <? mn c addr ma + 0) eqn:E.
    + assert (X : (C <? 0) || (C <? mn c addr ma) = true) by lia. now rewrite X.
    + assert (X : (C <? 0) || (C <? mn c addr ma) = false) by lia. rewrite X. cbn [split_coins]. eauto.
  - destruct ((C <? 0) || (C <? mn c addr ma)) eqn:Chk.
    + assert (X : (C <? mn c addr ma + Zsum (map (mn c addr) (m2 :: rest'))) = true) by lia. now rewrite X.
    + cbn [coin]. specialize (IH (C - mn c addr ma) (acc ++ [mkValue (mn c addr ma) ma]) ltac:(discriminate)).
      assert (X : (C <? mn c addr ma + Zsum (map (mn c addr) (m2 :: rest')))
                  = (C - mn c addr ma <? Zsum (map (mn c addr) (m2 :: rest')))) by lia.
      rewrite X. exact IH.
Qed.

(* merge mode (no minimum): refused exactly when the ADA left cannot fund the minimums of all outputs but the last *)
Lemma split_coins_merge c addr : 0 <= cpb c -> forall arr C acc, arr <> [] ->
  if C <? Zsum (map (mn c addr) (removelast arr)) then split_coins c addr false arr C acc = Err EInsufficient
  else exists outs, split_coins c addr false arr C acc = Ok outs.
Proof.
  intros Hc. induction arr as [|ma rest IH]; intros C acc Hne; [congruence|].
  pose proof (min_lovelace_nonneg c (plain addr (mkValue 0 ma)) Hc) as Hmn. fold (mn c addr ma) in Hmn.
  cbn [split_coins andb]. rewrite orb_false_r.
  destruct rest as [|m2 rest'].
  - cbn [removelast map]. change (Zsum []) with 0.
    destruct (C <? 0) eqn:E; [reflexivity|]. cbn [split_coins]. eauto.
  - change (removelast (ma :: m2 :: rest')) with (ma :: removelast (m2 :: rest')).
    change (Zsum (map (mn c addr) (ma :: removelast (m2 :: rest'))))
      with (mn c addr ma + Zsum (map (mn c addr) (removelast (m2 :: rest')))).
    pose proof (Zsum_mn_nonneg c addr (removelast (m2 :: rest')) Hc) as Hr.
    destruct (C <? 0) eqn:Chk.
    + assert (X : (C <? mn c addr ma + Zsum (map (mn c addr) (removelast (m2 :: rest')))) = true) by lia. now rewrite X.
    + cbn [coin]. specialize (IH (C - mn c addr ma) (acc ++ [mkValue (mn c addr ma) ma]) ltac:(discriminate)).
      assert (X : (C <? mn c addr ma + Zsum (map (mn c addr) (removelast (m2 :: rest'))))
                  = (C - mn c addr ma <? Zsum (map (mn c addr) (removelast (m2 :: rest'))))) by lia.
      rewrite X. exact IH.
Qed.

Theorem calc_change_refuses c i change : 0 <= cpb c -> change_of i = Ok change ->
  (is_nil (massets change) = true ->
     (calc_change c i = Err EInsufficient
      <-> cc_respect i = true /\ coin change < min_lovelace c (plain (cc_addr i) change)))
  /\ (forall arr, is_nil (massets change) = false -> pack_tokens c (cc_addr i) change = Ok arr ->
        (calc_change c i = Err EInsufficient
         <-> coin change < Zsum (map (mn c (cc_addr i)) (if cc_respect i then arr else removelast arr)))).
Proof.
  intros Hc Ch. unfold calc_change. rewrite Ch. unfold split_change. split.
  - intros Nil. rewrite Nil.
    destruct (cc_respect i); cbn [andb].
    + destruct (coin change <? min_lovelace c (plain (cc_addr i) change)) eqn:E; split; intros H; try discriminate; try lia; auto.
    + split; [discriminate | intros [X _]; discriminate].
  - intros arr Nil Pk. rewrite Nil, Pk, split_loop_coins.
    pose proof (pack_nonempty _ _ _ _ Pk) as Hne.
    destruct (cc_respect i).
    + pose proof (split_coins_respect c (cc_addr i) Hc arr (coin change) [] Hne) as S.
      destruct (coin change <? Zsum (map (mn c (cc_addr i)) arr)) eqn:E.
      * split; [lia | intros _; exact S].
      * destruct S as [outs S]. rewrite S. split; [discriminate | lia].
    + pose proof (split_coins_merge c (cc_addr i) Hc arr (coin change) [] Hne) as S.
      destruct (coin change <? Zsum (map (mn c (cc_addr i)) (removelast arr))) eqn:E.
      * split; [lia | intros _; exact S].
      * destruct S as [outs S]. rewrite S. split; [discriminate | lia].
Qed.

(* ---------- _add_change_and_fee ---------- *)
Lemma own_min_ada_exact c addr v : 0 <= cpb c -> min_lovelace c (plain addr v) <= coin v ->
  min_ada (cpb c) (out_size (plain addr v)) <= coin v.
Proof.
  intros Hc H. rewrite min_lovelace_plain in H.
  unfold min_ada. rewrite out_size_plain. rewrite <- (value_eta v) at 1. rewrite vsize_split.
  destruct (coin v =? 0) eqn:E; [|nia].
  assert (Z0 : coin v = 0) by lia. rewrite Z0 in *. nia.
Qed.

Lemma calc_change_wfv c i outs : wf_in i -> calc_change c i = Ok outs -> Forall wfv outs.
Proof.
  intros Wi H. unfold calc_change in H.
  destruct (change_of i) as [change|e] eqn:Ch; [|discriminate].
  destruct (change_of_spec i change Wi Ch) as (Wc & _).
  unfold split_change in H.
  destruct (is_nil (massets change)).
  - destruct (cc_respect i && _); [discriminate|]. apply Ok_inj in H. subst. constructor; [apply wfm_nil | constructor].
  - destruct (pack_tokens c (cc_addr i) change) as [arr|e] eqn:Pk; [|discriminate].
    destruct (pack_partition c _ change arr Wc Pk) as [_ Wf].
    rewrite split_loop_coins in H.
    assert (G : forall arr C acc outs, Forall wfm arr -> Forall wfv acc ->
                split_coins c (cc_addr i) (cc_respect i) arr C acc = Ok outs -> Forall wfv outs).
    { clear. induction arr as [|ma rest IH]; intros C acc outs Wa Wacc H; cbn [split_coins] in H.
      - apply Ok_inj in H. now subst.
      - destruct (_ || _); [discriminate|]. inversion Wa; subst.
        apply IH in H; [exact H | assumption |].
        apply Forall_app. split; [exact Wacc|]. constructor; [|constructor].
        destruct rest; assumption. }
    apply (G arr (coin change) [] outs Wf); [constructor | exact H].
Qed.

Lemma all_pos_content_nonneg m p n : all_pos m -> 0 <= content m p n.
Proof.
  intros H. unfold content, mget, aget.
  destruct (dget m p) as [a|] eqn:E1; [|cbn; lia].
  destruct (dget a n) as [q|] eqn:E2; [|lia].
  apply dget_In in E1. apply dget_In in E2. unfold all_pos in H. rewrite Forall_forall in H.
  specialize (H _ E1). cbn in H. rewrite Forall_forall in H. specialize (H _ E2). cbn in H. lia.
Qed.

Lemma v_add_valid a b : wfv a -> wfv b -> valid_amount a -> valid_amount b -> valid_amount (v_add a b).
Proof.
  intros Wa Wb [Ca Pa] [Cb Pb]. destruct (v_add_spec a b Wa Wb) as (C & M & Nm & W).
  split; [lia|]. apply all_pos_of_content; [exact W|]. split; [exact Nm|].
  intros p n. rewrite M. pose proof (all_pos_content_nonneg _ p n Pa). pose proof (all_pos_content_nonneg _ p n Pb). lia.
Qed.

Definition wf_out (o : txout) : Prop := wfv (o_val o) /\ valid_amount (o_val o).

Lemma merge_at_valid ch : wfv ch -> valid_amount ch -> forall outs k, Forall wf_out outs ->
  Forall (fun o => valid_amount (o_val o)) (merge_at k ch outs).
Proof.
  intros Wc Vc. induction outs as [|o r IH]; intros k F; [destruct k; constructor|].
  inversion F as [|? ? [Wo Vo] Fr]; subst. destruct k as [|k']; cbn [merge_at].
  - constructor; [cbn [o_val]; now apply v_add_valid|].
    eapply Forall_impl; [|exact Fr]. now intros x [_ V].
  - constructor; [exact Vo | now apply IH].
Qed.

Theorem add_change_pass_outputs c a fee outs : 0 <= cpb c ->
  Forall wf_out (ac_outputs a) -> Forall wfv (ac_inputs a) -> wfm (ac_mint a) ->
  add_change_pass c a fee = Ok outs ->
  Forall (fun o => valid_amount (o_val o)) outs
  /\ ((exists k ch, outs = merge_at k ch (ac_outputs a))
      \/ exists changes, outs = ac_outputs a ++ map (plain (ac_addr a)) changes
           /\ Forall (fun v => (ac_merge a = true \/ coin v < two32z
                                \/ min_ada (cpb c) (out_size (plain (ac_addr a) v)) <= two32z) ->
                               min_ada (cpb c) (out_size (plain (ac_addr a) v)) <= coin v) changes).
Proof.
  intros Hc Wo Wi Wm H. unfold add_change_pass in H.
  destruct (calc_change c (ac_cc a fee)) as [changes|e] eqn:Cc; [|discriminate].
  assert (Win : wf_in (ac_cc a fee)).
  { repeat split; cbn [cc_inputs cc_outputs cc_mint ac_cc]; try assumption; try apply Wm.
    rewrite Forall_map. eapply Forall_impl; [|exact Wo]. now intros o [W _]. }
  destruct (calc_change_outputs c _ changes Hc Win Cc) as (Val & Fund & _).
  pose proof (calc_change_wfv c _ changes Win Cc) as Wch.
  cbn [cc_respect cc_addr ac_cc] in Fund.
  assert (App : forall (chk : merge_changes c (ac_merge a) None (ac_addr a) (ac_outputs a) changes = Ok outs),
            Forall (fun o => valid_amount (o_val o)) outs
            /\ exists changes0, outs = ac_outputs a ++ map (plain (ac_addr a)) changes0
                 /\ Forall (fun v => (ac_merge a = true \/ coin v < two32z
                                      \/ min_ada (cpb c) (out_size (plain (ac_addr a) v)) <= two32z) ->
                                     min_ada (cpb c) (out_size (plain (ac_addr a) v)) <= coin v) changes0).
  { intros chk. cbn [merge_changes] in chk.
    destruct (ac_merge a && existsb (fun ch => coin ch <? min_lovelace c (plain (ac_addr a) ch)) changes) eqn:Ex; [discriminate|].
    apply Ok_inj in chk. subst outs. split.
    - apply Forall_app. split; [eapply Forall_impl; [|exact Wo]; now intros x [_ V]|].
      rewrite Forall_map. exact Val.
    - exists changes. split; [reflexivity|].
      destruct (ac_merge a) eqn:Mg; cbn [andb negb] in *.
      + rewrite Forall_forall. intros v Hv _. apply own_min_ada_exact; [exact Hc|].
        destruct (coin v <? min_lovelace c (plain (ac_addr a) v)) eqn:E; [|lia].
        exfalso. assert (X : existsb (fun ch => coin ch <? min_lovelace c (plain (ac_addr a) ch)) changes = true)
          by (apply existsb_exists; exists v; auto). congruence.
      + specialize (Fund eq_refl). eapply Forall_impl; [|exact Fund].
        intros v Hv [X|X]; [discriminate | now apply Hv]. }
  destruct (if ac_merge a then change_index (ac_addr a) (ac_outputs a) else None) as [k|].
  - destruct changes as [|ch [|ch2 r]].
    + destruct (App H) as [V E]. split; [exact V | right; exact E].
    + cbn [merge_changes] in H. apply Ok_inj in H. subst outs. split.
      * inversion Val; subst. inversion Wch; subst. now apply merge_at_valid.
      * left. eauto.
    + destruct (App H) as [V E]. split; [exact V | right; exact E].
  - destruct (App H) as [V E]. split; [exact V | right; exact E].
Qed.

(* ================================================================== E. serialization, the utility *)
Definition negative_anywhere (v : value) : Prop :=
  coin v < 0 \/ exists p a n q, In (p, a) (massets v) /\ In (n, q) a /\ q < 0.

Lemma Zsum_pos_exists l : Forall (fun x => 0 <= x) l -> (0 < Zsum l <-> exists x, In x l /\ 0 < x).
Proof.
  induction 1 as [|x l Hx Hl IH].
  - cbn. split; [lia | intros (x & [] & _)].
  - change (Zsum (x :: l)) with (x + Zsum l). split.
    + intros H. destruct (Z.lt_ge_cases 0 x) as [P|P]; [exists x; split; [now left | exact P]|].
      destruct IH as [IH _]. destruct (IH ltac:(lia)) as (y & Hy & Py). exists y. split; [now right | exact Py].
    + intros (y & [<-|Hy] & Py).
      * assert (0 <= Zsum l) by (clear -Hl; induction Hl; [cbn; lia | change (Zsum (x :: l)) with (x + Zsum l); lia]). lia.
      * destruct IH as [_ IH]. specialize (IH (ex_intro _ y (conj Hy Py))). lia.
Qed.

Lemma m_count_pos c m : 0 < m_count c m <-> exists p a n q, In (p, a) m /\ In (n, q) a /\ c p n q = true.
Proof.
  unfold m_count. rewrite Zsum_pos_exists.
  - split.
    + intros (x & Hx & Px). apply in_map_iff in Hx as ([p a] & <- & Hpa). cbn [fst snd] in Px.
      destruct (filter (fun nq => c p (fst nq) (snd nq)) a) as [|[n q] r] eqn:F; [cbn in Px; lia|].
      assert (I : In (n, q) (filter (fun nq => c p (fst nq) (snd nq)) a)) by (rewrite F; now left).
      apply filter_In in I as [I1 I2]. exists p, a, n, q. auto.
    + intros (p & a & n & q & Hpa & Hnq & Hc).
      exists (Z.of_nat (length (filter (fun nq => c p (fst nq) (snd nq)) a))). split.
      * apply in_map_iff. exists (p, a). split; [reflexivity | exact Hpa].
      * assert (I : In (n, q) (filter (fun nq => c p (fst nq) (snd nq)) a)) by (apply filter_In; auto).
        destruct (filter (fun nq => c p (fst nq) (snd nq)) a); [destruct I | cbn [length]; lia].
  - apply Forall_forall. intros x Hx. apply in_map_iff in Hx as (y & <- & _). lia.
Qed.

(* TransactionOutput.validate refuses exactly the amounts with a negative component *)
Theorem out_invalid_iff v : out_invalid v = true <-> negative_anywhere v.
Proof.
  unfold out_invalid, negative_anywhere. rewrite orb_true_iff, Z.ltb_lt, Z.ltb_lt, m_count_pos.
  unfold negq. split; intros [H|H]; auto; right.
  - destruct H as (p & a & n & q & H1 & H2 & H3). exists p, a, n, q. repeat split; auto. lia.
  - destruct H as (p & a & n & q & H1 & H2 & H3). exists p, a, n, q. repeat split; auto. lia.
Qed.

Theorem body_refuses b v : (In v (b_outputs b) \/ b_collateral_return b = Some v) -> negative_anywhere v ->
  body_validate b = Err EInvalidData.
Proof.
  intros Hin Hn. apply out_invalid_iff in Hn. unfold body_validate.
  destruct (existsb out_invalid (b_outputs b)) eqn:E; [reflexivity|].
  destruct Hin as [Hin|Hin].
  - assert (X : existsb out_invalid (b_outputs b) = true) by (apply existsb_exists; eauto). congruence.
  - rewrite Hin, Hn. reflexivity.
Qed.

Theorem body_accepts b : (forall v, In v (b_outputs b) \/ b_collateral_return b = Some v -> ~ negative_anywhere v) ->
  m_count out_of_i64 (b_mint b) = 0 -> body_validate b = Ok tt.
Proof.
  intros H Hm. unfold body_validate.
  destruct (existsb out_invalid (b_outputs b)) eqn:E.
  - apply existsb_exists in E as (v & Hv & Iv). apply out_invalid_iff in Iv. exfalso. apply (H v); auto.
  - destruct (b_collateral_return b) as [v|] eqn:Cr.
    + destruct (out_invalid v) eqn:Iv; [apply out_invalid_iff in Iv; exfalso; apply (H v); auto|].
      rewrite Hm. now rewrite andb_false_r.
    + rewrite Hm. now rewrite andb_false_r.
Qed.

(* the utility is the ledger formula applied to the map form of the output (1 ADA standing in for 0) *)
Theorem min_lovelace_formula c o :
  min_lovelace c o = min_ada (cpb c) (out_size (mkOut (o_addr o) (subst_coin (o_val o)) (o_datum o) (o_script o))).
Proof. unfold min_lovelace, min_ada. lia. Qed.

Corollary min_lovelace_formula_nonzero c o : coin (o_val o) <> 0 -> min_lovelace c o = min_ada (cpb c) (out_size o).
Proof.
  intros H. rewrite min_lovelace_formula. unfold subst_coin.
  destruct (coin (o_val o) =? 0) eqn:E; [lia|]. now destruct o.
Qed.

(* ================================================================== witnesses and non-vacuity *)
Definition x_addr_b : bytes := hx "001111111111111111111111111111111111111111111111111111111122222222222222222222222222222222222222222222222222222222".
Definition x_p1 : bytes := hx "01010101010101010101010101010101010101010101010101010101".
Definition x_p2 : bytes := hx "02020202020202020202020202020202020202020202020202020202".
Definition x_n0 : bytes := hx "0000787878787878787878787878787878787878787878787878787878787878".
Definition x_n1 : bytes := hx "0001787878787878787878787878787878787878787878787878787878787878".
Definition x_n2 : bytes := hx "0002787878787878787878787878787878787878787878787878787878787878".

(* former finding last-change-plus-4-bytes (fixed by c8b4af1): max_val_size 143; the bundle would fit with the 5-byte
   minimum ADA but the change holds 4 303 767 296 lovelace >= 2^32: the packer now sizes with that coin and splits *)
Definition w4_cfg : cfg := mkCfg 4310 143.
Definition w4_in : cc_in :=
  mkIn 200000 [mkValue 4304967296 [(x_p1, [(x_n0, 1); (x_n1, 1); (x_n2, 1)])]] [mkValue 1000000 []] [] [] 0 x_addr_b true.
Example size_plus4_fixed :
  exists v1 v2, calc_change w4_cfg w4_in = Ok [v1; v2] /\ vsize v1 = 108 /\ vsize v2 = 77 /\ two32z <= coin v2.
Proof. eexists. eexists. split; [vm_compute; reflexivity|]. vm_compute. intuition discriminate. Qed.

(* former region small-cpb-coin-width (same fix): coins_per_utxo_byte = 1, max_val_size 106 *)
Definition wsm_cfg : cfg := mkCfg 1 106.
Definition wsm_in : cc_in := mkIn 200000 [mkValue 1400000 [(x_p1, [(x_n0, 1); (x_n1, 1)])]] [] [] [] 0 x_addr_b true.
Example size_small_cpb_fixed :
  exists outs, calc_change wsm_cfg wsm_in = Ok outs /\ forallb (fun v => vsize v <=? max_val_size wsm_cfg) outs = true.
Proof. eexists. split; [vm_compute; reflexivity|]. vm_compute. reflexivity. Qed.

(* the premise "every single asset fits" of the size theorem is needed — OUTSIDE the property's range: with
   max_val_size = 60 (< 85) an asset with a 32-byte name does not fit on its own; the packer then returns an empty
   part and a part of 73 bytes (it only refuses when the LAST asset of a policy is the oversized one) *)
Definition wo_cfg : cfg := mkCfg 4310 60.
Definition wo_in : cc_in := mkIn 200000 [mkValue 9000000 [(x_p1, [(x_n0, 1); (hx "", 1)])]] [] [] [] 0 x_addr_b true.
Lemma size_oversized_single_out_of_range :
  exists outs v, max_val_size wo_cfg < 85 /\ calc_change wo_cfg wo_in = Ok outs /\ In v outs
                 /\ max_val_size wo_cfg < vsize v.
Proof.
  eexists. eexists. split; [cbn; lia|]. split; [vm_compute; reflexivity|]. split; [right; left; reflexivity|].
  vm_compute. reflexivity.
Qed.

(* a scenario satisfying every hypothesis used above, with a change that needs two outputs *)
Definition ex_cfg : cfg := mkCfg 4310 110.
Definition ex_in : cc_in :=
  mkIn 170000 [mkValue 9000000 [(x_p1, [(x_n0, 5); (x_n1, 1)]); (x_p2, [(hx "", 3)])]]
       [mkValue 1000000 [(x_p1, [(x_n0, 2)])]] [] [] 0 x_addr_b true.
Definition ex_change : value := mkValue 7830000 [(x_p1, [(x_n0, 3); (x_n1, 1)]); (x_p2, [(hx "", 3)])].

Example ex_hypotheses :
  0 <= cpb ex_cfg /\ coin ex_change < two64z /\ wf_in ex_in /\ change_of ex_in = Ok ex_change
  /\ singles_fit ex_cfg x_addr_b (coin ex_change) (massets ex_change)
  /\ fit ex_cfg x_addr_b (coin ex_change) (mkValue (coin ex_change) [])
  /\ exists v1 v2, calc_change ex_cfg ex_in = Ok [v1; v2] /\ massets v1 <> [] /\ massets v2 <> [].
Proof.
  split; [cbn; lia|]. split; [reflexivity|]. split.
  { unfold wf_in, wfv, wfm, wfd. cbn. repeat split; repeat constructor; cbn; intuition discriminate. }
  split; [vm_compute; reflexivity|]. split.
  { unfold singles_fit, fit. cbn [massets ex_change fst snd]. repeat constructor. }
  split; [vm_compute; reflexivity|].
  eexists. eexists. split; [vm_compute; reflexivity|]. split; discriminate.
Qed.

(* the same scenario with too little ADA is refused *)
Definition ex_in_poor : cc_in :=
  mkIn 170000 [mkValue 3500000 [(x_p1, [(x_n0, 5); (x_n1, 1)]); (x_p2, [(hx "", 3)])]]
       [mkValue 1000000 [(x_p1, [(x_n0, 2)])]] [] [] 0 x_addr_b true.
Example ex_refusal :
  exists change arr, change_of ex_in_poor = Ok change /\ is_nil (massets change) = false
    /\ pack_tokens ex_cfg x_addr_b change = Ok arr
    /\ coin change < Zsum (map (mn ex_cfg x_addr_b) arr) /\ calc_change ex_cfg ex_in_poor = Err EInsufficient.
Proof.
  eexists. eexists. split; [vm_compute; reflexivity|]. split; [reflexivity|]. split; [vm_compute; reflexivity|].
  split; vm_compute; reflexivity.
Qed.

(* a negative quantity nested in a body *)
Example ex_ser : exists b v, In v (b_outputs b) /\ negative_anywhere v /\ body_validate b = Err EInvalidData.
Proof.
  exists (mkBody [mkValue 1000000 []; mkValue 5 [(x_p1, [(x_n0, -1)])]] None []), (mkValue 5 [(x_p1, [(x_n0, -1)])]).
  split; [right; left; reflexivity|]. split; [|reflexivity].
  right. exists x_p1, [(x_n0, -1)], x_n0, (-1). repeat split; try (left; reflexivity); try lia.
Qed.

(* both passes of _add_change_and_fee: what is returned is the result of the second pass *)
Theorem add_change_outputs c a outs : 0 <= cpb c ->
  Forall wf_out (ac_outputs a) -> Forall wfv (ac_inputs a) -> wfm (ac_mint a) ->
  add_change c a = Ok outs ->
  Forall (fun o => valid_amount (o_val o)) outs
  /\ ((exists k ch, outs = merge_at k ch (ac_outputs a))
      \/ exists changes, outs = ac_outputs a ++ map (plain (ac_addr a)) changes
           /\ Forall (fun v => (ac_merge a = true \/ coin v < two32z
                                \/ min_ada (cpb c) (out_size (plain (ac_addr a) v)) <= two32z) ->
                               min_ada (cpb c) (out_size (plain (ac_addr a) v)) <= coin v) changes).
Proof.
  intros Hc Wo Wi Wm H. unfold add_change in H.
  destruct (add_change_pass c a (ac_fee1 a)); [|discriminate].
  now apply (add_change_pass_outputs c a (ac_fee2 a)).
Qed.

Theorem min_lovelace_is_formula c o :
  min_lovelace c o = min_ada (cpb c) (out_size (mkOut (o_addr o) (subst_coin (o_val o)) (o_datum o) (o_script o)))
  /\ (coin (o_val o) <> 0 -> min_lovelace c o = min_ada (cpb c) (out_size o)).
Proof. split; [apply min_lovelace_formula | apply min_lovelace_formula_nonzero]. Qed.

(* merge mode with an output at the change address: the change is merged into it *)
Definition ex_ac : ac_in :=
  mkAc 170000 175000 [mkValue 9000000 [(x_p1, [(x_n0, 5)])]] [mkOut x_addr_b (mkValue 1000000 []) None None] [] [] 0 x_addr_b true.
Example ex_add_change :
  Forall wf_out (ac_outputs ex_ac) /\ Forall wfv (ac_inputs ex_ac) /\ wfm (ac_mint ex_ac)
  /\ add_change ex_cfg ex_ac = Ok [mkOut x_addr_b (mkValue 8825000 [(x_p1, [(x_n0, 5)])]) None None].
Proof.
  split; [|split; [|split]].
  - constructor; [|constructor]. split; [apply wfm_nil | split; cbn; [lia | constructor]].
  - constructor; [|constructor]. unfold wfv, wfm, wfd. cbn. repeat split; repeat constructor; cbn; intuition discriminate.
  - apply wfm_nil.
  - vm_compute. reflexivity.
Qed.

(* ================================================================== protocol parameter variants *)
(* what everything but the amount contributes to the map form of an output *)
Definition Kout (o : txout) : N :=
  (3 + lenN (enc (CB (o_addr o)))
   + match o_datum o with
     | None => 0
     | Some (DHash h) => 1 + lenN (enc (CA [CU 0; CB h]))
     | Some (DInline d) => 1 + lenN (enc (CA [CU 1; CTag 24 (CB d)]))
     end
   + match o_script o with None => 0 | Some s => 1 + lenN (enc (CTag 24 (CB s))) end)%N.

Lemma out_size_split o : out_size o = (Kout o + lenN (value_cbor (o_val o)))%N.
Proof.
  destruct o as [a v d s]. unfold out_size, out_cbor_map, out_prim_map, Kout, value_cbor.
  cbn [o_addr o_val o_datum o_script].
  destruct d as [[h|dd]|]; destruct s as [sb|]; cbn [app];
    change (enc (CM ?l)) with (head 5 (lenN l) ++ concat (map (fun kv => enc (fst kv) ++ enc (snd kv)) l));
    cbn [map concat fst snd]; rewrite !lenN_app, !head_length; cbn [lenN];
    repeat match goal with |- context [enc (CU ?n)] => change (enc (CU n)) with (head 0 n) end;
    rewrite ?head_length.
  all: repeat match goal with |- context [width ?n] => let w := eval vm_compute in (width n) in change (width n) with w end; lia.
Qed.

(* the answer of the utility for an output without ADA, put into that output, satisfies the ledger rule (as long as
   the answer needs at most 5 bytes, like the 1 ADA that stood in for it) *)
Theorem min_lovelace_sufficient c o : 0 <= cpb c -> coin (o_val o) = 0 -> min_lovelace c o < 4294967296 ->
  ledger_accepts (cpb c) (with_coin o (min_lovelace c o)) = true.
Proof.
  intros Hc H0 Hr. unfold ledger_accepts. apply Z.leb_le.
  pose proof (min_lovelace_nonneg c o Hc) as Hn.
  assert (E : min_lovelace c o = (160 + Z.of_N (Kout o + Wd 1000000 + msz (massets (o_val o)))) * cpb c).
  { unfold min_lovelace. rewrite out_size_split. unfold Kout. cbn [o_addr o_val o_datum o_script].
    unfold subst_coin. rewrite H0. change (0 =? 0) with true. cbv iota. rewrite vsize_split. f_equal. lia. }
  set (r := min_lovelace c o) in *.
  unfold min_ada. rewrite out_size_split. unfold with_coin at 2. cbn [o_val coin].
  rewrite vsize_split.
  assert (K : Kout (with_coin o r) = Kout o) by reflexivity. rewrite K.
  pose proof (Wd_small r (conj Hn Hr)). rewrite Wd_1e6 in E.
  change (coin (o_val (with_coin o r))) with r. clearbody r.
  etransitivity; [|apply Z.eq_le_incl; symmetry; exact E].
  rewrite (Z.mul_comm (cpb c)). apply Z.mul_le_mono_nonneg_r; lia.
Qed.

Example min_lovelace_sufficient_nonvacuous :
  exists c o, 0 <= cpb c /\ coin (o_val o) = 0 /\ massets (o_val o) <> [] /\ min_lovelace c o < 4294967296.
Proof.
  exists (mkCfg 4310 5000), (plain x_addr_b (mkValue 0 [(x_p1, [(x_n0, 1)])])).
  split; [cbn; lia|]. split; [reflexivity|]. split; [discriminate|]. vm_compute. reflexivity.
Qed.

(* the 5-byte premise is needed: with a per-byte price for which the answer needs 9 bytes the output built from the
   answer is 4 bytes longer than the one that was sized (outside every realistic parameter set) *)
Lemma min_lovelace_sufficient_needs_premise :
  exists c o, 0 <= cpb c /\ coin (o_val o) = 0 /\ 4294967296 <= min_lovelace c o
              /\ ledger_accepts (cpb c) (with_coin o (min_lovelace c o)) = false.
Proof.
  exists (mkCfg 20000000 5000), (plain x_addr_b (mkValue 0 [])).
  split; [cbn; lia|]. split; [reflexivity|]. split; vm_compute; [discriminate | reflexivity].
Qed.

(* legacy protocol parameters do not enter: two parameter records that agree on coins_per_utxo_byte give the same
   minimum ADA, and records that agree on coins_per_utxo_byte and max_val_size the same change outputs / refusals *)
Theorem min_lovelace_params p q o : pp_cpb p = pp_cpb q -> min_lovelace_pp p o = min_lovelace_pp q o.
Proof. intros H. unfold min_lovelace_pp, min_lovelace, cfg_of. cbn [cpb]. now rewrite H. Qed.

Theorem change_params p q : pp_cpb p = pp_cpb q -> pp_mvs p = pp_mvs q ->
  cfg_of p = cfg_of q
  /\ (forall i, calc_change (cfg_of p) i = calc_change (cfg_of q) i)
  /\ (forall a, add_change (cfg_of p) a = add_change (cfg_of q) a)
  /\ (forall addr ch, pack_tokens (cfg_of p) addr ch = pack_tokens (cfg_of q) addr ch).
Proof. intros H1 H2. assert (E : cfg_of p = cfg_of q) by (unfold cfg_of; now rewrite H1, H2). rewrite E. repeat split. Qed.

Example params_nonvacuous :
  exists p q, pp_cpb p = pp_cpb q /\ pp_mvs p = pp_mvs q /\ pp_min_utxo p <> pp_min_utxo q /\ pp_cpw p <> pp_cpw q.
Proof. exists (mkPP 4310 5000 (Some 1000000) (Some 34482)), (mkPP 4310 5000 (Some 4310) None). repeat split; discriminate. Qed.
