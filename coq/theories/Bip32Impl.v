(* Bip32Impl.v — byte-level MODEL of what pycardano/crypto/bip32.py (HDWallet, BIP32ED25519PrivateKey)
   and pycardano/key.py (ExtendedSigningKey.from_hdwallet / sign / to_verification_key) actually do.
   Line references are to /repo/pycardano/crypto/bip32.py.  No proofs in this file.

   Python constructs and their model:
     int.from_bytes(b, "little")         unle b
     n.to_bytes(k, "little")             to_bytes_le k n   (None = OverflowError)
     b[:k] / b[k:]                       firstn k b / skipn k b
     bytearray item update               upd            (None = IndexError)
     str                                 list ascii (printable ASCII; the model's domain for path strings)
     exceptions                          result / err   (the KIND matters and is compared with the code)
     nacl.bindings.*                     fields of [prims] (Bip32Spec.v), wrapped with PyNaCl's argument checks *)
From Coq Require Import NArith ZArith Ascii String List Bool Lia.
From Coq Require Import Init.Byte.
From PyC Require Import Base Bip32Spec.
Import ListNotations.
Open Scope N_scope.

Inductive err : Type :=
| EValue            (* ValueError *)
| EAssert           (* AssertionError *)
| EOverflow         (* OverflowError: int too big to convert *)
| ERuntime          (* nacl.exceptions.RuntimeError: libsodium returned -1 *)
| EType             (* nacl.exceptions.TypeError / TypeError: wrong argument length *)
| EIndex            (* IndexError *)
| EInvalidKeyType.  (* pycardano InvalidKeyTypeException *)

Inductive result (A : Type) : Type := Ok (a : A) | Err (e : err).
Arguments Ok {A}. Arguments Err {A}.
Definition bind {A B} (r : result A) (f : A -> result B) : result B :=
  match r with Ok a => f a | Err e => Err e end.

Definition str := list ascii.

(* HDWallet: the fields that carry keys (seed/mnemonic/passphrase/entropy are only copied along) *)
Record wallet : Type := {
  w_root_xprv : bytes; w_root_pub : bytes; w_root_cc : bytes;
  w_xprv : option bytes;                 (* None after a public derivation *)
  w_pub : bytes; w_cc : bytes;
  w_path : str }.

(* ---------- Python helpers ---------- *)
Definition to_bytes_le (k : nat) (n : N) : option bytes :=
  if n <? 256 ^ N.of_nat k then Some (le k n) else None.

Definition upd (i : nat) (f : byte -> byte) (l : bytes) : option bytes :=
  match nth_error l i with
  | None => None
  | Some x => Some (firstn i l ++ f x :: skipn (S i) l)
  end.
Definition band (m : N) (x : byte) : byte := n2b (N.land (b2n x) m).
Definition bor (m : N) (x : byte) : byte := n2b (N.lor (b2n x) m).

Definition is_empty (b : bytes) : bool := match b with [] => true | _ => false end.

(* str(n) for n >= 0 *)
Definition digit_char (d : N) : ascii := ascii_of_N (48 + d).
Fixpoint render_dec_fuel (f : nat) (n : N) (acc : str) : str :=
  match f with
  | O => acc
  | S f' => let acc' := digit_char (n mod 10) :: acc in
            if n <? 10 then acc' else render_dec_fuel f' (n / 10) acc'
  end.
Definition render_dec (n : N) : str := render_dec_fuel (S (N.to_nat (N.log2 n))) n [].
Definition py_str_int (z : Z) : str :=
  match z with Zneg p => "-"%char :: render_dec (Npos p) | _ => render_dec (Z.to_N z) end.

(* int(s) for printable-ASCII s: surrounding blanks stripped, optional sign, decimal digits with
   single underscores between digits; anything else is a ValueError (None) *)
Definition is_digit (c : ascii) : bool := let n := N_of_ascii c in (48 <=? n) && (n <=? 57).
Definition digit_val (c : ascii) : N := N_of_ascii c - 48.
Definition is_space (c : ascii) : bool := N_of_ascii c =? 32.
Fixpoint lstrip_sp (s : str) : str :=
  match s with c :: r => if is_space c then lstrip_sp r else s | [] => [] end.
Definition strip_sp (s : str) : str := rev (lstrip_sp (rev (lstrip_sp s))).
Fixpoint digits_us (s : str) (acc : N) (prev_digit : bool) : option N :=
  match s with
  | [] => if prev_digit then Some acc else None
  | c :: r => if is_digit c then digits_us r (10 * acc + digit_val c) true
              else if (N_of_ascii c =? 95) && prev_digit then digits_us r acc false
              else None
  end.
Definition py_int (s : str) : option Z :=
  match strip_sp s with
  | c :: r =>
      if Ascii.eqb c "-"%char then option_map (fun n => (- Z.of_N n)%Z) (digits_us r 0 false)
      else if Ascii.eqb c "+"%char then option_map Z.of_N (digits_us r 0 false)
      else option_map Z.of_N (digits_us (c :: r) 0 false)
  | [] => None
  end.

(* s.split("/") *)
Definition slash : ascii := "/"%char.
Fixpoint split_slash (s : str) (cur : str) : list str :=
  match s with
  | [] => [rev cur]
  | c :: r => if Ascii.eqb c slash then rev cur :: split_slash r [] else split_slash r (c :: cur)
  end.
(* path.lstrip("m/"): drops every leading character that is 'm' or '/' *)
Fixpoint lstrip_m_slash (s : str) : str :=
  match s with
  | c :: r => if Ascii.eqb c "m"%char || Ascii.eqb c slash then lstrip_m_slash r else s
  | [] => []
  end.
Definition ends_with_quote (s : str) : bool :=
  match rev s with c :: _ => Ascii.eqb c "'"%char | [] => false end.
Definition drop_last (s : str) : str := removelast s.

Section Impl.
Variable P : prims.

(* ---------- PyNaCl wrappers ---------- *)
(* bindings.crypto_scalarmult_ed25519_base_noclamp(n): argument must be 32 bytes (TypeError);
   libsodium clears bit 255, multiplies the base point, and returns -1 (RuntimeError) when the
   result is the identity or the scalar bytes are all zero. *)
Definition noclamp (n : bytes) : result bytes :=
  if negb (length n =? 32)%nat then Err EType else
  let q := enc_pt P (smulB P (unle n mod 2^255)) in
  if bytes_eqb q (enc_pt P (gzero P)) || (unle n =? 0) then Err ERuntime else Ok q.

(* bindings.crypto_core_ed25519_add(p, q): both 32 bytes (TypeError), valid points (RuntimeError) *)
Definition ed_add (p q : bytes) : result bytes :=
  if negb ((length p =? 32)%nat && (length q =? 32)%nat) then Err EType else
  match pt_add P p q with Some r => Ok r | None => Err ERuntime end.

(* ---------- HDWallet.from_seed / from_entropy / from_mnemonic   (lines 112-235) ---------- *)
(* _tweak_bits: seed[0] &= 0b11111000; seed[31] &= 0b00011111; seed[31] |= 0b01000000 *)
Definition tweak_bits (seed : bytes) : result bytes :=
  match upd 0 (band 248) seed with None => Err EIndex | Some s1 =>
  match upd 31 (band 31) s1 with None => Err EIndex | Some s2 =>
  match upd 31 (bor 64) s2 with None => Err EIndex | Some s3 => Ok s3 end end end.

Definition m_path : str := ["m"%char].

Definition from_seed (seed : bytes) : result wallet :=
  bind (tweak_bits seed) (fun sm =>
  let kL := firstn 32 sm in
  let c := skipn 64 sm in
  bind (noclamp kL) (fun A =>
  Ok {| w_root_xprv := firstn 64 sm; w_root_pub := A; w_root_cc := c;
        w_xprv := Some (firstn 64 sm); w_pub := A; w_cc := c; w_path := m_path |})).

(* _generate_seed(passphrase, entropy) with passphrase already UTF-8 encoded *)
Definition generate_seed (passphrase entropy : bytes) : bytes := pbkdf2 P passphrase entropy.

Definition is_entropy_len (entropy : bytes) : bool :=
  let n := length entropy in
  ((n =? 16) || (n =? 20) || (n =? 24) || (n =? 28) || (n =? 32))%nat.

Definition from_entropy (entropy passphrase : bytes) : result wallet :=
  if negb (is_entropy_len entropy) then Err EValue
  else from_seed (generate_seed passphrase entropy).

(* from_mnemonic after the word list (oracle: the `mnemonic` package, English) has produced the entropy *)
Definition from_mnemonic_entropy (entropy passphrase : bytes) : result wallet :=
  from_seed (generate_seed passphrase entropy).

(* ---------- child derivation   (lines 293-500) ---------- *)
Definition in_index_range (index : Z) : bool := ((0 <=? index) && (index <? 2^32))%Z.

Definition child_path (path : str) (index : Z) : str := path ++ slash :: py_str_int index.

(* _derive_private_child_key_by_index *)
Definition derive_private (w : wallet) (xprv : bytes) (index : Z) : result wallet :=
  let kLP := firstn 32 xprv in
  let kRP := skipn 32 xprv in
  let AP := w_pub w in
  let cP := w_cc w in
  if negb (in_index_range index) then Err EAssert else
  let i := Z.to_N index in
  let i_bytes := le 4 i in
  let '(Z, c) :=
    if i <? 2^31 then
      (hmac512 P cP ([x02] ++ AP ++ i_bytes), skipn 32 (hmac512 P cP ([x03] ++ AP ++ i_bytes)))
    else
      (hmac512 P cP ([x00] ++ (kLP ++ kRP) ++ i_bytes), skipn 32 (hmac512 P cP ([x01] ++ (kLP ++ kRP) ++ i_bytes))) in
  let ZL := firstn 28 Z in
  let ZR := skipn 32 Z in
  let kLn := unle ZL * 8 + unle kLP in
  let kRn := (unle ZR + unle kRP) mod 2^256 in
  match to_bytes_le 32 kLn with None => Err EOverflow | Some kL =>
  match to_bytes_le 32 kRn with None => Err EOverflow | Some kR =>
  bind (noclamp kL) (fun A =>
  Ok {| w_root_xprv := w_root_xprv w; w_root_pub := w_root_pub w; w_root_cc := w_root_cc w;
        w_xprv := Some (kL ++ kR); w_pub := A; w_cc := c; w_path := child_path (w_path w) index |})
  end end.

(* _derive_public_child_key_by_index *)
Definition derive_public (w : wallet) (index : Z) : result wallet :=
  let AP := w_pub w in
  let cP := w_cc w in
  if negb (in_index_range index) then Err EAssert else
  let i := Z.to_N index in
  let i_bytes := le 4 i in
  if negb (i <? 2^31) then Err EValue else
  let Z := hmac512 P cP ([x02] ++ AP ++ i_bytes) in
  let c := skipn 32 (hmac512 P cP ([x03] ++ AP ++ i_bytes)) in
  let ZL := firstn 28 Z in
  let ZLint := unle ZL in
  match to_bytes_le 32 (8 * ZLint) with None => Err EOverflow | Some s =>
  bind (noclamp s) (fun Q =>
  bind (ed_add AP Q) (fun A =>
  Ok {| w_root_xprv := w_root_xprv w; w_root_pub := w_root_pub w; w_root_cc := w_root_cc w;
        w_xprv := None; w_pub := A; w_cc := c; w_path := child_path (w_path w) index |}))
  end.

(* derive(index, private, hardened) *)
Definition derive (w : wallet) (index : Z) (private hardened : bool) : result wallet :=
  if is_empty (w_root_xprv w) && is_empty (w_root_pub w) then Err EValue else
  let index := if hardened then (index + 2^31)%Z else index in
  if private then
    match w_xprv w with
    | None => Err EValue
    | Some xprv => derive_private w xprv index
    end
  else derive_public w index.

(* derive_from_path(path, private) *)
Definition derive_component (private : bool) (acc : result wallet) (comp : str) : result wallet :=
  bind acc (fun w =>
    if ends_with_quote comp then
      match py_int (drop_last comp) with
      | None => Err EValue
      | Some n => derive w n private true
      end
    else
      match py_int comp with
      | None => Err EValue
      | Some n => derive w n private false
      end).

Definition derive_from_path (w : wallet) (path : str) (private : bool) : result wallet :=
  match path with
  | "m"%char :: "/"%char :: _ =>
      fold_left (derive_component private) (split_slash (lstrip_m_slash path) []) (Ok w)
  | _ => Err EValue
  end.

(* ---------- BIP32ED25519PrivateKey(private_key, chain_code).sign(message)   (lines 36-56) ---------- *)
Definition bip32_sign (private_key : bytes) (message : bytes) : result bytes :=
  let left := firstn 32 private_key in
  let right := skipn 32 private_key in
  bind (noclamp left) (fun public_key =>
  let r := unle (sha512 P (right ++ message)) mod ell in
  bind (noclamp (le 32 r)) (fun R =>
  let h := unle (sha512 P (R ++ public_key ++ message)) mod ell in
  let S := (((h mod ell) * (unle left mod ell)) mod ell + r) mod ell in
  Ok (R ++ le 32 S))).

(* ---------- key.py: ExtendedSigningKey.from_hdwallet / sign / to_verification_key ---------- *)
Definition esk_from_hdwallet (w : wallet) : result bytes :=
  match w_xprv w with
  | None => Err EInvalidKeyType
  | Some x => Ok (x ++ w_pub w ++ w_cc w)
  end.
Definition esk_sign (payload message : bytes) : result bytes := bip32_sign (firstn 64 payload) message.
Definition esk_to_vk (payload : bytes) : bytes := skipn 64 payload.
Definition evk_to_non_extended (vk_payload : bytes) : bytes := firstn 32 vk_payload.

End Impl.

(* ---------- rendering of a derivation path (the inverse direction of derive_from_path) ---------- *)
Definition render_step (s : N * bool) : str :=
  render_dec (fst s) ++ (if snd s then ["'"%char] else []).
Fixpoint join_slash (l : list str) : str :=
  match l with
  | [] => []
  | [a] => a
  | a :: r => a ++ slash :: join_slash r
  end.
Definition render_path (steps : list (N * bool)) : str :=
  "m"%char :: slash :: join_slash (map render_step steps).
