(* Bip32Oracle.v — glue for the C16 correspondence run (evaluated by vm_compute inside coqc):
     * [tab_prims]: the external primitives answered from FINITE LOOKUP TABLES that the harness
       computed with independent code (hashlib PBKDF2/HMAC/SHA-512, tools/refcrypto/ed25519_ref.py).
       A missing entry yields a poison value of impossible length, so the case FAILS, never passes.
     * [c16_corr]: the implementation model (Bip32Impl.v) on a case  =  what the real code returned.
     * [c16_oracle]: the SPECIFICATION (Bip32Spec.v) decides the property on the real code's output:
       root, every step (keys, public key, chain code, root fields), public-only children, refusals,
       ExtendedSigningKey packaging, and the Ed25519 verification equation for the signature. *)
From Coq Require Import NArith ZArith Ascii String List Bool Lia.
From Coq Require Import Init.Byte.
From PyC Require Import Base Bip32Spec Bip32Impl.
Import ListNotations.
Open Scope N_scope.

(* ---------- tables ---------- *)
Record tabs : Type := mkT {
  t_pbkdf2 : list (bytes * bytes * bytes);          (* password, salt -> 96 bytes *)
  t_hmac   : list (bytes * bytes * bytes);          (* key, data -> 64 bytes *)
  t_sha    : list (bytes * bytes);                  (* data -> 64 bytes *)
  t_smulB  : list (N * bytes);                      (* k -> enc(k·B) *)
  t_gadd   : list (bytes * bytes * option bytes);   (* enc P, enc Q -> enc(P+Q); None = not a valid point *)
  t_smul   : list (N * bytes * bytes);              (* k, enc P -> enc(k·P) *)
  t_invalid : list bytes }.                         (* encodings the reference decoder rejects (not a point) *)

Fixpoint look2 {A} (l : list (bytes * bytes * A)) (a b : bytes) : option A :=
  match l with
  | [] => None
  | (a', b', v) :: r => if bytes_eqb a a' && bytes_eqb b b' then Some v else look2 r a b
  end.
Fixpoint look1 {A} (l : list (bytes * A)) (a : bytes) : option A :=
  match l with
  | [] => None
  | (a', v) :: r => if bytes_eqb a a' then Some v else look1 r a
  end.
Fixpoint lookN {A} (l : list (N * A)) (k : N) : option A :=
  match l with
  | [] => None
  | (k', v) :: r => if k =? k' then Some v else lookN r k
  end.
Fixpoint lookNb {A} (l : list (N * bytes * A)) (k : N) (b : bytes) : option A :=
  match l with
  | [] => None
  | (k', b', v) :: r => if (k =? k') && bytes_eqb b b' then Some v else lookNb r k b
  end.

(* poison values: lengths 1..6, never 32/64/96, pairwise different *)
Definition poison (n : nat) : bytes := repeat xff n.
Definition dflt (n : nat) (o : option bytes) : bytes := match o with Some v => v | None => poison n end.

Definition identity_enc : bytes := x01 :: repeat x00 31.

Definition tab_prims (t : tabs) : prims :=
  {| pbkdf2 := fun p s => dflt 1 (look2 (t_pbkdf2 t) p s);
     hmac512 := fun k d => dflt 2 (look2 (t_hmac t) k d);
     sha512 := fun d => dflt 3 (look1 (t_sha t) d);
     G := bytes;
     gadd := fun a b => match look2 (t_gadd t) a b with Some (Some r) => r | _ => poison 4 end;
     gzero := identity_enc;
     smulB := fun k => dflt 5 (lookN (t_smulB t) k);
     smul := fun k a => dflt 6 (lookNb (t_smul t) k a);
     enc_pt := fun g => g;
     dec_pt := fun b => if existsb (bytes_eqb b) (t_invalid t) then None else Some b;
     pt_add := fun a b => match look2 (t_gadd t) a b with Some r => r | None => Some (poison 4) end |}.

(* ---------- cases ---------- *)
Inductive origin : Type :=
| OEntropy (entropy passphrase : bytes)      (* HDWallet.from_entropy(entropy.hex(), passphrase) *)
| OMnemonic (entropy passphrase : bytes)     (* HDWallet.from_mnemonic(words, passphrase); entropy = what the word list gave *)
| ORaw (w : wallet).                         (* HDWallet(...) built directly from the given fields *)
Inductive op : Type :=
| ODerive (index : Z) (private hardened : bool)
| OPath (path : str) (private : bool).

Definition outrec : Type := (N * list bytes)%type.       (* (0, fields) or (error code, []) *)

Definition err_code (e : err) : N :=
  match e with EValue => 1 | EAssert => 2 | EOverflow => 3 | ERuntime => 4 | EType => 5 | EIndex => 6
             | EInvalidKeyType => 7 end.
Definition str_bytes (s : str) : bytes := map byte_of_ascii s.
Definition snap (w : wallet) : list bytes :=
  [w_root_xprv w; w_root_pub w; w_root_cc w;
   match w_xprv w with Some _ => [x01] | None => [x00] end;
   match w_xprv w with Some b => b | None => [] end;
   w_pub w; w_cc w; str_bytes (w_path w)].
Definition rec_of {A} (f : A -> list bytes) (r : result A) : outrec :=
  match r with Ok a => (0, f a) | Err e => (err_code e, []) end.

Definition S (s : string) : str := list_ascii_of_string s.
Definition mkW rx rp rc xp pb cc path : wallet :=
  {| w_root_xprv := rx; w_root_pub := rp; w_root_cc := rc; w_xprv := xp; w_pub := pb; w_cc := cc; w_path := path |}.

Fixpoint bl_eqb (a b : list bytes) : bool :=
  match a, b with
  | [], [] => true
  | x :: a', y :: b' => bytes_eqb x y && bl_eqb a' b'
  | _, _ => false
  end.
Fixpoint outs_eqb (a b : list outrec) : bool :=
  match a, b with
  | [], [] => true
  | (c, f) :: a', (c', f') :: b' => (c =? c') && bl_eqb f f' && outs_eqb a' b'
  | _, _ => false
  end.

Section Run.
Variable P : prims.

(* ---------- the implementation model on a case ---------- *)
Definition origin_wallet (o : origin) : result wallet :=
  match o with
  | OEntropy e p => from_entropy P e p
  | OMnemonic e p => from_mnemonic_entropy P e p
  | ORaw w => Ok w
  end.
Definition do_op (w : wallet) (o : op) : result wallet :=
  match o with
  | ODerive i pr h => derive P w i pr h
  | OPath s pr => derive_from_path P w s pr
  end.
Fixpoint run_ops (w : wallet) (ops : list op) : list outrec * wallet :=
  match ops with
  | [] => ([], w)
  | o :: r => match do_op w o with
              | Ok w' => let '(l, wl) := run_ops w' r in ((0, snap w') :: l, wl)
              | Err e => ([(err_code e, [])], w)
              end
  end.
Definition final_recs (w : wallet) (msg : bytes) : list outrec :=
  let pk := esk_from_hdwallet w in
  [rec_of (fun p => [p]) pk;
   match pk with Ok p => rec_of (fun s => [s]) (esk_sign P p msg) | Err _ => (99, []) end;
   match pk with Ok p => (0, [esk_to_vk p; evk_to_non_extended (esk_to_vk p)]) | Err _ => (99, []) end].
Definition impl_run (o : origin) (ops : list op) (msg : bytes) : list outrec :=
  match origin_wallet o with
  | Err e => [(err_code e, [])]
  | Ok w => (0, snap w) :: (let '(l, wl) := run_ops w ops in l ++ final_recs wl msg)
  end.

(* ---------- the specification on a case ---------- *)
Inductive sstate : Type := SPriv (x : xprv) | SPub (p : xpub P).
Inductive sres : Type := RState (s : sstate) | RErr | RNA.       (* RNA: outside the property's domain *)

Definition st_pub (s : sstate) : xpub P := match s with SPriv x => neuter P x | SPub p => p end.

(* one derivation step with the effective index (hardened offset already added) *)
Definition spec_step (s : sstate) (eff : Z) (private : bool) : sres :=
  if negb ((0 <=? eff) && (eff <? 2^32))%Z then RErr else
  let i := Z.to_N eff in
  if private then
    match s with
    | SPub _ => RErr                                   (* no private key: must be refused *)
    | SPriv x =>
        let kL' := 8 * zL_of (fst (spec_Z_priv P x i)) + x_kL x in
        if 2^255 <=? kL' then RNA                      (* beyond 2^26 levels below an Icarus root *)
        else match spec_ckd_priv P x i with Some x' => RState (SPriv x') | None => RErr end
    end
  else
    let p := st_pub s in
    if 2^31 <=? i then RErr                            (* hardened public derivation must be refused *)
    else if zL_of (hmac512 P (p_c p) (x02 :: enc_pt P (p_A p) ++ ser32 i)) =? 0 then RNA
    else match spec_ckd_pub P p i with Some p' => RState (SPub p') | None => RErr end.

(* strict CIP-1852 path notation: m/<digits>['] /... ; anything else is outside the property *)
Fixpoint dec_val (s : str) (acc : N) : option N :=
  match s with
  | [] => Some acc
  | c :: r => if is_digit c then dec_val r (10 * acc + digit_val c) else None
  end.
Definition parse_comp (c : str) : option (Z * bool) :=
  match c with
  | [] => None
  | _ => if ends_with_quote c
         then match drop_last c with [] => None
              | d => option_map (fun n => ((Z.of_N n + 2^31)%Z, true)) (dec_val d 0) end
         else option_map (fun n => (Z.of_N n, false)) (dec_val c 0)
  end.
Fixpoint parse_comps (l : list str) : option (list (Z * bool)) :=
  match l with
  | [] => Some []
  | c :: r => match parse_comp c, parse_comps r with
              | Some a, Some b => Some (a :: b)
              | _, _ => None
              end
  end.
Definition parse_strict (s : str) : option (list (Z * bool)) :=
  match s with
  | "m"%char :: "/"%char :: rest => parse_comps (split_slash rest [])
  | _ => None
  end.
Fixpoint spec_steps (s : sstate) (l : list (Z * bool)) (private : bool) : sres :=
  match l with
  | [] => RState s
  | (eff, _) :: r => match spec_step s eff private with
                     | RState s' => spec_steps s' r private
                     | x => x
                     end
  end.
Definition spec_op (s : sstate) (o : op) : sres :=
  match o with
  | ODerive i pr h => spec_step s (if h then (i + 2^31)%Z else i) pr
  | OPath path pr => match parse_strict path with
                     | Some ((_ :: _) as l) => spec_steps s l pr
                     | _ => RNA
                     end
  end.

Definition roots : Type := (bytes * bytes * bytes)%type.
Definition is_err (r : outrec) : bool := negb (fst r =? 0).

(* the implementation's snapshot must carry exactly the specification's keys (the path label is
   pycardano's own bookkeeping and is compared by the correspondence only) *)
Definition expect_state (rt : roots) (s : sstate) (r : outrec) : bool :=
  match r with
  | (0, [a; b; c; fl; xb; pb; cc; _]) =>
      let '(rx, rp, rc) := rt in
      bytes_eqb a rx && bytes_eqb b rp && bytes_eqb c rc &&
      match s with
      | SPriv x => bytes_eqb fl [x01] && bytes_eqb xb (ser256 (x_kL x) ++ ser256 (x_kR x))
                   && bytes_eqb pb (enc_pt P (xprv_pub P x)) && bytes_eqb cc (x_c x)
                   && (length pb =? 32)%nat && (length cc =? 32)%nat
      | SPub p => bytes_eqb fl [x00] && bytes_eqb xb [] && bytes_eqb pb (enc_pt P (p_A p)) && bytes_eqb cc (p_c p)
                  && (length pb =? 32)%nat && (length cc =? 32)%nat
      end
  | _ => false
  end.

Definition final_check (s : sstate) (outs : list outrec) (msg : bytes) (nacl_ok : bool) : bool :=
  match s, outs with
  | SPriv x, [(0, [payload]); (0, [sig]); (0, [vk; vk32])] =>
      let A := enc_pt P (xprv_pub P x) in
      bytes_eqb payload (ser256 (x_kL x) ++ ser256 (x_kR x) ++ A ++ x_c x)
      && bytes_eqb vk (A ++ x_c x) && bytes_eqb vk32 A
      && ed_verify P A msg sig
      && (length (enc_pt P (smulB P (unle (skipn 32 sig)))) =? 32)%nat     (* not a poison value *)
      && nacl_ok
  | SPub _, pk :: _ => is_err pk                      (* a public-only wallet has no signing key *)
  | _, _ => false
  end.

Fixpoint walk (rt : roots) (s : sstate) (ops : list op) (outs : list outrec) (msg : bytes) (nacl_ok : bool) : bool :=
  match ops with
  | [] => final_check s outs msg nacl_ok
  | o :: ops' =>
      match outs with
      | [] => false
      | r :: outs' =>
          match spec_op s o with
          | RState s' => expect_state rt s' r && walk rt s' ops' outs' msg nacl_ok
          | RErr => is_err r && final_check s outs' msg nacl_ok
          | RNA => true
          end
      end
  end.

Definition icarus_start (entropy pass : bytes) (ops : list op) (outs : list outrec) (msg : bytes) (nacl_ok : bool) : bool :=
  let x := spec_root P pass entropy in
  let rt := (ser256 (x_kL x) ++ ser256 (x_kR x), enc_pt P (xprv_pub P x), x_c x) in
  match outs with
  | [] => false
  | r :: outs' =>
      if is_identity P (xprv_pub P x) then is_err r
      else expect_state rt (SPriv x) r
           && (2^254 <=? x_kL x) && (x_kL x <? 2^254 + 2^253) && (x_kL x mod 8 =? 0)
           && walk rt (SPriv x) ops outs' msg nacl_ok
  end.

Definition spec_check (o : origin) (ops : list op) (outs : list outrec) (msg : bytes) (nacl_ok : bool) : bool :=
  match o with
  | OEntropy e p =>
      if is_entropy_len e then icarus_start e p ops outs msg nacl_ok
      else true                                      (* entropies outside 16/20/24/28/32 bytes: not in the property *)
  | OMnemonic e p => icarus_start e p ops outs msg nacl_ok
  | ORaw w =>
      let rt := (w_root_xprv w, w_root_pub w, w_root_cc w) in
      match outs with
      | [] => false
      | _ :: outs' =>
          match w_xprv w with
          | Some xb =>
              let x := {| x_kL := unle (firstn 32 xb); x_kR := unle (skipn 32 xb); x_c := w_cc w |} in
              if (length xb =? 64)%nat && (0 <? x_kL x) && (x_kL x <? 2^255)
                 && bytes_eqb (w_pub w) (enc_pt P (xprv_pub P x)) && (length (w_cc w) =? 32)%nat
                 && negb (is_empty (w_root_xprv w) && is_empty (w_root_pub w))
              then walk rt (SPriv x) ops outs' msg nacl_ok
              else true                              (* not a key pair: not in the property *)
          | None =>
              match dec_pt P (w_pub w) with
              | Some A => if negb (is_empty (w_root_xprv w) && is_empty (w_root_pub w)) && (length (w_cc w) =? 32)%nat
                                 && bytes_eqb (enc_pt P A) (w_pub w) && (length (w_pub w) =? 32)%nat
                          then walk rt (SPub {| p_A := A; p_c := w_cc w |}) ops outs' msg nacl_ok
                          else true
              | None => true
              end
          end
      end
  end.

End Run.

(* ---------- entry points used by the cases files ---------- *)
Definition c16_case : Type := (tabs * origin * list op * bytes * list outrec * bool)%type.

Definition c16_corr (c : c16_case) : bool :=
  let '(t, o, ops, msg, outs, _) := c in outs_eqb (impl_run (tab_prims t) o ops msg) outs.
Definition c16_oracle (c : c16_case) : bool :=
  let '(t, o, ops, msg, outs, nacl_ok) := c in spec_check (tab_prims t) o ops outs msg nacl_ok.
