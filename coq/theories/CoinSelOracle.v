(* CoinSelOracle.v — C14: the property's decision procedure, evaluated on the IMPLEMENTATION's outputs,
   and the glue that runs a correspondence case in the model.  (Soundness of the oracle with respect to
   the integer-level statement: CoinSelProofs.c14_ok_sound.) *)
From Coq Require Import NArith ZArith Ascii String List Bool Lia.
From PyC Require Import Base Dict Value ValueOracle CoinSel.
Import ListNotations.
Open Scope Z_scope.

Inductive alg := ALf | ARi (builtin : bool).

(* what the driver observed: selected pool positions (order as returned) and the change, or the exception kind *)
Inductive impl_out := IOk (sel : list nat) (chg : value) | IErr (e : cs_err) | IOther.

Record c14_in := mkIn {
  i_alg : alg;
  i_pool : list value;
  i_outs : list value;
  i_lim : option Z;
  i_fee : Z;                 (* max_tx_fee(context) if include_max_fee else 0 — computed by the driver *)
  i_minchg : bool;           (* respect_min_utxo *)
  i_mc : option Z;           (* what min_lovelace_post_alonzo returned to the selector, if it was called *)
  i_stream : list Z
}.

Definition mc_fun (c : c14_in) : option (value -> Z) :=
  if i_minchg c then Some (fun _ => match i_mc c with Some k => k | None => 0 end) else None.

Definition c14_model (c : c14_in) : res (list nat * value) :=
  match i_alg c with
  | ALf => lf_select_idx (i_pool c) (i_outs c) (i_lim c) (i_fee c) (mc_fun c)
  | ARi bi => ri_select_idx bi (i_stream c) (i_pool c) (i_outs c) (i_lim c) (i_fee c) (mc_fun c)
  end.

Definition err_eqb (a b : cs_err) : bool :=
  match a, b with
  | EInsufficient, EInsufficient | EMaxInput, EMaxInput | EDepleted, EDepleted | ESelection, ESelection
  | EIndexError, EIndexError | EKeyError, EKeyError | EInvalidData, EInvalidData | EStreamOut, EStreamOut => true
  | _, _ => false
  end.

Fixpoint nats_eqb (a b : list nat) : bool :=
  match a, b with
  | [], [] => true
  | x :: a', y :: b' => Nat.eqb x y && nats_eqb a' b'
  | _, _ => false
  end.

Definition value_same (a b : value) : bool := (coin a =? coin b) && masset_same (massets a) (massets b).

(* exact agreement model = implementation: indices in order, raw change, exception kind *)
Definition c14_corr (c : c14_in) (o : impl_out) : bool :=
  match c14_model c, o with
  | Ok (sel, chg), IOk sel' chg' => nats_eqb sel sel' && value_same chg chg'
  | Err e, IErr e' => err_eqb e e'
  | _, _ => false
  end.

(* ---------- the property on the implementation's outputs ---------- *)
Fixpoint nodupb (l : list nat) : bool :=
  match l with
  | [] => true
  | x :: r => negb (existsb (Nat.eqb x) r) && nodupb r
  end.

Definition sumv (l : list value) : value := fold_left v_add l v_zero.

Definition limit_ok (lim : option Z) (len : nat) : bool :=
  match lim with Some n => Z.of_nat len <=? n | None => true end.

(* (selected, change) is a correct answer for (pool, fee, outs, lim) *)
Definition c14_ok (pool outs : list value) (lim : option Z) (fee : Z) (sel : list nat) (chg : value) : bool :=
  let req := req_total fee outs in
  let s := sumv (sel_values pool sel) in
  nodupb sel
  && forallb (fun i => Nat.ltb i (length pool)) sel
  && v_le req s
  && v_eq chg (v_sub s req)
  && limit_ok lim (length sel).

(* largest-first reported insufficient balance: the pool cannot cover the request (+ fee), or — when the
   min-change top-up raised — cannot cover request + fee + the minimum change m the selector was told *)
Definition lf_insufficient_ok (c : c14_in) : bool :=
  let req := req_total (i_fee c) (i_outs c) in
  let s := sumv (i_pool c) in
  negb (v_le req s)
  || (i_minchg c && match i_mc c with Some m => coin s - coin req <? m | None => false end).

Definition values_same (a b : list value) : bool :=
  Nat.eqb (length a) (length b) && forallb (fun xy => value_same (fst xy) (snd xy)) (combine a b).

(* the domain of the property (= the premises of C14_lf / C14_ri / C14_total): amounts of pool UTxOs and of requested
   outputs are non-negative, a stated limit is positive.  A few generated cases lie outside (negative quantities drive the
   model's KeyError / InvalidData branches, limits 0 / -1 its falsy-limit branches); for those only the correspondence and
   the pool-unmodified clause are checked. *)
Definition in_domain (c : c14_in) : bool :=
  forallb (fun v => negb (v_has_neg v)) (i_pool c)
  && forallb (fun v => negb (v_has_neg v)) (i_outs c)
  && (0 <=? i_fee c)
  && match i_lim c with Some n => 0 <? n | None => true end.

Definition c14_oracle (c : c14_in) (o : impl_out) (pool_after : list value) (same_objs : bool) : bool :=
  same_objs && values_same (i_pool c) pool_after &&
  (negb (in_domain c) ||
   match o with
   | IOk sel chg => c14_ok (i_pool c) (i_outs c) (i_lim c) (i_fee c) sel chg
   | IErr e =>
       is_sel_err e &&
       match i_alg c, e with
       | ALf, EInsufficient => lf_insufficient_ok c
       | _, _ => true
       end
   | IOther => false
   end).
