(* ValueHeap.v — a store model for the aliasing half of C05: Python variables refer to Value
   objects, Value objects refer to MultiAsset objects; `+`/`-`/filter allocate, `+=` rebinds the
   left Value's fields, MultiAsset `+=` replaces the left object's dictionary.
   (Asset objects are never shared by the operations below — every operator deep-copies — so a
   two-level store is exact for them.) *)
From Coq Require Import NArith ZArith Ascii String List Bool Lia.
From PyC Require Import Base Cbor Dict Value.
Import ListNotations.
Open Scope Z_scope.

Record store := mkStore {
  vars  : list nat;            (* variable i  -> index of its Value object *)
  vobjs : list (Z * nat);      (* Value object -> (coin, index of its MultiAsset object) *)
  mobjs : list masset          (* MultiAsset objects, raw (insertion order, zeros possible) *)
}.
Definition empty_store := mkStore [] [] [].

Inductive crit := CPos | CGe (t : Z) | CPolicy (p : bytes) | CNameLen (k : nat).
Definition crit_fn (c : crit) : bytes -> bytes -> Z -> bool :=
  match c with
  | CPos => fun _ _ q => 0 <? q
  | CGe t => fun _ _ q => t <=? q
  | CPolicy p => fun p' _ _ => bytes_eqb p p'
  | CNameLen k => fun _ n _ => Nat.eqb (length n) k
  end.

Inductive hop :=
| HNew (c : Z) (m : masset)          (* x_new = Value(c, MultiAsset(literal)) *)
| HAlias (a : nat)                   (* x_new = x_a                      (same object) *)
| HShare (a : nat) (c : Z)           (* x_new = Value(c, x_a.multi_asset) (shared MultiAsset object) *)
| HAdd (a b : nat)                   (* x_new = x_a + x_b *)
| HSub (a b : nat)                   (* x_new = x_a - x_b *)
| HUnion (a b : nat)                 (* x_new = x_a.union(x_b) *)
| HAddInt (a : nat) (k : Z)          (* x_new = x_a + k *)
| HIAdd (a b : nat)                  (* x_a += x_b *)
| HMaIAdd (a b : nat)                (* x_a.multi_asset += x_b.multi_asset *)
| HSetItem (a : nat) (p n : bytes) (q : Z)  (* x_a.multi_asset[p][n] = q (policy created if absent) *)
| HFilter (a : nat) (c : crit)       (* x_new = Value(x_a.coin, x_a.multi_asset.filter(c)) *)
| HNormalize (a : nat)               (* x_a.multi_asset.normalize() *)
| HEq (a b : nat) | HLe (a b : nat) | HLt (a b : nat)   (* observations *)
| HCount (a : nat) (c : crit)
(* x_a >= x_b, x_a > x_b: the classes define only __le__ / __lt__ / __eq__, Python evaluates the reflected
   x_b.__le__(x_a) / x_b.__lt__(x_a) *)
| HGe (a b : nat) | HGt (a b : nat)
(* the same one and two levels down: x_a.multi_asset <= / >= x_b.multi_asset;  x_a.multi_asset[p] <= / >= x_b.multi_asset[p]
   (observed only when both bundles hold policy p) *)
| HMaLe (a b : nat) | HMaGe (a b : nat)
| HALe (a : nat) (p : bytes) (b : nat) | HAGe (a : nat) (p : bytes) (b : nat)
(* x_a.multi_asset[p] += x_b.multi_asset[p]  (Asset.__iadd__, then MultiAsset.__setitem__ of the same key; skipped unless
   both bundles hold policy p) *)
| HAIAdd (a : nat) (p : bytes) (b : nat).

Definition vloc (s : store) (a : nat) : nat := nth a (vars s) 0%nat.
Definition vobj (s : store) (a : nat) : Z * nat := nth (vloc s a) (vobjs s) (0, 0%nat).
Definition mobj (s : store) (l : nat) : masset := nth l (mobjs s) [].
Definition val_of (s : store) (a : nat) : value := mkValue (fst (vobj s a)) (mobj s (snd (vobj s a))).

Fixpoint upd {A} (l : list A) (i : nat) (x : A) : list A :=
  match l, i with
  | [], _ => []
  | _ :: r, O => x :: r
  | h :: r, S i' => h :: upd r i' x
  end.

(* allocate a fresh Value object with a fresh MultiAsset object and bind a new variable to it *)
Definition alloc (s : store) (v : value) : store :=
  mkStore (vars s ++ [length (vobjs s)])
          (vobjs s ++ [(coin v, length (mobjs s))])
          (mobjs s ++ [massets v]).

Inductive obs := ONone | OBool (b : bool) | OInt (z : Z).

Definition exec (s : store) (o : hop) : store * obs :=
  match o with
  | HNew c m => (alloc s (mkValue c m), ONone)
  | HAlias a => (mkStore (vars s ++ [vloc s a]) (vobjs s) (mobjs s), ONone)
  | HShare a c => (mkStore (vars s ++ [length (vobjs s)]) (vobjs s ++ [(c, snd (vobj s a))]) (mobjs s), ONone)
  | HAdd a b | HUnion a b => (alloc s (v_add (val_of s a) (val_of s b)), ONone)
  | HSub a b => (alloc s (v_sub (val_of s a) (val_of s b)), ONone)
  | HAddInt a k => (alloc s (v_add (val_of s a) (mkValue k [])), ONone)
  | HIAdd a b =>
      let r := v_add (val_of s a) (val_of s b) in
      (mkStore (vars s) (upd (vobjs s) (vloc s a) (coin r, length (mobjs s))) (mobjs s ++ [massets r]), ONone)
  | HMaIAdd a b =>
      let r := m_add (massets (val_of s a)) (massets (val_of s b)) in
      (mkStore (vars s) (vobjs s) (upd (mobjs s) (snd (vobj s a)) r), ONone)
  | HSetItem a p n q =>
      let m := massets (val_of s a) in
      (mkStore (vars s) (vobjs s) (upd (mobjs s) (snd (vobj s a)) (dset m p (dset (mget m p) n q))), ONone)
  | HFilter a c => (alloc s (mkValue (coin (val_of s a)) (m_filter (crit_fn c) (massets (val_of s a)))), ONone)
  | HNormalize a => (mkStore (vars s) (vobjs s) (upd (mobjs s) (snd (vobj s a)) (m_norm (massets (val_of s a)))), ONone)
  | HEq a b => (s, OBool (v_eq (val_of s a) (val_of s b)))
  | HLe a b => (s, OBool (v_le (val_of s a) (val_of s b)))
  | HLt a b => (s, OBool (v_lt (val_of s a) (val_of s b)))
  | HCount a c => (s, OInt (m_count (crit_fn c) (massets (val_of s a))))
  | HGe a b => (s, OBool (v_le (val_of s b) (val_of s a)))
  | HGt a b => (s, OBool (v_lt (val_of s b) (val_of s a)))
  | HMaLe a b => (s, OBool (m_le (massets (val_of s a)) (massets (val_of s b))))
  | HMaGe a b => (s, OBool (m_le (massets (val_of s b)) (massets (val_of s a))))
  | HALe a p b =>
      match dget (massets (val_of s a)) p, dget (massets (val_of s b)) p with
      | Some x, Some y => (s, OBool (a_le x y))
      | _, _ => (s, ONone)
      end
  | HAGe a p b =>
      match dget (massets (val_of s a)) p, dget (massets (val_of s b)) p with
      | Some x, Some y => (s, OBool (a_le y x))
      | _, _ => (s, ONone)
      end
  | HAIAdd a p b =>
      let m := massets (val_of s a) in
      match dget m p, dget (massets (val_of s b)) p with
      | Some x, Some y => (mkStore (vars s) (vobjs s) (upd (mobjs s) (snd (vobj s a)) (dset m p (a_add x y))), ONone)
      | _, _ => (s, ONone)
      end
  end.

Fixpoint run (s : store) (ops : list hop) : store * list obs :=
  match ops with
  | [] => (s, [])
  | o :: r => let '(s1, ob) := exec s o in let '(s2, obs) := run s1 r in (s2, ob :: obs)
  end.

Definition snapshot (s : store) : list (Z * masset) :=
  map (fun l => let vo := nth l (vobjs s) (0, 0%nat) in (fst vo, mobj s (snd vo))) (vars s).

(* ---------- frame properties ---------- *)
Definition in_place (o : hop) : bool :=
  match o with HIAdd _ _ | HMaIAdd _ _ | HSetItem _ _ _ _ | HNormalize _ | HAIAdd _ _ _ => true | _ => false end.

Lemma nth_app_l {A} (l l' : list A) i d : (i < length l)%nat -> nth i (l ++ l') d = nth i l d.
Proof. intros. now apply app_nth1. Qed.

Lemma nth_upd_other {A} (l : list A) i j x d : i <> j -> nth j (upd l i x) d = nth j l d.
Proof.
  revert i j. induction l as [|h r IH]; intros [|i] [|j] H; cbn; try reflexivity; try congruence.
  apply IH. congruence.
Qed.
Lemma nth_upd_same {A} (l : list A) i x d : (i < length l)%nat -> nth i (upd l i x) d = x.
Proof.
  revert i. induction l as [|h r IH]; intros [|i] H; cbn in *; try lia; [reflexivity|]. apply IH. lia.
Qed.
Lemma upd_length {A} (l : list A) i x : length (upd l i x) = length l.
Proof. revert i. induction l as [|h r IH]; intros [|i]; cbn; auto. Qed.

(* Pure operators (+, -, union, filter, comparisons, count, construction) never change an existing
   object: every pre-existing Value object and MultiAsset object is bit-for-bit what it was. *)
Theorem pure_ops_preserve_objects s o :
  in_place o = false ->
  let s' := fst (exec s o) in
  (forall l, (l < length (vobjs s))%nat -> nth l (vobjs s') (0, 0%nat) = nth l (vobjs s) (0, 0%nat))
  /\ (forall l, (l < length (mobjs s))%nat -> nth l (mobjs s') [] = nth l (mobjs s) [])
  /\ (forall a, (a < length (vars s))%nat -> nth a (vars s') 0%nat = nth a (vars s) 0%nat).
Proof.
  destruct o; cbn; intros H; try discriminate;
    repeat match goal with |- context [match dget ?m ?p with _ => _ end] => destruct (dget m p) end;
    cbn; repeat split; intros; try reflexivity; try (apply nth_app_l; assumption).
Qed.

(* x_a += x_b changes exactly the fields of the Value object of x_a: all other Value objects and
   ALL pre-existing MultiAsset objects (including the one x_a used to hold, which other Values may
   share) are unchanged; the new content is the pure sum, also when a and b alias. *)
Theorem iadd_frame s a b :
  (vloc s a < length (vobjs s))%nat ->
  let s' := fst (exec s (HIAdd a b)) in
  (forall l, l <> vloc s a -> nth l (vobjs s') (0, 0%nat) = nth l (vobjs s) (0, 0%nat))
  /\ (forall l, (l < length (mobjs s))%nat -> nth l (mobjs s') [] = nth l (mobjs s) [])
  /\ vars s' = vars s
  /\ val_of s' a = v_add (val_of s a) (val_of s b).
Proof.
  intros Hl. cbn [exec fst vobjs mobjs vars]. repeat split.
  - intros l Hne. apply nth_upd_other. congruence.
  - intros l H. now apply nth_app_l.
  - unfold val_of at 1. unfold vobj, vloc, mobj. cbn [vobjs mobjs vars].
    fold (vloc s a). rewrite nth_upd_same by exact Hl. cbn [fst snd].
    rewrite app_nth2 by lia. rewrite Nat.sub_diag. reflexivity.
Qed.

(* MultiAsset += replaces only the dictionary of the left MultiAsset object *)
Theorem ma_iadd_frame s a b :
  let s' := fst (exec s (HMaIAdd a b)) in
  vobjs s' = vobjs s /\ vars s' = vars s
  /\ (forall l, l <> snd (vobj s a) -> nth l (mobjs s') [] = nth l (mobjs s) []).
Proof. cbn [exec fst vobjs mobjs vars]. repeat split. intros l H. apply nth_upd_other. congruence. Qed.

(* Asset += (x_a.multi_asset[p] += x_b.multi_asset[p]) changes exactly one entry of exactly one MultiAsset object: the
   Asset under p of the left bundle becomes the pure, normalised sum; every other policy of that bundle, every other
   MultiAsset object, every Value object and every variable is what it was — also when a and b alias *)
Theorem asset_iadd_frame s a p b x y :
  (snd (vobj s a) < length (mobjs s))%nat ->
  dget (massets (val_of s a)) p = Some x -> dget (massets (val_of s b)) p = Some y ->
  let s' := fst (exec s (HAIAdd a p b)) in
  vobjs s' = vobjs s /\ vars s' = vars s
  /\ (forall l, l <> snd (vobj s a) -> nth l (mobjs s') [] = nth l (mobjs s) [])
  /\ dget (massets (val_of s' a)) p = Some (a_add x y)
  /\ (forall p', p <> p' -> dget (massets (val_of s' a)) p' = dget (massets (val_of s a)) p').
Proof.
  intros Hl Hx Hy. cbn [exec]. rewrite Hx, Hy. cbn [fst vobjs vars mobjs].
  assert (E : massets (val_of (mkStore (vars s) (vobjs s)
                 (upd (mobjs s) (snd (vobj s a)) (dset (massets (val_of s a)) p (a_add x y)))) a)
              = dset (massets (val_of s a)) p (a_add x y)).
  { unfold val_of, vobj, vloc, mobj. cbn [vars vobjs mobjs massets snd fst]. apply nth_upd_same. exact Hl. }
  repeat split.
  - intros l Hne. apply nth_upd_other. congruence.
  - rewrite E. apply dget_dset_same.
  - intros p' Hne. rewrite E. now apply dget_dset_other.
Qed.

(* when either bundle lacks the policy the statement is not executed (the driver skips it): nothing changes *)
Theorem asset_iadd_skip s a p b :
  dget (massets (val_of s a)) p = None \/ dget (massets (val_of s b)) p = None ->
  exec s (HAIAdd a p b) = (s, ONone).
Proof.
  intros [H|H]; cbn [exec]; rewrite H; [reflexivity|]. destruct (dget (massets (val_of s a)) p); reflexivity.
Qed.
