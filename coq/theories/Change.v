(* Change.v — C08: specification and executable model of the change-construction slice of
   pycardano/txbuilder.py and of the pieces it relies on:

     utils.min_lovelace_post_alonzo                          (utils.py:199-233)
     TransactionBuilder._adding_asset_make_output_overflow   (txbuilder.py)
     TransactionBuilder._pack_tokens_for_change              (txbuilder.py)
     TransactionBuilder._calc_change                         (txbuilder.py)
     TransactionBuilder._add_change_and_fee / _merge_changes (txbuilder.py)
     TransactionOutput.validate / TransactionBody.validate   (transaction.py)

   clause by clause, for the tree AFTER the fix commits 797f298 (min_lovelace does not touch its
   argument), b6c39dd (body validates nested fields), ccdd971 (`change.coin < 0` refusal), d736adf
   (final size re-check of the packer raises instead of `break`), f703c57 (un-merged changes of
   merge mode are checked against the minimum ADA) and c8b4af1 (values are sized with the most ADA they can receive).

   Code there, data here:
   * an address is its raw bytes (Address.to_primitive(); 29 or 57 bytes), address equality is equality
     of these bytes;
   * serialized sizes are COMPUTED by the model: len(Value.to_cbor()) = lenN (value_cbor v) (Value.v),
     len(TransactionOutput.to_cbor()) in post-Alonzo map form = lenN (out_cbor_map o) below;
   * an inline datum / a reference script enter as the bytes cbor2.dumps gives for them (opaque here);
   * the fee is a number handed to the slice (fee estimation is C07's business).
   Model only — proofs live in ChangeProofs.v. *)
From Coq Require Import NArith ZArith Ascii String List Bool Lia.
From PyC Require Import Base Cbor Dict Value.
Import ListNotations.
Open Scope Z_scope.

(* ================================================================== SPECIFICATION *)
(* Babbage/Conway ledger rule: an output must hold coins_per_utxo_byte * (160 + |serialized output|) *)
Definition min_ada (cpb : Z) (out_size : N) : Z := cpb * (160 + Z.of_N out_size).

(* every stored quantity strictly positive *)
Definition all_pos (m : masset) : Prop :=
  Forall (fun pa => Forall (fun nq => 0 < snd nq) (snd pa)) m.
Definition all_posb (m : masset) : bool :=
  forallb (fun pa => forallb (fun nq => 0 <? snd nq) (snd pa)) m.
(* ledger validity of the amount of an output *)
Definition valid_amount (v : value) : Prop := 0 <= coin v /\ all_pos (massets v).

(* "the bundles l are a split of the bundle m": per (policy, name) the quantities add up to the
   original, hence nothing else appears, nothing is lost, nothing is duplicated *)
Definition msum (l : list masset) (p n : bytes) : Z := Zsum (map (fun m => content m p n) l).
Definition partition_of (l : list masset) (m : masset) : Prop := forall p n, msum l p n = content m p n.

(* ================================================================== OUTPUT ENCODER *)
Inductive datum_opt := DHash (h : bytes) | DInline (d : bytes).
Record txout := mkOut { o_addr : bytes; o_val : value; o_datum : option datum_opt; o_script : option bytes }.
Definition plain (addr : bytes) (v : value) : txout := mkOut addr v None None.

(* _TransactionOutputPostAlonzo.to_primitive: {0: address, 1: amount, 2: [0, hash] | [1, #6.24(bytes)], 3: #6.24(bytes)} *)
Definition out_prim_map (o : txout) : cbor :=
  CM ([(CU 0, CB (o_addr o)); (CU 1, value_prim (o_val o))]
      ++ match o_datum o with
         | None => []
         | Some (DHash h) => [(CU 2, CA [CU 0; CB h])]
         | Some (DInline d) => [(CU 2, CA [CU 1; CTag 24 (CB d)])]
         end
      ++ match o_script o with None => [] | Some s => [(CU 3, CTag 24 (CB s))] end).
Definition out_cbor_map (o : txout) : bytes := enc (out_prim_map o).
Definition out_size (o : txout) : N := lenN (out_cbor_map o).

(* ================================================================== MODEL *)
Record cfg := mkCfg { cpb : Z; max_val_size : Z }.   (* coins_per_utxo_byte, max_val_size *)

(* The protocol parameters as a chain context reports them. Of the whole ProtocolParameters record the change
   slice and the min-ADA utility read exactly two fields, coins_per_utxo_byte and max_val_size (`cfg`). The fields
   that governed the minimum ADA in EARLIER eras are carried along so that cases can vary them the way real
   backends do (Shelley `min_utxo`: 1 ADA on old snapshots, 4310 = the per-byte price or 34482 since Babbage on
   Blockfrost, absent/None on Ogmios v6; Alonzo `coins_per_utxo_word`: 8 * per-byte price, 34482, 0 or absent):
   the model ignores them (cfg_of), the correspondence run checks on every case that the code does too, and the
   oracle checks the outputs against the Babbage/Conway rule, which knows coins_per_utxo_byte only. *)
Record pparams := mkPP {
  pp_cpb : Z;                    (* coins_per_utxo_byte *)
  pp_mvs : Z;                    (* max_val_size *)
  pp_min_utxo : option Z;        (* legacy, Shelley..Mary *)
  pp_cpw : option Z              (* legacy coins_per_utxo_word, Alonzo *)
}.
Definition cfg_of (p : pparams) : cfg := mkCfg (pp_cpb p) (pp_mvs p).

(* the ledger's acceptance test of an output (Babbage/Conway UTxO rule): coin >= cpb * (160 + |map form|) *)
Definition ledger_accepts (cpb : Z) (o : txout) : bool := min_ada cpb (out_size o) <=? coin (o_val o).
(* the output with its ADA replaced: what a caller of the min-ADA utility builds from the answer *)
Definition with_coin (o : txout) (c : Z) : txout :=
  mkOut (o_addr o) (mkValue c (massets (o_val o))) (o_datum o) (o_script o).

Inductive c_err :=
| EInsufficient        (* InsufficientUTxOBalanceException *)
| EInvalidTx           (* InvalidTransactionException *)
| EInvalidData         (* InvalidDataException *)
| EOther.              (* any other exception kind: never produced by the model *)
Inductive res (A : Type) := Ok (a : A) | Err (e : c_err).
Arguments Ok {A} a.
Arguments Err {A} e.

(* utils.min_lovelace_post_alonzo: a zero amount of ADA is replaced by 1 ADA ON A COPY; the output is
   re-built in map form (post_alonzo=True) whatever form the argument has *)
Definition subst_coin (v : value) : value := if coin v =? 0 then mkValue 1000000 (massets v) else v.
Definition min_lovelace (c : cfg) (o : txout) : Z :=
  (160 + Z.of_N (out_size (mkOut (o_addr o) (subst_coin (o_val o)) (o_datum o) (o_script o)))) * cpb c.

(* the utility under a full parameter record: context.protocol_param.coins_per_utxo_byte is the only field read *)
Definition min_lovelace_pp (p : pparams) (o : txout) : Z := min_lovelace (cfg_of p) o.

Definition vsize (v : value) : Z := Z.of_N (lenN (value_cbor v)).

(* the size test shared by the packer's two checks: the value is sized with the most ADA the output can
   receive: max(minimum ADA of the output that would carry it, max_coin)   (fix c8b4af1; it used to be
   sized with the minimum ADA only) *)
Definition too_big (c : cfg) (addr : bytes) (max_coin : Z) (amt : value) : bool :=
  let required := min_lovelace c (plain addr amt) in
  max_val_size c <? vsize (mkValue (Z.max required max_coin) (massets amt)).

(* _adding_asset_make_output_overflow(output, current_assets, policy_id, name, val, max_val_size, max_coin) *)
Definition overflow (c : cfg) (addr : bytes) (max_coin : Z) (out_amt : value) (cur : asset) (pid name : bytes) (q : Z) : bool :=
  let attempt_assets := a_add cur [(name, q)] in
  let attempt_ma : masset := [(pid, attempt_assets)] in
  let attempt := v_add (mkValue 0 attempt_ma) out_amt in
  too_big c addr max_coin attempt.

(* temp_multi_asset += MultiAsset({policy_id: temp_assets}); temp_value.multi_asset = temp_multi_asset;
   output.amount += temp_value          (temp_multi_asset is empty and temp_value.coin is 0 at both places) *)
Definition flush (out : value) (pid : bytes) (tmp : asset) : value :=
  v_add out (mkValue 0 (m_add [] [(pid, tmp)])).

(* state of the packer inside one policy: (multi_asset_arr, output.amount, temp_assets) *)
Definition pstate := (list masset * value * asset)%type.

(* body of `for asset_name, asset_value in assets.items()` *)
Definition asset_step (c : cfg) (addr : bytes) (mc : Z) (pid : bytes) (st : pstate) (nq : bytes * Z) : pstate :=
  let arr := fst (fst st) in let out := snd (fst st) in let tmp := snd st in
  if overflow c addr mc out tmp pid (fst nq) (snd nq) then
    let out1 := if is_nil tmp then out else flush out pid tmp in
    (arr ++ [massets out1], mkValue 0 [], a_add [] [nq])
  else (arr, out, a_add tmp [nq]).

(* body of `for policy_id, assets in change_estimator.multi_asset.items()`; the final size re-check
   raises InvalidTransactionException (fix d736adf; it used to restore old_amount and break) *)
Definition policy_step (c : cfg) (addr : bytes) (mc : Z) (st : res (list masset * value)) (pa : bytes * asset)
  : res (list masset * value) :=
  match st with
  | Err e => Err e
  | Ok (arr, out) =>
      let st1 := fold_left (asset_step c addr mc (fst pa)) (snd pa) (arr, out, []) in
      let out1 := flush (snd (fst st1)) (fst pa) (snd st1) in
      if too_big c addr mc out1 then Err EInvalidTx else Ok (fst (fst st1), out1)
  end.

(* _pack_tokens_for_change(change_address, change_estimator, max_val_size): max_coin = change_estimator.coin *)
Definition pack_tokens (c : cfg) (addr : bytes) (change : value) : res (list masset) :=
  match fold_left (policy_step c addr (coin change)) (massets change) (Ok ([], mkValue (coin change) [])) with
  | Err e => Err e
  | Ok (arr, out) => Ok (arr ++ [massets out])
  end.

(* ---------- _calc_change ---------- *)
Record cc_in := mkIn {
  cc_fee : Z;
  cc_inputs : list value;          (* i.output.amount for i in inputs *)
  cc_outputs : list value;         (* o.amount for o in outputs *)
  cc_mint : masset;                (* self.mint or the empty bundle *)
  cc_withdrawals : list Z;         (* self.withdrawals.values() *)
  cc_deposit : Z;                  (* _get_total_key_deposit() + _get_total_proposal_deposit() + (donation or 0) *)
  cc_addr : bytes;
  cc_respect : bool                (* respect_min_utxo *)
}.

Definition posq (_ _ : bytes) (q : Z) : bool := 0 <? q.      (* lambda p, n, v: v > 0 *)

Definition requested_of (i : cc_in) : value := fold_left v_add (cc_outputs i) (mkValue (cc_fee i) []).
Definition provided_of (i : cc_in) : value :=
  let p0 := fold_left v_add (cc_inputs i) (mkValue 0 []) in
  let p1 := if is_nil (cc_mint i) then p0 else mkValue (coin p0) (m_add (massets p0) (cc_mint i)) in
  mkValue (coin p1 + Zsum (cc_withdrawals i) - cc_deposit i) (massets p1).

(* the `change` value after "Remove any asset that has 0 quantity", or the InvalidTransactionException *)
Definition change_of (i : cc_in) : res value :=
  let requested := requested_of i in
  let provided := provided_of i in
  if negb (v_lt requested provided) then Err EInvalidTx
  else
    let change := v_sub provided requested in
    Ok (if is_nil (massets change) then change
        else mkValue (coin change) (m_filter posq (massets change))).

(* `for i, multi_asset in enumerate(multi_asset_arr)` of _calc_change *)
Fixpoint split_loop (c : cfg) (addr : bytes) (respect : bool) (arr : list masset) (change : value)
         (acc : list value) : res (list value) :=
  match arr with
  | [] => Ok acc
  | ma :: rest =>
      if (coin change <? 0) || (respect && (coin change <? min_lovelace c (plain addr (mkValue 0 ma))))
      then Err EInsufficient
      else
        let cv := match rest with
                  | [] => mkValue (coin change) ma                                     (* all ADA into the last output *)
                  | _ => mkValue (min_lovelace c (plain addr (mkValue 0 ma))) ma        (* minimum ADA into the others *)
                  end in
        let change1 := v_sub change cv in
        let change2 := mkValue (coin change1) (m_filter posq (massets change1)) in
        split_loop c addr respect rest change2 (acc ++ [cv])
  end.

Definition split_change (c : cfg) (addr : bytes) (respect : bool) (change : value) : res (list value) :=
  if is_nil (massets change) then
    (* only ADA left *)
    if respect && (coin change <? min_lovelace c (plain addr change)) then Err EInsufficient
    else Ok [mkValue (coin change) []]
  else
    match pack_tokens c addr change with
    | Err e => Err e
    | Ok arr => split_loop c addr respect arr change []
    end.

Definition calc_change (c : cfg) (i : cc_in) : res (list value) :=
  match change_of i with
  | Err e => Err e
  | Ok change => split_change c (cc_addr i) (cc_respect i) change
  end.

(* ---------- _add_change_and_fee ---------- *)
(* `for idx, output in enumerate(original_outputs)`: the first output at the change address, replaced by
   any later one at that address that holds 0 lovelace *)
Fixpoint change_index_from (k : nat) (addr : bytes) (outs : list txout) (acc : option nat) : option nat :=
  match outs with
  | [] => acc
  | o :: r =>
      let acc' := if bytes_eqb addr (o_addr o)
                  then (match acc with
                        | None => Some k
                        | Some _ => if coin (o_val o) =? 0 then Some k else acc
                        end)
                  else acc in
      change_index_from (S k) addr r acc'
  end.
Definition change_index (addr : bytes) (outs : list txout) : option nat := change_index_from 0 addr outs None.

Fixpoint merge_at (k : nat) (ch : value) (outs : list txout) : list txout :=
  match outs, k with
  | [], _ => []
  | o :: r, O => mkOut (o_addr o) (v_add ch (o_val o)) (o_datum o) (o_script o) :: r
  | o :: r, S k' => o :: merge_at k' ch r
  end.

(* _merge_changes(changes)  (fix f703c57: changes that end up as outputs of their own in merge mode are
   checked against their minimum ADA) *)
Definition merge_changes (c : cfg) (merge : bool) (idx : option nat) (addr : bytes) (outs : list txout)
           (changes : list value) : res (list txout) :=
  match idx, changes with
  | Some k, [ch] => Ok (merge_at k ch outs)
  | _, _ =>
      if merge && existsb (fun ch => coin ch <? min_lovelace c (plain addr ch)) changes
      then Err EInsufficient
      else Ok (outs ++ map (plain addr) changes)
  end.

Record ac_in := mkAc {
  ac_fee1 : Z;                       (* _estimate_fee() before the changes are attached ("Set fee to max") *)
  ac_fee2 : Z;                       (* _estimate_fee() with the first-pass changes attached *)
  ac_inputs : list value;
  ac_outputs : list txout;           (* original_outputs *)
  ac_mint : masset;
  ac_withdrawals : list Z;
  ac_deposit : Z;
  ac_addr : bytes;                   (* change_address (given) *)
  ac_merge : bool
}.
Definition ac_cc (a : ac_in) (fee : Z) : cc_in :=
  mkIn fee (ac_inputs a) (map o_val (ac_outputs a)) (ac_mint a) (ac_withdrawals a) (ac_deposit a)
       (ac_addr a) (negb (ac_merge a)).

Definition add_change_pass (c : cfg) (a : ac_in) (fee : Z) : res (list txout) :=
  let idx := if ac_merge a then change_index (ac_addr a) (ac_outputs a) else None in
  match calc_change c (ac_cc a fee) with
  | Err e => Err e
  | Ok changes => merge_changes c (ac_merge a) idx (ac_addr a) (ac_outputs a) changes
  end.

(* both passes: the first one matters only through the exceptions it can raise (and through fee2) *)
Definition add_change (c : cfg) (a : ac_in) : res (list txout) :=
  match add_change_pass c a (ac_fee1 a) with
  | Err e => Err e
  | Ok _ => add_change_pass c a (ac_fee2 a)
  end.

(* ---------- validation at serialization ---------- *)
Definition negq (_ _ : bytes) (q : Z) : bool := q <? 0.     (* lambda p, n, v: v < 0 *)
(* TransactionOutput.validate: true = raises InvalidDataException *)
Definition out_invalid (v : value) : bool := (coin v <? 0) || (0 <? m_count negq (massets v)).
(* CBORSerializable.validate visits every field; TransactionBody.validate calls it first (fix b6c39dd).
   Fields holding outputs: outputs (key 1) and collateral_return (key 16). *)
Definition min_int64 : Z := - 9223372036854775808.
Definition max_int64 : Z := 9223372036854775807.
Definition out_of_i64 (_ _ : bytes) (q : Z) : bool := (q <? min_int64) || (max_int64 <? q).
Record body := mkBody { b_outputs : list value; b_collateral_return : option value; b_mint : masset }.
Definition body_validate (b : body) : res unit :=
  if existsb out_invalid (b_outputs b) then Err EInvalidData
  else if match b_collateral_return b with Some v => out_invalid v | None => false end then Err EInvalidData
  else if negb (is_nil (b_mint b)) && (0 <? m_count out_of_i64 (b_mint b)) then Err EInvalidData
  else Ok tt.
(* to_cbor of: a stand-alone output, a UTxO holding it, a body, a Transaction holding the body:
   each starts with validate() of the outermost object, which recurses *)
Definition output_to_cbor_refused (v : value) : bool := out_invalid v.
Definition body_to_cbor_refused (b : body) : bool := match body_validate b with Err _ => true | Ok _ => false end.
Definition tx_to_cbor_refused (b : body) : bool := body_to_cbor_refused b.
