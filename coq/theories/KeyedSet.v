(* KeyedSet.v — pycardano.serialization.OrderedSet as it is written: an insertion-ordered list whose membership test is
   NOT equality of the members but equality of a KEY computed from them,

       def append(self, item):  if item not in self: self._list.append(item); self._set[str(item)] = item
       def __contains__(self, item):  return str(item) in self._set

   (key = str(item); for a TransactionInput that is pformat(vars(self)), which embeds repr() of the transaction id).
   The models of the builder (Inputs.v: body_inputs; the witness / signer sets elsewhere) write this set with equality of the
   members.  That is the same thing exactly when the key is injective on what is inserted; this file states that, proves it,
   and shows what happens otherwise (a supplied member is dropped).  The hypothesis is CHECKED on the implementation's own
   keys for every generated case (InputsOracle.keys_ok). *)
From Coq Require Import List Bool.
Import ListNotations.

Section KeyedSet.
  Variables A K : Type.
  Variable key : A -> K.
  Variable keqb : K -> K -> bool.
  Hypothesis keqb_eq : forall a b, keqb a b = true <-> a = b.
  Variable aeqb : A -> A -> bool.
  Hypothesis aeqb_eq : forall a b, aeqb a b = true <-> a = b.

  Definition kmem (x : A) (s : list A) : bool := existsb (fun y => keqb (key y) (key x)) s.
  Definition kappend (s : list A) (x : A) : list A := if kmem x s then s else s ++ [x].
  Definition kbuild (l : list A) : list A := fold_left kappend l [].

  (* the members-by-equality set the models use *)
  Definition emem (x : A) (s : list A) : bool := existsb (fun y => aeqb y x) s.
  Definition eappend (s : list A) (x : A) : list A := if emem x s then s else s ++ [x].
  Definition ebuild (l : list A) : list A := fold_left eappend l [].

  Lemma NoDup_app_one {B} (l : list B) (x : B) : NoDup l -> ~ In x l -> NoDup (l ++ [x]).
  Proof.
    induction l as [|a l IH]; intros N H; cbn [app]; [constructor; [intros []|constructor]|].
    inversion N as [|? ? Na Nl]; subst. constructor.
    - intros Hin. apply in_app_or in Hin. destruct Hin as [Hin|[->|[]]]; [contradiction|]. apply H. now left.
    - apply IH; [exact Nl|]. intros Hx. apply H. now right.
  Qed.

  Definition injective_on (l : list A) : Prop := forall x y, In x l -> In y l -> key x = key y -> x = y.

  Lemma kmem_In x s : kmem x s = true <-> exists y, In y s /\ key y = key x.
  Proof.
    unfold kmem. rewrite existsb_exists. split; intros [y [H1 H2]]; exists y; split; auto; now apply keqb_eq.
  Qed.
  Lemma emem_In x s : emem x s = true <-> In x s.
  Proof.
    unfold emem. rewrite existsb_exists. split.
    - intros [y [H1 H2]]. apply aeqb_eq in H2. now subst.
    - intros H. exists x. split; auto. now apply aeqb_eq.
  Qed.

  (* whatever the key: nothing is invented, the order of first occurrences is kept, no two members share a key *)
  Lemma kfold_incl l : forall s x, In x (fold_left kappend l s) -> In x s \/ In x l.
  Proof.
    induction l as [|a l IH]; intros s x H; cbn [fold_left] in H; [now left|].
    apply IH in H. destruct H as [H|H]; [|right; now right].
    unfold kappend in H. destruct (kmem a s); [now left|].
    apply in_app_or in H. destruct H as [H|[H|[]]]; [now left | right; now left].
  Qed.
  Lemma kfold_keeps l : forall s x, In x s -> In x (fold_left kappend l s).
  Proof.
    induction l as [|a l IH]; intros s x H; cbn [fold_left]; [exact H|].
    apply IH. unfold kappend. destruct (kmem a s); [exact H | apply in_or_app; now left].
  Qed.
  Lemma kbuild_incl l x : In x (kbuild l) -> In x l.
  Proof. intros H. apply kfold_incl in H. destruct H as [[]|H]; exact H. Qed.

  (* every supplied member is REPRESENTED: some member with the same key is in the set *)
  Lemma kfold_represented l : forall s x, In x l -> exists y, In y (fold_left kappend l s) /\ key y = key x.
  Proof.
    induction l as [|a l IH]; intros s x H; [destruct H|].
    cbn [fold_left]. destruct H as [->|H]; [|now apply IH].
    unfold kappend. destruct (kmem x s) eqn:M.
    - apply kmem_In in M. destruct M as [y [H1 H2]]. exists y. split; [now apply kfold_keeps | exact H2].
    - exists x. split; [apply kfold_keeps, in_or_app; right; now left | reflexivity].
  Qed.

  (* no two members of the set share a key, whatever the key function (this is what "set" means for OrderedSet) *)
  Lemma kfold_nodup_keys l : forall s, NoDup (map key s) -> NoDup (map key (fold_left kappend l s)).
  Proof.
    induction l as [|a l IH]; intros s N; cbn [fold_left]; [exact N|].
    apply IH. unfold kappend. destruct (kmem a s) eqn:M; [exact N|].
    rewrite map_app. cbn [map]. apply NoDup_app_one; [exact N|].
    intros H. apply in_map_iff in H. destruct H as [y [H1 H2]].
    assert (kmem a s = true) by (apply kmem_In; now exists y). congruence.
  Qed.
  Theorem kbuild_nodup_keys l : NoDup (map key (kbuild l)).
  Proof. apply kfold_nodup_keys. constructor. Qed.

  (* THE statement the builder models rely on: with a key that is injective on what is supplied, every supplied member is
     a member of the set *)
  Theorem kbuild_complete l : injective_on l -> forall x, In x l -> In x (kbuild l).
  Proof.
    intros Inj x Hx. destruct (kfold_represented l [] x Hx) as [y [H1 H2]].
    assert (y = x) as ->; [|exact H1].
    apply Inj; auto. now apply kbuild_incl.
  Qed.

  (* ... and the keyed set IS the set by equality (same members, same order) *)
  Lemma kmem_emem s x : injective_on (x :: s) -> kmem x s = emem x s.
  Proof.
    intros Inj. destruct (emem x s) eqn:E.
    - apply emem_In in E. apply kmem_In. exists x. now split.
    - destruct (kmem x s) eqn:M; [|reflexivity].
      apply kmem_In in M. destruct M as [y [H1 H2]].
      assert (y = x) as -> by (apply Inj; [now right | now left | exact H2]).
      apply emem_In in H1. congruence.
  Qed.
  Lemma kfold_efold l : forall s, injective_on (s ++ l) -> fold_left kappend l s = fold_left eappend l s.
  Proof.
    induction l as [|a l IH]; intros s Inj; cbn [fold_left]; [reflexivity|].
    assert (E : kappend s a = eappend s a).
    { unfold kappend, eappend. rewrite kmem_emem; [reflexivity|].
      intros x y Hx Hy. apply Inj; apply in_or_app.
      - destruct Hx as [<-|Hx]; [right; now left | now left].
      - destruct Hy as [<-|Hy]; [right; now left | now left]. }
    rewrite E. apply IH.
    intros x y Hx Hy. apply Inj.
    - unfold eappend in Hx. destruct (emem a s).
      + apply in_app_or in Hx. apply in_or_app. destruct Hx; [now left | right; now right].
      + rewrite <- app_assoc in Hx. exact Hx.
    - unfold eappend in Hy. destruct (emem a s).
      + apply in_app_or in Hy. apply in_or_app. destruct Hy; [now left | right; now right].
      + rewrite <- app_assoc in Hy. exact Hy.
  Qed.
  Theorem kbuild_ebuild l : injective_on l -> kbuild l = ebuild l.
  Proof. intros Inj. apply kfold_efold. exact Inj. Qed.

  (* a decision procedure for the hypothesis, on a table of members with their keys *)
  Fixpoint inj_from (x : A) (l : list A) : bool :=
    match l with
    | [] => true
    | y :: r => (negb (keqb (key x) (key y)) || aeqb x y) && inj_from x r
    end.
  Fixpoint injectiveb (l : list A) : bool :=
    match l with
    | [] => true
    | x :: r => inj_from x r && injectiveb r
    end.
  Lemma inj_from_sound x l : inj_from x l = true -> forall y, In y l -> key x = key y -> x = y.
  Proof.
    induction l as [|a l IH]; intros H y Hy E; [destruct Hy|].
    cbn [inj_from] in H. apply andb_true_iff in H as [H1 H2].
    destruct Hy as [->|Hy]; [|now apply IH].
    apply orb_true_iff in H1. destruct H1 as [H1|H1]; [|now apply aeqb_eq].
    apply negb_true_iff in H1. assert (keqb (key x) (key y) = true) by now apply keqb_eq. congruence.
  Qed.
  Theorem injectiveb_sound l : injectiveb l = true -> injective_on l.
  Proof.
    induction l as [|a l IH]; intros H x y Hx Hy E; [destruct Hx|].
    cbn [injectiveb] in H. apply andb_true_iff in H as [H1 H2].
    destruct Hx as [->|Hx], Hy as [->|Hy]; auto.
    - now apply (inj_from_sound x l).
    - symmetry. now apply (inj_from_sound y l).
    - now apply IH.
  Qed.
End KeyedSet.

(* what a key that is NOT injective does: a supplied member disappears.  Keys = the first and the last digit of a
   three-digit number (an "abbreviated" printout): 101 and 111 print alike. *)
Definition abbrev (n : nat) : nat * nat := (Nat.div n 100, Nat.modulo n 10).
Definition pair_eqb (a b : nat * nat) : bool := Nat.eqb (fst a) (fst b) && Nat.eqb (snd a) (snd b).
Theorem kbuild_drops_refuted :
  exists l x, In x l /\ ~ In x (kbuild nat (nat * nat) abbrev pair_eqb l).
Proof.
  exists [101; 111], 111. split; [right; now left|].
  vm_compute. intros [H|[]]. discriminate.
Qed.
