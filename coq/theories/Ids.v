(* Ids.v — C17: identifiers are the specified BLAKE2b digests of the exact bytes.
   SPECIFICATION and MODEL only (proofs: IdsProofs.v, oracle/glue: IdsOracle.v).

   BLAKE2b is abstract: inside the Sections  H n m  is "BLAKE2b with digest size n over message m".
   Nothing about H is assumed here; collision-freeness appears only as a hypothesis of the
   separation / binding theorems (IdsProofs.v).

   Part 1 (SPEC): what the Cardano ledger / CIP-14 define (Shelley/Alonzo/Babbage/Conway CDDL:
     transaction id = blake2b-256 of the body bytes, datum hash / auxiliary data hash = blake2b-256 of
     the item's bytes, key hash = blake2b-224 of the 32-byte Ed25519 key, script hash = blake2b-224 of
     a language byte (0 native, 1..3 Plutus V1..V3) followed by the script bytes, policy id = script
     hash, Shelley address = header byte ++ payment credential ++ staking part, CIP-14 fingerprint =
     bech32 "asset" (blake2b-160 (policy id ++ asset name))).
   Part 2 (MODEL): what pycardano computes, written against a record of constants (`cfg`) that the
     translator (tools/props/c17.py: regen) re-extracts from the CURRENT source into
     coq/gen/IdsGen.v; props/C17.v proves the extracted record equal to `spec_cfg`. *)
From Coq Require Import NArith ZArith Ascii String List Bool.
From Coq Require Import Init.Byte.
From PyC Require Import Base Cbor.
Import ListNotations.
Open Scope N_scope.

(* ------------------------------------------------------------------------------------------ *)
(* objects                                                                                    *)
(* ------------------------------------------------------------------------------------------ *)

(* native (multisig / timelock) scripts, nested *)
Inductive nscript :=
| NPubkey (kh : bytes)                 (* ScriptPubkey      [0, addr_keyhash]        *)
| NAll (l : list nscript)              (* ScriptAll         [1, [* native_script]]   *)
| NAny (l : list nscript)              (* ScriptAny         [2, [* native_script]]   *)
| NNofK (n : N) (l : list nscript)     (* ScriptNofK        [3, n, [* native_script]] *)
| NBefore (slot : N)                   (* InvalidBefore     [4, slot]                *)
| NAfter (slot : N).                   (* InvalidHereAfter  [5, slot]                *)

Inductive pver := V1 | V2 | V3.
Inductive script :=
| SNative (s : nscript)
| SPlutus (v : pver) (b : bytes).

(* induction principle for the nested type (the automatically generated one has no hypothesis
   for the scripts inside the lists) *)
Section NInd.
  Variable P : nscript -> Prop.
  Hypothesis HP : forall kh, P (NPubkey kh).
  Hypothesis HAll : forall l, Forall P l -> P (NAll l).
  Hypothesis HAny : forall l, Forall P l -> P (NAny l).
  Hypothesis HNofK : forall n l, Forall P l -> P (NNofK n l).
  Hypothesis HB : forall s, P (NBefore s).
  Hypothesis HA : forall s, P (NAfter s).
  Fixpoint nscript_ind' (s : nscript) : P s :=
    let go := fix go (l : list nscript) : Forall P l :=
                match l with [] => Forall_nil _ | y :: r => Forall_cons _ (nscript_ind' y) (go r) end in
    match s with
    | NPubkey kh => HP kh
    | NAll l => HAll l (go l)
    | NAny l => HAny l (go l)
    | NNofK n l => HNofK n l (go l)
    | NBefore sl => HB sl
    | NAfter sl => HA sl
    end.
End NInd.

(* ------------------------------------------------------------------------------------------ *)
(* Part 1: SPECIFICATION                                                                      *)
(* ------------------------------------------------------------------------------------------ *)

(* CDDL native_script as a CBOR data item *)
Fixpoint native_cbor (s : nscript) : cbor :=
  match s with
  | NPubkey kh => CA [CU 0; CB kh]
  | NAll l => CA [CU 1; CA (map native_cbor l)]
  | NAny l => CA [CU 2; CA (map native_cbor l)]
  | NNofK n l => CA [CU 3; CU n; CA (map native_cbor l)]
  | NBefore sl => CA [CU 4; CU sl]
  | NAfter sl => CA [CU 5; CU sl]
  end.
Definition enc_native (s : nscript) : bytes := enc (native_cbor s).

Definition pver_byte (v : pver) : byte := match v with V1 => x01 | V2 => x02 | V3 => x03 end.
Definition native_byte : byte := x00.

(* language tag byte and the bytes that follow it *)
Definition lang_byte (s : script) : byte :=
  match s with SNative _ => native_byte | SPlutus v _ => pver_byte v end.
Definition script_bytes (s : script) : bytes :=
  match s with SNative n => enc_native n | SPlutus _ b => b end.
Definition script_pre (s : script) : bytes := lang_byte s :: script_bytes s.

(* staking part of a Shelley address whose payment part is a script hash *)
Inductive stake_part :=
| StNone                       (* enterprise: header 0111 *)
| StKey (h : bytes)            (* header 0001 *)
| StScript (h : bytes)         (* header 0011 *)
| StPointer (p : bytes).       (* header 0101, p = the encoded pointer *)
Definition script_addr_type (st : stake_part) : N :=
  match st with StKey _ => 1 | StScript _ => 3 | StPointer _ => 5 | StNone => 7 end.
Definition stake_bytes (st : stake_part) : bytes :=
  match st with StNone => [] | StKey h | StScript h | StPointer h => h end.
(* net: 0 = testnet, 1 = mainnet *)
Definition script_address_hdr (net : N) (st : stake_part) : byte := n2b (script_addr_type st * 16 + net).

Section Spec.
  Variable H : nat -> bytes -> bytes.                (* BLAKE2b, first argument = digest size in bytes *)
  Variable bech32 : string -> bytes -> string.       (* bech32 (hrp, data bytes) *)

  Definition tx_id (body_bytes : bytes) : bytes := H 32 body_bytes.
  Definition datum_hash (d : cbor) : bytes := H 32 (enc d).
  Definition aux_hash (a : cbor) : bytes := H 32 (enc a).
  Definition key_hash (vk : bytes) : bytes := H 28 (firstn 32 vk).
  Definition native_script_hash (s : nscript) : bytes := H 28 (x00 :: enc_native s).
  Definition plutus_script_hash (v : pver) (s : bytes) : bytes := H 28 (pver_byte v :: s).
  Definition script_hash (s : script) : bytes :=
    match s with
    | SNative n => native_script_hash n
    | SPlutus v b => plutus_script_hash v b
    end.
  Definition policy_id (s : script) : bytes := script_hash s.
  Definition script_address (net : N) (h : bytes) (st : stake_part) : bytes :=
    script_address_hdr net st :: h ++ stake_bytes st.
  Definition fingerprint (p n : bytes) : string := bech32 "asset" (H 20 (p ++ n)).
End Spec.

(* ------------------------------------------------------------------------------------------ *)
(* Part 2: MODEL of the code                                                                  *)
(* ------------------------------------------------------------------------------------------ *)

(* constants of the source the identifiers depend on *)
Record cfg := {
  c_tx_size : nat;            (* transaction.py TransactionBody.hash : blake2b(self.to_cbor(), <this>)        *)
  c_datum_size : nat;         (* plutus.py datum_hash                                                          *)
  c_aux_size : nat;           (* metadata.py AuxiliaryData.hash                                                *)
  c_key_size : nat;           (* key.py VerificationKey.hash                                                   *)
  c_nscript_size : nat;       (* nativescript.py NativeScript.hash                                             *)
  c_pscript_size : nat;       (* plutus.py script_hash, PlutusScript branch                                    *)
  c_rscript_size : nat;       (* plutus.py script_hash, `type(script) is bytes` branch                         *)
  c_pref_native : bytes;      (* nativescript.py NativeScript.hash : <this> + cbor_bytes                       *)
  c_pref_v1 : bytes;          (* PlutusV1Script.get_script_hash_prefix                                         *)
  c_pref_v2 : bytes;
  c_pref_v3 : bytes;
  c_pref_raw : bytes;         (* script_hash(bytes) : <this> + script                                          *)
  c_ext_cut : nat;            (* key.py ExtendedVerificationKey.to_non_extended : payload[:<this>]             *)
  c_ntypes : list N;          (* _TYPE of ScriptPubkey, ScriptAll, ScriptAny, ScriptNofK, InvalidBefore, InvalidHereAfter *)
  c_fp_size : nat;            (* cip14.py digest_size                                                          *)
  c_fp_hrp : string;          (* cip14.py encode(<this>, ...)                                                  *)
  c_fp_policy_first : bool;   (* cip14.py blake2b(policy_id + asset_name) (true) / the other order (false)     *)
  c_addr_types : list N;      (* address.py AddressType SCRIPT_KEY, SCRIPT_SCRIPT, SCRIPT_POINTER, SCRIPT_NONE *)
  c_nets : list N;            (* network.py Network TESTNET, MAINNET                                           *)
  c_aux_falsy_when_empty : bool; (* AuxiliaryData defines __len__/__bool__ (it does not): matters for
                                    `self.auxiliary_data.hash() if self.auxiliary_data else None`              *)
  c_memo_body_id : bool;      (* transaction.py TransactionBody.id is a @cached_property (true) / a plain @property
                                 (false): a memoised accessor keeps answering with the value of its FIRST evaluation
                                 on that object (IdsSeq.v)                                                        *)
  c_memo_tx_id : bool         (* the same for Transaction.id                                                    *)
}.

Definition spec_cfg : cfg := {|
  c_tx_size := 32; c_datum_size := 32; c_aux_size := 32; c_key_size := 28;
  c_nscript_size := 28; c_pscript_size := 28; c_rscript_size := 28;
  c_pref_native := [x00]; c_pref_v1 := [x01]; c_pref_v2 := [x02]; c_pref_v3 := [x03]; c_pref_raw := [x01];
  c_ext_cut := 32;
  c_ntypes := [0; 1; 2; 3; 4; 5];
  c_fp_size := 20; c_fp_hrp := "asset"; c_fp_policy_first := true;
  c_addr_types := [1; 3; 5; 7]; c_nets := [0; 1];
  c_aux_falsy_when_empty := false;
  c_memo_body_id := false; c_memo_tx_id := false |}.

(* ---- the generic array serializer on the objects at hand ----
   ArrayCBORSerializable.to_shallow_primitive returns the dataclass field values in declaration order
   (`_TYPE` first); CBORSerializable.to_primitive._dfs recurses into lists and nested serializables;
   cbor2 then encodes Python ints, bytes and lists.  `prim` is that Python-side tree. *)
Inductive prim :=
| PInt (z : Z)
| PBytes (b : bytes)
| PList (l : list prim).

Fixpoint prim_cbor (p : prim) : cbor :=
  match p with
  | PInt z => if (z <? 0)%Z then CN (Z.to_N (-1 - z)) else CU (Z.to_N z)
  | PBytes b => CB b
  | PList l => CA (map prim_cbor l)
  end.

Definition ntype (c : cfg) (i : nat) : Z := Z.of_N (nth i (c_ntypes c) 255).

Fixpoint m_native_prim (c : cfg) (s : nscript) : prim :=
  match s with
  | NPubkey kh => PList [PInt (ntype c 0); PBytes kh]
  | NAll l => PList [PInt (ntype c 1); PList (map (m_native_prim c) l)]
  | NAny l => PList [PInt (ntype c 2); PList (map (m_native_prim c) l)]
  | NNofK n l => PList [PInt (ntype c 3); PInt (Z.of_N n); PList (map (m_native_prim c) l)]
  | NBefore sl => PList [PInt (ntype c 4); PInt (Z.of_N sl)]
  | NAfter sl => PList [PInt (ntype c 5); PInt (Z.of_N sl)]
  end.
(* NativeScript.to_cbor() *)
Definition m_native_bytes (c : cfg) (s : nscript) : bytes := enc (prim_cbor (m_native_prim c s)).

(* what script_hash() accepts: a NativeScript, a PlutusV1/V2/V3Script, or plain `bytes` *)
Inductive mscript :=
| MNative (s : nscript)
| MPlutus (v : pver) (b : bytes)
| MRaw (b : bytes).
(* the script a value of that union denotes: plain bytes are documented to be a Plutus V1 script *)
Definition as_script (m : mscript) : script :=
  match m with MNative s => SNative s | MPlutus v b => SPlutus v b | MRaw b => SPlutus V1 b end.

Definition m_pref (c : cfg) (v : pver) : bytes :=
  match v with V1 => c_pref_v1 c | V2 => c_pref_v2 c | V3 => c_pref_v3 c end.

(* every identifier-carrying object *)
Inductive obj :=
| OTxBody (body : cbor)            (* TransactionBody.hash / .id, Transaction.id      *)
| ODatum (d : cbor)                (* plutus.datum_hash                                *)
| OAux (a : cbor)                  (* AuxiliaryData.hash                               *)
| OKey (payload : bytes)           (* VerificationKey.hash                             *)
| OExtKey (payload : bytes)        (* ExtendedVerificationKey.hash                     *)
| OScript (m : mscript)            (* script_hash / plutus_script_hash / NativeScript.hash; policy id *)
| OAsset (p n : bytes).            (* cip14.encode_asset: the digest inside the fingerprint *)

(* (digest size, preimage) the code uses *)
Definition m_pre (c : cfg) (o : obj) : nat * bytes :=
  match o with
  | OTxBody b => (c_tx_size c, enc b)
  | ODatum d => (c_datum_size c, enc d)
  | OAux a => (c_aux_size c, enc a)
  | OKey p => (c_key_size c, p)
  | OExtKey p => (c_key_size c, firstn (c_ext_cut c) p)            (* VerificationKey(self.payload[:32]).hash() *)
  | OScript (MNative s) => (c_nscript_size c, c_pref_native c ++ m_native_bytes c s)
  | OScript (MPlutus v b) => (c_pscript_size c, m_pref c v ++ b)
  | OScript (MRaw b) => (c_rscript_size c, c_pref_raw c ++ b)
  | OAsset p n => (c_fp_size c, if c_fp_policy_first c then p ++ n else n ++ p)
  end.

(* (digest size, preimage) the specification prescribes *)
Definition spec_pre (o : obj) : nat * bytes :=
  match o with
  | OTxBody b => (32%nat, enc b)
  | ODatum d => (32%nat, enc d)
  | OAux a => (32%nat, enc a)
  | OKey p | OExtKey p => (28%nat, firstn 32 p)
  | OScript m => (28%nat, script_pre (as_script m))
  | OAsset p n => (20%nat, p ++ n)
  end.

(* objects on which the code is used as intended: an ordinary verification key is 32 bytes
   (VerificationKey.hash hashes the whole payload whatever its length) *)
Definition obj_ok (o : obj) : Prop :=
  match o with
  | OKey p => (length p <= 32)%nat
  | _ => True
  end.

Section Model.
  Variable c : cfg.
  Variable H : nat -> bytes -> bytes.
  Variable bech32 : string -> bytes -> string.

  Definition m_id (o : obj) : bytes := H (fst (m_pre c o)) (snd (m_pre c o)).
  Definition m_script_hash (m : mscript) : bytes := m_id (OScript m).
  Definition m_key_hash (p : bytes) : bytes := m_id (OKey p).
  Definition m_key_hash_ext (p : bytes) : bytes := m_id (OExtKey p).
  Definition m_to_non_extended (p : bytes) : bytes := firstn (c_ext_cut c) p.
  Definition m_fingerprint (p n : bytes) : string := bech32 (c_fp_hrp c) (m_id (OAsset p n)).

  (* Address(ScriptHash h, staking, network): __bytes__ = header_byte + payment + staking *)
  Definition m_script_address (net_ix : nat) (h : bytes) (st : stake_part) : bytes :=
    let ty := match st with
              | StKey _ => nth 0 (c_addr_types c) 255 | StScript _ => nth 1 (c_addr_types c) 255
              | StPointer _ => nth 2 (c_addr_types c) 255 | StNone => nth 3 (c_addr_types c) 255
              end in
    n2b (N.lor (N.shiftl ty 4) (nth net_ix (c_nets c) 255)) :: h ++ stake_bytes st.

  (* ---------------- the gate in TransactionBuilder.add_script_input ---------------- *)
  (* `if x:` on a script: a NativeScript object is always true, a PlutusScript / bytes is true iff non-empty *)
  Definition truthy (m : mscript) : bool :=
    match m with MNative _ => true | MPlutus _ b | MRaw b => match b with [] => false | _ => true end end.

  Record uref := { r_id : N;                      (* identity of a UTxO (its transaction input) *)
                   r_script : option mscript }.   (* output.script *)
  Record sinput := {
    i_id : N;
    i_script_addr : bool;              (* address_type.name.startswith("SCRIPT") *)
    i_pay : bytes;                     (* output.address.payment_part *)
    i_script : option mscript;         (* output.script (script on the UTxO itself) *)
    i_datum_hash : option bytes;       (* output.datum_hash *)
    i_inline_datum : bool }.           (* output.datum is not None *)
  Inductive offer :=
  | OffNone                            (* script=None *)
  | OffScript (m : mscript)            (* script=<NativeScript | PlutusScript | bytes> *)
  | OffRef (r : uref).                 (* script=<UTxO> (reference script) *)

  Inductive gate_res :=
  | GRefuse
  | GAccept (m : mscript) (ref_input : option N).   (* _inputs_to_scripts[utxo] = m; reference input added *)

  Definition opt_truthy (o : option mscript) : bool :=
    match o with Some m => truthy m | None => false end.

  (* `for i in self.context.utxos(utxo.output.address): if i.output.script: ...` *)
  Definition ctx_cands (ctx : list uref) : list (mscript * option N) :=
    flat_map (fun r => match r_script r with
                       | Some s => if truthy s then [(s, Some (r_id r))] else []
                       | None => [] end) ctx.
  (* the elif chain on the `script` argument; None = InvalidArgumentException (reference UTxO without script) *)
  Definition offered (off : offer) (ctx : list uref) : option (list (mscript * option N)) :=
    match off with
    | OffNone => Some (ctx_cands ctx)
    | OffScript s => if truthy s then Some [(s, None)] else Some (ctx_cands ctx)      (* `elif not script:` *)
    | OffRef r => match r_script r with Some s => Some [(s, Some (r_id r))] | None => None end
    end.
  (* candidate_scripts *)
  Definition candidates (u : sinput) (off : offer) (ctx : list uref) : option (list (mscript * option N)) :=
    match i_script u with
    | Some m => if truthy m then Some [(m, Some (i_id u))] else offered off ctx
    | None => offered off ctx
    end.

  (* the datum checks in front of the script loop *)
  Definition datum_ok (u : sinput) (dat : option cbor) : bool :=
    match dat with
    | None => true
    | Some d =>
        match i_datum_hash u with
        | Some dh => bytes_eqb dh (m_id (ODatum d))
        | None => negb (i_inline_datum u)
        end
    end.

  Definition gate (u : sinput) (off : offer) (dat : option cbor) (ctx : list uref) : gate_res :=
    if negb (i_script_addr u) then GRefuse
    else if negb (datum_ok u dat) then GRefuse
    else match candidates u off ctx with
         | None => GRefuse
         | Some cs =>
             match find (fun cu => bytes_eqb (m_script_hash (fst cu)) (i_pay u)) cs with
             | Some (m, r) =>
                 GAccept m (match r with
                            | Some id => if id =? i_id u then None else Some id
                            | None => None end)
             | None => GRefuse
             end
         end.

  (* ---------------- _build_tx_body / build_and_sign: auxiliary data ---------------- *)
  Definition cbor_empty (a : cbor) : bool :=
    match a with CM [] | CA [] => true | _ => false end.
  Record built := { b_aux_field : option bytes;      (* body.auxiliary_data_hash *)
                    b_aux_shipped : option cbor }.   (* Transaction(..., auxiliary_data=self.auxiliary_data) *)
  Definition m_build (aux : option cbor) : built :=
    {| b_aux_field := match aux with
                      | Some a => if c_aux_falsy_when_empty c && cbor_empty a then None
                                  else Some (m_id (OAux a))
                      | None => None end;
       b_aux_shipped := aux |}.
End Model.

(* ------------------------------------------------------------------------------------------ *)
(* Part 3: byte-level walker (used by the oracle to cut items out of the library's bytes)     *)
(* ------------------------------------------------------------------------------------------ *)
(* k consecutive data items starting at r, each with the exact bytes it occupies *)
Fixpoint items (fuel k : nat) (r : bytes) : option (list (cbor * bytes) * bytes) :=
  match k with
  | O => Some ([], r)
  | S k' =>
      match dec fuel r with
      | Some (x, rest) =>
          match items fuel k' rest with
          | Some (l, rr) => Some ((x, firstn (length r - length rest) r) :: l, rr)
          | None => None
          end
      | None => None
      end
  end.

Definition walk_fuel (bs : bytes) : nat := (3 * length bs + 3)%nat.

(* a definite-length array: its items and their byte slices; nothing may follow the array *)
Definition array_items (bs : bytes) : option (list (cbor * bytes)) :=
  match bs with
  | [] => None
  | h :: r =>
      if (b2n h / 32 =? 4) && negb (b2n h mod 32 =? 31) then
        match dec_arg (b2n h mod 32) r with
        | Some (n, r1) =>
            match items (walk_fuel bs) (N.to_nat n) r1 with
            | Some (l, []) => Some l
            | _ => None
            end
        | None => None
        end
      else None
  end.

Fixpoint pair_up {A} (l : list A) : list (A * A) :=
  match l with
  | a :: b :: r => (a, b) :: pair_up r
  | _ => []
  end.

(* a definite-length map: (key, key bytes), (value, value bytes) *)
Definition map_items (bs : bytes) : option (list ((cbor * bytes) * (cbor * bytes))) :=
  match bs with
  | [] => None
  | h :: r =>
      if (b2n h / 32 =? 5) && negb (b2n h mod 32 =? 31) then
        match dec_arg (b2n h mod 32) r with
        | Some (n, r1) =>
            match items (walk_fuel bs) (2 * N.to_nat n) r1 with
            | Some (l, []) => Some (pair_up l)
            | _ => None
            end
        | None => None
        end
      else None
  end.
