(* IdsProofs.v — proofs for C17 (model and specification: Ids.v). No axioms. *)
From Coq Require Import NArith ZArith Ascii String List Bool Lia.
From Coq Require Import Init.Byte.
From PyC Require Import Base Cbor CborProofs Ids.
Import ListNotations.
Open Scope N_scope.

(* ------------------------------------------------------------------------------------------ *)
(* collision-freeness: a HYPOTHESIS of the separation / binding theorems only                 *)
(* ------------------------------------------------------------------------------------------ *)
Definition H_inj (H : nat -> bytes -> bytes) (n : nat) : Prop := forall a b, H n a = H n b -> a = b.
(* an explicit collision of H at digest size n *)
Definition collision (H : nat -> bytes -> bytes) (n : nat) (a b : bytes) : Prop := a <> b /\ H n a = H n b.

Example H_inj_satisfiable : forall n, H_inj (fun _ m => m) n.
Proof. intros n a b E. exact E. Qed.

(* ------------------------------------------------------------------------------------------ *)
(* the generic array serializer yields the CDDL form of a native script                       *)
(* ------------------------------------------------------------------------------------------ *)
Lemma prim_cbor_nat n : prim_cbor (PInt (Z.of_N n)) = CU n.
Proof.
  cbn [prim_cbor]. destruct (Z.of_N n <? 0)%Z eqn:E; [apply Z.ltb_lt in E; lia|].
  now rewrite N2Z.id.
Qed.

Lemma map_ext_Forall {A B} (f g : A -> B) l : Forall (fun x => f x = g x) l -> map f l = map g l.
Proof. induction 1 as [|x l Hx _ IH]; cbn; [reflexivity|]. now rewrite Hx, IH. Qed.

Lemma prim_cbor_list l : prim_cbor (PList l) = CA (map prim_cbor l).
Proof. reflexivity. Qed.
Lemma prim_cbor_type i : (i < 6)%nat -> prim_cbor (PInt (ntype spec_cfg i)) = CU (N.of_nat i).
Proof. intros L. do 6 (destruct i as [|i]; [reflexivity|]). lia. Qed.

Lemma native_prim_spec : forall s, prim_cbor (m_native_prim spec_cfg s) = native_cbor s.
Proof.
  induction s as [kh|l IH|l IH|n l IH|sl|sl] using nscript_ind';
    cbn [m_native_prim native_cbor]; rewrite prim_cbor_list; cbn [map];
    rewrite ?prim_cbor_list, ?prim_cbor_nat, ?map_map, ?prim_cbor_type by lia;
    rewrite ?(map_ext_Forall _ _ _ IH); reflexivity.
Qed.

Lemma native_bytes_spec s : m_native_bytes spec_cfg s = enc_native s.
Proof. unfold m_native_bytes, enc_native. now rewrite native_prim_spec. Qed.

(* ------------------------------------------------------------------------------------------ *)
(* model preimage = specified preimage                                                        *)
(* ------------------------------------------------------------------------------------------ *)
Definition spec_id (H : nat -> bytes -> bytes) (o : obj) : bytes :=
  match o with
  | OTxBody b => tx_id H (enc b)
  | ODatum d => datum_hash H d
  | OAux a => aux_hash H a
  | OKey p | OExtKey p => key_hash H p
  | OScript m => script_hash H (as_script m)
  | OAsset p n => H 20%nat (p ++ n)
  end.

Lemma spec_id_pre H o : spec_id H o = H (fst (spec_pre o)) (snd (spec_pre o)).
Proof. destruct o as [b|d|a|p|p|[s|v b|b]|p n]; reflexivity. Qed.

Lemma m_pre_spec : forall o, obj_ok o -> m_pre spec_cfg o = spec_pre o.
Proof.
  intros [b|d|a|p|p|[s|v b|b]|p n] Hok; cbn [m_pre spec_pre]; try reflexivity.
  - cbn in Hok. cbn [c_key_size spec_cfg]. now rewrite firstn_all2 by exact Hok.
  - cbn [c_nscript_size c_pref_native spec_cfg]. rewrite native_bytes_spec. reflexivity.
  - destruct v; reflexivity.
Qed.

Lemma preimages c : c = spec_cfg -> forall H o, obj_ok o ->
  m_pre c o = spec_pre o /\ m_id c H o = spec_id H o.
Proof.
  intros -> H o Hok. split; [now apply m_pre_spec|].
  unfold m_id. rewrite m_pre_spec by exact Hok. symmetry. apply spec_id_pre.
Qed.

Example preimages_nonvacuous :
  obj_ok (OKey (repeat x07 32)) /\ obj_ok (OScript (MNative (NAll [NPubkey (repeat x01 28); NNofK 1 [NBefore 5; NAfter 9]]))).
Proof. split; cbn; [lia|exact I]. Qed.

(* the premise obj_ok is needed: a plain VerificationKey object holding more than 32 bytes (e.g. the CBOR of an
   extended key loaded through the non-extended class) is hashed whole by the code, which is NOT the specified key hash *)
Lemma preimages_key_premise_needed :
  exists (H : nat -> bytes -> bytes) (p : bytes), length p = 64%nat /\ m_id spec_cfg H (OKey p) <> spec_id H (OKey p).
Proof. exists (fun _ m => m), (repeat x2a 64). split; [reflexivity|]. cbv. discriminate. Qed.

(* script hashes: no premise is needed *)
Lemma m_script_hash_spec c : c = spec_cfg -> forall H m, m_script_hash c H m = script_hash H (as_script m).
Proof. intros E H m. unfold m_script_hash. now destruct (preimages c E H (OScript m) I). Qed.

(* ------------------------------------------------------------------------------------------ *)
(* extended verification keys                                                                 *)
(* ------------------------------------------------------------------------------------------ *)
Lemma key_hash_ext c : c = spec_cfg -> forall H vk,
  m_key_hash_ext c H vk = m_key_hash c H (m_to_non_extended c vk)          (* what the code does *)
  /\ m_key_hash_ext c H vk = key_hash H (firstn 32 vk)                     (* = hash of the non-extended key *)
  /\ m_key_hash_ext c H vk = key_hash H vk.                                (* = specified hash of the 64-byte key *)
Proof.
  intros -> H vk. unfold m_key_hash_ext, m_key_hash, m_to_non_extended, m_id, key_hash.
  cbn [m_pre fst snd c_key_size c_ext_cut spec_cfg].
  rewrite firstn_firstn. change (Nat.min 32 32) with 32%nat. auto.
Qed.

(* ------------------------------------------------------------------------------------------ *)
(* injectivity of the native-script encoder                                                   *)
(* ------------------------------------------------------------------------------------------ *)
Lemma map_inj_Forall {A B} (f : A -> B) l : Forall (fun x => forall y, f x = f y -> x = y) l ->
  forall l', map f l = map f l' -> l = l'.
Proof.
  induction 1 as [|x l Hx _ IH]; intros [|y l'] E; cbn in E; try discriminate; [reflexivity|].
  inversion E as [[E1 E2]]. f_equal; [now apply Hx | now apply IH].
Qed.

Lemma native_cbor_inj : forall s1 s2, native_cbor s1 = native_cbor s2 -> s1 = s2.
Proof.
  induction s1 as [kh|l IH|l IH|n l IH|sl|sl] using nscript_ind'; intros [kh'|l'|l'|n' l'|sl'|sl'] E;
    cbn in E; try discriminate; inversion E; subst; try reflexivity.
  - f_equal. now apply (map_inj_Forall native_cbor l IH).
  - f_equal. now apply (map_inj_Forall native_cbor l IH).
  - f_equal. now apply (map_inj_Forall native_cbor l IH).
Qed.

(* sizes a definite-length CBOR head can express: every integer and every length below 2^64 *)
Fixpoint nwf (s : nscript) : Prop :=
  let all := fix all (l : list nscript) : Prop := match l with [] => True | y :: r => nwf y /\ all r end in
  match s with
  | NPubkey kh => lenN kh < two64
  | NAll l | NAny l => lenN l < two64 /\ all l
  | NNofK n l => n < two64 /\ lenN l < two64 /\ all l
  | NBefore sl | NAfter sl => sl < two64
  end.
Definition nwf_all (l : list nscript) : Prop :=
  (fix all (l : list nscript) : Prop := match l with [] => True | y :: r => nwf y /\ all r end) l.

Lemma lenN_map {A B} (f : A -> B) l : lenN (map f l) = lenN l.
Proof. induction l as [|x l IH]; cbn [map lenN]; [reflexivity|now rewrite IH]. Qed.

Lemma wf_all_map l : Forall (fun s => nwf s -> wf (native_cbor s)) l -> nwf_all l -> wf_all (map native_cbor l).
Proof.
  induction 1 as [|x l Hx _ IH]; intros W; cbn; [exact I|].
  destruct W as [W1 W2]. split; [now apply Hx | now apply IH].
Qed.

Lemma two_lt : 2 < two64. Proof. reflexivity. Qed.
Lemma three_lt : 3 < two64. Proof. reflexivity. Qed.

Lemma nwf_wf : forall s, nwf s -> wf (native_cbor s).
Proof.
  induction s as [kh|l IH|l IH|n l IH|sl|sl] using nscript_ind'; intros W.
  - cbn in *. repeat split; try assumption; reflexivity.
  - destruct W as [W1 W2]. cbn [native_cbor wf]. split; [exact two_lt|].
    split; [reflexivity|]. split; [|exact I]. split; [now rewrite lenN_map|].
    apply (wf_all_map l IH W2).
  - destruct W as [W1 W2]. cbn [native_cbor wf]. split; [exact two_lt|].
    split; [reflexivity|]. split; [|exact I]. split; [now rewrite lenN_map|].
    apply (wf_all_map l IH W2).
  - destruct W as (W0 & W1 & W2). cbn [native_cbor wf]. split; [exact three_lt|].
    split; [reflexivity|]. split; [exact W0|]. split; [|exact I]. split; [now rewrite lenN_map|].
    apply (wf_all_map l IH W2).
  - cbn in *. repeat split; try assumption; reflexivity.
  - cbn in *. repeat split; try assumption; reflexivity.
Qed.

Lemma enc_native_inj s1 s2 : nwf s1 -> nwf s2 -> enc_native s1 = enc_native s2 -> s1 = s2.
Proof.
  intros W1 W2 E. apply native_cbor_inj. apply enc_inj; [now apply nwf_wf | now apply nwf_wf | exact E].
Qed.

Example nwf_nonvacuous : nwf (NAll [NPubkey (repeat x01 28); NNofK 1 [NBefore 5; NAfter 9]; NAny []]).
Proof. cbn. unfold two64. repeat split; lia. Qed.

(* ------------------------------------------------------------------------------------------ *)
(* separation of script hashes                                                                *)
(* ------------------------------------------------------------------------------------------ *)
Definition script_wf (s : script) : Prop := match s with SNative n => nwf n | SPlutus _ _ => True end.

(* the four language bytes are pairwise distinct, so the preimage determines the language *)
Lemma lang_bytes_distinct :
  native_byte <> pver_byte V1 /\ native_byte <> pver_byte V2 /\ native_byte <> pver_byte V3
  /\ pver_byte V1 <> pver_byte V2 /\ pver_byte V1 <> pver_byte V3 /\ pver_byte V2 <> pver_byte V3.
Proof. repeat split; discriminate. Qed.

Lemma script_pre_inj s1 s2 : script_wf s1 -> script_wf s2 -> script_pre s1 = script_pre s2 -> s1 = s2.
Proof.
  destruct s1 as [n1|v1 b1], s2 as [n2|v2 b2]; unfold script_pre; cbn [lang_byte script_bytes]; intros W1 W2 E.
  - inversion E as [E']. f_equal. now apply enc_native_inj.
  - destruct v2; discriminate.
  - destruct v1; discriminate.
  - inversion E as [[Ev Eb]]. destruct v1, v2; try discriminate; reflexivity.
Qed.

Lemma script_hash_pre H s : script_hash H s = H 28%nat (script_pre s).
Proof. destruct s; reflexivity. Qed.

(* unconditional form: two different scripts with one hash ARE a BLAKE2b-224 collision *)
Lemma separation_collision H s1 s2 : script_wf s1 -> script_wf s2 ->
  script_hash H s1 = script_hash H s2 -> s1 = s2 \/ collision H 28 (script_pre s1) (script_pre s2).
Proof.
  intros W1 W2 E. destruct (bytes_eq_dec (script_pre s1) (script_pre s2)) as [Ep|Ep].
  - left. now apply script_pre_inj.
  - right. split; [exact Ep|]. now rewrite <- !script_hash_pre.
Qed.

Lemma separation H : H_inj H 28 -> forall s1 s2, script_wf s1 -> script_wf s2 ->
  script_hash H s1 = script_hash H s2 -> s1 = s2.
Proof.
  intros Hi s1 s2 W1 W2 E. rewrite !script_hash_pre in E. apply Hi in E. now apply script_pre_inj.
Qed.

(* in particular: no cross-language and no native/Plutus confusion *)
Corollary separation_language H : H_inj H 28 -> forall s1 s2, script_wf s1 -> script_wf s2 ->
  script_hash H s1 = script_hash H s2 -> lang_byte s1 = lang_byte s2 /\ script_bytes s1 = script_bytes s2.
Proof. intros Hi s1 s2 W1 W2 E. now rewrite (separation H Hi s1 s2 W1 W2 E). Qed.

Example separation_nonvacuous :
  let H := fun (_ : nat) (m : bytes) => m in
  H_inj H 28 /\ script_wf (SNative (NAll [NBefore 7])) /\ script_wf (SPlutus V2 [x4d; x01])
  /\ script_hash H (SPlutus V2 [x4d; x01]) <> script_hash H (SPlutus V3 [x4d; x01]).
Proof.
  intros H. split; [intros a b E; exact E|]. split; [cbn; unfold two64; repeat split; lia|].
  split; [exact I|]. cbv. discriminate.
Qed.

(* ------------------------------------------------------------------------------------------ *)
(* the transaction id binds the body                                                          *)
(* ------------------------------------------------------------------------------------------ *)
Lemma tx_id_binds H : H_inj H 32 ->
  (forall b1 b2 : bytes, tx_id H b1 = tx_id H b2 -> b1 = b2)
  /\ (forall x y : cbor, wf x -> wf y -> tx_id H (enc x) = tx_id H (enc y) -> x = y).
Proof.
  intros Hi. split.
  - intros b1 b2 E. now apply Hi.
  - intros x y Wx Wy E. apply Hi in E. now apply enc_inj.
Qed.

Lemma tx_id_collision H (x y : cbor) : wf x -> wf y -> tx_id H (enc x) = tx_id H (enc y) ->
  x = y \/ collision H 32 (enc x) (enc y).
Proof.
  intros Wx Wy E. destruct (bytes_eq_dec (enc x) (enc y)) as [Ep|Ep].
  - left. now apply enc_inj.
  - right. now split.
Qed.

Lemma datum_hash_binds H : H_inj H 32 -> forall x y : cbor, wf x -> wf y -> datum_hash H x = datum_hash H y -> x = y.
Proof. intros Hi x y Wx Wy E. apply Hi in E. now apply enc_inj. Qed.

(* a fingerprint binds (policy id, asset name) when the policy id has its fixed length *)
Lemma app_inj_length {A} (a b c d : list A) : length a = length c -> a ++ b = c ++ d -> a = c /\ b = d.
Proof.
  revert c. induction a as [|x a IH]; intros [|y c] L E; cbn in *; try discriminate; [auto|].
  inversion E; subst. destruct (IH c) as [-> ->]; auto.
Qed.
Lemma fingerprint_binds H (bech32 : string -> bytes -> string) :
  H_inj H 20 -> (forall a b, bech32 "asset"%string a = bech32 "asset"%string b -> a = b) ->
  forall p n p' n', length p = 28%nat -> length p' = 28%nat ->
  fingerprint H bech32 p n = fingerprint H bech32 p' n' -> p = p' /\ n = n'.
Proof.
  intros Hi Bi p n p' n' L L' E. unfold fingerprint in E. apply Bi in E. apply Hi in E.
  apply app_inj_length; congruence.
Qed.

(* ------------------------------------------------------------------------------------------ *)
(* the gate of add_script_input                                                               *)
(* ------------------------------------------------------------------------------------------ *)
Lemma ctx_cands_in ctx m r : In (m, r) (ctx_cands ctx) ->
  exists rf, In rf ctx /\ r_script rf = Some m /\ truthy m = true /\ r = Some (r_id rf).
Proof.
  unfold ctx_cands. intros Hin. apply in_flat_map in Hin as (rf & Hrf & Hin).
  exists rf. destruct (r_script rf) as [s|] eqn:Es; [|contradiction].
  destruct (truthy s) eqn:Et; [|contradiction]. destruct Hin as [Hin|[]]. inversion Hin; subst. auto.
Qed.

(* where an accepted script can come from *)
Definition provenance (u : sinput) (off : offer) (ctx : list uref) (m : mscript) (r : option N) : Prop :=
  (i_script u = Some m /\ r = Some (i_id u))                                        (* the script on the UTxO itself *)
  \/ (off = OffScript m /\ r = None)                                                (* the script passed by the caller *)
  \/ (exists rf, off = OffRef rf /\ r_script rf = Some m /\ r = Some (r_id rf))     (* reference script UTxO *)
  \/ (exists rf, In rf ctx /\ r_script rf = Some m /\ r = Some (r_id rf)).          (* a UTxO at the address, from the chain context *)

Lemma offered_prov u off ctx cs m r : offered off ctx = Some cs -> In (m, r) cs -> provenance u off ctx m r.
Proof.
  unfold offered, provenance. destruct off as [|s|rf]; intros E Hin.
  - inversion E; subst. apply ctx_cands_in in Hin as (rf & ? & ? & ? & ?). right; right; right. eauto.
  - destruct (truthy s).
    + inversion E; subst. destruct Hin as [Hin|[]]. inversion Hin; subst. auto.
    + inversion E; subst. apply ctx_cands_in in Hin as (rf & ? & ? & ? & ?). right; right; right. eauto.
  - destruct (r_script rf) as [s|] eqn:Es; [|discriminate]. inversion E; subst.
    destruct Hin as [Hin|[]]. inversion Hin; subst. right; right; left. eauto.
Qed.

Lemma candidates_prov u off ctx cs m r : candidates u off ctx = Some cs -> In (m, r) cs -> provenance u off ctx m r.
Proof.
  unfold candidates. destruct (i_script u) as [s|] eqn:Es.
  - destruct (truthy s).
    + intros E Hin. inversion E; subst. destruct Hin as [Hin|[]]. inversion Hin; subst. left. auto.
    + apply offered_prov.
  - apply offered_prov.
Qed.

Lemma script_gate c : c = spec_cfg -> forall H u off dat ctx m ref,
  gate c H u off dat ctx = GAccept m ref ->
  script_hash H (as_script m) = i_pay u
  /\ i_script_addr u = true
  /\ (exists r, provenance u off ctx m r
                /\ ref = match r with Some id => if id =? i_id u then None else Some id | None => None end)
  /\ (forall d dh, dat = Some d -> i_datum_hash u = Some dh -> datum_hash H d = dh).
Proof.
  intros Ec H u off dat ctx m ref. unfold gate.
  destruct (i_script_addr u); cbn [negb]; [|discriminate].
  destruct (datum_ok c H u dat) eqn:Ed; cbn [negb]; [|discriminate].
  destruct (candidates u off ctx) as [cs|] eqn:Ecs; [|discriminate].
  destruct (find _ cs) as [[m' r]|] eqn:Ef; [|discriminate].
  intros E. inversion E; subst m' ref. clear E.
  apply find_some in Ef as [Hin Heq]. cbn [fst] in Heq. apply bytes_eqb_eq in Heq.
  rewrite (m_script_hash_spec c Ec) in Heq.
  split; [exact Heq|]. split; [reflexivity|]. split.
  - exists r. split; [now apply (candidates_prov u off ctx cs)|reflexivity].
  - intros d dh -> Edh. unfold datum_ok in Ed. rewrite Edh in Ed. apply bytes_eqb_eq in Ed.
    subst c. rewrite Ed. reflexivity.
Qed.

(* completeness, for the record: a candidate with the right hash is never refused for its hash *)
Lemma script_gate_complete c H u off dat ctx cs m r :
  i_script_addr u = true -> datum_ok c H u dat = true -> candidates u off ctx = Some cs ->
  In (m, r) cs -> m_script_hash c H m = i_pay u ->
  exists m' ref, gate c H u off dat ctx = GAccept m' ref.
Proof.
  intros Ea Ed Ecs Hin Eh. unfold gate. rewrite Ea, Ed, Ecs. cbn [negb].
  destruct (find _ cs) as [[m' r']|] eqn:Ef; [eauto|].
  exfalso. apply (find_none _ _ Ef) in Hin. cbn [fst] in Hin. rewrite Eh, bytes_eqb_refl in Hin. discriminate.
Qed.

(* the premise is satisfiable, and a wrong-language offer is refused *)
Example script_gate_nonvacuous :
  let H := fun (_ : nat) (m : bytes) => m in
  let u := {| i_id := 1; i_script_addr := true; i_pay := [x02; x4d; x01]; i_script := None;
              i_datum_hash := None; i_inline_datum := false |} in
  gate spec_cfg H u (OffScript (MPlutus V2 [x4d; x01])) None [] = GAccept (MPlutus V2 [x4d; x01]) None
  /\ gate spec_cfg H u (OffScript (MPlutus V1 [x4d; x01])) None [] = GRefuse
  /\ gate spec_cfg H u (OffRef {| r_id := 9; r_script := Some (MPlutus V2 [x4d; x01]) |}) None []
     = GAccept (MPlutus V2 [x4d; x01]) (Some 9).
Proof. cbv. auto. Qed.

(* ------------------------------------------------------------------------------------------ *)
(* auxiliary data: the body carries the hash of what is shipped                               *)
(* ------------------------------------------------------------------------------------------ *)
Lemma aux_shipped c : c = spec_cfg -> forall H aux,
  let t := m_build c H aux in
  match b_aux_shipped t with
  | Some a => b_aux_field t = Some (aux_hash H a)
  | None => b_aux_field t = None
  end.
Proof. intros -> H [a|]; reflexivity. Qed.

Example aux_shipped_nonvacuous :
  let H := fun (_ : nat) (m : bytes) => m in
  b_aux_field (m_build spec_cfg H (Some (CM [(CU 1, CT [x61])]))) = Some [xa1; x01; x61; x61]
  /\ b_aux_field (m_build spec_cfg H (Some (CM []))) = Some [xa0]
  /\ b_aux_field (m_build spec_cfg H None) = None.
Proof. cbv. auto. Qed.

(* ------------------------------------------------------------------------------------------ *)
(* the byte walker used by the oracle cuts out exactly the encodings of the items             *)
(* ------------------------------------------------------------------------------------------ *)
Lemma head_len_pos m n : (1 <= length (head m n))%nat.
Proof.
  unfold head. destruct (n <? 24); [cbn; lia|]. destruct (n <? 256); [cbn; lia|].
  destruct (n <? 65536); [cbn; lia|]. destruct (n <? 4294967296); cbn; lia.
Qed.

Lemma chunks_len cs : (length cs <= length (concat (map enc_chunk cs)))%nat.
Proof.
  induction cs as [|c cs IH]; cbn [map concat length]; [lia|].
  rewrite app_length. unfold enc_chunk at 1. rewrite app_length. pose proof (head_len_pos 2 (lenN c)). lia.
Qed.

Definition SZ (x : cbor) : Prop := (sz x + 1 <= 3 * length (enc x))%nat.

Lemma sz_sum xs : Forall SZ xs -> (length xs + list_sum (map sz xs) <= 3 * length (concat (map enc xs)))%nat.
Proof.
  induction 1 as [|x xs Hx _ IH]; cbn [map concat length list_sum fold_right]; [lia|].
  rewrite app_length. unfold SZ in Hx. unfold list_sum in *. unfold bytes in *. lia.
Qed.

Lemma sz_sum_pairs kvs : Forall (fun kv => SZ (fst kv) /\ SZ (snd kv)) kvs ->
  (length kvs + list_sum (map (fun kv => (sz (fst kv) + sz (snd kv))%nat) kvs)
   <= 3 * length (concat (map (fun kv => enc (fst kv) ++ enc (snd kv)) kvs)))%nat.
Proof.
  induction 1 as [|kv kvs [Hk Hv] _ IH]; cbn [map concat length list_sum fold_right]; [lia|].
  rewrite !app_length. unfold SZ in Hk, Hv. unfold list_sum in *. unfold bytes in *. lia.
Qed.

Lemma sz_bound : forall x, SZ x.
Proof.
  induction x as [n|n|b|cs|b|xs IH|xs IH|kvs IH|t y IH|v] using cbor_ind'; unfold SZ; cbn [sz enc].
  - pose proof (head_len_pos 0 n). lia.
  - pose proof (head_len_pos 1 n). lia.
  - rewrite app_length. pose proof (head_len_pos 2 (lenN b)). lia.
  - cbn [length]. rewrite app_length. cbn [length]. pose proof (chunks_len cs). lia.
  - rewrite app_length. pose proof (head_len_pos 3 (lenN b)). lia.
  - rewrite app_length. pose proof (head_len_pos 4 (lenN xs)). pose proof (sz_sum xs IH). lia.
  - cbn [length]. rewrite app_length. cbn [length]. pose proof (sz_sum xs IH). lia.
  - rewrite app_length. pose proof (head_len_pos 5 (lenN kvs)). pose proof (sz_sum_pairs kvs IH). lia.
  - rewrite app_length. pose proof (head_len_pos 6 t). unfold SZ in IH. lia.
  - cbn. lia.
Qed.

Lemma firstn_cut {A} (a r : list A) : firstn (length (a ++ r) - length r) (a ++ r) = a.
Proof.
  rewrite app_length. replace (length a + length r - length r)%nat with (length a + 0)%nat by lia.
  rewrite firstn_app_2. cbn. apply app_nil_r.
Qed.

Lemma items_enc f : forall xs rest, wf_all xs -> (forall x, In x xs -> (sz x <= f)%nat) ->
  items f (length xs) (concat (map enc xs) ++ rest) = Some (map (fun x => (x, enc x)) xs, rest).
Proof.
  induction xs as [|x xs IH]; intros rest W F; [reflexivity|].
  destruct W as [Wx Wr]. cbn [length map concat items]. rewrite <- app_assoc.
  rewrite (dec_enc x Wx f (concat (map enc xs) ++ rest) (F x (or_introl eq_refl))).
  rewrite IH; [|exact Wr|intros y Hy; apply F; now right].
  now rewrite firstn_cut.
Qed.

Lemma enc_in_concat x xs : In x xs -> (length (enc x) <= length (concat (map enc xs)))%nat.
Proof.
  induction xs as [|y xs IH]; intros Hin; [contradiction|]. cbn [map concat]. rewrite app_length.
  destruct Hin as [->|Hin]; [lia|]. specialize (IH Hin). lia.
Qed.

(* for every well-formed array item: the walker returns each element together with exactly its encoding *)
Lemma array_items_enc xs : wf (CA xs) -> array_items (enc (CA xs)) = Some (map (fun x => (x, enc x)) xs).
Proof.
  intros [Wl Wx]. cbn [enc].
  destruct (head_dec 4 (lenN xs) (concat (map enc xs)) ltac:(lia) Wl) as (h & a & E & Hm & Hai & _ & Hd).
  rewrite E. cbn [app]. unfold array_items. rewrite Hm. cbn [N.eqb Pos.eqb andb].
  destruct (b2n h mod 32 =? 31) eqn:Q; [rewrite N.eqb_eq in Q; contradiction|]. cbn [negb].
  rewrite Hd. rewrite lenN_length, Nnat.Nat2N.id.
  pose proof (items_enc (walk_fuel (h :: a ++ concat (map enc xs))) xs [] Wx) as Hi.
  rewrite app_nil_r in Hi. rewrite Hi; [reflexivity|].
  intros x Hx. pose proof (sz_bound x) as Hs. unfold SZ in Hs. pose proof (enc_in_concat x xs Hx).
  unfold walk_fuel. cbn [length]. rewrite app_length. lia.
Qed.

(* in particular for a transaction [body, witness set, validity flag, auxiliary data] *)
Corollary tx_body_slice body ws valid aux : wf body -> wf ws -> wf valid -> wf aux ->
  array_items (enc (CA [body; ws; valid; aux]))
  = Some [(body, enc body); (ws, enc ws); (valid, enc valid); (aux, enc aux)].
Proof.
  intros W1 W2 W3 W4. apply (array_items_enc [body; ws; valid; aux]).
  cbn. repeat split; assumption.
Qed.

(* the hypotheses of fingerprint_binds are satisfiable; so are those of tx_body_slice *)
Example fingerprint_binds_nonvacuous :
  exists (H : nat -> bytes -> bytes) (bech32 : string -> bytes -> string),
    H_inj H 20 /\ (forall a b, bech32 "asset"%string a = bech32 "asset"%string b -> a = b).
Proof.
  exists (fun _ m => m), (fun _ d => string_of_list_byte d). split; [intros a b E; exact E|].
  intros a b E. rewrite <- (list_byte_of_string_of_list_byte a), <- (list_byte_of_string_of_list_byte b). now rewrite E.
Qed.
Example tx_body_slice_nonvacuous :
  wf (CM [(CU 0, CA []); (CU 2, CU 170000)]) /\ wf (CM []) /\ wf (CS 21) /\ wf (CS 22).
Proof. cbn. unfold two64. repeat split; lia. Qed.
