(* WitnessOracle.v — C10: the property's decision procedure evaluated on the IMPLEMENTATION's signed
   transaction, and the glue that compares the model (Witness.v) with the implementation on a case.

   The oracle reads the transaction the implementation returned (Cbor.decode of tx.to_cbor()), rebuilds the
   ledger's view of it ([txdesc]: inputs, collateral and reference inputs (body field 18) resolved through the
   scenario's UTxO table — payment credential and the native script the output carries, if any —, body fields
   14 / 9 / 4 / 5 / 19, native scripts of the witness set) and applies the SPECIFICATION Ledger.required_key_hashes.
   The fee clause (c10_oracle_fee) re-encodes the transaction with k placeholder witnesses and compares the body's fee with
   the ledger's minimum fee for k = number of distinct required key hashes (redeemer execution units, reference-script
   bytes of spent / reference outputs and the protocol parameters are read here from the transaction / the table).
   Script hashes are BLAKE2b-224(0x00 || CBOR of the script): the CBOR is produced here (ns_cbor, Cbor.enc), the digest
   is looked up in the harness's hashlib table; a script without an entry makes the oracle fail (fail closed).
   Hashes and signature checks cannot be computed here; they come from the harness's independent primitives
   (hashlib BLAKE2b, pure-Python RFC 8032) as tables and are cross-checked against the decoded transaction. *)
From Coq Require Import NArith String List Bool.
From Coq Require Import Init.Byte.
From PyC Require Import Base Cbor Witness.
Import ListNotations.
Open Scope N_scope.

(* ------------------------------------------------------------------ helpers *)
Fixpoint all_some {A B} (f : A -> option B) (l : list A) : option (list B) :=
  match l with
  | [] => Some []
  | x :: r => match f x, all_some f r with Some y, Some ys => Some (y :: ys) | _, _ => None end
  end.

Fixpoint lookup (k : bytes) (t : list (bytes * bytes)) : option bytes :=
  match t with [] => None | (k', v) :: r => if bytes_eqb k k' then Some v else lookup k r end.
Definition lookup_d (t : list (bytes * bytes)) (k : bytes) : bytes :=
  match lookup k t with Some v => v | None => [] end.

(* an array, a CBOR set (tag 258) or an indefinite list *)
Definition items (x : cbor) : option (list cbor) :=
  match x with
  | CA l | CAi l => Some l
  | CTag t y => if t =? 258 then match y with CA l | CAi l => Some l | _ => None end else None
  | _ => None
  end.

Fixpoint mfind (k : N) (kvs : list (cbor * cbor)) : option cbor :=
  match kvs with
  | [] => None
  | (CU k', v) :: r => if k =? k' then Some v else mfind k r
  | _ :: r => mfind k r
  end.

Definition as_bytes (x : cbor) : option bytes := match x with CB b => Some b | _ => None end.

(* ------------------------------------------------------------------ script hashes *)
(* CDDL native_script *)
Fixpoint ns_cbor (s : nscript) : cbor :=
  match s with
  | NsPubkey h => CA [CU 0; CB h]
  | NsAll l => CA [CU 1; CA (map ns_cbor l)]
  | NsAny l => CA [CU 2; CA (map ns_cbor l)]
  | NsNofK n l => CA [CU 3; CU n; CA (map ns_cbor l)]
  | NsInvalidBefore t => CA [CU 4; CU t]
  | NsInvalidHereafter t => CA [CU 5; CU t]
  end.
Definition ns_preimage (s : nscript) : bytes := x00 :: enc (ns_cbor s).
(* h28 : byte string -> its BLAKE2b-224 (hashlib), as a table *)
Definition sh_of (h28 : list (bytes * bytes)) (s : nscript) : bytes := lookup_d h28 (ns_preimage s).
Definition has_sh (h28 : list (bytes * bytes)) (s : nscript) : bool :=
  match lookup (ns_preimage s) h28 with Some h => Nat.eqb (length h) 28 | None => false end.

(* ------------------------------------------------------------------ reading the ledger's view *)
Definition cred_of (x : cbor) : option cred :=
  match x with
  | CA [CU t; CB h] => if t =? 0 then Some (KeyH h) else if t =? 1 then Some (ScriptH h) else None
  | _ => None
  end.

Fixpoint ns_of (f : nat) (x : cbor) : option nscript :=
  match f with
  | O => None
  | S f' =>
      let subs a := match items a with Some l => all_some (ns_of f') l | None => None end in
      match x with
      | CA [CU t; a] =>
          if t =? 0 then match a with CB h => Some (NsPubkey h) | _ => None end
          else if t =? 1 then option_map NsAll (subs a)
          else if t =? 2 then option_map NsAny (subs a)
          else if t =? 4 then match a with CU s => Some (NsInvalidBefore s) | _ => None end
          else if t =? 5 then match a with CU s => Some (NsInvalidHereafter s) | _ => None end
          else None
      | CA [CU t; CU n; a] => if t =? 3 then option_map (NsNofK n) (subs a) else None
      | _ => None
      end
  end.

Definition cert_of (x : cbor) : option cert :=
  match items x with
  | Some (CU code :: rest) =>
      let c1 := match rest with a :: _ => cred_of a | [] => None end in
      let c2 := match rest with _ :: a :: _ => cred_of a | _ => None end in
      if code =? 0 then option_map StakeRegistration c1
      else if code =? 1 then option_map StakeDeregistration c1
      else if code =? 2 then option_map StakeDelegation c1
      else if code =? 3 then
        match rest with
        | CB operator :: _vrf :: _pledge :: _cost :: _margin :: _reward :: owners :: _ =>
            match items owners with
            | Some l => option_map (PoolRegistration operator) (all_some as_bytes l)
            | None => None
            end
        | _ => None
        end
      else if code =? 4 then match rest with CB pool :: _ => Some (PoolRetirement pool) | _ => None end
      else if code =? 7 then option_map StakeRegistrationConway c1
      else if code =? 8 then option_map StakeDeregistrationConway c1
      else if code =? 9 then option_map VoteDelegation c1
      else if code =? 10 then option_map StakeAndVoteDelegation c1
      else if code =? 11 then option_map StakeRegistrationAndDelegation c1
      else if code =? 12 then option_map StakeRegistrationAndVoteDelegation c1
      else if code =? 13 then option_map StakeRegistrationAndDelegationAndVoteDelegation c1
      else if code =? 14 then match c1, c2 with Some a, Some b => Some (AuthCommitteeHotCertificate a b) | _, _ => None end
      else if code =? 15 then option_map ResignCommitteeColdCertificate c1
      else if code =? 16 then option_map RegDRepCert c1
      else if code =? 17 then option_map UnregDRepCertificate c1
      else if code =? 18 then option_map UpdateDRepCertificate c1
      else None
  | _ => None
  end.

Definition voter_of (x : cbor) : option voter :=
  match x with
  | CA [CU t; CB h] =>
      if t =? 0 then Some (VoterCommitteeHot (KeyH h)) else if t =? 1 then Some (VoterCommitteeHot (ScriptH h))
      else if t =? 2 then Some (VoterDRep (KeyH h)) else if t =? 3 then Some (VoterDRep (ScriptH h))
      else if t =? 4 then Some (VoterPool h) else None
  | _ => None
  end.

(* reward account bytes: header 0xe_ = key, 0xf_ = script, then the 28-byte credential *)
Definition reward_cred_of (x : cbor) : option cred :=
  match x with
  | CB (hd :: h) =>
      if b2n hd / 16 =? 14 then Some (KeyH h) else if b2n hd / 16 =? 15 then Some (ScriptH h) else None
  | _ => None
  end.

(* the chain state of the scenario: outpoint -> (payment credential of the address, native script the output carries,
   Plutus script (language version, script bytes) the output carries) *)
Definition oinfo := (cred * option nscript * option (N * bytes))%type.
Definition o_cred (o : oinfo) : cred := fst (fst o).
Definition o_ns (o : oinfo) : option nscript := snd (fst o).
Definition o_pl (o : oinfo) : option (N * bytes) := snd o.
Definition utxo_table := list ((bytes * N) * oinfo).
Fixpoint resolve (t : utxo_table) (txid : bytes) (ix : N) : option oinfo :=
  match t with
  | [] => None
  | ((i, n), c) :: r => if bytes_eqb i txid && (n =? ix) then Some c else resolve r txid ix
  end.
Definition input_out (t : utxo_table) (x : cbor) : option oinfo :=
  match x with CA [CB txid; CU ix] => resolve t txid ix | _ => None end.
Definition input_cred (t : utxo_table) (x : cbor) : option cred := option_map o_cred (input_out t x).
Definition out_scripts (l : list oinfo) : list nscript :=
  flat_map (fun o => match o_ns o with Some s => [s] | None => [] end) l.
Definition sumN (l : list N) : N := fold_right N.add 0 l.

(* optional field holding a collection: absent = empty *)
Definition field_items {A} (f : cbor -> option A) (x : option cbor) : option (list A) :=
  match x with
  | None => Some []
  | Some v => match items v with Some l => all_some f l | None => None end
  end.
Definition field_keys {A} (f : cbor -> option A) (x : option cbor) : option (list A) :=
  match x with
  | None => Some []
  | Some (CM kvs) => all_some f (map fst kvs)
  | Some _ => None
  end.

Definition wit_of_cbor (x : cbor) : option (bytes * bytes) :=
  match x with CA [CB vk; CB sg] => Some (vk, sg) | _ => None end.

(* size in bytes of the script an output carries, as the ledger measures reference scripts: the CBOR of a native
   script (produced here), the script bytes of a Plutus script *)
Definition out_script_size (o : oinfo) : N :=
  match o_ns o, o_pl o with
  | Some s, _ => lenN (enc (ns_cbor s))
  | None, Some (_, body) => lenN body
  | None, None => 0
  end.

(* execution units of the redeemers (witness-set key 5): array form [tag, index, data, [mem, steps]] or
   map form {[tag, index]: [data, [mem, steps]]} *)
Definition exunits_of (x : cbor) : option (N * N) :=
  match x with CA [CU m; CU st] => Some (m, st) | _ => None end.
Definition redeemer_units (x : option cbor) : option (list (N * N)) :=
  match x with
  | None => Some []
  | Some (CM kvs) => all_some (fun kv => match snd kv with CA [_; e] => exunits_of e | _ => None end) kvs
  | Some v => match items v with
              | Some l => all_some (fun r => match r with CA [_; _; _; e] => exunits_of e | _ => None end) l
              | None => None
              end
  end.
Definition plutus_of (ver : N) (x : option cbor) : option (list (N * bytes)) :=
  field_items (fun y => option_map (fun b => (ver, b)) (as_bytes y)) x.

Record txread := mkRead {
  r_desc : txdesc;
  r_wits : list (bytes * bytes);       (* [vkey, signature] entries of witness-set key 0, in order *)
  r_body_bytes : bytes;                (* the body item re-encoded *)
  r_fee : N;                           (* body field 2 *)
  r_mem : N; r_steps : N;              (* execution units summed over the redeemers *)
  r_refsize : N;                       (* bytes of the scripts carried by spent and reference inputs *)
  r_inscript_size : N;                 (* ... by spent inputs alone *)
  r_plutus : list (N * bytes);         (* Plutus scripts shipped in the witness set (keys 3, 6, 7) *)
  r_body : list (cbor * cbor); r_ws : list (cbor * cbor); r_rest : list cbor   (* the decoded transaction *)
}.

Definition read_tx (t : utxo_table) (tx : bytes) : option txread :=
  match decode tx with
  | Some (CA (CM body :: CM ws :: rest)) =>
      match field_items (input_out t) (mfind 0 body), field_items (input_cred t) (mfind 13 body),
            field_items as_bytes (mfind 14 body), field_items (ns_of 64) (mfind 1 ws),
            field_items cert_of (mfind 4 body), field_keys reward_cred_of (mfind 5 body),
            field_keys voter_of (mfind 19 body), field_items wit_of_cbor (mfind 0 ws) with
      | Some ins, Some col, Some rs, Some nss, Some certs, Some wds, Some vts, Some wits =>
          match field_items (input_out t) (mfind 18 body), field_keys as_bytes (mfind 9 body),
                mfind 2 body, redeemer_units (mfind 5 ws),
                plutus_of 1 (mfind 3 ws), plutus_of 2 (mfind 6 ws), plutus_of 3 (mfind 7 ws) with
          | Some refs, Some pols, Some (CU fee), Some units, Some p1, Some p2, Some p3 =>
              Some (mkRead (mkTx (map o_cred ins) col rs nss (out_scripts ins ++ out_scripts refs) pols certs wds vts)
                           wits (enc (CM body)) fee (sumN (map fst units)) (sumN (map snd units))
                           (sumN (map out_script_size (ins ++ refs))) (sumN (map out_script_size ins))
                           (p1 ++ p2 ++ p3) body ws rest)
          | _, _, _, _, _, _, _ => None
          end
      | _, _, _, _, _, _, _, _ => None
      end
  | _ => None
  end.

(* ------------------------------------------------------------------ the property on the implementation's output *)
Definition legacy_keys (d : txdesc) : list bytes :=
  flat_map (fun x => match x with StakeRegistration c => cred_keys c | _ => [] end) (d_certs d).

Definition triple_eqb (a b : bytes * bytes * bytes) : bool :=
  bytes_eqb (fst (fst a)) (fst (fst b)) && bytes_eqb (snd (fst a)) (snd (fst b)) && bytes_eqb (snd a) (snd b).

Fixpoint nodupb (l : list bytes) : bool :=
  match l with [] => true | x :: r => negb (memb x r) && nodupb r end.

(* supplied : key hashes of the signing keys given to build_and_sign, computed by the harness's REFERENCE
              primitives from the raw key material (RFC 8032 public key, BLAKE2b-224);
   body_slice : the body bytes cut out of tx.to_cbor() by the harness's length-walking skipper;
   txid : BLAKE2b-256(body_slice) (hashlib);   h28 : vkey -> BLAKE2b-224(vkey) (hashlib);
   verif : ((vkey, message, signature), result of the independent RFC 8032 verification). *)
Definition c10_oracle (t : utxo_table) (supplied : list bytes) (force : bool)
           (tx body_slice txid : bytes) (h28 : list (bytes * bytes))
           (verif : list ((bytes * bytes * bytes) * bool)) : bool :=
  match read_tx t tx with
  | None => false
  | Some r =>
      let ws := r_wits r in
      let SH := sh_of h28 in
      bytes_eqb (r_body_bytes r) body_slice
      (* every native script the ledger sees has a hash in the table *)
      && forallb (has_sh h28) (d_native_scripts (r_desc r) ++ d_ref_scripts (r_desc r))
      (* each witness: 32-byte key, 64-byte signature, verifies over the transaction id *)
      && forallb (fun w => Nat.eqb (length (fst w)) 32 && Nat.eqb (length (snd w)) 64
                           && existsb (fun v => triple_eqb (fst v) (fst w, txid, snd w) && snd v) verif) ws
      (* no duplicate keys *)
      && nodupb (map fst ws)
      (* exactly the supplied keys the transaction needs (all supplied keys when forced) *)
      && match all_some (fun w => lookup (fst w) h28) ws with
         | None => false
         | Some whs =>
             let req := Ledger.required_key_hashes SH (r_desc r) in
             if force then set_eqb whs supplied
             else subsetb (filter (fun h => memb h req) supplied) whs
                  && subsetb whs (filter (fun h => memb h (req ++ legacy_keys (r_desc r))) supplied)
         end
  end.

(* the placeholder witnesses used for the fee: as many as distinct key hashes the ledger requires (the legacy
   registration key may be counted in addition), 32 + 64 bytes each, pairwise distinct.  lo/hi from the specification. *)
Fixpoint nodup_pairs (l : list (bytes * bytes)) : bool :=
  match l with [] => true | x :: r => negb (mem_pair x r) && nodup_pairs r end.
Definition count_ok (SH : nscript -> bytes) (d : txdesc) (n : N) : bool :=
  let req := Ledger.required_key_hashes SH d in
  (lenN (dedup req) <=? n) && (n <=? lenN (dedup (req ++ legacy_keys d))).
Definition c10_oracle_fake (SH : nscript -> bytes) (d : txdesc) (override : option N) (fake : list (bytes * bytes)) : bool :=
  match override with
  | Some _ => true
  | None =>
      count_ok SH d (lenN fake)
      && forallb (fun w => Nat.eqb (length (fst w)) 32 && Nat.eqb (length (snd w)) 64) fake
      && nodup_pairs fake
  end.

(* The fee pays for the placeholder witnesses: the fee of the returned body is at least the ledger's minimum fee of
   this very transaction carrying one witness per distinct required key hash (lo), and not more than that fee with
   the tolerated count (hi, the legacy registration key) plus a margin smaller than one witness.
     size_with k : the transaction re-encoded (Cbor.enc of the decoded item; must reproduce tx byte for byte) with the
                   vkey witnesses (witness-set key 0) replaced by k entries [bytes(32), bytes(64)];
     min fee     : a * size + b + ceil(price_mem * mem + price_step * steps) + base * (bytes of reference scripts),
                   reference scripts within the first tier (checked);
     margin      : the builder's fake transaction keeps the scripts that spent inputs carry themselves in the witness set
                   (build_witness_set() without remove_dup_script), sizes the fee field for the maximum fee and the
                   change for the first-pass fee: r_inscript_size + 16 bytes, + 1 lovelace for its two roundings. *)
Record pparams := mkPP {
  pp_a : N; pp_b : N;                                  (* min_fee_coefficient, min_fee_constant *)
  pp_mem_num : N; pp_mem_den : N;                      (* price_mem *)
  pp_step_num : N; pp_step_den : N;                    (* price_step *)
  pp_ref_base : N; pp_ref_range : N                    (* min_fee_reference_scripts base (per byte), range *)
}.
Definition ceil_div (a b : N) : N := (a + b - 1) / b.
Definition ex_fee (pp : pparams) (mem steps : N) : N :=
  ceil_div (mem * pp_mem_num pp * pp_step_den pp + steps * pp_step_num pp * pp_mem_den pp) (pp_mem_den pp * pp_step_den pp).
Definition fake_entry : cbor := CA [CB (repeat x00 32); CB (repeat x00 64)].
Definition is_key0 (kv : cbor * cbor) : bool := match fst kv with CU 0 => true | _ => false end.
Definition vk_tagged (ws : list (cbor * cbor)) : bool :=
  match mfind 0 ws with Some (CTag _ _) => true | Some _ => false | None => true end.
Definition set_vkeys (k : N) (ws : list (cbor * cbor)) : list (cbor * cbor) :=
  let rest := filter (fun kv => negb (is_key0 kv)) ws in
  let l := CA (repeat fake_entry (N.to_nat k)) in
  if k =? 0 then rest else (CU 0, if vk_tagged ws then CTag 258 l else l) :: rest.
Definition size_with (k : N) (r : txread) : N :=
  lenN (enc (CA (CM (r_body r) :: CM (set_vkeys k (r_ws r)) :: r_rest r))).
Definition min_fee (pp : pparams) (r : txread) (k : N) : N :=
  pp_a pp * size_with k r + pp_b pp + ex_fee pp (r_mem r) (r_steps r) + pp_ref_base pp * r_refsize r.
Definition c10_oracle_fee (pp : pparams) (SH : nscript -> bytes) (r : txread) (tx : bytes) : bool :=
  let d := r_desc r in
  let req := Ledger.required_key_hashes SH d in
  let klo := lenN (dedup req) in
  let khi := lenN (dedup (req ++ legacy_keys d)) in
  bytes_eqb (enc (CA (CM (r_body r) :: CM (r_ws r) :: r_rest r))) tx
  && (r_refsize r <=? pp_ref_range pp)
  && (min_fee pp r klo <=? r_fee r)
  && (r_fee r <=? min_fee pp r khi + pp_a pp * (r_inscript_size r + 16) + 1).

(* ------------------------------------------------------------------ model = implementation *)
Definition pairs_subset (a b : list (bytes * bytes)) : bool := forallb (fun x => mem_pair x b) a.
Definition pairs_set_eqb (a b : list (bytes * bytes)) : bool := pairs_subset a b && pairs_subset b a.
Fixpoint pairs_eqb (a b : list (bytes * bytes)) : bool :=
  match a, b with
  | [], [] => true
  | x :: a', y :: b' => pair_eqb x y && pairs_eqb a' b'
  | _, _ => false
  end.

Record impl_slice := mkSlice {
  s_required_signers : list bytes; s_inputs : list bytes; s_certs : list bytes; s_votes : list bytes;
  s_withdrawals : list bytes; s_native : list bytes; s_required : list bytes;
  s_witness_count : N; s_fake : list (bytes * bytes);
  s_all_scripts : list bytes;          (* script_hash of every member of builder.all_scripts (pycardano's hash) *)
  s_scripts : list bytes               (* ... of builder.scripts *)
}.

(* the six collectors, their union, _witness_count and the placeholder witnesses, on the prepared builder *)
Definition c10_corr_slice (SH : nscript -> bytes) (b : bdesc) (s : impl_slice) : bool :=
  set_eqb (s_all_scripts s) (map SH (all_scripts b) ++ b_plutus b)
  && set_eqb (s_scripts s) (map SH (scripts SH b) ++ plutus_scripts b)
  && set_eqb (s_required_signers s) (required_signer_vkey_hashes b)
  && set_eqb (s_inputs s) (input_vkey_hashes b)
  && set_eqb (s_certs s) (certificate_vkey_hashes b)
  && set_eqb (s_votes s) (vote_vkey_hashes b)
  && set_eqb (s_withdrawals s) (withdrawal_vkey_hashes b)
  && set_eqb (s_native s) (native_scripts_vkey_hashes b)
  && set_eqb (s_required s) (builder_required b)
  && (s_witness_count s =? witness_count b)
  && pairs_eqb (s_fake s) (fake_vkey_witnesses (witness_count b)).

(* build_and_sign: the model run with the harness's reference primitives as tables
     pubs : ordinary seed -> public key;  h28 : vkey -> hash;  sigs : seed (ordinary) or kL||kR (extended) -> reference
     signature of txid;
     sel_ins / sel_cols : the outpoints build() appended to self.inputs / self.collaterals (the implementation's
     builder after the build, minus what the scenario put there), resolved here through the scenario's UTxO table;
   against the witnesses found in the implementation's transaction; plus: the required set and the placeholder count
   after build, collateral is picked exactly when the model says the builder looks for it, and the ledger view read
   from the transaction agrees with the model's builder after build (harness sanity). *)
Definition creds_of (t : utxo_table) (l : list (bytes * N)) : option (list cred) :=
  all_some (fun p => option_map o_cred (resolve t (fst p) (snd p))) l.
Definition plutus_hash (h28 : list (bytes * bytes)) (p : N * bytes) : bytes := lookup_d h28 (n2b (fst p) :: snd p).
Definition c10_corr_sign (b : bdesc) (keys : list skey) (auto : option bool) (force : bool)
           (pubs h28 sigs : list (bytes * bytes)) (t : utxo_table)
           (sel_ins sel_cols : list (bytes * N))
           (req_post : list bytes) (fake_post : N) (tx txid : bytes) : bool :=
  let H28 := lookup_d h28 in
  let SH := sh_of h28 in
  let ord_pub := lookup_d pubs in
  let ord_sign := fun seed (_ : bytes) => lookup_d sigs seed in
  let ext_sign := fun kL kR (_ : bytes) => lookup_d sigs (kL ++ kR) in
  match read_tx t tx, creds_of t sel_ins, creds_of t sel_cols with
  | Some r, Some si, Some sc =>
      let sel := mkSel si sc in
      let b' := after_build SH H28 ord_pub auto keys sel b in
      let ws := build_and_sign_witnesses SH H28 (fun _ => txid) ord_pub ord_sign ext_sign b auto force keys sel [] in
      forallb (fun k => match lookup (vk32 ord_pub k) h28 with Some _ => true | None => false end) keys
      && set_eqb req_post (builder_required b')
      && (fake_post =? lenN (fake_vkey_witnesses (fee_witness_count SH H28 ord_pub b auto keys sel)))
      && Bool.eqb (picks_collateral b) (negb (nilb sc))
      && pairs_set_eqb (r_wits r) (map wit_bytes ws)
      && Nat.eqb (length (r_wits r)) (length ws)
      && Nat.eqb (length (d_inputs (r_desc r))) (length (b_inputs b'))
      && Nat.eqb (length (d_collateral (r_desc r))) (length (b_collateral b'))
      && set_eqb (Ledger.required_key_hashes SH (r_desc r)) (Ledger.required_key_hashes SH (tx_of SH b'))
      (* the scripts shipped in the witness set, and the scripts reachable through reference / spent outputs, are the model's *)
      && set_eqb (map SH (d_native_scripts (r_desc r))) (map SH (witness_scripts SH b'))
      && forallb (fun p => Nat.eqb (length (plutus_hash h28 p)) 28) (r_plutus r)
      && set_eqb (map (plutus_hash h28) (r_plutus r)) (plutus_scripts b')
      && set_eqb (map SH (d_ref_scripts (r_desc r))) (map SH (d_ref_scripts (tx_of SH b')))
      && set_eqb (Ledger.scripts_needed (r_desc r)) (Ledger.scripts_needed (tx_of SH b'))
  | _, _, _ => false
  end.

(* ------------------------------------------------------------------ a correspondence case *)
Record signed := mkSigned {
  g_tx : bytes;                                  (* tx.to_cbor() of the transaction build_and_sign returned *)
  g_body_off : N; g_body_len : N;                (* where the harness's length walker found the body inside g_tx *)
  g_txid : bytes;                                (* BLAKE2b-256 of that slice (hashlib) *)
  g_req_post : list bytes;                       (* _build_required_vkeys() after the build *)
  g_fake_post : N;                               (* len(_build_fake_vkey_witnesses()) after the build *)
  g_sel_inputs : list (bytes * N);               (* outpoints build() appended to self.inputs (coin selection) *)
  g_sel_collateral : list (bytes * N);           (* outpoints build() appended to self.collaterals *)
  g_sigs : list (bytes * bytes);                 (* reference signatures of g_txid *)
  g_verif : list ((bytes * bytes * bytes) * bool)
}.

Record c10_case := mkCase {
  c_b : bdesc; c_keys : list skey; c_auto : option bool; c_force : bool;
  c_utxos : utxo_table;
  c_pp : pparams;                                (* protocol parameters of the driver's chain context *)
  c_supplied : list bytes;                       (* reference key hashes of c_keys *)
  c_pubs : list (bytes * bytes); c_h28 : list (bytes * bytes);
  c_slice : impl_slice;
  c_sign : bool;                                 (* build_and_sign was requested *)
  c_signed : option signed                       (* None: not requested, or the implementation raised *)
}.

(* every script of the scenario has a 28-byte hash in the table, and the scenario is inside the domain of the
   theorems (side conditions of C10_required_complete / C10_witnesses) *)
Definition b_after (c : c10_case) : bdesc :=
  match c_signed c with
  | None => c_b c
  | Some g =>
      match creds_of (c_utxos c) (g_sel_inputs g), creds_of (c_utxos c) (g_sel_collateral g) with
      | Some si, Some sc => after_build (sh_of (c_h28 c)) (lookup_d (c_h28 c)) (lookup_d (c_pubs c)) (c_auto c) (c_keys c) (mkSel si sc) (c_b c)
      | _, _ => c_b c
      end
  end.
Definition c10_domain (c : c10_case) : bool :=
  let b := c_b c in
  forallb (has_sh (c_h28 c)) (all_scripts b ++ b_reference_scripts b ++ b_input_scripts b ++ b_refin_scripts b
                              ++ out_scripts (map snd (c_utxos c)))
  && refs_registeredb (sh_of (c_h28 c)) b && refs_usedb (sh_of (c_h28 c)) b
  && refs_registeredb (sh_of (c_h28 c)) (b_after c) && refs_usedb (sh_of (c_h28 c)) (b_after c).

Definition c10_corr (c : c10_case) : bool :=
  c10_domain c
  && c10_corr_slice (sh_of (c_h28 c)) (c_b c) (c_slice c)
  && match c_signed c with
     | None => negb (c_sign c)
     | Some g => c10_corr_sign (c_b c) (c_keys c) (c_auto c) (c_force c) (c_pubs c) (c_h28 c) (g_sigs g) (c_utxos c)
                               (g_sel_inputs g) (g_sel_collateral g)
                               (g_req_post g) (g_fake_post g) (g_tx g) (g_txid g)
     end.

Definition c10_oracle_case (c : c10_case) : bool :=
  (* prepared builder: placeholder witnesses against the specification applied to the scenario's transaction *)
  c10_oracle_fake (sh_of (c_h28 c)) (tx_of (sh_of (c_h28 c)) (c_b c)) (b_witness_override (c_b c)) (s_fake (c_slice c))
  &&
  match c_signed c with
  | None => true
  | Some g =>
      (* placeholder count after the build against the specification applied to the transaction actually returned *)
      match b_witness_override (c_b c), read_tx (c_utxos c) (g_tx g) with
      | None, Some r => count_ok (sh_of (c_h28 c)) (r_desc r) (g_fake_post g)
                        (* ... and the fee of the returned body pays for that many witnesses *)
                        && c10_oracle_fee (c_pp c) (sh_of (c_h28 c)) r (g_tx g)
      | None, None => false
      | Some _, _ => true
      end
      && c10_oracle (c_utxos c) (c_supplied c) (c_force c) (g_tx g)
                         (firstn (N.to_nat (g_body_len g)) (skipn (N.to_nat (g_body_off g)) (g_tx g))) (g_txid g) (c_h28 c) (g_verif g)
  end.
