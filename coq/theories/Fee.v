(* Fee.v — C07 models (no proofs here).

   1. A small dynamically typed Python value domain [pyval] (int, Fraction, binary64 float, None, bool,
      dict with string keys, raised exception) with the operators the three functions of
      pycardano/utils.py use (`*`, `+`, `-`, `>`, `or`, `is None`, `x["k"]`, `math.ceil`, `int`, `min`,
      truthiness) and the control combinators the translator of tools/props/c07.py targets.
      Floats are Coq's primitive binary64 ([PrimFloat]); int -> float is the correctly rounded conversion of
      [SpecFloat.binary_normalize]; `math.ceil` of a float is exact (via [FloatOps.Prim2SF]).
   2. The hand model of `tiered_reference_script_fee`, `fee`, `max_tx_fee` (pinned text of what the
      translator produces from the current source; coq/gen/FeeGen.v is proved equal to it on every run).
   3. [Ledger]: the Conway minimum-fee rule in exact rationals (the SPECIFICATION).
   4. The size algebra of the two estimate passes of TransactionBuilder._add_change_and_fee.
   5. What the estimate is told about the UTxOs the transaction touches: `_ref_script_size` (bytes of the scripts
      carried by spent and referenced UTxOs) and `_witness_count` (one placeholder witness per required key),
      next to the ledger's reading of the same final transaction against its UTxO set. *)
From Coq Require Import ZArith QArith Qround String List Bool.
From Coq Require Import PrimFloat.
From Coq Require SpecFloat FloatOps Uint63.
From PyC Require Import Base Cbor.
Import ListNotations.
Open Scope Z_scope.

(* ------------------------------------------------------------------ Python values *)
Inductive err := EValue | EType | EOverflow | EKey | EFuel | EUnsup.

Inductive pyval :=
| VInt (z : Z)
| VFrac (q : Q)
| VFloat (f : float)
| VNone
| VBool (b : bool)
| VDict (kvs : list (string * pyval))
| VErr (e : err).

Inductive res (A : Type) := Ok (a : A) | Err (e : err).
Arguments Ok {A} a.
Arguments Err {A} e.

(* correctly rounded int -> float (round half to even), as CPython's PyLong_AsDouble.
   [f_of_Z_ref] is the specification-level definition; [f_of_Z] takes the primitive conversion for
   |z| < 2^53 (exact there) so that large sweeps stay cheap.  FeeProofs compares both on sample values. *)
Definition f_of_Z_ref (z : Z) : float :=
  FloatOps.SF2Prim (SpecFloat.binary_normalize FloatOps.prec FloatOps.emax z 0 false).

Definition f_of_Z (z : Z) : float :=
  if Z.abs z <? 9007199254740992 then
    (if z <? 0 then PrimFloat.opp (of_uint63 (Uint63.of_Z (- z))) else of_uint63 (Uint63.of_Z z))
  else f_of_Z_ref z.

Definition int_to_float (z : Z) : res float :=
  let f := f_of_Z z in if is_infinity f then Err EOverflow else Ok f.

(* exact value of a finite float as (v, e) with value v * 2^e.  [f_parts_ref] goes through the standard
   [FloatOps.Prim2SF]; [f_parts] reads mantissa and exponent with the primitives directly (same value,
   possibly a different (v, e) split for subnormals). *)
Definition f_parts_ref (f : float) : option (Z * Z) :=
  match FloatOps.Prim2SF f with
  | SpecFloat.S754_zero _ => Some (0, 0)
  | SpecFloat.S754_finite s m e => Some (if s then Z.neg m else Z.pos m, e)
  | _ => None
  end.

Definition f_parts (f : float) : option (Z * Z) :=
  if is_nan f || is_infinity f then None
  else if is_zero f then Some (0, 0)
  else let (r, e) := frshiftexp (abs f) in
       let m := Uint63.to_Z_rec 53 (normfr_mantissa r) in          (* mantissa < 2^53, shifted exponent < 2^12 *)
       Some (if get_sign f then - m else m, Uint63.to_Z_rec 12 e - FloatOps.shift - 53).

Definition f_to_Q (f : float) : option Q :=
  match f_parts f with
  | Some (v, e) => Some (if 0 <=? e then inject_Z (v * 2 ^ e) else Qmake v (Z.to_pos (2 ^ (- e))))
  | None => None
  end.

(* math.ceil on a float: exact; inf -> OverflowError, nan -> ValueError.
   v * 2^e with e < 0: floor division by 2^-e is an arithmetic right shift *)
Definition f_ceil (f : float) : res Z :=
  match f_parts f with
  | Some (v, e) => Ok (if 0 <=? e then Z.shiftl v e else - (Z.shiftr (- v) (- e)))
  | None => if is_nan f then Err EValue else Err EOverflow
  end.

Definition f_trunc (f : float) : res Z :=
  match f_parts f with
  | Some (v, e) => Ok (if 0 <=? e then Z.shiftl v e
                       else if v <? 0 then - (Z.shiftr (- v) (- e)) else Z.shiftr v (- e))
  | None => if is_nan f then Err EValue else Err EOverflow
  end.

Definition arith (oz : Z -> Z -> Z) (oq : Q -> Q -> Q) (ofl : float -> float -> float) (a b : pyval) : pyval :=
  match a, b with
  | VErr e, _ => VErr e
  | _, VErr e => VErr e
  | VInt x, VInt y => VInt (oz x y)
  | VInt x, VFrac y => VFrac (oq (inject_Z x) y)
  | VFrac x, VInt y => VFrac (oq x (inject_Z y))
  | VFrac x, VFrac y => VFrac (oq x y)
  | VFloat x, VFloat y => VFloat (ofl x y)
  | VInt x, VFloat y => match int_to_float x with Ok fx => VFloat (ofl fx y) | Err e => VErr e end
  | VFloat x, VInt y => match int_to_float y with Ok fy => VFloat (ofl x fy) | Err e => VErr e end
  | VFrac _, VFloat _ | VFloat _, VFrac _ => VErr EUnsup   (* float(Fraction) is not modelled: fail closed *)
  | _, _ => VErr EType
  end.

Definition py_mul := arith Z.mul Qmult PrimFloat.mul.
Definition py_add := arith Z.add Qplus PrimFloat.add.
Definition py_sub := arith Z.sub Qminus PrimFloat.sub.

Definition py_ceil (v : pyval) : pyval :=
  match v with
  | VErr e => VErr e
  | VInt z => VInt z
  | VFrac q => VInt (Qceiling q)
  | VFloat f => match f_ceil f with Ok z => VInt z | Err e => VErr e end
  | _ => VErr EType
  end.

Definition py_int (v : pyval) : pyval :=
  match v with
  | VErr e => VErr e
  | VInt z => VInt z
  | VBool b => VInt (if b then 1 else 0)
  | VFrac q => VInt (Z.quot (Qnum q) (Zpos (Qden q)))
  | VFloat f => match f_trunc f with Ok z => VInt z | Err e => VErr e end
  | _ => VErr EType
  end.

Definition exactQ (v : pyval) : option Q :=
  match v with
  | VInt z => Some (inject_Z z)
  | VFrac q => Some q
  | VFloat f => f_to_Q f
  | _ => None
  end.

(* a > b : exact comparison across int / Fraction / finite float (inf, nan: not modelled, fail closed) *)
Definition py_gt (a b : pyval) : pyval :=
  match a, b with
  | VErr e, _ => VErr e
  | _, VErr e => VErr e
  | VInt x, VInt y => VBool (y <? x)
  | _, _ => match exactQ a, exactQ b with
            | Some x, Some y => VBool (negb (Qle_bool x y))
            | _, _ => VErr EUnsup
            end
  end.

Definition truth (v : pyval) : res bool :=
  match v with
  | VErr e => Err e
  | VInt z => Ok (negb (z =? 0))
  | VFrac q => Ok (negb (Qnum q =? 0))
  | VFloat f => Ok (negb (is_zero f))
  | VNone => Ok false
  | VBool b => Ok b
  | VDict kvs => Ok (match kvs with [] => false | _ => true end)
  end.

Definition py_min (a b : pyval) : pyval :=       (* min(a, b): b if b < a else a *)
  match py_gt a b with VBool true => b | VBool false => a | VErr e => VErr e | _ => VErr EType end.

Definition py_is_none (v : pyval) : pyval :=
  match v with VErr e => VErr e | VNone => VBool true | _ => VBool false end.

Definition py_not (v : pyval) : pyval :=
  match truth v with Ok b => VBool (negb b) | Err e => VErr e end.

Definition py_or (a b : pyval) : pyval :=
  match truth a with Err e => VErr e | Ok true => a | Ok false => b end.

Definition py_and (a b : pyval) : pyval :=
  match truth a with Err e => VErr e | Ok true => b | Ok false => a end.

Fixpoint lookup (k : string) (kvs : list (string * pyval)) : option pyval :=
  match kvs with
  | [] => None
  | (k', v) :: r => if String.eqb k k' then Some v else lookup k r
  end.

Definition py_getitem (d : pyval) (k : string) : pyval :=
  match d with
  | VErr e => VErr e
  | VDict kvs => match lookup k kvs with Some v => v | None => VErr EKey end
  | _ => VErr EType
  end.

(* control: a raised exception aborts the rest *)
Definition py_let (v : pyval) (k : pyval -> pyval) : pyval :=
  match v with VErr e => VErr e | _ => k v end.
Definition py_cond (c : pyval) (a b : pyval) : pyval :=
  match truth c with Err e => VErr e | Ok true => a | Ok false => b end.
Definition blk_let {S : Type} (v : pyval) (k : pyval -> res S) : res S :=
  match v with VErr e => Err e | _ => k v end.
Definition blk_bind {S T : Type} (r : res S) (k : S -> res T) : res T :=
  match r with Ok s => k s | Err e => Err e end.
Definition blk_cond {S : Type} (c : pyval) (a b : res S) : res S :=
  match truth c with Err e => Err e | Ok true => a | Ok false => b end.
Definition py_block {S : Type} (r : res S) (k : S -> pyval) : pyval :=
  match r with Ok s => k s | Err e => VErr e end.

(* ------------------------------------------------------------------ protocol parameters, as the code sees them *)
Record params := {
  min_fee_constant : pyval;
  min_fee_coefficient : pyval;
  max_tx_size : pyval;
  price_mem : pyval;
  price_step : pyval;
  max_tx_ex_mem : pyval;
  max_tx_ex_steps : pyval;
  maximum_reference_scripts_size : pyval;     (* None or {"bytes": int} *)
  min_fee_reference_scripts : pyval           (* None or {"base":…, "range":…, "multiplier":…} *)
}.
Record context := { protocol_param : params }.

(* ------------------------------------------------------------------ hand model of utils.py
   Pinned text of the translator's output for the reviewed source (names changed only); FeeGenProofs proves the
   freshly generated coq/gen/FeeGen.v convertible to it on every run. *)
Open Scope string_scope.
(* def tiered_reference_script_fee — utils.py line 30 *)
Fixpoint tier_loop (fuel : nat) (v_m v_r : pyval) (st : pyval * pyval * pyval) {struct fuel} : res (pyval * pyval * pyval) :=
 match fuel with
 | O => Err EFuel
 | S fuel' =>
  let '(v_total, v_scripts_size, v_b) := st in
  blk_cond (py_gt v_scripts_size v_r)
   (blk_bind (blk_let (py_add v_total (py_mul v_b v_r)) (fun v_total =>
 blk_let (py_sub v_scripts_size v_r) (fun v_scripts_size =>
 blk_let (py_mul v_b v_m) (fun v_b =>
 Ok (v_total, v_scripts_size, v_b)))))
    (fun st' => tier_loop fuel' v_m v_r st'))
   (Ok st)
 end.
Definition tiered_model (fuel : nat) (v_context : context) (v_scripts_size : pyval) : pyval :=
 py_cond (py_or (py_is_none (maximum_reference_scripts_size (protocol_param v_context))) (py_is_none (min_fee_reference_scripts (protocol_param v_context))))
 ((VInt (0)))
 (py_let (py_getitem (maximum_reference_scripts_size (protocol_param v_context)) "bytes") (fun v_max_size =>
 py_cond (py_gt v_scripts_size v_max_size)
 ((VErr EValue))
 (py_let (VFloat 0x0.0p+0) (fun v_total =>
 py_block (blk_bind (blk_cond v_scripts_size
 (blk_let (py_getitem (min_fee_reference_scripts (protocol_param v_context)) "base") (fun v_b =>
 blk_let (py_ceil (py_getitem (min_fee_reference_scripts (protocol_param v_context)) "range")) (fun v_r =>
 blk_let (py_getitem (min_fee_reference_scripts (protocol_param v_context)) "multiplier") (fun v_m =>
 blk_bind (tier_loop fuel v_m v_r (v_total, v_scripts_size, v_b)) (fun '(v_total, v_scripts_size, v_b) =>
 blk_let (py_add v_total (py_mul v_b v_scripts_size)) (fun v_total =>
 Ok (v_total, v_scripts_size)))))))
 (Ok (v_total, v_scripts_size))) (fun '(v_total, v_scripts_size) =>
 Ok (v_total, v_scripts_size)))
 (fun '(v_total, v_scripts_size) => (py_ceil v_total)))))).

(* def fee — utils.py line 71 *)
Definition fee_model (fuel : nat) (v_context : context) (v_length v_exec_steps v_max_mem_unit v_ref_script_size : pyval) : pyval :=
 (py_int (py_add (py_add (py_add (py_add (py_ceil (py_mul v_length (min_fee_coefficient (protocol_param v_context)))) (py_ceil (min_fee_constant (protocol_param v_context)))) (py_ceil (py_mul v_exec_steps (price_step (protocol_param v_context))))) (py_ceil (py_mul v_max_mem_unit (price_mem (protocol_param v_context))))) (py_let v_ref_script_size (fun a1 => tiered_model fuel v_context a1)))).

(* def max_tx_fee — utils.py line 100 *)
Definition max_tx_fee_model (fuel : nat) (v_context : context) (v_ref_script_size : pyval) : pyval :=
 (py_let (max_tx_size (protocol_param v_context)) (fun a1 => py_let (max_tx_ex_steps (protocol_param v_context)) (fun a2 => py_let (max_tx_ex_mem (protocol_param v_context)) (fun a3 => py_let v_ref_script_size (fun a4 => fee_model fuel v_context a1 a2 a3 a4))))).

Close Scope string_scope.

(* ------------------------------------------------------------------ the ledger rule (SPECIFICATION), exact rationals *)
Module Ledger.
  Record lparams := {
    la : Z;            (* min_fee_coefficient, lovelace per byte *)
    lb : Z;            (* min_fee_constant *)
    lpm : Q;           (* price per memory unit *)
    lps : Q;           (* price per step *)
    lbase : Q;         (* reference scripts: price per byte of the first tier *)
    lrange : Z;        (* tier size in bytes *)
    lmult : Q          (* price multiplier per tier *)
  }.

  (* Cardano.Ledger.Conway.Tx.tierRefScriptFee (Rational arithmetic, always normalised):
       go acc price n | n < sizeIncrement = floor (acc + n * price)
                      | otherwise = go (acc + sizeIncrement * price) (multiplier * price) (n - sizeIncrement)
     [tier_go] is that recursion; [tier] is the same value read as "k = n div range full tiers, then the
     remaining n - k*range bytes at the k-th price" (FeeProofs.tier_go_tier proves them equal). *)
  Fixpoint tier_go (fuel : nat) (rng : Z) (mult : Q) (acc price : Q) (n : Z) : Q :=
    match fuel with
    | O => acc
    | S f => if n <? rng then Qred (acc + inject_Z n * price)%Q
             else tier_go f rng mult (Qred (acc + inject_Z rng * price)%Q) (Qred (mult * price)%Q) (n - rng)
    end.

  Definition tier_fuel (rng n : Z) : nat := S (Z.to_nat (n / rng)).

  Fixpoint tier_prefix (k : nat) (rng : Z) (mult : Q) (acc price : Q) : Q * Q :=
    match k with
    | O => (acc, price)
    | S k' => tier_prefix k' rng mult (Qred (acc + inject_Z rng * price)%Q) (Qred (mult * price)%Q)
    end.

  Definition tier_last (ap : Q * Q) (j : Z) : Q := Qred (fst ap + inject_Z j * snd ap)%Q.

  Definition tier (p : lparams) (n : Z) : Q :=
    let k := Z.to_nat (n / lrange p) in
    tier_last (tier_prefix k (lrange p) (lmult p) 0%Q (lbase p)) (n - Z.of_nat k * lrange p).

  Definition min_fee (p : lparams) (size steps mem refbytes : Z) : Z :=
    la p * size + lb p + Qceiling (lpm p * inject_Z mem + lps p * inject_Z steps)%Q + Qfloor (tier p refbytes).
End Ledger.

(* the typed reading of [fee_model] for int coefficients and Fraction prices: T is the tier term *)
Definition fee_typed (a b : Z) (ps pm : Q) (T : Z) (l s m : Z) : Z :=
  a * l + b + Qceiling (inject_Z s * ps)%Q + Qceiling (inject_Z m * pm)%Q + T.

(* ------------------------------------------------------------------ the two estimate passes *)
Definition widthZ (z : Z) : Z := Z.of_N (width (Z.to_N z)).

(* TransactionBuilder._add_change_and_fee, as the code is now: every fake transaction carries the fee
   placeholder  max(self.fee, max_tx_fee(ctx, ref) + fee_buffer)  (self.fee is 0 on entry).
   Everything that is the same in the fake transactions of both passes and in the final transaction is a
   constant number of bytes; what varies is the fee field and the coin field that absorbs the change.
     k0    : bytes of the pass-1 fake transaction (no change outputs yet) without its fee field
     kc    : bytes the change outputs add, without the coin field that absorbs the remainder
             (merge_change: kc = - width of the coin of the output merged into)
     M     : max_tx_fee(ctx, ref) + fee_buffer
     avail : lovelace left for fee + absorbed change;  c0 : lovelace already in the absorbing output
     est   : size -> estimated fee (utils.fee at that size + fee_buffer) *)
Record twopass := {
  tp_k0 : Z; tp_kc : Z; tp_M : Z; tp_avail : Z; tp_c0 : Z
}.
Section TwoPass.
  Variable est : Z -> Z.
  Variable t : twopass.
  Definition tp_size1 : Z := tp_k0 t + widthZ (Z.max 0 (tp_M t)).
  Definition tp_fee1 : Z := est tp_size1.
  Definition tp_coin1 : Z := tp_c0 t + (tp_avail t - tp_fee1).
  Definition tp_size2 : Z := tp_k0 t + tp_kc t + widthZ (Z.max tp_fee1 (tp_M t)) + widthZ tp_coin1.
  Definition tp_fee2 : Z := est tp_size2.
  Definition tp_coin2 : Z := tp_c0 t + (tp_avail t - tp_fee2).
  Definition tp_final : Z := tp_k0 t + tp_kc t + widthZ tp_fee2 + widthZ tp_coin2.

  (* the scheme before the fix (placeholder of pass 2 = fee of pass 1), kept to show why the
     max-width placeholder is needed: see FeeProofs.old_scheme_refuted *)
  Definition old_size1 : Z := tp_k0 t + widthZ (tp_M t).
  Definition old_fee1 : Z := est old_size1.
  Definition old_coin1 : Z := tp_c0 t + (tp_avail t - old_fee1).
  Definition old_size2 : Z := tp_k0 t + tp_kc t + widthZ old_fee1 + widthZ old_coin1.
  Definition old_fee2 : Z := est old_size2.
  Definition old_coin2 : Z := tp_c0 t + (tp_avail t - old_fee2).
  Definition old_final : Z := tp_k0 t + tp_kc t + widthZ old_fee2 + widthZ old_coin2.
End TwoPass.

(* ------------------------------------------------------------------ 5. the UTxOs a transaction touches *)
(* a UTxO as far as the fee is concerned: its reference, the size in bytes of the script its output carries (if any)
   and the payment key hash that locks it (None: locked by a script) *)
Record futxo := { fu_id : bytes; fu_ix : N; fu_script : option Z; fu_key : option bytes }.
Definition oref := (bytes * N)%type.
Definition fu_ref (u : futxo) : oref := (fu_id u, fu_ix u).
Definition oref_eqb (a b : oref) : bool := bytes_eqb (fst a) (fst b) && (snd a =? snd b)%N.
Definition optZ_eqb (a b : option Z) : bool :=
  match a, b with Some x, Some y => x =? y | None, None => true | _, _ => false end.
Definition optB_eqb (a b : option bytes) : bool :=
  match a, b with Some x, Some y => bytes_eqb x y | None, None => true | _, _ => false end.
(* UTxO.__eq__: input and output are compared *)
Definition futxo_eqb (u v : futxo) : bool :=
  oref_eqb (fu_ref u) (fu_ref v) && optZ_eqb (fu_script u) (fu_script v) && optB_eqb (fu_key u) (fu_key v).
Definition fu_mem (u : futxo) (l : list futxo) : bool := existsb (futxo_eqb u) l.

(* TransactionBuilder._ref_script_size:
     for utxo in inputs + [reference inputs that are UTxOs]:
         if utxo in seen: continue
         seen.append(utxo); s = utxo.output.script
         if s is None: continue
         ref_script_size += len(s)            (native scripts: len(s.to_cbor())) *)
Fixpoint ref_size_loop (seen l : list futxo) (acc : Z) : Z :=
  match l with
  | [] => acc
  | u :: r => if fu_mem u seen then ref_size_loop seen r acc
              else ref_size_loop (u :: seen) r (match fu_script u with Some n => acc + n | None => acc end)
  end.
Definition builder_ref_size (inputs refs : list futxo) : Z := ref_size_loop [] (inputs ++ refs) 0.

(* TransactionBuilder._witness_count without witness_override, on the slice inputs / collateral / required signers /
   key leaves of native scripts: the size of the SET of key hashes *)
Definition bmem (k : bytes) (l : list bytes) : bool := existsb (bytes_eqb k) l.
Fixpoint bdistinct_from (seen l : list bytes) : list bytes :=
  match l with
  | [] => []
  | k :: r => if bmem k seen then bdistinct_from seen r else k :: bdistinct_from (k :: seen) r
  end.
Definition bdistinct (l : list bytes) : list bytes := bdistinct_from [] l.
Definition fu_keys (u : futxo) : list bytes := match fu_key u with Some k => [k] | None => [] end.
Definition builder_witness_count (inputs collaterals : list futxo) (required script_keys : list bytes) : Z :=
  Z.of_nat (List.length (bdistinct (flat_map fu_keys (inputs ++ collaterals) ++ required ++ script_keys))).

(* The ledger's reading (SPECIFICATION).  [tbl] is the UTxO set, one entry per reference.
   Conway, txNonDistinctRefScriptsSize: the outputs of  inputs ∪ referenceInputs  (a SET of references: an output that
   is both spent and referenced is looked up once) contribute the size of the script they carry; the same script on
   two different outputs is charged twice. *)
Module Touched.
  Fixpoint resolve (tbl : list futxo) (r : oref) : option futxo :=
    match tbl with
    | [] => None
    | u :: t => if oref_eqb (fu_ref u) r then Some u else resolve t r
    end.
  Fixpoint resolve_all (tbl : list futxo) (rs : list oref) : option (list futxo) :=
    match rs with
    | [] => Some []
    | r :: t => match resolve tbl r, resolve_all tbl t with
                | Some u, Some us => Some (u :: us)
                | _, _ => None
                end
    end.
  Definition omem (r : oref) (l : list oref) : bool := existsb (oref_eqb r) l.
  Fixpoint distinct_from (seen l : list oref) : list oref :=
    match l with
    | [] => []
    | r :: t => if omem r seen then distinct_from seen t else r :: distinct_from (r :: seen) t
    end.
  Definition distinct (l : list oref) : list oref := distinct_from [] l.
  Definition script_bytes_at (tbl : list futxo) (r : oref) : Z :=
    match resolve tbl r with
    | Some u => match fu_script u with Some n => n | None => 0 end
    | None => 0
    end.
  Definition ref_script_bytes (tbl : list futxo) (inputs refs : list oref) : Z :=
    fold_right Z.add 0 (map (script_bytes_at tbl) (distinct (inputs ++ refs))).
  (* key witnesses the ledger asks for in this slice: the keys locking spent and collateral inputs, the required
     signers of the body, the key leaves of the native scripts that run *)
  Definition keys_at (tbl : list futxo) (r : oref) : list bytes :=
    match resolve tbl r with Some u => fu_keys u | None => [] end.
  Definition needed_keys (tbl : list futxo) (inputs collateral : list oref) (required script_keys : list bytes) : list bytes :=
    bdistinct (flat_map (keys_at tbl) (inputs ++ collateral) ++ required ++ script_keys).
End Touched.
