(* FeeGenProofs.v — C07 tie T2: the functions regenerated from the CURRENT pycardano/utils.py (coq/gen/FeeGen.v)
   are convertible to the reviewed hand model of Fee.v; the theorems of FeeProofs/FeeSweep* are transported to
   them.  Any change of the formulas in utils.py breaks one of the `reflexivity` obligations below. *)
From Coq Require Import ZArith QArith Qround String List Bool Lia.
From Coq Require Import PrimFloat.
From PyC Require Import Base Cbor Fee FeeProofs FeeSweep1 FeeSweep2.
From PyCGen Require Import FeeGen.
Import ListNotations.
Open Scope Z_scope.
Import Ledger.

Lemma gen_tiered_eq : forall fuel c n, g_tiered_reference_script_fee fuel c n = tiered_model fuel c n.
Proof. reflexivity. Qed.
Lemma gen_fee_eq : forall fuel c l s m r, g_fee fuel c l s m r = fee_model fuel c l s m r.
Proof. reflexivity. Qed.
Lemma gen_max_eq : forall fuel c r, g_max_tx_fee fuel c r = max_tx_fee_model fuel c r.
Proof. reflexivity. Qed.

Lemma gen_all_eq :
  (forall fuel c n, g_tiered_reference_script_fee fuel c n = tiered_model fuel c n)
  /\ (forall fuel c l s m r, g_fee fuel c l s m r = fee_model fuel c l s m r)
  /\ (forall fuel c r, g_max_tx_fee fuel c r = max_tx_fee_model fuel c r).
Proof. repeat split. Qed.

Lemma gen_fee_fn : forall fuel c a b ps pm l s m r,
  min_fee_coefficient (protocol_param c) = VInt a -> min_fee_constant (protocol_param c) = VInt b ->
  price_step (protocol_param c) = VFrac ps -> price_mem (protocol_param c) = VFrac pm ->
  g_fee fuel c (VInt l) (VInt s) (VInt m) (VInt r) =
    match g_tiered_reference_script_fee fuel c (VInt r) with
    | VInt T => VInt (a * l + b + Qceiling (inject_Z s * ps) + Qceiling (inject_Z m * pm) + T)
    | v => v
    end.
Proof.
  intros. rewrite gen_fee_eq, gen_tiered_eq. apply fee_model_typed. repeat split; assumption.
Qed.

Lemma gen_tier_shape : forall fuel c n,
  (exists t, g_tiered_reference_script_fee fuel c n = VInt t) \/ (exists e, g_tiered_reference_script_fee fuel c n = VErr e).
Proof. intros. rewrite gen_tiered_eq. apply tiered_shape. Qed.

Lemma gen_fee_bounds : forall (p : lparams) T l s m r,
  Qfloor (tier p r) <= T <= Qfloor (tier p r) + 1 ->
  min_fee p l s m r <= la p * l + lb p + Qceiling (inject_Z s * lps p) + Qceiling (inject_Z m * lpm p) + T
                    <= min_fee p l s m r + 2.
Proof. intros. apply (fee_typed_bounds p T l s m r). assumption. Qed.

Lemma gen_fee_bounds_attained :
  (exists p l s m r, la p * l + lb p + Qceiling (inject_Z s * lps p) + Qceiling (inject_Z m * lpm p) + Qceiling (tier p r)
                     = min_fee p l s m r)
  /\ (exists p l s m r, la p * l + lb p + Qceiling (inject_Z s * lps p) + Qceiling (inject_Z m * lpm p) + Qceiling (tier p r)
                     = min_fee p l s m r + 2).
Proof.
  split.
  - exists mainnet_lp, 300, 0, 0, 0. exact fee_bound_attained_0.
  - exists mainnet_lp, 300, 1, 1, 51201. exact fee_bound_attained_2.
Qed.

Lemma gen_maxfee_fn : forall fuel c r ms st mm,
  max_tx_size (protocol_param c) = VInt ms -> max_tx_ex_steps (protocol_param c) = VInt st ->
  max_tx_ex_mem (protocol_param c) = VInt mm ->
  g_max_tx_fee fuel c (VInt r) = g_fee fuel c (VInt ms) (VInt st) (VInt mm) (VInt r).
Proof. intros. rewrite gen_max_eq, gen_fee_eq. now apply max_tx_fee_model_eq. Qed.

Lemma gen_tier_float_mainnet : forall c n,
  maximum_reference_scripts_size (protocol_param c) = VDict [("bytes"%string, VInt 200000)] ->
  min_fee_reference_scripts (protocol_param c) =
    VDict [("base"%string, VFloat 0x1.ep+3); ("range"%string, VInt 25600); ("multiplier"%string, VFloat 0x1.3333333333333p+0)] ->
  0 <= n <= 200000 ->
  g_tiered_reference_script_fee 16 c (VInt n) = VInt (Qceiling (tier mainnet_lp n)).
Proof. intros. rewrite gen_tiered_eq. now apply tier_float_mainnet. Qed.

Lemma gen_tier_float_fixture : forall c n,
  maximum_reference_scripts_size (protocol_param c) = VDict [("bytes"%string, VInt 200000)] ->
  min_fee_reference_scripts (protocol_param c) =
    VDict [("base"%string, VInt 44); ("range"%string, VInt 25600); ("multiplier"%string, VFloat 0x1.3333333333333p+0)] ->
  0 <= n <= 200000 ->
  g_tiered_reference_script_fee 16 c (VInt n) = VInt (Qceiling (tier fixture_lp n)).
Proof. intros. rewrite gen_tiered_eq. now apply tier_float_fixture. Qed.

Lemma gen_tier_loop_fuel : forall fuel m r tot n b, 0 < r ->
  tot <> VErr EFuel -> b <> VErr EFuel -> m <> VErr EFuel -> (Z.to_nat (n / r) < fuel)%nat ->
  g_tiered_reference_script_fee_loop1 fuel m (VInt r) (tot, VInt n, b) <> Err EFuel.
Proof. exact tier_loop_fuel. Qed.

(* float prices are not the declared type; with them the product is rounded before the ceiling *)
Example float_price_underestimates :
  py_ceil (py_mul (VInt 9423000001) (VFloat 0x1.d8adabad140b3p-5)) = VInt 543707101
  /\ Qceiling (inject_Z 9423000001 * (577000001 # 10000000000)) = 543707102.
Proof. vm_compute. split; reflexivity. Qed.
