(* AddressGenCheck.v — the constants the translator extracted from the CURRENT pycardano sources
   (coq/gen/AddressGen.v, rewritten on every run) are the ones the model and the proofs use.
   A changed constant in the source makes this file fail to compile. *)
From Coq Require Import NArith String List.
From PyC Require Import Base Bech32 Address AddressOracle.
From PyCGen Require AddressGen.
Import ListNotations.
Open Scope N_scope.

Lemma gen_constants :
  AddressGen.CHARSET = CHARSET_string
  /\ AddressGen.BECH32M_CONST = BECH32M_CONST
  /\ N.to_nat AddressGen.VERIFICATION_KEY_HASH_SIZE = HASH_SIZE
  /\ N.to_nat AddressGen.SCRIPT_HASH_SIZE = HASH_SIZE
  /\ AddressGen.address_types = expected_address_types
  /\ AddressGen.networks = expected_networks
  /\ AddressGen.literals = expected_literals.
Proof. repeat split; reflexivity. Qed.
