(* Redeemers.v — C11 model (no proofs): the slice of pycardano/txbuilder.py that registers scripts,
   datums and redeemers (add_script_input, add_minting_script, add_withdrawal_script,
   add_certificate_script, _consolidate_redeemer), materialises them (all_scripts, scripts, datums,
   _redeemer_list, build_witness_set) and, inside build(), sorts the inputs, assigns redeemer
   indices (_set_redeemer_index), replaces execution units (_update_execution_units) and sets the
   automatic validity interval.  Quantities outside the slice are data: the UTxOs added by coin
   selection (a_extra), the evaluator's answers after buffering (a_units), script and datum hashes.

   Also here: the SPECIFICATION side — the ledger's orders (inputs by (tx id bytes, index), policies
   bytewise, reward accounts by (network, script-before-key, hash)), "what was attached to what"
   (attached / needed / supplied: plain folds over the list of API calls, independent of the model). *)
From Coq Require Import NArith ZArith Ascii String List Bool Lia.
From Coq Require Import Init.Byte.
From PyC Require Import Base Cbor.
Import ListNotations.
Open Scope N_scope.

(* ================= generic helpers ================= *)
Section ISort.
  Context {A : Type} (ltb : A -> A -> bool).
  (* stable insertion sort, = Python's sorted(l, key) when ltb compares the keys *)
  Fixpoint insert (x : A) (l : list A) : list A :=
    match l with
    | [] => [x]
    | h :: r => if ltb h x then h :: insert x r else x :: l
    end.
  Definition isort (l : list A) : list A := fold_right insert [] l.
  (* the ledger's pointer: how many members are smaller *)
  Definition rank (x : A) (l : list A) : nat := length (filter (fun y => ltb y x) l).
End ISort.

Section Index.
  Context {A : Type} (eqb : A -> A -> bool).
  (* list.index(x): first position holding an equal element *)
  Fixpoint index_of (x : A) (l : list A) : option nat :=
    match l with
    | [] => None
    | h :: r => if eqb h x then Some O else option_map S (index_of x r)
    end.
  Definition mem (x : A) (l : list A) : bool := existsb (fun h => eqb h x) l.
  (* keep first occurrences *)
  Fixpoint dedup_acc (acc l : list A) : list A :=
    match l with
    | [] => acc
    | h :: r => if mem h acc then dedup_acc acc r else dedup_acc (acc ++ [h]) r
    end.
  Definition dedup (l : list A) : list A := dedup_acc [] l.
  (* d[k] = v on an insertion-ordered dict: an existing key keeps its place (and its key object) *)
  Fixpoint aset {V} (d : list (A * V)) (k : A) (v : V) : list (A * V) :=
    match d with
    | [] => [(k, v)]
    | (k', v') :: r => if eqb k' k then (k', v) :: r else (k', v') :: aset r k v
    end.
  Fixpoint aget {V} (d : list (A * V)) (k : A) : option V :=
    match d with
    | [] => None
    | (k', v') :: r => if eqb k' k then Some v' else aget r k
    end.
  Definition set_add (s : list A) (x : A) : list A := if mem x s then s else s ++ [x].
End Index.

(* Python str comparison (code points) *)
Fixpoint str_ltb (a b : string) : bool :=
  match a, b with
  | EmptyString, EmptyString => false
  | EmptyString, String _ _ => true
  | String _ _, EmptyString => false
  | String x a', String y b' =>
      if N_of_ascii x <? N_of_ascii y then true
      else if N_of_ascii y <? N_of_ascii x then false
      else str_ltb a' b'
  end.

(* ================= data ================= *)
Inductive lang := LNative | LV1 | LV2 | LV3.
Definition lang_eqb (a b : lang) : bool :=
  match a, b with LNative, LNative | LV1, LV1 | LV2, LV2 | LV3, LV3 => true | _, _ => false end.

(* a script is identified by its language and its hash (script_hash output, supplied as data) *)
Record script := mkScript { s_lang : lang; s_hash : bytes }.
Definition script_eqb (a b : script) : bool := lang_eqb (s_lang a) (s_lang b) && bytes_eqb (s_hash a) (s_hash b).
Definition hash_in (h : bytes) (l : list script) : bool := existsb (fun s => bytes_eqb (s_hash s) h) l.

Definition txin := (bytes * N)%type.
Definition txin_eqb (a b : txin) : bool := bytes_eqb (fst a) (fst b) && (snd a =? snd b).

Inductive odatum := ONone | OHash (h : bytes) | OInline (c : bytes).
Definition odatum_eqb (a b : odatum) : bool :=
  match a, b with
  | ONone, ONone => true
  | OHash x, OHash y => bytes_eqb x y
  | OInline x, OInline y => bytes_eqb x y
  | _, _ => false
  end.
Definition oscript_eqb (a b : option script) : bool :=
  match a, b with Some x, Some y => script_eqb x y | None, None => true | _, _ => false end.

(* the parts of a UTxO the slice looks at: input, address kind + payment hash, datum option, script *)
Record utxo := mkUtxo { u_in : txin; u_saddr : bool; u_pay : bytes; u_dat : odatum; u_script : option script }.
(* UTxO.__eq__ : input and output *)
Definition utxo_eqb (a b : utxo) : bool :=
  txin_eqb (u_in a) (u_in b) && Bool.eqb (u_saddr a) (u_saddr b) && bytes_eqb (u_pay a) (u_pay b)
  && odatum_eqb (u_dat a) (u_dat b) && oscript_eqb (u_script a) (u_script b).

(* datum as handed to the builder: its datum_hash and its CBOR *)
Record datum := mkDatum { d_hash : bytes; d_cbor : bytes }.

(* Redeemer object: r_id is the scenario's name for the object (not seen by the code) *)
Record rdm := mkRdm { r_id : N; r_tag : option N; r_index : nat; r_data : bytes; r_units : option (N * N) }.
Definition set_tag (r : rdm) (t : N) := mkRdm (r_id r) (Some t) (r_index r) (r_data r) (r_units r).
Definition set_index (r : rdm) (i : nat) := mkRdm (r_id r) (r_tag r) i (r_data r) (r_units r).
Definition set_units (r : rdm) (u : option (N * N)) := mkRdm (r_id r) (r_tag r) (r_index r) (r_data r) u.
(* ExecutionUnits.__bool__ / None *)
Definition truthy (u : option (N * N)) : bool :=
  match u with Some (m, s) => negb ((m =? 0) && (s =? 0)) | None => false end.

Definition TAG_SPEND : N := 0.  Definition TAG_MINT : N := 1.
Definition TAG_CERT : N := 2.   Definition TAG_REWARD : N := 3.

Inductive err := EInvalidArg | EAssert | EValue | EBuilder.
Inductive result (A : Type) := Ok (a : A) | Err (e : err).
Arguments Ok {A} a.  Arguments Err {A} e.
Definition bind {A B} (x : result A) (f : A -> result B) : result B :=
  match x with Ok a => f a | Err e => Err e end.

(* where the script of a script input comes from *)
Inductive ssrc :=
| SrcNone (ctx_utxos : list utxo)   (* script=None; ctx_utxos = context.utxos(address of the input) *)
| SrcUtxo (u : utxo)                (* a UTxO expected to carry the script *)
| SrcScript (s : script).           (* the script itself *)

Inductive bop :=
| AddInput (u : utxo)
| AddScriptInput (u : utxo) (src : ssrc) (d : option datum) (r : option rdm)
| AddMintingScript (src : ssrc) (r : option rdm)      (* src is SrcUtxo or SrcScript *)
| AddWithdrawalScript (src : ssrc) (r : option rdm)
| AddCertificateScript (src : ssrc) (r : option rdm)
| AddCert (c : bytes)                                 (* certificates.append(c), c = the certificate's CBOR *)
| AddOutputDatum (d : datum)                          (* add_output(o, datum=d, add_datum_to_witness=True) *)
| AddCollateral (u : utxo)                            (* builder.collaterals.append(u): no function of this slice reads the
                                                         collateral list — in particular a script carried by a collateral UTxO
                                                         is NOT a script the transaction can resolve (only spent and reference
                                                         inputs are), so it never stands in for a witness script *)
| AddReferenceInput (u : utxo)                        (* builder.reference_inputs.add(u) by the caller: a read-only reference
                                                         input (an oracle / configuration UTxO).  It joins the body's reference
                                                         inputs (ro_refs below) and nothing else: a script it happens to carry
                                                         is not registered in _reference_scripts, is not one of all_scripts and
                                                         contributes no language view *)
| AddOutputDatumHashOnly (d : datum).                 (* add_output(o, datum=d) with add_datum_to_witness=False (the default):
                                                         the output gets the hash; builder.datums is NOT touched, in particular
                                                         an equal datum registered earlier for a spent input stays *)

Record bstate := mkB {
  b_inputs : list utxo;
  b_in_rdm : list (utxo * rdm);            (* _inputs_to_redeemers *)
  b_in_scr : list (utxo * script);         (* _inputs_to_scripts *)
  b_mint : list (script * option rdm);     (* _minting_script_to_redeemers *)
  b_wdrl : list (script * option rdm);     (* _withdrawal_script_to_redeemers *)
  b_cert : list (script * option rdm);     (* _certificate_script_to_redeemers *)
  b_refin : list utxo;                     (* reference_inputs (a set; order not observable) *)
  b_refscr : list script;                  (* _reference_scripts *)
  b_datums : list (bytes * datum);         (* _datums : hash -> datum, insertion order *)
  b_native : list script;                  (* native_scripts field *)
  b_certs : list bytes;                    (* certificates *)
  b_est : option bool                      (* _should_estimate_execution_units *)
}.
Definition init_state (native : list script) : bstate := mkB [] [] [] [] [] [] [] [] [] native [] None.

(* ================= the add_* calls ================= *)
Definition consolidate (est : option bool) (r : rdm) : result (option bool * rdm) :=
  match est with
  | None => if truthy (r_units r) then Ok (Some false, r) else Ok (Some true, set_units r (Some (0, 0)))
  | Some e =>
      if negb e && negb (truthy (r_units r)) then Err EInvalidArg
      else if e then (if truthy (r_units r) then Err EInvalidArg else Ok (Some e, set_units r (Some (0, 0))))
      else Ok (Some e, r)
  end.

Definition tag_ok (r : rdm) (t : N) : bool :=
  match r_tag r with None => true | Some t' => t' =? t end.

Definition candidates (u : utxo) (src : ssrc) : result (list (script * option utxo)) :=
  match u_script u with
  | Some s => Ok [(s, Some u)]
  | None =>
      match src with
      | SrcNone pool =>
          Ok (flat_map (fun i => match u_script i with Some s => [(s, Some i)] | None => [] end) pool)
      | SrcUtxo ru => match u_script ru with Some s => Ok [(s, Some ru)] | None => Err EInvalidArg end
      | SrcScript s => Ok [(s, None)]
      end
  end.

Definition add_script_input (st : bstate) (u : utxo) (src : ssrc) (d : option datum) (r : option rdm)
  : result bstate :=
  if negb (u_saddr u) then Err EInvalidArg else
  if match u_dat u, d with OHash h, Some dd => negb (bytes_eqb h (d_hash dd)) | _, _ => false end
  then Err EInvalidArg else
  if match u_dat u, d with OInline _, Some _ => true | _, _ => false end then Err EInvalidArg else
  let datums := match d with Some dd => aset bytes_eqb (b_datums st) (d_hash dd) dd | None => b_datums st end in
  bind (match r with
        | None => Ok (b_est st, b_in_rdm st)
        | Some rd =>
            if negb (tag_ok rd TAG_SPEND) then Err EInvalidArg else
            bind (consolidate (b_est st) (set_tag rd TAG_SPEND)) (fun er =>
              Ok (fst er, aset utxo_eqb (b_in_rdm st) u (snd er)))
        end) (fun er =>
  bind (candidates u src) (fun cands =>
  match find (fun c => bytes_eqb (s_hash (fst c)) (u_pay u)) cands with
  | None => Err EInvalidArg
  | Some (s, cu) =>
      let isref := match cu with Some c => negb (utxo_eqb c u) | None => false end in
      Ok (mkB (b_inputs st ++ [u]) (snd er) (aset utxo_eqb (b_in_scr st) u s)
              (b_mint st) (b_wdrl st) (b_cert st)
              (match cu with Some c => if isref then set_add utxo_eqb (b_refin st) c else b_refin st | None => b_refin st end)
              (if isref then b_refscr st ++ [s] else b_refscr st)
              datums (b_native st) (b_certs st) (fst er))
  end)).

(* common tail of add_minting_script / add_withdrawal_script / add_certificate_script:
   returns (script, reference_inputs', _reference_scripts') *)
Definition resolve_src (st : bstate) (src : ssrc) : result (script * list utxo * list script) :=
  match src with
  | SrcUtxo ru =>
      match u_script ru with
      | Some s => Ok (s, set_add utxo_eqb (b_refin st) ru, b_refscr st ++ [s])
      | None => Err EAssert
      end
  | SrcScript s => Ok (s, b_refin st, b_refscr st)
  | SrcNone _ => Err EInvalidArg      (* not a call the API allows *)
  end.

Definition prep_rdm (est : option bool) (r : option rdm) (t : N) : result (option bool * option rdm) :=
  match r with
  | None => Ok (est, None)
  | Some rd =>
      if negb (tag_ok rd t) then Err EInvalidArg else
      bind (consolidate est (set_tag rd t)) (fun er => Ok (fst er, Some (snd er)))
  end.

Definition add_minting_script (st : bstate) (src : ssrc) (r : option rdm) : result bstate :=
  bind (prep_rdm (b_est st) r TAG_MINT) (fun er =>
  bind (resolve_src st src) (fun x =>
    let '(s, refin, refscr) := x in
    Ok (mkB (b_inputs st) (b_in_rdm st) (b_in_scr st) (b_mint st ++ [(s, snd er)]) (b_wdrl st) (b_cert st)
            refin refscr (b_datums st) (b_native st) (b_certs st) (fst er)))).

Definition add_withdrawal_script (st : bstate) (src : ssrc) (r : option rdm) : result bstate :=
  bind (prep_rdm (b_est st) r TAG_REWARD) (fun er =>
  bind (resolve_src st src) (fun x =>
    let '(s, refin, refscr) := x in
    Ok (mkB (b_inputs st) (b_in_rdm st) (b_in_scr st) (b_mint st) (b_wdrl st ++ [(s, snd er)]) (b_cert st)
            refin refscr (b_datums st) (b_native st) (b_certs st) (fst er)))).

Definition add_certificate_script (st : bstate) (src : ssrc) (r : option rdm) : result bstate :=
  bind (match r with
        | None => Ok (b_est st, None)
        | Some rd =>
            if negb (tag_ok rd TAG_CERT) then Err EInvalidArg else
            match b_certs st with
            | [] => Err EAssert
            | _ :: _ =>
                bind (consolidate (b_est st) (set_tag (set_index rd (length (b_certs st) - 1)%nat) TAG_CERT))
                     (fun er => Ok (fst er, Some (snd er)))
            end
        end) (fun er =>
  bind (resolve_src st src) (fun x =>
    let '(s, refin, refscr) := x in
    Ok (mkB (b_inputs st) (b_in_rdm st) (b_in_scr st) (b_mint st) (b_wdrl st) (b_cert st ++ [(s, snd er)])
            refin refscr (b_datums st) (b_native st) (b_certs st) (fst er)))).

Definition bstep (st : bstate) (op : bop) : result bstate :=
  match op with
  | AddInput u =>
      Ok (mkB (b_inputs st ++ [u]) (b_in_rdm st) (b_in_scr st) (b_mint st) (b_wdrl st) (b_cert st)
              (b_refin st) (b_refscr st) (b_datums st) (b_native st) (b_certs st) (b_est st))
  | AddScriptInput u src d r => add_script_input st u src d r
  | AddMintingScript src r => add_minting_script st src r
  | AddWithdrawalScript src r => add_withdrawal_script st src r
  | AddCertificateScript src r => add_certificate_script st src r
  | AddCert c =>
      Ok (mkB (b_inputs st) (b_in_rdm st) (b_in_scr st) (b_mint st) (b_wdrl st) (b_cert st)
              (b_refin st) (b_refscr st) (b_datums st) (b_native st) (b_certs st ++ [c]) (b_est st))
  | AddOutputDatum d =>
      Ok (mkB (b_inputs st) (b_in_rdm st) (b_in_scr st) (b_mint st) (b_wdrl st) (b_cert st)
              (b_refin st) (b_refscr st) (aset bytes_eqb (b_datums st) (d_hash d) d) (b_native st) (b_certs st) (b_est st))
  | AddOutputDatumHashOnly _ => Ok st
  | AddCollateral _ => Ok st
  | AddReferenceInput _ => Ok st
  end.

(* run the calls; the number of calls done is reported with an error *)
Fixpoint run_from (st : bstate) (ops : list bop) : result bstate :=
  match ops with
  | [] => Ok st
  | op :: r => bind (bstep st op) (fun st' => run_from st' r)
  end.
Definition run (native : list script) (ops : list bop) : result bstate := run_from (init_state native) ops.

(* ================= materialisation ================= *)
(* scripts[script_hash(s)] = s over a dict keyed by hash *)
Fixpoint hset (d : list script) (s : script) : list script :=
  match d with
  | [] => [s]
  | h :: r => if bytes_eqb (s_hash h) (s_hash s) then s :: r else h :: hset r s
  end.
Definition raw_scripts (st : bstate) : list script :=
  b_native st ++ map snd (b_in_scr st) ++ map fst (b_mint st) ++ map fst (b_wdrl st) ++ map fst (b_cert st).
Definition all_scripts (st : bstate) : list script := fold_left hset (raw_scripts st) [].
Definition scripts (st : bstate) : list script :=
  filter (fun s => negb (hash_in (s_hash s) (b_refscr st))) (all_scripts st).
Definition somes {A} (l : list (option A)) : list A := flat_map (fun o => match o with Some x => [x] | None => [] end) l.
Definition redeemer_list (st : bstate) : list rdm :=
  map snd (b_in_rdm st) ++ somes (map snd (b_mint st)) ++ somes (map snd (b_wdrl st)) ++ somes (map snd (b_cert st)).

Definition scripts_on (l : list utxo) : list script := somes (map u_script l).

(* build_witness_set(remove_dup_script) over the final inputs *)
Definition witness_scripts (st : bstate) (rd : bool) (fin : list utxo) : list script :=
  let input_scripts := if rd then scripts_on fin else [] in
  filter (fun s => negb (hash_in (s_hash s) input_scripts)) (scripts st).
Definition bucket (l : lang) (ws : list script) : list script := filter (fun s => lang_eqb (s_lang s) l) ws.

(* ================= build(): inputs, indices, units, validity ================= *)
Record bargs := mkArgs {
  a_mint : list bytes;            (* mint.keys() in dict order *)
  a_wdrl : list bytes;            (* withdrawals.keys() in dict order *)
  a_net : N;                      (* context.network.value *)
  a_extra : list utxo;            (* UTxOs appended by coin selection (data) *)
  a_units : list (N * (N * N));   (* r_id -> evaluated units after buffering (data) *)
  a_rd : bool;                    (* remove_dup_script *)
  a_last : Z;                     (* context.last_block_slot *)
  a_vstart : option Z; a_ttl : option Z;      (* builder.validity_start / builder.ttl set by the user *)
  a_offs : option Z; a_offt : option Z        (* auto_validity_start_offset / auto_ttl_offset *)
}.

(* sort key (str(tx id), index): lower-case hex string, then the integer *)
Definition code_in_ltb (a b : utxo) : bool :=
  let sa := tohex (fst (u_in a)) in let sb := tohex (fst (u_in b)) in
  str_ltb sa sb || (String.eqb sa sb && (snd (u_in a) <? snd (u_in b))).
(* sort key to_cbor() of a ScriptHash *)
Definition code_pol_ltb (a b : bytes) : bool := bytes_ltb (enc (CB a)) (enc (CB b)).

Definition final_inputs (st : bstate) (a : bargs) : list utxo :=
  isort code_in_ltb (dedup utxo_eqb (b_inputs st) ++ a_extra a).

(* Address(staking_part=script hash, network).to_primitive() *)
Definition script_account (net : N) (h : bytes) : bytes := n2b (240 + net) :: h.

Definition index_pairs (f : script -> bytes) (sorted : list bytes) (l : list (script * option rdm))
  : result (list (script * option rdm)) :=
  fold_right (fun sr acc =>
    bind acc (fun acc' =>
      match snd sr with
      | None => Ok (sr :: acc')
      | Some r => match index_of bytes_eqb (f (fst sr)) sorted with
                  | Some i => Ok ((fst sr, Some (set_index r i)) :: acc')
                  | None => Err EValue
                  end
      end)) (Ok []) l.

Definition set_redeemer_index (st : bstate) (a : bargs) (fin : list utxo) : result bstate :=
  let smint := isort code_pol_ltb (a_mint a) in
  let swdrl := isort bytes_ltb (a_wdrl a) in
  let in_rdm := map (fun ur => match index_of utxo_eqb (fst ur) fin with
                               | Some i => (fst ur, set_index (snd ur) i)
                               | None => ur end) (b_in_rdm st) in
  bind (index_pairs s_hash smint (b_mint st)) (fun mint =>
  bind (index_pairs (fun s => script_account (a_net a) (s_hash s)) swdrl (b_wdrl st)) (fun wdrl =>
    Ok (mkB fin in_rdm (b_in_scr st) mint wdrl (b_cert st) (b_refin st) (b_refscr st) (b_datums st)
            (b_native st) (b_certs st) (b_est st)))).

Fixpoint lookupN {V} (k : N) (l : list (N * V)) : option V :=
  match l with [] => None | (k', v) :: r => if k' =? k then Some v else lookupN k r end.

Definition upd_units (a : bargs) (r : rdm) : result rdm :=
  match lookupN (r_id r) (a_units a) with Some u => Ok (set_units r (Some u)) | None => Err EBuilder end.
Fixpoint mapM {A B} (f : A -> result B) (l : list A) : result (list B) :=
  match l with
  | [] => Ok []
  | x :: r => bind (f x) (fun y => bind (mapM f r) (fun ys => Ok (y :: ys)))
  end.
Definition upd_pair (a : bargs) (sr : script * option rdm) : result (script * option rdm) :=
  match snd sr with
  | None => Ok sr
  | Some r => bind (upd_units a r) (fun r' => Ok (fst sr, Some r'))
  end.

Definition update_units (st : bstate) (a : bargs) : result bstate :=
  match b_est st with
  | Some true =>
      bind (mapM (fun ur => bind (upd_units a (snd ur)) (fun r' => Ok (fst ur, r'))) (b_in_rdm st)) (fun in_rdm =>
      bind (mapM (upd_pair a) (b_mint st)) (fun mint =>
      bind (mapM (upd_pair a) (b_wdrl st)) (fun wdrl =>
      bind (mapM (upd_pair a) (b_cert st)) (fun cert =>
        Ok (mkB (b_inputs st) in_rdm (b_in_scr st) mint wdrl cert (b_refin st) (b_refscr st) (b_datums st)
                (b_native st) (b_certs st) (Some false))))))
  | _ => Ok st
  end.

Open Scope Z_scope.
Definition is_smart (st : bstate) : bool := match all_scripts st with [] => false | _ => true end.
Definition auto_bound (user : option Z) (smart : bool) (off : option Z) (dflt last : Z) : option Z :=
  match user with
  | Some v => Some v
  | None =>
      if smart || (match off with Some _ => true | None => false end)
      then Some (Z.max 0 (last + match off with Some o => o | None => dflt end))
      else None
  end.
Definition validity (st : bstate) (a : bargs) : option Z * option Z :=
  (auto_bound (a_vstart a) (is_smart st) (a_offs a) (-1000) (a_last a),
   auto_bound (a_ttl a) (is_smart st) (a_offt a) 10000 (a_last a)).
Close Scope Z_scope.

(* what the slice determines of the built transaction *)
Record built := mkBuilt {
  t_inputs : list txin;            (* body field 0, in the emitted order *)
  t_refin : list txin;             (* body field 18 (a set) *)
  t_mint : list bytes;             (* policies of body field 9 *)
  t_wdrl : list bytes;             (* accounts of body field 5 *)
  t_certs : list bytes;            (* body field 4 *)
  t_vstart : option Z; t_ttl : option Z;
  t_rdms : list rdm;               (* witness field 5: the redeemer objects in _redeemer_list order *)
  t_native : list script; t_v1 : list script; t_v2 : list script; t_v3 : list script;  (* witness 1, 3, 6, 7 *)
  t_datums : list datum;           (* witness field 4 *)
  t_state : bstate                 (* the builder afterwards *)
}.

Definition build (st0 : bstate) (a : bargs) : result built :=
  let v := validity st0 a in
  let fin := final_inputs st0 a in
  bind (set_redeemer_index st0 a fin) (fun st1 =>
  bind (update_units st1 a) (fun st =>
    let ws := witness_scripts st (a_rd a) fin in
    Ok (mkBuilt (map u_in fin) (map u_in (b_refin st)) (a_mint a) (a_wdrl a) (b_certs st) (fst v) (snd v)
                (redeemer_list st)
                (bucket LNative ws) (bucket LV1 ws) (bucket LV2 ws) (bucket LV3 ws)
                (map snd (b_datums st)) st))).

(* the read-only reference inputs the caller added; the body's field 18 is the set union of t_refin and these *)
Definition ro_refs (ops : list bop) : list utxo :=
  flat_map (fun op => match op with AddReferenceInput u => [u] | _ => [] end) ops.
Definition body_refin (t : built) (ops : list bop) : list txin :=
  t_refin t ++ filter (fun i => negb (existsb (txin_eqb i) (t_refin t))) (map u_in (ro_refs ops)).

Definition run_build (native : list script) (ops : list bop) (a : bargs) : result built :=
  bind (run native ops) (fun st => build st a).

(* ================= SPECIFICATION side ================= *)
(* ledger order of transaction inputs: TxId bytes, then index *)
Definition txin_ltb (a b : txin) : bool :=
  bytes_ltb (fst a) (fst b) || (bytes_eqb (fst a) (fst b) && (snd a <? snd b)).
(* ledger order of reward accounts: network, then credential with script hashes BEFORE key hashes, then hash.
   account bytes = header :: hash, header = 0xE0|net (key) or 0xF0|net (script) *)
Definition acct_key (a : bytes) : N * N * bytes :=
  match a with
  | [] => (0, 0, [])
  | h :: r => (b2n h mod 16, (if b2n h / 16 =? 15 then 0 else 1), r)
  end.
Definition acct_ltb (a b : bytes) : bool :=
  let '(na, ka, ha) := acct_key a in let '(nb, kb, hb) := acct_key b in
  (na <? nb) || ((na =? nb) && ((ka <? kb) || ((ka =? kb) && bytes_ltb ha hb))).
Definition is_script_acct (a : bytes) : bool :=
  match a with h :: _ => b2n h / 16 =? 15 | [] => false end.

(* what each redeemer object was attached to, read off the list of calls *)
Inductive item := ISpend (i : txin) | IMint (policy : bytes) | IReward (script_hash : bytes) | ICert (c : bytes).
Definition src_script (src : ssrc) : option script :=
  match src with SrcScript s => Some s | SrcUtxo u => u_script u | SrcNone _ => None end.
Definition att_step (certs : list bytes) (op : bop) : list (N * item) :=
  match op with
  | AddScriptInput u _ _ (Some r) => [(r_id r, ISpend (u_in u))]
  | AddMintingScript src (Some r) => match src_script src with Some s => [(r_id r, IMint (s_hash s))] | None => [] end
  | AddWithdrawalScript src (Some r) => match src_script src with Some s => [(r_id r, IReward (s_hash s))] | None => [] end
  | AddCertificateScript src (Some r) => [(r_id r, ICert (last certs []))]      (* the last certificate added so far *)
  | _ => []
  end.
Definition certs_step (certs : list bytes) (op : bop) : list bytes :=
  match op with AddCert c => certs ++ [c] | _ => certs end.
Fixpoint attached (certs : list bytes) (ops : list bop) : list (N * item) :=
  match ops with
  | [] => []
  | op :: rest => att_step certs op ++ attached (certs_step certs op) rest
  end.

(* the script hashes the calls say are needed: the payment hash of each script input, each script handed in *)
Definition need_step (op : bop) : list bytes :=
  match op with
  | AddScriptInput u _ _ _ => [u_pay u]
  | AddMintingScript src _ | AddWithdrawalScript src _ | AddCertificateScript src _ =>
      match src_script src with Some s => [s_hash s] | None => [] end
  | _ => []
  end.
Definition needed (ops : list bop) : list bytes := flat_map need_step ops.

(* datums supplied with script inputs *)
Definition sup_step (op : bop) : list (utxo * datum) :=
  match op with AddScriptInput u _ (Some d) _ => [(u, d)] | _ => [] end.
Definition supplied (ops : list bop) : list (utxo * datum) := flat_map sup_step ops.

(* the ledger's pointer rule on a built transaction: redeemer (tag, index) designates item *)
Definition designates (t : built) (tag : N) (idx : nat) (it : item) : Prop :=
  match it with
  | ISpend i => tag = TAG_SPEND /\ nth_error (isort txin_ltb (t_inputs t)) idx = Some i
  | IMint p => tag = TAG_MINT /\ nth_error (isort bytes_ltb (t_mint t)) idx = Some p
  | IReward h => tag = TAG_REWARD /\ exists net, nth_error (isort acct_ltb (t_wdrl t)) idx = Some (script_account net h)
  | ICert c => tag = TAG_CERT /\ nth_error (t_certs t) idx = Some c
  end.
