(* Value.v — model of pycardano.transaction.{Asset, MultiAsset, Value} and of
   DictCBORSerializable.to_shallow_primitive (the canonical key sort).
   Follows transaction.py:84-305 and serialization.py:882-891 clause by clause.
   Model only — proofs live in ValueProofs.v so that the model still runs when a proof breaks. *)
From Coq Require Import NArith ZArith Ascii String List Bool Lia.
From PyC Require Import Base Cbor Dict.
Import ListNotations.
Open Scope Z_scope.

Definition asset := dict Z.            (* AssetName payload -> quantity, insertion order *)
Definition masset := dict asset.       (* ScriptHash payload -> Asset *)
Record value := mkValue { coin : Z; massets : masset }.

Definition aget (a : asset) (n : bytes) : Z := match dget a n with Some q => q | None => 0 end.
Definition mget (m : masset) (p : bytes) : asset := match dget m p with Some a => a | None => [] end.
Definition content (m : masset) (p n : bytes) : Z := aget (mget m p) n.

(* ---- Asset ---- *)
Definition a_norm (a : asset) : asset := filter (fun kv => negb (snd kv =? 0)) a.
Definition a_add (a b : asset) : asset :=
  a_norm (fold_left (fun acc kv => dset acc (fst kv) (aget acc (fst kv) + snd kv)) b a).
Definition a_sub (a b : asset) : asset :=
  a_norm (fold_left (fun acc kv => dset acc (fst kv) (aget acc (fst kv) - snd kv)) b a).
(* __eq__ / __le__ visit the keys of both operands and read missing entries as 0
   (after fix commit "fix: Asset/MultiAsset equality and ordering are component-wise") *)
Definition a_eq (a b : asset) : bool := forallb (fun n => aget a n =? aget b n) (keys a ++ keys b).
Definition a_le (a b : asset) : bool := forallb (fun n => negb (aget b n <? aget a n)) (keys a ++ keys b).

(* ---- MultiAsset ---- *)
Definition is_nil {A} (l : list A) : bool := match l with [] => true | _ => false end.
Definition m_norm (m : masset) : masset :=
  filter (fun kv => negb (is_nil (snd kv))) (map (fun kv => (fst kv, a_norm (snd kv))) m).
Definition m_add (m b : masset) : masset :=
  m_norm (fold_left (fun acc kv => dset acc (fst kv) (a_add (mget acc (fst kv)) (snd kv))) b m).
Definition m_sub (m b : masset) : masset :=
  m_norm (fold_left (fun acc kv => dset acc (fst kv) (a_sub (mget acc (fst kv)) (snd kv))) b m).
Definition m_eq (a b : masset) : bool := forallb (fun p => a_eq (mget a p) (mget b p)) (keys a ++ keys b).
Definition m_le (a b : masset) : bool := forallb (fun p => a_le (mget a p) (mget b p)) (keys a ++ keys b).
Definition m_filter (c : bytes -> bytes -> Z -> bool) (m : masset) : masset :=
  filter (fun kv => negb (is_nil (snd kv)))
         (map (fun kv => (fst kv, filter (fun nq => c (fst kv) (fst nq) (snd nq)) (snd kv))) m).
Definition m_count (c : bytes -> bytes -> Z -> bool) (m : masset) : Z :=
  Zsum (map (fun kv => Z.of_nat (length (filter (fun nq => c (fst kv) (fst nq) (snd nq)) (snd kv)))) m).

(* ---- Value ---- *)
Definition v_add (a b : value) : value := mkValue (coin a + coin b) (m_add (massets a) (massets b)).
Definition v_sub (a b : value) : value := mkValue (coin a - coin b) (m_sub (massets a) (massets b)).
Definition v_eq (a b : value) : bool := (coin a =? coin b) && m_eq (massets a) (massets b).
Definition v_le (a b : value) : bool := (coin a <=? coin b) && m_le (massets a) (massets b).
Definition v_lt (a b : value) : bool := v_le a b && negb (v_eq a b).

(* ---- primitives / CBOR ---- *)
Definition two64z : Z := 18446744073709551616.
(* cbor2's int encoding: majors 0/1 inside 64 bits, bignum tags 2/3 beyond *)
Definition cint (z : Z) : cbor :=
  if (0 <=? z) then
    (if z <? two64z then CU (Z.to_N z) else CTag 2 (CB (be_min (Z.to_N z))))
  else
    (if - two64z <=? z then CN (Z.to_N (-1 - z)) else CTag 3 (CB (be_min (Z.to_N (-1 - z))))).

(* RFC 7049 3.9 canonical order as DictCBORSerializable computes it:
   sort key = (len (cbor k), cbor k) *)
Definition key_ltb (a b : cbor) : bool :=
  let ea := enc a in let eb := enc b in
  (lenN ea <? lenN eb)%N || ((lenN ea =? lenN eb)%N && bytes_ltb ea eb).

Section Sort.
  Context {V : Type}.
  Fixpoint kinsert (kv : cbor * V) (l : list (cbor * V)) : list (cbor * V) :=
    match l with
    | [] => [kv]
    | h :: r => if key_ltb (fst kv) (fst h) then kv :: l else h :: kinsert kv r
    end.
  (* stable insertion sort (Python's sorted is stable): fold from the right *)
  Definition ksort (l : list (cbor * V)) : list (cbor * V) := fold_right kinsert [] l.
End Sort.

Definition asset_prim (a : asset) : cbor :=
  CM (ksort (map (fun kv => (CB (fst kv), cint (snd kv))) (a_norm a))).
Definition masset_prim (m : masset) : cbor :=
  CM (ksort (map (fun kv => (CB (fst kv), asset_prim (snd kv))) (m_norm m))).
(* Value.to_shallow_primitive tests the truthiness of the multi-asset on its NORMALISED copy
   (after fix commit "fix: Value with an all-zero bundle ..."; the pinned tree tested the raw dict) *)
Definition value_prim (v : value) : cbor :=
  if is_nil (m_norm (massets v)) then cint (coin v)
  else CA [cint (coin v); masset_prim (massets v)].
Definition value_cbor (v : value) : bytes := enc (value_prim v).
