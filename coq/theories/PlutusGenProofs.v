(* PlutusGenProofs.v — C18 tie T2: the Gallina text regenerated from the CURRENT pycardano/plutus.py
   (coq/gen/PlutusGen.v: get_tag, get_constructor_id_and_fields) equals the hand model used by every theorem.
   A changed constant or comparison in the source breaks these proofs. *)
From Coq Require Import NArith ZArith String List Bool Lia.
From PyC Require Import Base Cbor Plutus PlutusOracle PlutusProofs.
From PyCGen Require PlutusGen.
Open Scope N_scope.

Ltac split_ifs :=
  repeat match goal with |- context [if ?c then _ else _] => let E := fresh "E" in destruct c eqn:E end.

Lemma gen_get_tag i : PlutusGen.get_tag (Z.of_N i) = option_map Z.of_N (get_tag i).
Proof.
  unfold PlutusGen.get_tag, get_tag. cbv zeta. split_ifs; cbn [option_map]; bconv; try lia; try (f_equal; lia); reflexivity.
Qed.

Lemma gen_get_tag_neg z : (z < 0)%Z -> PlutusGen.get_tag z = None.
Proof. intros H. unfold PlutusGen.get_tag. cbv zeta. split_ifs; bconv; try lia; reflexivity. Qed.

Lemma gen_untag t len :
  interp_gres (PlutusGen.get_constructor_id_and_fields (Z.of_N t) (Z.of_N len)) = untag t len.
Proof.
  unfold PlutusGen.get_constructor_id_and_fields, untag. cbv zeta.
  split_ifs; cbn [interp_gres]; try reflexivity; split_ifs; bconv; try lia; try (f_equal; lia).
Qed.
