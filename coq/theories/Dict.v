(* Dict.v — Python dict as an insertion-ordered association list over byte-string keys.
   dset keeps the position of an existing key (Python semantics), dpop removes it. *)
From Coq Require Import NArith ZArith Ascii String List Bool Lia.
From PyC Require Import Base.
Import ListNotations.

Section D.
  Context {V : Type}.
  Definition dict := list (bytes * V).

  Fixpoint dget (d : dict) (k : bytes) : option V :=
    match d with
    | [] => None
    | (k', v) :: r => if bytes_eqb k' k then Some v else dget r k
    end.
  Definition dmem (d : dict) (k : bytes) : bool := match dget d k with Some _ => true | None => false end.
  Fixpoint dset (d : dict) (k : bytes) (v : V) : dict :=
    match d with
    | [] => [(k, v)]
    | (k', v') :: r => if bytes_eqb k' k then (k', v) :: r else (k', v') :: dset r k v
    end.
  Fixpoint dpop (d : dict) (k : bytes) : dict :=
    match d with
    | [] => []
    | (k', v') :: r => if bytes_eqb k' k then r else (k', v') :: dpop r k
    end.
  Definition keys (d : dict) : list bytes := map fst d.
  Definition wfd (d : dict) : Prop := NoDup (keys d).

  Lemma dget_dset_same d k v : dget (dset d k v) k = Some v.
  Proof.
    induction d as [|[k' v'] r IH]; cbn.
    - now rewrite bytes_eqb_refl.
    - destruct (bytes_eqb k' k) eqn:E; cbn; rewrite E; [reflexivity | exact IH].
  Qed.

  Lemma dget_dset_other d k v k2 : k <> k2 -> dget (dset d k v) k2 = dget d k2.
  Proof.
    intros N. induction d as [|[k' v'] r IH]; cbn.
    - destruct (bytes_eqb k k2) eqn:E; [apply bytes_eqb_eq in E; contradiction | reflexivity].
    - destruct (bytes_eqb k' k) eqn:E; cbn.
      + apply bytes_eqb_eq in E. subst k'.
        destruct (bytes_eqb k k2) eqn:E2; [apply bytes_eqb_eq in E2; contradiction | reflexivity].
      + destruct (bytes_eqb k' k2); [reflexivity | exact IH].
  Qed.

  Lemma keys_dset_in d k v x : In x (keys (dset d k v)) <-> In x (keys d) \/ x = k.
  Proof.
    induction d as [|[k' v'] r IH]; cbn.
    - intuition.
    - destruct (bytes_eqb k' k) eqn:E; cbn.
      + apply bytes_eqb_eq in E. subst. intuition.
      + rewrite IH. intuition.
  Qed.

  Lemma wfd_dset d k v : wfd d -> wfd (dset d k v).
  Proof.
    unfold wfd. induction d as [|[k' v'] r IH]; cbn; intros H.
    - constructor; [intros []|constructor].
    - inversion H as [|? ? Hn Hr]; subst.
      destruct (bytes_eqb k' k) eqn:E; cbn.
      + constructor; assumption.
      + constructor; [|now apply IH].
        intros Hin. apply keys_dset_in in Hin as [Hin|Hin]; [contradiction|].
        subst. now rewrite bytes_eqb_refl in E.
  Qed.

  Lemma dget_None_notin d k : dget d k = None <-> ~ In k (keys d).
  Proof.
    induction d as [|[k' v'] r IH]; cbn; [intuition|].
    destruct (bytes_eqb k' k) eqn:E.
    - apply bytes_eqb_eq in E. subst. split; [discriminate | intros H; exfalso; apply H; now left].
    - apply bytes_eqb_neq in E. rewrite IH. intuition.
  Qed.

  Lemma dget_In d k v : dget d k = Some v -> In (k, v) d.
  Proof.
    induction d as [|[k' v'] r IH]; cbn; [discriminate|].
    destruct (bytes_eqb k' k) eqn:E.
    - apply bytes_eqb_eq in E. intros H. inversion H; subst. now left.
    - intros H. right. now apply IH.
  Qed.

  Lemma In_dget d k v : wfd d -> In (k, v) d -> dget d k = Some v.
  Proof.
    unfold wfd. induction d as [|[k' v'] r IH]; cbn; intros W H; [contradiction|].
    inversion W as [|? ? Hn Hr]; subst. destruct H as [H|H].
    - inversion H; subst. now rewrite bytes_eqb_refl.
    - destruct (bytes_eqb k' k) eqn:E.
      + apply bytes_eqb_eq in E. subst. exfalso. apply Hn. change k with (fst (k, v)). now apply in_map.
      + now apply IH.
  Qed.

  (* filter on entries keeps well-formedness and lookups of kept entries *)
  Lemma wfd_filter (p : bytes * V -> bool) d : wfd d -> wfd (filter p d).
  Proof.
    unfold wfd. induction d as [|kv r IH]; cbn; intros H; [constructor|].
    inversion H as [|? ? Hn Hr]; subst. destruct (p kv); cbn; [|now apply IH].
    constructor; [|now apply IH]. intros Hin. apply Hn.
    apply in_map_iff in Hin as (y & E & Hy). apply filter_In in Hy as [Hy _].
    apply in_map_iff. now exists y.
  Qed.

  Lemma dget_filter (p : bytes * V -> bool) d k : wfd d ->
    dget (filter p d) k = match dget d k with Some v => if p (k, v) then Some v else None | None => None end.
  Proof.
    unfold wfd. induction d as [|[k' v'] r IH]; cbn; intros W; [reflexivity|].
    inversion W as [|? ? Hn Hr]; subst.
    destruct (bytes_eqb k' k) eqn:E.
    - apply bytes_eqb_eq in E. subst k'. destruct (p (k, v')) eqn:P; cbn.
      + now rewrite bytes_eqb_refl.
      + rewrite IH by assumption.
        destruct (dget r k) eqn:G; [|reflexivity].
        apply dget_In in G. exfalso. apply Hn. change k with (fst (k, v)). now apply in_map.
    - destruct (p (k', v')); cbn; [rewrite E|]; now apply IH.
  Qed.
End D.
Arguments dict V : clear implicits.
