(* Collateral.v — (a) the LEDGER rule for collateral as a boolean specification `collateral_ok`
   (Alonzo/Babbage/Conway UTXO rule: feesOK part 2 + validateTotalCollateral + validateTooManyCollateralInputs
   + validateCollateralContainsNonADA + min-ADA of the collateral return output), written from the rule and
   independent of the builder; and (b) a clause-by-clause model of
   pycardano/txbuilder.py::TransactionBuilder._should_add_collateral_return / _set_collateral_return
   (incl. the nested _add_collateral_input) as the code is NOW (after fix commits 192bddd "a UTxO is chosen as
   collateral at most once", 5b2796b "automatic collateral selection respects max_collateral_inputs", 7babc21 "the
   collateral amount covers the fee buffer and is rounded up", 57d1ac6 "user-supplied collateral is validated").
   (b') the gate of the method — which scripts the builder knows (all_scripts / scripts / build_witness_set classes /
   _reference_scripts) — as a function of the builder's script tables, so that every way of supplying a script is covered.
   Model only — proofs are in CollateralProofs.v. *)
From Coq Require Import NArith ZArith Ascii String List Bool Lia.
From PyC Require Import Base Cbor Dict Value.
Import ListNotations.
Open Scope Z_scope.

(* ====================================================================== *)
(* Candidates: a resolved UTxO as the builder sees it                      *)
(* ====================================================================== *)
Record cand := mkCand {
  c_txid : bytes;      (* utxo.input.transaction_id *)
  c_ix   : N;          (* utxo.input.index *)
  c_type : N;          (* utxo.output.address.address_type.value  = header nibble of the address bytes *)
  c_val  : value;      (* utxo.output.amount *)
  c_len  : N           (* len(utxo.output.to_cbor_hex()) — datum; cross-checked against the bytes in CollateralOracle *)
}.

(* `candidate not in self.collaterals` is dataclass equality of UTxO (input and output); for a UTxO map that is
   a function (equal inputs resolve to equal outputs — assumption `functional UTxO map`) this is equality of inputs *)
Definition id_eqb (a b : cand) : bool := bytes_eqb (c_txid a) (c_txid b) && (c_ix a =? c_ix b)%N.

(* AddressType names: 0 KEY_KEY 1 SCRIPT_KEY 2 KEY_SCRIPT 3 SCRIPT_SCRIPT 4 KEY_POINTER 5 SCRIPT_POINTER
   6 KEY_NONE 7 SCRIPT_NONE 8 BYRON 14 NONE_KEY 15 NONE_SCRIPT;  name.startswith("SCRIPT"): *)
Definition script_name (t : N) : bool := ((t =? 1) || (t =? 3) || (t =? 5) || (t =? 7))%N.

(* ====================================================================== *)
(* (a) SPECIFICATION: the ledger rule                                      *)
(* ====================================================================== *)
(* vKeyLocked: the payment credential is a key hash (Shelley types 0,2,4,6) or the address is a bootstrap
   (Byron, 8) address.  Reward-account headers 14/15 cannot hold UTxOs. *)
Definition key_locked (t : N) : bool := ((t <=? 8) && N.even t)%N.

Record lparams := mkLP {
  l_percent    : Z;    (* collateralPercentage *)
  l_max_inputs : Z;    (* maxCollateralInputs *)
  l_cpb        : Z     (* coinsPerUTxOByte *)
}.

Definition vint (z : Z) : value := mkValue z [].
Definition vsum (l : list cand) : value := fold_left (fun acc c => v_add acc (c_val c)) l (vint 0).

Fixpoint nodup_ids (l : list cand) : bool :=
  match l with
  | [] => true
  | c :: r => negb (existsb (id_eqb c) r) && nodup_ids r
  end.

Definition ledger_min_ada (cpb : Z) (out : bytes) : Z := cpb * (160 + Z.of_N (lenN out)).

(* the individual clauses (exported separately so that the harness can say WHICH clause fails) *)
Definition ok_count (L : lparams) (colls : list cand) : bool :=
  let n := Z.of_nat (length colls) in (1 <=? n) && (n <=? l_max_inputs L).
Definition ok_distinct (colls : list cand) : bool := nodup_ids colls.
Definition ok_keylocked (colls : list cand) : bool := forallb (fun c => key_locked (c_type c)) colls.
Definition ret_coin (ret : option (value * bytes)) : Z := match ret with Some (v, _) => coin v | None => 0 end.
Definition ret_assets (ret : option (value * bytes)) : masset := match ret with Some (v, _) => massets v | None => [] end.
Definition forfeit (colls : list cand) (ret : option (value * bytes)) : Z := coin (vsum colls) - ret_coin ret.
(* req100 = collateralPercentage * fee *)
Definition ok_adequate (req100 : Z) (colls : list cand) ret : bool := req100 <=? 100 * forfeit colls ret.
Definition ok_total (colls : list cand) ret (total : option Z) : bool :=
  match total with Some t => forfeit colls ret =? t | None => true end.
(* the collateral balance is pure ADA: the return carries every token of the collateral inputs *)
Definition ok_assets (colls : list cand) ret : bool := m_eq (massets (vsum colls)) (ret_assets ret).
Definition ok_min_ada (L : lparams) (ret : option (value * bytes)) : bool :=
  match ret with Some (v, out) => ledger_min_ada (l_cpb L) out <=? coin v | None => true end.

(* colls: the body's collateral inputs resolved through the UTxO map; ret: the collateral return output
   (its value and its serialized bytes) if present; total: total_collateral if declared *)
Definition collateral_ok_req (L : lparams) (req100 : Z) (colls : list cand)
           (ret : option (value * bytes)) (total : option Z) : bool :=
  ok_count L colls && ok_distinct colls && ok_keylocked colls && ok_adequate req100 colls ret
  && ok_total colls ret total && ok_assets colls ret && ok_min_ada L ret.

Definition collateral_ok (L : lparams) (fee : Z) (colls : list cand)
           (ret : option (value * bytes)) (total : option Z) : bool :=
  collateral_ok_req L (l_percent L * fee) colls ret total.

(* ====================================================================== *)
(* (b) MODEL of the builder                                               *)
(* ====================================================================== *)
Record cparams := mkCP {
  p_max_fee    : Z;    (* max_tx_fee(context, ref_script_size=self._ref_script_size()) — datum (utils.fee is C07's) *)
  p_fee_buffer : Z;    (* self.fee_buffer or 0 *)
  p_percent    : Z;    (* context.protocol_param.collateral_percent *)
  p_max_inputs : Z;    (* context.protocol_param.max_collateral_inputs *)
  p_threshold  : Z     (* self.collateral_return_threshold *)
}.

(* collateral_amount = -(-(max_tx_fee(...) + (self.fee_buffer or 0)) * collateral_percent // 100)
   Python: unary minus binds tighter than * and //, which associate to the left; // = floor = Z.div *)
Definition collateral_amount (P : cparams) : Z :=
  - ((- (p_max_fee P + p_fee_buffer P)) * p_percent P / 100).

(* _should_add_collateral_return:
     collateral_return.coin > max(self.collateral_return_threshold, 1_000_000)
     or collateral_return.multi_asset.count(lambda p, n, v: v > 0) > 0 *)
Definition positive_assets (m : masset) : Z := m_count (fun _ _ q => 0 <? q) m.
Definition should_add_return (thr : Z) (v : value) : bool :=
  (Z.max thr 1000000 <? coin v) || (0 <? positive_assets (massets v)).

(* sorted(..., key=lambda i: (len(i.output.to_cbor_hex()), -i.output.amount.coin)) — stable, ascending *)
Definition key_leb (a b : cand) : bool :=
  ((c_len a <? c_len b)%N || ((c_len a =? c_len b)%N && (coin (c_val b) <=? coin (c_val a)))).
Fixpoint cinsert (x : cand) (l : list cand) : list cand :=
  match l with
  | [] => [x]
  | h :: r => if key_leb x h then x :: l else h :: cinsert x r
  end.
Definition csort (l : list cand) : list cand := fold_right cinsert [] l.
(* candidate_inputs.pop() takes from the END of the sorted list.
   Observation (documented only, not a C13 violation): ascending sort + pop() from the end tries the LONGEST
   serialized output and, among equal lengths, the SMALLEST coin first — the opposite of the evident intent
   (short ADA-only outputs with much ADA first). The model follows the code. *)
Definition pop_order (l : list cand) : list cand := rev (csort l).

(* de-duplication keeping the first occurrence:
     unique = []; for utxo in self.collaterals: if utxo not in unique: unique.append(utxo)
   (also what NonEmptyOrderedSet([c.input for c in self.collaterals]) does in _build_tx_body) *)
Fixpoint dedup_ids (l : list cand) (seen : list cand) : list cand :=
  match l with
  | [] => []
  | c :: r => if existsb (id_eqb c) seen then dedup_ids r seen else c :: dedup_ids r (c :: seen)
  end.

Inductive outcome :=
| ONoop                          (* plain return: _collateral_return / _total_collateral untouched *)
| OSet (ret : value) (total : Z) (* both fields set *)
| OErrCount                      (* ValueError "Number of collateral inputs ... exceeds the limit ..." *)
| OErrScript                     (* ValueError "Collateral input ... is locked by a script ..." *)
| OErrAmount                     (* ValueError "Minimum collateral amount ... greater than total provided ..." *)
| OErrMinLovelace.               (* ValueError "Minimum lovelace amount for collateral return ..." *)

Section Model.
  (* min_lovelace_post_alonzo(TransactionOutput(collateral_return_address, v), self.context) as a function of v;
     arbitrary in the theorems, instantiated with min_lovelace_ret below in the correspondence *)
  Variable minl : value -> Z.
  Variable P : cparams.

  (* first conjunct of the while-condition; Python precedence  a or (b and (0 <= c < m)):
       cur_total.coin < collateral_amount
       or self._should_add_collateral_return(cur_collateral_return)
          and 0 <= cur_collateral_return.coin < min_lovelace_post_alonzo(...)
     with cur_collateral_return = cur_total - collateral_amount *)
  Definition need_more (total : value) : bool :=
    let r := v_sub total (vint (collateral_amount P)) in
    (coin total <? collateral_amount P)
    || (should_add_return (p_threshold P) r && ((0 <=? coin r) && (coin r <? minl r))).

  (* candidate not in self.collaterals and not ...address_type.name.startswith("SCRIPT")
     and candidate.output.amount.coin > 2000000 *)
  Definition eligible (colls : list cand) (c : cand) : bool :=
    negb (existsb (id_eqb c) colls) && negb (script_name (c_type c)) && (2000000 <? coin (c_val c)).

  (* _add_collateral_input(cur_total, candidate_inputs); state = (self.collaterals, tmp_val)
     (Value.__iadd__ mutates tmp_val in place, so the running total survives across the three calls);
     second conjunct: candidate_inputs and len(self.collaterals) < max_collateral_inputs *)
  Fixpoint add_loop (cands : list cand) (st : list cand * value) : list cand * value :=
    match cands with
    | [] => st
    | c :: rest =>
        if need_more (snd st) && (Z.of_nat (length (fst st)) <? p_max_inputs P) then
          add_loop rest (if eligible (fst st) c then (fst st ++ [c], v_add (snd st) (c_val c)) else st)
        else st
    end.

  (* the three phases: inputs, then potential inputs, then the UTxOs at the return address *)
  Definition auto_select (inputs potentials at_addr : list cand) : list cand * value :=
    let s1 := add_loop (pop_order inputs) ([], vint 0) in
    let s2 := if coin (snd s1) <? collateral_amount P then add_loop (pop_order potentials) s1 else s1 in
    if coin (snd s2) <? collateral_amount P then add_loop (pop_order at_addr) s2 else s2.

  (* from `total_input = Value()` to the end; colls is already de-duplicated *)
  Definition finish (colls : list cand) : outcome :=
    if p_max_inputs P <? Z.of_nat (length colls) then OErrCount
    else if existsb (fun c => script_name (c_type c)) colls then OErrScript
    else
      let total := vsum colls in
      if coin total <? collateral_amount P then OErrAmount
      else
        let r := v_sub total (vint (collateral_amount P)) in
        if negb (should_add_return (p_threshold P) r) then ONoop
        else if coin r <? minl r then OErrMinLovelace
        else OSet r (collateral_amount P).

  (* plutus_or_ref: a Plutus script in the fake witness set or a non-empty _reference_scripts;
     has_addr: collateral_return_address is given; explicit: self.collaterals on entry.
     Result: self.collaterals afterwards and what happened. *)
  Definition set_collateral_return (plutus_or_ref has_addr : bool)
             (explicit inputs potentials at_addr : list cand) : list cand * outcome :=
    if negb plutus_or_ref then (explicit, ONoop)
    else if negb has_addr then (explicit, ONoop)
    else
      let colls := match explicit with
                   | [] => fst (auto_select inputs potentials at_addr)
                   | _ => explicit
                   end in
      let colls' := dedup_ids colls [] in
      (colls', finish colls').
End Model.

(* ====================================================================== *)
(* (b') MODEL of the gate: which scripts the builder knows                  *)
(* ====================================================================== *)
(* A script as the gate sees it: its hash (dict key in all_scripts / scripts) and its class
   (isinstance NativeScript / PlutusV1Script or raw bytes / PlutusV2Script / PlutusV3Script). *)
Inductive skind := SNative | SV1 | SV2 | SV3.
Record sref := mkS { s_hash : bytes; s_kind : skind }.
Definition skind_eqb (a b : skind) : bool :=
  match a, b with SNative, SNative | SV1, SV1 | SV2, SV2 | SV3, SV3 => true | _, _ => false end.
Definition is_plutus (s : sref) : bool := negb (skind_eqb (s_kind s) SNative).

(* the tables of the builder that hold scripts, however the script reached them (witness object, separate
   reference UTxO, the spent UTxO's own output.script, a UTxO discovered at the script address) *)
Record sstate := mkSS {
  ss_native : list sref;   (* self.native_scripts or [] *)
  ss_inputs : list sref;   (* self._inputs_to_scripts.values() *)
  ss_mint   : list sref;   (* [s for s, _ in self._minting_script_to_redeemers] *)
  ss_wdrl   : list sref;   (* [s for s, _ in self._withdrawal_script_to_redeemers] *)
  ss_cert   : list sref;   (* [s for s, _ in self._certificate_script_to_redeemers] *)
  ss_refs   : list sref    (* self._reference_scripts: scripts living on a reference UTxO OTHER than the spent one *)
}.

(* the scripts the transaction executes for some purpose *)
Definition purposes (ss : sstate) : list sref := ss_inputs ss ++ ss_mint ss ++ ss_wdrl ss ++ ss_cert ss.

(* TransactionBuilder.all_scripts: scripts[script_hash(s)] = s over the five tables in this order; dict semantics *)
Definition all_scripts (ss : sstate) : dict sref :=
  fold_left (fun d s => dset d (s_hash s) s) (ss_native ss ++ purposes ss) [].

(* TransactionBuilder.scripts: for s in self._reference_scripts: if hash in scripts: scripts.pop(hash) *)
Definition wit_scripts (ss : sstate) : list sref :=
  map snd (fold_left (fun d s => dpop d (s_hash s)) (ss_refs ss) (all_scripts ss)).

(* build_witness_set(remove_dup_script=False) sorts self.scripts into native_scripts / plutus_v1_script /
   plutus_v2_script / plutus_v3_script; a field is None (falsy) iff its class is absent.
   _build_fake_witness_set only adds vkey witnesses. *)
Definition wit_has (k : skind) (ss : sstate) : bool := existsb (fun s => skind_eqb (s_kind s) k) (wit_scripts ss).

(* the gate of _set_collateral_return, negated:
     if (not witnesses.plutus_v1_script and not witnesses.plutus_v2_script and not witnesses.plutus_v3_script
         and not self._reference_scripts): return *)
Definition needs_collateral (ss : sstate) : bool :=
  negb (negb (wit_has SV1 ss) && negb (wit_has SV2 ss) && negb (wit_has SV3 ss)
        && match ss_refs ss with [] => true | _ :: _ => false end).

(* the whole method as a function of the builder's script tables *)
Definition set_collateral_return_ss (minl : value -> Z) (P : cparams) (ss : sstate) (has_addr : bool)
           (explicit inputs potentials at_addr : list cand) : list cand * outcome :=
  set_collateral_return minl P (needs_collateral ss) has_addr explicit inputs potentials at_addr.

(* _build_tx_body: collateral = NonEmptyOrderedSet([c.input for c in self.collaterals]) — first occurrence kept *)
Definition body_collateral (colls : list cand) : list cand := dedup_ids colls [].

(* ---------- serialized outputs ---------- *)
(* TransactionOutput(addr, v) without datum/script: legacy array form [addr, amount] *)
Definition out_legacy (addr : bytes) (v : value) : cbor := CA [CB addr; value_prim v].
(* the same output forced to the post-Alonzo map form {0: addr, 1: amount} *)
Definition out_post_alonzo (addr : bytes) (v : value) : cbor := CM [(CU 0, CB addr); (CU 1, value_prim v)].

(* utils.min_lovelace_post_alonzo for an output without datum/script:
     amt = output.amount; if amt.coin == 0: amt = Value(1000000, amt.multi_asset)
     (160 + len(post-alonzo form .to_cbor())) * coins_per_utxo_byte *)
Definition min_lovelace_ret (cpb : Z) (addr : bytes) (v : value) : Z :=
  let amt := if coin v =? 0 then mkValue 1000000 (massets v) else v in
  (160 + Z.of_N (lenN (enc (out_post_alonzo addr amt)))) * cpb.
