(* ScriptHash.v — C12 (no proofs).
   SPECIFICATION: the ledger's script integrity hash
       H (redeemer bytes ++ datum bytes (empty when there are no datums) ++ enc (language views))
   with the language views of the Plutus versions used as a canonical (length-first key order) CBOR map:
       V1 |-> key h'00' (bytes 41 00), value = BYTE STRING holding the indefinite-length list of the cost
              parameters in the order of their keys (names by code points, or integer positions numerically);
       V2 |-> key 1, V3 |-> key 2, value = definite-length list of the parameters in the given order.
   MODEL: pycardano/utils.py script_data_hash, plutus.py CostModels.to_shallow_primitive, the builder
   property TransactionBuilder.script_data_hash, redeemers() (map or list), and what build_witness_set
   ships in entries 5 (redeemers) and 4 (datums).  It runs on the builder state after build()
   (Redeemers.t_state: indices set, execution units replaced).  H is a parameter. *)
From Coq Require Import NArith ZArith Ascii String List Bool Lia.
From Coq Require Import Init.Byte.
From PyC Require Import Base Cbor Value Redeemers.
Import ListNotations.
Open Scope N_scope.

(* protocol_param.cost_models: version (1, 2, 3 for "PlutusV1".."PlutusV3") -> the parameters of that language in
   dict order.  The keys of one language's dict are either parameter NAMES (str: Blockfrost, Ogmios, the built-in
   COST_MODELS; Ogmios v6 writes the PlutusV3 positions as zero-padded decimal strings, which are names here) or
   integer POSITIONS (int: CardanoCliChainContext._parse_cost_models turns a cost model that cardano-cli reports as a
   list into {i: v for i, v in enumerate(list)}).  A dict mixing str and int keys is not representable: sorted()
   raises TypeError on it. *)
Inductive params :=
| ByName (l : list (string * Z))
| ByPos (l : list (Z * Z)).
Definition costmodels := list (N * params).
Definition cm_get (cm : costmodels) (version : N) : params :=
  match lookupN version cm with Some p => p | None => ByName [] end.      (* .get(f"PlutusV{version}", {}) *)

(* {i: v for i, v in enumerate(vs)} *)
Fixpoint enumerate_from (k : Z) (vs : list Z) : list (Z * Z) :=
  match vs with [] => [] | v :: r => (k, v) :: enumerate_from (k + 1) r end.
Definition enumerate (vs : list Z) : list (Z * Z) := enumerate_from 0 vs.

(* ledger language ids: 0 = PlutusV1, 1 = PlutusV2, 2 = PlutusV3 *)
Definition lang_id (l : lang) : option N :=
  match l with LNative => None | LV1 => Some 0 | LV2 => Some 1 | LV3 => Some 2 end.

(* Python's order on the keys: str by code points, int numerically *)
Definition name_ltb (a b : string * Z) : bool := str_ltb (fst a) (fst b).
Definition pos_ltb (a b : Z * Z) : bool := (fst a <? fst b)%Z.
(* [d[k] for k in sorted(d.keys())]: the values in ascending order of their keys (names by code points, positions
   numerically: position 2 comes before position 10) *)
Definition vals_by_key (p : params) : list Z :=
  match p with
  | ByName l => map snd (isort name_ltb l)
  | ByPos l => map snd (isort pos_ltb l)
  end.
(* [d[k] for k in d.keys()]: the values in dict order *)
Definition vals_in_order (p : params) : list Z :=
  match p with ByName l => map snd l | ByPos l => map snd l end.

(* ================= SPECIFICATION ================= *)
Definition view (cm : costmodels) (l : N) : cbor * cbor :=
  if l =? 0
  then (CB [x00], CB (enc (CAi (map cint (vals_by_key (cm_get cm 1))))))
  else (CU l, CA (map cint (vals_in_order (cm_get cm (l + 1))))).
Definition language_views (cm : costmodels) (langs : list N) : cbor :=
  CM (ksort (map (view cm) (dedup N.eqb langs))).
Definition integrity_preimage (redeemer_bytes datum_bytes : bytes) (views : cbor) : bytes :=
  redeemer_bytes ++ datum_bytes ++ enc views.

(* the script each call hands over or finds (for a script input: the candidate whose hash is the payment hash) *)
Definition op_script (op : bop) : option script :=
  match op with
  | AddScriptInput u src _ _ =>
      match candidates u src with
      | Ok cands => option_map fst (find (fun c => bytes_eqb (s_hash (fst c)) (u_pay u)) cands)
      | Err _ => None
      end
  | AddMintingScript src _ | AddWithdrawalScript src _ | AddCertificateScript src _ => src_script src
  | _ => None
  end.
Definition op_rdm (op : bop) : option rdm :=
  match op with
  | AddScriptInput _ _ _ r | AddMintingScript _ r | AddWithdrawalScript _ r | AddCertificateScript _ r => r
  | _ => None
  end.
Definition used_scripts (native : list script) (ops : list bop) : list script :=
  native ++ flat_map (fun op => match op_script op with Some s => [s] | None => [] end) ops.
(* the Plutus versions used by the transaction *)
Definition langs_used (native : list script) (ops : list bop) : list N :=
  flat_map (fun s => match lang_id (s_lang s) with Some l => [l] | None => [] end) (used_scripts native ops).

Definition is_plutus (s : script) : bool := match s_lang s with LNative => false | _ => true end.
(* the calls make sense for the ledger: a redeemer goes with a Plutus script and vice versa; native_scripts
   are native; a script hash determines the script (it covers the language prefix) *)
Definition sound_op (op : bop) : bool :=
  match op_script op, op_rdm op with
  | Some s, Some _ => is_plutus s
  | Some s, None => negb (is_plutus s)
  | None, Some _ => false
  | None, None => true
  end.
Definition hash_inj (l : list script) : Prop :=
  forall s s', In s l -> In s' l -> s_hash s = s_hash s' -> s = s'.
Definition sound12 (native : list script) (ops : list bop) : Prop :=
  forallb sound_op ops = true /\ forallb (fun s => negb (is_plutus s)) native = true
  /\ hash_inj (used_scripts native ops).

(* ================= MODEL ================= *)
(* CostModels.to_shallow_primitive: sorted(self.keys(), key=lambda k: (k == 0, k)) *)
Definition lk_ltb (a b : N) : bool :=
  let ka := a =? 0 in let kb := b =? 0 in
  (negb ka && kb) || (Bool.eqb ka kb && (a <? b)).
Definition cm_entry (cm : costmodels) (l : N) : cbor * cbor :=
  if l =? 0
  then (CB (enc (CU l)), CB (enc (CAi (map cint (vals_by_key (cm_get cm (l + 1)))))))   (* sorted(cost_model.keys()) *)
  else (CU l, CA (map cint (vals_in_order (cm_get cm (l + 1))))).                           (* cost_model.keys() *)
(* cbor2.dumps of the resulting dict: entries in insertion order *)
Definition cm_cbor (cm : costmodels) (keys : list N) : cbor := CM (map (cm_entry cm) (isort lk_ltb keys)).

(* the builder's loop over all_scripts: cost_models[version - 1] = ...  (dict keys in first-occurrence order) *)
Definition cm_keys (st : bstate) : list N :=
  dedup N.eqb (flat_map (fun s => match lang_id (s_lang s) with Some l => [l] | None => [] end) (all_scripts st)).

(* redeemers() *)
Definition tag_of (r : rdm) : N := match r_tag r with Some t => t | None => 0 end.
Definition units_of (r : rdm) : N * N := match r_units r with Some u => u | None => (0, 0) end.
Definition rkey (r : rdm) : cbor := CA [CU (tag_of r); CU (N.of_nat (r_index r))].
Definition enc_units (r : rdm) : bytes := enc (CA [CU (fst (units_of r)); CU (snd (units_of r))]).
Definition rvalue (r : rdm) : bytes := head 4 2 ++ r_data r ++ enc_units r.                      (* RedeemerValue *)
Definition rfull (r : rdm) : bytes :=
  head 4 4 ++ enc (CU (tag_of r)) ++ enc (CU (N.of_nat (r_index r))) ++ r_data r ++ enc_units r. (* Redeemer *)
Definition rkey_eqb (a b : cbor) : bool := bytes_eqb (enc a) (enc b).
(* RedeemerMap: dict keyed by (tag, index); emitted with keys in canonical order *)
Definition rmap (rl : list rdm) : list (cbor * bytes) :=
  ksort (fold_left (fun d r => aset rkey_eqb d (rkey r) (rvalue r)) rl []).
Definition redeemers_bytes (usemap : bool) (rl : list rdm) : bytes :=
  if usemap || match rl with [] => true | _ => false end
  then let m := rmap rl in head 5 (lenN m) ++ concat (map (fun kv => enc (fst kv) ++ snd kv) m)
  else head 4 (lenN rl) ++ concat (map rfull rl).
Definition datums_bytes (ds : list datum) : bytes := head 4 (lenN ds) ++ concat (map d_cbor ds).

Definition isnil {A} (l : list A) : bool := match l with [] => true | _ => false end.

Section Hash.
  Variable H : bytes -> bytes.                 (* BLAKE2b-256 *)
  Variable dflt : bytes.                       (* cbor2.dumps(plutus.COST_MODELS): fallback of utils.script_data_hash *)

  (* utils.script_data_hash(redeemers, datums, cost_models) *)
  Definition sdh_util (cm : costmodels) (usemap : bool) (rl : list rdm) (ds : list datum) (keys : list N) : bytes :=
    let cm_bytes := if isnil rl then enc (CM []) else if isnil keys then dflt else enc (cm_cbor cm keys) in
    H (redeemers_bytes usemap rl ++ (if isnil ds then [] else datums_bytes ds) ++ cm_bytes).

  (* what the transaction ships: witness entries 5 and 4 as serialized, and body field 11 *)
  Record shipped := mkShipped { w_rdm : option bytes; w_dat : option bytes; b_hash : option bytes }.
  Definition ship (cm : costmodels) (usemap : bool) (st : bstate) : shipped :=
    let rl := redeemer_list st in
    let ds := map snd (b_datums st) in
    mkShipped (if isnil rl then None else Some (redeemers_bytes usemap rl))
              (if isnil ds then None else Some (datums_bytes ds))
              (if isnil ds && isnil rl then None else Some (sdh_util cm usemap rl ds (cm_keys st))).
End Hash.

(* bytes of a witness entry as they enter the hash: absent redeemers count as the empty map, absent datums as nothing *)
Definition field5 (s : shipped) : bytes := match w_rdm s with Some b => b | None => enc (CM []) end.
Definition field4 (s : shipped) : bytes := match w_dat s with Some b => b | None => [] end.
