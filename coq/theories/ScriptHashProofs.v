(* ScriptHashProofs.v — proofs for C12.
   Part A: the language-view map the code emits (CostModels.to_shallow_primitive, keys sorted by
           (k == 0, k)) is the ledger's canonical language-view map: strictly ascending in
           (length, bytes) of the encoded key, a function of the SET of languages.
   Part B: invariants of the add_* calls and of build(): the scripts the builder knows are the scripts
           the calls used; there is a redeemer iff some call handed one over.
   Part C: the theorems (hash over the shipped bytes, absence, execution units).
   Part D: the decidable premise and non-vacuity examples. *)
From Coq Require Import NArith ZArith Ascii String List Bool Lia Permutation Sorted.
From Coq Require Import Init.Byte.
From PyC Require Import Base Cbor Value ValueCanon Redeemers RedeemersProofs RedeemersOracle ScriptHash ScriptHashOracle.
Import ListNotations.
Open Scope N_scope.

(* ====================== Part A: canonical language views ====================== *)
Lemma cm_entry_view cm l : cm_entry cm l = view cm l.
Proof.
  unfold cm_entry, view. destruct (l =? 0) eqn:E; [|reflexivity].
  apply N.eqb_eq in E. subst l. reflexivity.
Qed.

(* the key of language l in the map: h'00' for PlutusV1, the integer otherwise *)
Definition vkey (l : N) : cbor := if l =? 0 then CB [x00] else CU l.
Lemma view_key cm l : fst (view cm l) = vkey l.
Proof. unfold view, vkey. destruct (l =? 0); reflexivity. Qed.

Lemma lt3_cases a : a < 3 -> a = 0 \/ a = 1 \/ a = 2.
Proof. lia. Qed.

(* on the three languages the code's sort key (k == 0, k) is the canonical (length, bytes) order of the encoded keys *)
Lemma vkey_order a b : a < 3 -> b < 3 -> key_ltb (vkey a) (vkey b) = lk_ltb a b.
Proof.
  intros Ha Hb. destruct (lt3_cases a Ha) as [->|[->| ->]], (lt3_cases b Hb) as [->|[->| ->]]; vm_compute; reflexivity.
Qed.
Lemma vkey_enc_inj a b : a < 3 -> b < 3 -> enc (vkey a) = enc (vkey b) -> a = b.
Proof.
  intros Ha Hb. destruct (lt3_cases a Ha) as [->|[->| ->]], (lt3_cases b Hb) as [->|[->| ->]]; vm_compute; intros E;
    try reflexivity; discriminate E.
Qed.

(* the code's sort key is a strict total order on all integers *)
Lemma lk_irrefl x : lk_ltb x x = false.
Proof. unfold lk_ltb. rewrite N.ltb_irrefl. destruct (x =? 0); reflexivity. Qed.
Lemma lk_trans x y z : lk_ltb x y = true -> lk_ltb y z = true -> lk_ltb x z = true.
Proof.
  unfold lk_ltb. destruct (x =? 0) eqn:Ex, (y =? 0) eqn:Ey, (z =? 0) eqn:Ez; cbn;
    rewrite ?N.ltb_lt; try discriminate; try reflexivity; try lia.
  all: apply N.eqb_eq in Ex; apply N.eqb_eq in Ez; subst; lia.
Qed.
Lemma lk_total x y : x <> y -> lk_ltb x y = true \/ lk_ltb y x = true.
Proof.
  unfold lk_ltb. intros Hn. destruct (x =? 0) eqn:Ex, (y =? 0) eqn:Ey; cbn; rewrite ?N.ltb_lt; auto.
  - apply N.eqb_eq in Ex, Ey. congruence.
  - lia.
Qed.

Lemma sorted_map {A B} (R : A -> A -> Prop) (R' : B -> B -> Prop) (f : A -> B) l :
  StronglySorted R l -> (forall x y, In x l -> In y l -> R x y -> R' (f x) (f y)) -> StronglySorted R' (map f l).
Proof.
  induction 1 as [|a l S IH F]; intros Hf; cbn; constructor.
  - apply IH. intros x y Hx Hy. apply Hf; now right.
  - rewrite Forall_forall in *. intros y Hy. apply in_map_iff in Hy. destruct Hy as [x [<- Hx]].
    apply Hf; [now left | now right | now apply F].
Qed.
Lemma NoDup_map_in {A B} (f : A -> B) l :
  (forall x y, In x l -> In y l -> f x = f y -> x = y) -> NoDup l -> NoDup (map f l).
Proof.
  intros I N. induction N as [|x l Hn Hl IH]; cbn; constructor.
  - intros X. apply in_map_iff in X. destruct X as [y [E Hy]]. apply I in E; [subst; contradiction | now right | now left].
  - apply IH. intros a b Ha Hb. apply I; now right.
Qed.

(* dict keys in first-occurrence order: each key once, same keys *)
Lemma dedup_acc_spec {A} (eqb : A -> A -> bool) (eqb_eq : forall a b, eqb a b = true <-> a = b) l :
  forall acc, NoDup acc ->
    NoDup (dedup_acc eqb acc l) /\ forall x, In x (dedup_acc eqb acc l) <-> In x acc \/ In x l.
Proof.
  induction l as [|h r IH]; cbn; intros acc N; [split; [exact N | tauto]|].
  destruct (mem eqb h acc) eqn:E.
  - apply (mem_In eqb eqb_eq) in E. destruct (IH acc N) as [A1 A2]. split; [exact A1|].
    intros x. rewrite A2. split; [tauto | intros [X|[<-|X]]; auto].
  - assert (N' : NoDup (acc ++ [h])).
    { eapply Permutation_NoDup; [apply Permutation_cons_append|]. constructor; [|exact N].
      intros X. apply (mem_In eqb eqb_eq) in X. congruence. }
    destruct (IH _ N') as [A1 A2]. split; [exact A1|]. intros x. rewrite A2, in_app_iff. cbn. tauto.
Qed.
Lemma dedup_spec {A} (eqb : A -> A -> bool) (eqb_eq : forall a b, eqb a b = true <-> a = b) l :
  NoDup (dedup eqb l) /\ forall x, In x (dedup eqb l) <-> In x l.
Proof.
  destruct (dedup_acc_spec eqb eqb_eq l [] (NoDup_nil _)) as [A1 A2]. split; [exact A1|].
  intros x. unfold dedup. rewrite A2. cbn. tauto.
Qed.

(* (a) model = specification, and the emitted keys are strictly ascending in canonical order:
   `keys` is what the builder collected (any order), `langs` the Plutus versions used (any order, any repetition) *)
Theorem views_canonical cm keys langs :
  Forall (fun l => l < 3) langs -> NoDup keys -> (forall x, In x keys <-> In x langs) ->
  cm_cbor cm keys = language_views cm langs
  /\ StronglySorted klt (map (cm_entry cm) (isort lk_ltb keys)).
Proof.
  intros F Nk Hset. rewrite Forall_forall in F.
  destruct (dedup_spec N.eqb N.eqb_eq langs) as [Nd Hd].
  assert (Hk : forall x, In x keys -> x < 3) by (intros x Hx; apply F, Hset, Hx).
  assert (S1 : StronglySorted klt (map (view cm) (isort lk_ltb keys))).
  { apply (sorted_map (lt lk_ltb)); [apply (isort_sorted lk_ltb lk_trans lk_total); exact Nk|].
    intros x y Hx Hy L. unfold klt. rewrite !view_key, vkey_order; [exact L | |]; apply Hk; eapply isort_in; eauto. }
  assert (S2 : StronglySorted klt (ksort (map (view cm) (dedup N.eqb langs)))).
  { apply ksort_sorted. unfold ekeys. rewrite map_map. apply NoDup_map_in; [|exact Nd].
    intros x y Hx Hy E. rewrite !view_key in E. apply vkey_enc_inj; [apply F, Hd, Hx | apply F, Hd, Hy | exact E]. }
  assert (P : Permutation (map (view cm) (isort lk_ltb keys)) (ksort (map (view cm) (dedup N.eqb langs)))).
  { rewrite ksort_perm. apply Permutation_map. rewrite (isort_perm lk_ltb).
    apply NoDup_Permutation; [exact Nk | exact Nd|]. intros x. rewrite Hd. apply Hset. }
  rewrite (map_ext _ _ (cm_entry_view cm)). split; [|exact S1].
  unfold cm_cbor, language_views. f_equal. rewrite (map_ext _ _ (cm_entry_view cm)).
  now apply sorted_perm_eq.
Qed.

(* the emitted map is a function of the SET of languages: order and repetition of the scripts do not matter *)
Corollary views_of_set cm l : Forall (fun x => x < 3) l -> cm_cbor cm (dedup N.eqb l) = language_views cm l.
Proof.
  intros F. destruct (dedup_spec N.eqb N.eqb_eq l) as [Nd Hd]. now apply views_canonical.
Qed.
Corollary views_order_irrelevant cm l1 l2 :
  Forall (fun x => x < 3) l1 -> (forall x, In x l1 <-> In x l2) ->
  cm_cbor cm (dedup N.eqb l1) = cm_cbor cm (dedup N.eqb l2).
Proof.
  intros F Hs. assert (F2 : Forall (fun x => x < 3) l2).
  { rewrite Forall_forall in *. intros x Hx. apply F, Hs, Hx. }
  rewrite (views_of_set cm l1 F), (views_of_set cm l2 F2). unfold language_views. f_equal.
  destruct (dedup_spec N.eqb N.eqb_eq l1) as [N1 H1]. destruct (dedup_spec N.eqb N.eqb_eq l2) as [N2 H2].
  assert (K : forall l, Forall (fun x => x < 3) l -> NoDup (ekeys (map (view cm) (dedup N.eqb l)))).
  { intros l Fl. rewrite Forall_forall in Fl. destruct (dedup_spec N.eqb N.eqb_eq l) as [Nl Hl].
    unfold ekeys. rewrite map_map. apply NoDup_map_in; [|exact Nl].
    intros x y Hx Hy E. rewrite !view_key in E. apply vkey_enc_inj; [apply Fl, Hl, Hx | apply Fl, Hl, Hy | exact E]. }
  apply ksort_canonical; [now apply K|]. apply Permutation_map, NoDup_Permutation; auto.
  intros x. rewrite H1, H2. apply Hs.
Qed.

(* all three languages, met in any order: 1, 2, then h'00' *)
Example views_all_three cm :
  map fst (match cm_cbor cm (dedup N.eqb [0; 2; 1; 0; 2]) with CM kvs => kvs | _ => [] end) = [CU 1; CU 2; CB [x00]]
  /\ map (fun kv => enc (fst kv)) (match language_views cm [2; 0; 1] with CM kvs => kvs | _ => [] end) = [[x01]; [x02]; [x41; x00]].
Proof. split; reflexivity. Qed.

(* ====================== Part A2: the order of the cost parameters ====================== *)
(* sorting records by a key: with pairwise distinct keys the result is strictly ascending, and it is the same for
   every arrangement of the input (dict order is irrelevant for a sorted() over the keys) *)
Section KeySort.
  Context {A K : Type} (key : A -> K) (kltb : K -> K -> bool).
  Hypothesis kirrefl : forall x, kltb x x = false.
  Hypothesis ktrans : forall x y z, kltb x y = true -> kltb y z = true -> kltb x z = true.
  Hypothesis ktotal : forall x y, x <> y -> kltb x y = true \/ kltb y x = true.
  Definition eltb (a b : A) : bool := kltb (key a) (key b).
  Definition elt (a b : A) : Prop := eltb a b = true.

  Lemma kinsert_sorted x l : ~ In (key x) (map key l) -> StronglySorted elt l -> StronglySorted elt (insert eltb x l).
  Proof.
    induction l as [|h r IH]; cbn; intros Hn S.
    - constructor; constructor.
    - inversion S as [|? ? Sr Fh]; subst.
      destruct (eltb h x) eqn:E.
      + constructor; [apply IH; auto|].
        rewrite Forall_forall in *. intros y Hy.
        apply (Permutation_in _ (insert_perm eltb x r)) in Hy. destruct Hy as [<-|Hy]; [exact E | now apply Fh].
      + assert (T : eltb x h = true).
        { unfold eltb in *. destruct (ktotal (key x) (key h)) as [T|T]; [intros Q; apply Hn; now left | exact T | congruence]. }
        constructor; [exact S|]. constructor; [exact T|].
        rewrite Forall_forall in *. intros y Hy. unfold elt, eltb in *. eapply ktrans; [exact T | now apply Fh].
  Qed.
  Lemma kisort_sorted l : NoDup (map key l) -> StronglySorted elt (isort eltb l).
  Proof.
    induction l as [|x l IH]; cbn; intros H; [constructor|].
    inversion H as [|? ? Hn Hr]; subst. apply kinsert_sorted; [|now apply IH].
    intros X. apply Hn. eapply Permutation_in; [apply Permutation_map, (isort_perm eltb) | exact X].
  Qed.
  Lemma ksorted_perm_eq l1 : forall l2, StronglySorted elt l1 -> StronglySorted elt l2 -> Permutation l1 l2 -> l1 = l2.
  Proof.
    induction l1 as [|a r1 IH]; intros l2 S1 S2 P.
    - apply Permutation_nil in P. now subst.
    - destruct l2 as [|b r2]; [apply Permutation_sym, Permutation_nil in P; discriminate|].
      inversion S1 as [|? ? Sr1 F1]; inversion S2 as [|? ? Sr2 F2]; subst. rewrite Forall_forall in F1, F2.
      assert (E : a = b).
      { assert (Ia : In a (b :: r2)) by (eapply Permutation_in; [exact P | now left]).
        assert (Ib : In b (a :: r1)) by (eapply Permutation_in; [symmetry; exact P | now left]).
        destruct Ia as [Ia|Ia]; [now subst|]. destruct Ib as [Ib|Ib]; [now subst|].
        pose proof (F2 _ Ia) as L1. pose proof (F1 _ Ib) as L2. unfold elt, eltb in *.
        pose proof (ktrans _ _ _ L1 L2) as L. now rewrite kirrefl in L. }
      subst b. f_equal. apply IH; auto. eapply Permutation_cons_inv; exact P.
  Qed.
  Lemma kisort_perm_eq l l' : NoDup (map key l) -> Permutation l l' -> isort eltb l = isort eltb l'.
  Proof.
    intros N P. apply ksorted_perm_eq.
    - now apply kisort_sorted.
    - apply kisort_sorted. eapply Permutation_NoDup; [apply Permutation_map; exact P | exact N].
    - rewrite !(isort_perm eltb). exact P.
  Qed.
  Lemma kisort_id l : StronglySorted elt l -> isort eltb l = l.
  Proof.
    apply (isort_sorted_id eltb).
    - intros x. apply kirrefl.
    - intros x y z. apply ktrans.
  Qed.
End KeySort.

(* Python's str order (code points) is a strict total order *)
Lemma N_of_ascii_inj x y : N_of_ascii x = N_of_ascii y -> x = y.
Proof. intros E. rewrite <- (ascii_N_embedding x), <- (ascii_N_embedding y). now rewrite E. Qed.
Lemma str_irrefl a : str_ltb a a = false.
Proof. induction a as [|x a IH]; cbn; [reflexivity|]. now rewrite N.ltb_irrefl. Qed.
Lemma str_trans a : forall b c, str_ltb a b = true -> str_ltb b c = true -> str_ltb a c = true.
Proof.
  induction a as [|x a IH]; intros [|y b] [|z c]; cbn; try discriminate; try reflexivity.
  destruct (N_of_ascii x <? N_of_ascii y) eqn:E1, (N_of_ascii y <? N_of_ascii x) eqn:E1',
           (N_of_ascii y <? N_of_ascii z) eqn:E2, (N_of_ascii z <? N_of_ascii y) eqn:E2',
           (N_of_ascii x <? N_of_ascii z) eqn:E3, (N_of_ascii z <? N_of_ascii x) eqn:E3';
    try rewrite N.ltb_lt in *; try rewrite N.ltb_ge in *; try discriminate; try reflexivity; try lia.
  apply IH.
Qed.
Lemma str_total a : forall b, a <> b -> str_ltb a b = true \/ str_ltb b a = true.
Proof.
  induction a as [|x a IH]; intros [|y b] Hn; cbn; auto; try congruence.
  destruct (N_of_ascii x <? N_of_ascii y) eqn:E1; [now left|].
  destruct (N_of_ascii y <? N_of_ascii x) eqn:E2; [now right|].
  apply N.ltb_ge in E1, E2. assert (x = y) by (apply N_of_ascii_inj; lia). subst y.
  apply IH. intros ->. now apply Hn.
Qed.
Lemma zlt_irrefl x : (x <? x)%Z = false.
Proof. apply Z.ltb_irrefl. Qed.
Lemma zlt_trans x y z : (x <? y)%Z = true -> (y <? z)%Z = true -> (x <? z)%Z = true.
Proof. rewrite !Z.ltb_lt. lia. Qed.
Lemma zlt_total x y : x <> y -> (x <? y)%Z = true \/ (y <? x)%Z = true.
Proof. rewrite !Z.ltb_lt. lia. Qed.

(* the keys of a language's parameter dict, made comparable across the two shapes only for NoDup statements *)
Definition keys_distinct (p : params) : Prop :=
  match p with ByName l => NoDup (map fst l) | ByPos l => NoDup (map fst l) end.
Definition same_dict (p p' : params) : Prop :=
  match p, p' with
  | ByName l, ByName l' => Permutation l l'
  | ByPos l, ByPos l' => Permutation l l'
  | _, _ => False
  end.

(* (a) sorted(cost_model.keys()) makes the PlutusV1 parameter list independent of the dict order *)
Theorem vals_by_key_dict_order p p' : keys_distinct p -> same_dict p p' -> vals_by_key p = vals_by_key p'.
Proof.
  destruct p as [l|l], p' as [l'|l']; cbn; intros N P; try contradiction; f_equal.
  - exact (kisort_perm_eq fst str_ltb str_irrefl str_trans str_total l l' N P).
  - exact (kisort_perm_eq fst Z.ltb zlt_irrefl zlt_trans zlt_total l l' N P).
Qed.

(* (b) it lists the values in strictly ascending order of the keys: positions numerically, names by code points *)
Theorem vals_by_key_pos l : NoDup (map fst l) ->
  let s := isort pos_ltb l in
  vals_by_key (ByPos l) = map snd s /\ Permutation s l /\ StronglySorted (fun a b => fst a < fst b)%Z s.
Proof.
  intros N s. split; [reflexivity|]. split; [apply (isort_perm pos_ltb)|].
  pose proof (kisort_sorted fst Z.ltb zlt_trans zlt_total l N) as S.
  eapply StronglySorted_ind with (P := fun s => StronglySorted (fun a b => (fst a < fst b)%Z) s) in S;
    [exact S | constructor |].
  intros a r _ IH F. constructor; [exact IH|]. rewrite Forall_forall in *. intros y Hy.
  specialize (F y Hy). unfold elt, eltb in F. now apply Z.ltb_lt.
Qed.
Theorem vals_by_key_name l : NoDup (map fst l) ->
  let s := isort name_ltb l in
  vals_by_key (ByName l) = map snd s /\ Permutation s l /\ StronglySorted (fun a b => str_ltb (fst a) (fst b) = true) s.
Proof.
  intros N s. split; [reflexivity|]. split; [apply (isort_perm name_ltb)|].
  exact (kisort_sorted fst str_ltb str_trans str_total l N).
Qed.

(* (c) a cost model reported as a list (cardano-cli: {i: v for i, v in enumerate(vs)}) enters the PlutusV1 view in
   list order, whatever its length (positions 10, 11, ... come after 2, ..., 9) *)
Lemma enumerate_from_sorted vs : forall k,
  StronglySorted (elt fst Z.ltb) (enumerate_from k vs) /\ Forall (fun e => (k <= fst e)%Z) (enumerate_from k vs).
Proof.
  induction vs as [|v r IH]; intros k; cbn; [split; constructor|].
  destruct (IH (k + 1)%Z) as [S F]. split.
  - constructor; [exact S|]. rewrite Forall_forall in *. intros y Hy. specialize (F y Hy).
    unfold elt, eltb. cbn. apply Z.ltb_lt. lia.
  - constructor; [cbn; lia|]. rewrite Forall_forall in *. intros y Hy. specialize (F y Hy). lia.
Qed.
Lemma enumerate_from_vals vs : forall k, map snd (enumerate_from k vs) = vs.
Proof. induction vs as [|v r IH]; intros k; cbn; [reflexivity|]. now rewrite IH. Qed.
Theorem vals_by_key_enumerate vs : vals_by_key (ByPos (enumerate vs)) = vs.
Proof.
  cbn. change pos_ltb with (eltb (@fst Z Z) Z.ltb).
  rewrite (kisort_id fst Z.ltb zlt_irrefl zlt_trans); [apply enumerate_from_vals|].
  apply enumerate_from_sorted.
Qed.
Corollary view_v1_positional cm vs : cm_get cm 1 = ByPos (enumerate vs) ->
  view cm 0 = (CB [x00], CB (enc (CAi (map cint vs)))).
Proof. intros E. unfold view. cbn. now rewrite E, vals_by_key_enumerate. Qed.

(* twelve positional parameters handed over in scrambled dict order: 10 and 11 stay behind 2..9 (a sort of the keys
   as text would put them between 1 and 2); names are ordered by code points (upper case first) *)
Example positional_twelve :
  vals_by_key (ByPos [(10, 110); (2, 102); (0, 100); (11, 111); (1, 101); (3, 103); (9, 109); (4, 104); (8, 108); (5, 105);
                      (7, 107); (6, 106)]%Z)
  = [100; 101; 102; 103; 104; 105; 106; 107; 108; 109; 110; 111]%Z
  /\ vals_by_key (ByName [("b", 1); ("Zeta", 2); ("a", 3); ("10", 4); ("2", 5)]%Z%string) = [4; 5; 2; 3; 1]%Z.
Proof. split; reflexivity. Qed.

(* ====================== Part B: invariants ====================== *)
Definition opscripts (op : bop) : list script := match op_script op with Some s => [s] | None => [] end.
Definition lg (s : script) : list N := match lang_id (s_lang s) with Some l => [l] | None => [] end.
Definition isnone {A} (o : option A) : bool := match o with None => true | Some _ => false end.
Definition has_rdm (l : list (script * option rdm)) : bool := existsb (fun sr => negb (isnone (snd sr))) l.

Lemma used_scripts_eq native ops : used_scripts native ops = native ++ flat_map opscripts ops.
Proof. reflexivity. Qed.
Lemma langs_used_eq native ops : langs_used native ops = flat_map lg (used_scripts native ops).
Proof. reflexivity. Qed.
Lemma cm_keys_eq st : cm_keys st = dedup N.eqb (flat_map lg (all_scripts st)).
Proof. reflexivity. Qed.
Lemma lg_lt3 s l : In l (lg s) -> l < 3.
Proof. unfold lg. destruct (s_lang s); cbn; intros H; try contradiction; destruct H as [<-|[]]; lia. Qed.
Lemma lg_plutus s : is_plutus s = false -> lg s = [].
Proof. unfold is_plutus, lg. destruct (s_lang s); cbn; [reflexivity | discriminate..]. Qed.
Lemma plutus_lg s : is_plutus s = true -> exists l, In l (lg s).
Proof. unfold is_plutus, lg. destruct (s_lang s); cbn; [discriminate | eauto..]. Qed.

Lemma hash_inj_incl l l' : (forall x, In x l' -> In x l) -> hash_inj l -> hash_inj l'.
Proof. intros I H s s' Hs Hs'. apply H; auto. Qed.

(* ----- emptiness of the redeemer list ----- *)
Lemma isnil_app {A} (a b : list A) : isnil (a ++ b) = isnil a && isnil b.
Proof. destruct a; reflexivity. Qed.
Lemma isnil_map {A B} (f : A -> B) l : isnil (map f l) = isnil l.
Proof. destruct l; reflexivity. Qed.
Lemma isnil_somes l : isnil (somes (map snd l)) = negb (has_rdm l).
Proof.
  induction l as [|[s [r|]] l IH]; cbn; [reflexivity | reflexivity | exact IH].
Qed.
Lemma nr_spec st : isnil (redeemer_list st) =
  isnil (b_in_rdm st) && negb (has_rdm (b_mint st)) && negb (has_rdm (b_wdrl st)) && negb (has_rdm (b_cert st)).
Proof. unfold redeemer_list. rewrite !isnil_app, isnil_map, !isnil_somes, !andb_assoc. reflexivity. Qed.
Lemma has_rdm_snoc l s o : has_rdm (l ++ [(s, o)]) = has_rdm l || negb (isnone o).
Proof. unfold has_rdm. rewrite existsb_app. cbn. now rewrite orb_false_r. Qed.
Lemma aset_nonnil {A V} (eqb : A -> A -> bool) (d : list (A * V)) k v : isnil (aset eqb d k v) = false.
Proof. destruct d as [|[k0 v0] r]; cbn; [reflexivity|]. destruct (eqb k0 k); reflexivity. Qed.

(* ----- what a successful add_script_input did, in terms of op_script ----- *)
Lemma asi_inv12 st u src d r st' : add_script_input st u src d r = Ok st' ->
  exists s, op_script (AddScriptInput u src d r) = Some s /\ s_hash s = u_pay u
    /\ b_in_scr st' = aset utxo_eqb (b_in_scr st) u s /\ b_native st' = b_native st
    /\ b_mint st' = b_mint st /\ b_wdrl st' = b_wdrl st /\ b_cert st' = b_cert st
    /\ match r with
       | None => b_in_rdm st' = b_in_rdm st
       | Some _ => exists rd', b_in_rdm st' = aset utxo_eqb (b_in_rdm st) u rd'
       end.
Proof.
  unfold add_script_input.
  destruct (negb (u_saddr u)); [discriminate|].
  destruct (match u_dat u with OHash h => match d with Some dd => negb (bytes_eqb h (d_hash dd)) | None => false end | _ => false end); [discriminate|].
  destruct (match u_dat u with OInline _ => match d with Some _ => true | None => false end | _ => false end); [discriminate|].
  destruct (match r with
            | Some rd => if negb (tag_ok rd TAG_SPEND) then Err EInvalidArg
                         else bind (consolidate (b_est st) (set_tag rd TAG_SPEND))
                                (fun er => Ok (fst er, aset utxo_eqb (b_in_rdm st) u (snd er)))
            | None => Ok (b_est st, b_in_rdm st) end) as [[est in_rdm]|e] eqn:Er; cbn [bind]; [|discriminate].
  cbn [op_script].
  destruct (candidates u src) as [cands|e] eqn:Ec; cbn [bind]; [|discriminate].
  destruct (find (fun c => bytes_eqb (s_hash (fst c)) (u_pay u)) cands) as [[s cu]|] eqn:Ef; [|discriminate].
  intros H. inversion H; subst; clear H. cbn [option_map fst snd b_in_scr b_native b_mint b_wdrl b_cert b_in_rdm].
  apply find_some in Ef. destruct Ef as [_ Hh]. cbn in Hh. apply bytes_eqb_eq in Hh.
  exists s. repeat (split; [reflexivity || exact Hh|]).
  destruct r as [rd|].
  - destruct (negb (tag_ok rd TAG_SPEND)); [discriminate|].
    destruct (consolidate (b_est st) (set_tag rd TAG_SPEND)) as [[e1 r1]|]; cbn in Er; [|discriminate].
    inversion Er; subst. eauto.
  - inversion Er; subst. reflexivity.
Qed.

Record inv12 (st : bstate) (U : list script) : Prop := {
  q_raw : forall x, In x (raw_scripts st) <-> In x U;
  q_inscr : forall u s, In (u, s) (b_in_scr st) -> s_hash s = u_pay u
}.

(* the common part of add_minting_script / add_withdrawal_script / add_certificate_script *)
Lemma inv12_tail st U src s refin refscr (mk : bstate) :
  inv12 st U -> resolve_src st src = Ok (s, refin, refscr) ->
  b_in_scr mk = b_in_scr st ->
  (forall x, In x (raw_scripts mk) <-> In x (raw_scripts st) \/ x = s) ->
  src_script src = Some s /\ inv12 mk (U ++ [s]).
Proof.
  intros [Q1 Q2] Er E1 Hraw. apply resolve_src_inv in Er. destruct Er as [Es _]. split; [exact Es|].
  constructor.
  - intros x. rewrite Hraw, in_app_iff, Q1. cbn. intuition.
  - rewrite E1. exact Q2.
Qed.

Lemma bstep_inv12 st op st' U : bstep st op = Ok st' -> inv12 st U -> hash_inj (U ++ opscripts op) ->
  inv12 st' (U ++ opscripts op)
  /\ isnil (redeemer_list st') = isnil (redeemer_list st) && isnone (op_rdm op).
Proof.
  intros Hs I Hi. rewrite !nr_spec.
  destruct op as [u|u src d r|src r|src r|src r|c|d|cu|ru|d]; cbn [bstep] in Hs.
  - inversion Hs; subst; clear Hs. unfold opscripts. cbn. rewrite app_nil_r, andb_true_r.
    split; [|reflexivity]. destruct I as [Q1 Q2]. constructor; auto.
  - apply asi_inv12 in Hs. destruct Hs as [s [Eo [Hh [E1 [E2 [E3 [E4 [E5 Hr]]]]]]]].
    unfold opscripts in *. rewrite Eo in *. destruct I as [Q1 Q2]. split.
    + constructor.
      * intros x. rewrite in_app_iff, <- Q1, !raw_In, E1, E2, E3, E4, E5. cbn. split.
        -- intros [X|[X|X]]; [tauto| |tauto].
           apply in_map_iff in X. destruct X as [[k v] [Ev Hk]]. cbn in Ev. subst v.
           apply (aset_In utxo_eqb utxo_eqb_eq) in Hk. destruct Hk as [Hk|[_ ->]]; [|tauto].
           left. right. left. apply in_map_iff. exists (k, x). auto.
        -- assert (Hs : In s (map snd (aset utxo_eqb (b_in_scr st) u s))).
           { apply in_map_iff. exists (u, s). split; [reflexivity | apply aset_has, utxo_eqb_eq]. }
           intros [[X|[X|X]]|[<-|[]]]; [tauto| |tauto|tauto].
           apply in_map_iff in X. destruct X as [[k v] [Ev Hk]]. cbn in Ev. subst v.
           destruct (aset_keep utxo_eqb utxo_eqb_eq (b_in_scr st) u s _ _ Hk) as [K| ->].
           ++ right. left. apply in_map_iff. exists (k, x). auto.
           ++ assert (x = s); [|subst; tauto].
              apply Hi; [apply in_app_iff; left; apply Q1, raw_In; right; left; apply in_map_iff; exists (u, x); auto
                        | apply in_app_iff; right; now left
                        | rewrite Hh; now apply Q2].
      * intros u0 s0 H. rewrite E1 in H. apply (aset_In utxo_eqb utxo_eqb_eq) in H.
        destruct H as [H|[-> ->]]; [now apply Q2 | exact Hh].
    + rewrite E3, E4, E5. cbn [op_rdm]. destruct r as [rd|]; cbn [isnone].
      * destruct Hr as [rd' ->]. rewrite aset_nonnil. cbn. now rewrite andb_false_r.
      * rewrite Hr. now rewrite andb_true_r.
  - unfold add_minting_script in Hs.
    destruct (prep_rdm (b_est st) r TAG_MINT) as [[est r']|] eqn:Ep; cbn [bind] in Hs; [|discriminate].
    destruct (resolve_src st src) as [[[s refin] refscr]|] eqn:Er; cbn [bind] in Hs; [|discriminate].
    inversion Hs; subst; clear Hs.
    destruct (inv12_tail st U src s refin refscr
                (mkB (b_inputs st) (b_in_rdm st) (b_in_scr st) (b_mint st ++ [(s, snd (est, r'))]) (b_wdrl st) (b_cert st)
                     refin refscr (b_datums st) (b_native st) (b_certs st) (fst (est, r'))) I Er eq_refl) as [Es I'].
    { intros x. rewrite !raw_In. cbn. rewrite map_app, in_app_iff. cbn. intuition. }
    unfold opscripts. cbn [op_script op_rdm]. rewrite Es. split; [exact I'|].
    cbn [b_in_rdm b_mint b_wdrl b_cert snd]. rewrite has_rdm_snoc.
    apply prep_rdm_inv in Ep. destruct Ep as [[-> ->]|[rd [rd' [-> [-> _]]]]]; cbn [isnone negb];
      destruct (isnil (b_in_rdm st)), (has_rdm (b_mint st)), (has_rdm (b_wdrl st)), (has_rdm (b_cert st)); reflexivity.
  - unfold add_withdrawal_script in Hs.
    destruct (prep_rdm (b_est st) r TAG_REWARD) as [[est r']|] eqn:Ep; cbn [bind] in Hs; [|discriminate].
    destruct (resolve_src st src) as [[[s refin] refscr]|] eqn:Er; cbn [bind] in Hs; [|discriminate].
    inversion Hs; subst; clear Hs.
    destruct (inv12_tail st U src s refin refscr
                (mkB (b_inputs st) (b_in_rdm st) (b_in_scr st) (b_mint st) (b_wdrl st ++ [(s, snd (est, r'))]) (b_cert st)
                     refin refscr (b_datums st) (b_native st) (b_certs st) (fst (est, r'))) I Er eq_refl) as [Es I'].
    { intros x. rewrite !raw_In. cbn. rewrite map_app, in_app_iff. cbn. intuition. }
    unfold opscripts. cbn [op_script op_rdm]. rewrite Es. split; [exact I'|].
    cbn [b_in_rdm b_mint b_wdrl b_cert snd]. rewrite has_rdm_snoc.
    apply prep_rdm_inv in Ep. destruct Ep as [[-> ->]|[rd [rd' [-> [-> _]]]]]; cbn [isnone negb];
      destruct (isnil (b_in_rdm st)), (has_rdm (b_mint st)), (has_rdm (b_wdrl st)), (has_rdm (b_cert st)); reflexivity.
  - unfold add_certificate_script in Hs.
    destruct (match r with
              | Some rd => if negb (tag_ok rd TAG_CERT) then Err EInvalidArg
                           else match b_certs st with
                                | [] => Err EAssert
                                | _ :: _ => bind (consolidate (b_est st) (set_tag (set_index rd (length (b_certs st) - 1)) TAG_CERT))
                                              (fun er => Ok (fst er, Some (snd er)))
                                end
              | None => Ok (b_est st, None) end) as [[est r']|] eqn:Ep; cbn [bind] in Hs; [|discriminate].
    destruct (resolve_src st src) as [[[s refin] refscr]|] eqn:Er; cbn [bind] in Hs; [|discriminate].
    inversion Hs; subst; clear Hs.
    destruct (inv12_tail st U src s refin refscr
                (mkB (b_inputs st) (b_in_rdm st) (b_in_scr st) (b_mint st) (b_wdrl st) (b_cert st ++ [(s, snd (est, r'))])
                     refin refscr (b_datums st) (b_native st) (b_certs st) (fst (est, r'))) I Er eq_refl) as [Es I'].
    { intros x. rewrite !raw_In. cbn. rewrite map_app, in_app_iff. cbn. intuition. }
    unfold opscripts. cbn [op_script op_rdm]. rewrite Es. split; [exact I'|].
    cbn [b_in_rdm b_mint b_wdrl b_cert snd]. rewrite has_rdm_snoc.
    assert (Hr : isnone r' = isnone r).
    { destruct r as [rd|]; [|inversion Ep; reflexivity].
      destruct (negb (tag_ok rd TAG_CERT)); [discriminate|].
      destruct (b_certs st) as [|c0 cs]; [discriminate|].
      destruct (consolidate (b_est st) (set_tag (set_index rd (length (c0 :: cs) - 1)) TAG_CERT)) as [[e1 r1]|]; cbn in Ep; [|discriminate].
      inversion Ep; reflexivity. }
    rewrite Hr.
    destruct (isnone r), (isnil (b_in_rdm st)), (has_rdm (b_mint st)), (has_rdm (b_wdrl st)), (has_rdm (b_cert st)); reflexivity.
  - inversion Hs; subst; clear Hs. unfold opscripts. cbn. rewrite app_nil_r, andb_true_r.
    split; [|reflexivity]. destruct I as [Q1 Q2]. constructor; auto.
  - inversion Hs; subst; clear Hs. unfold opscripts. cbn. rewrite app_nil_r, andb_true_r.
    split; [|reflexivity]. destruct I as [Q1 Q2]. constructor; auto.
  - inversion Hs; subst; clear Hs. unfold opscripts. cbn. rewrite app_nil_r, andb_true_r.
    split; [|reflexivity]. destruct I as [Q1 Q2]. constructor; auto.
  - inversion Hs; subst; clear Hs. unfold opscripts. cbn. rewrite app_nil_r, andb_true_r.
    split; [|reflexivity]. destruct I as [Q1 Q2]. constructor; auto.
  - inversion Hs; subst; clear Hs. unfold opscripts. cbn. rewrite app_nil_r, andb_true_r.
    split; [|reflexivity]. destruct I as [Q1 Q2]. constructor; auto.
Qed.

Lemma run_inv12 ops : forall st st' U, run_from st ops = Ok st' -> inv12 st U ->
  hash_inj (U ++ flat_map opscripts ops) ->
  inv12 st' (U ++ flat_map opscripts ops)
  /\ isnil (redeemer_list st') = isnil (redeemer_list st) && forallb (fun op => isnone (op_rdm op)) ops.
Proof.
  induction ops as [|op ops IH]; intros st st' U H I Hi; cbn in H.
  - inversion H; subst. cbn. rewrite app_nil_r, andb_true_r. auto.
  - destruct (bstep st op) as [st1|] eqn:E; cbn in H; [|discriminate].
    cbn [flat_map forallb] in *. rewrite app_assoc in Hi |- *.
    destruct (bstep_inv12 _ _ _ U E I) as [I1 N1].
    { eapply hash_inj_incl; [|exact Hi]. intros x Hx. apply in_app_iff. now left. }
    destruct (IH _ _ _ H I1 Hi) as [I2 N2]. split; [exact I2|]. now rewrite N2, N1, andb_assoc.
Qed.

Lemma inv12_init native : inv12 (init_state native) native.
Proof.
  constructor.
  - intros x. rewrite raw_In. cbn. tauto.
  - cbn. intros ? ? [].
Qed.

(* ----- build(): the scripts stay, the redeemer list stays (non)empty ----- *)
Lemma index_pairs_has f sorted l l' : index_pairs f sorted l = Ok l' -> has_rdm l' = has_rdm l.
Proof.
  revert l'. induction l as [|[s0 o0] l IH]; cbn; intros l' H.
  - inversion H; subst. reflexivity.
  - destruct (fold_right _ (Ok []) l) as [acc|] eqn:E; cbn [bind] in H; [|discriminate].
    specialize (IH _ E). cbn [snd fst] in H. destruct o0 as [r0|].
    + destruct (index_of bytes_eqb (f s0) sorted) as [i|]; [|discriminate]. inversion H; subst. cbn. reflexivity.
    + inversion H; subst. cbn. exact IH.
Qed.
Lemma upd_pairs_has a l l' : mapM (upd_pair a) l = Ok l' -> has_rdm l' = has_rdm l.
Proof.
  revert l'. induction l as [|[s0 o0] l IH]; cbn; intros l' H.
  - inversion H; subst. reflexivity.
  - destruct (upd_pair a (s0, o0)) as [y|] eqn:E; cbn [bind] in H; [|discriminate].
    destruct (mapM (upd_pair a) l) as [ys|]; cbn [bind] in H; [|discriminate]. inversion H; subst.
    apply upd_pair_inv in E. cbn [fst snd] in E. destruct E as [_ E]. specialize (IH _ eq_refl).
    unfold has_rdm in *. cbn [existsb snd]. rewrite IH.
    destruct o0, (snd y); try contradiction; reflexivity.
Qed.
Lemma mapM_isnil {A B} (f : A -> result B) l l' : mapM f l = Ok l' -> isnil l' = isnil l.
Proof.
  destruct l as [|x l]; cbn; intros H; [inversion H; reflexivity|].
  destruct (f x); cbn in H; [|discriminate]. destruct (mapM f l); cbn in H; [|discriminate]. inversion H; reflexivity.
Qed.

Lemma sri_nr st a fin st' : set_redeemer_index st a fin = Ok st' ->
  isnil (redeemer_list st') = isnil (redeemer_list st).
Proof.
  unfold set_redeemer_index.
  destruct (index_pairs s_hash _ (b_mint st)) as [mint|] eqn:E1; cbn [bind]; [|discriminate].
  destruct (index_pairs _ _ (b_wdrl st)) as [wdrl|] eqn:E2; cbn [bind]; [|discriminate].
  intros H; inversion H; subst; clear H. rewrite !nr_spec. cbn [b_in_rdm b_mint b_wdrl b_cert].
  now rewrite isnil_map, (index_pairs_has _ _ _ _ E1), (index_pairs_has _ _ _ _ E2).
Qed.
Lemma uu_nr st a st' : update_units st a = Ok st' -> isnil (redeemer_list st') = isnil (redeemer_list st).
Proof.
  unfold update_units.
  destruct (b_est st) as [[|]|]; try (intros H; inversion H; subst; reflexivity).
  destruct (mapM _ (b_in_rdm st)) as [in_rdm|] eqn:E1; cbn [bind]; [|discriminate].
  destruct (mapM (upd_pair a) (b_mint st)) as [mint|] eqn:E2; cbn [bind]; [|discriminate].
  destruct (mapM (upd_pair a) (b_wdrl st)) as [wdrl|] eqn:E3; cbn [bind]; [|discriminate].
  destruct (mapM (upd_pair a) (b_cert st)) as [cert|] eqn:E4; cbn [bind]; [|discriminate].
  intros H; inversion H; subst; clear H. rewrite !nr_spec. cbn [b_in_rdm b_mint b_wdrl b_cert].
  now rewrite (mapM_isnil _ _ _ E1), (upd_pairs_has _ _ _ E2), (upd_pairs_has _ _ _ E3), (upd_pairs_has _ _ _ E4).
Qed.

Lemma build_frame st0 a t : build st0 a = Ok t ->
  raw_scripts (t_state t) = raw_scripts st0
  /\ isnil (redeemer_list (t_state t)) = isnil (redeemer_list st0)
  /\ t_rdms t = redeemer_list (t_state t) /\ t_datums t = map snd (b_datums (t_state t)).
Proof.
  intros Hb. destruct (build_inv _ _ _ Hb) as [st1 [st2 [E1 [E2 ->]]]]. cbn [t_state t_rdms t_datums].
  pose proof (sri_nr _ _ _ _ E1) as N1. pose proof (uu_nr _ _ _ E2) as N2.
  apply set_redeemer_index_inv in E1. destruct E1 as [F1 _].
  apply update_units_inv in E2. destruct E2 as [F2 _].
  split; [|split; [congruence | split; reflexivity]].
  unfold raw_scripts. rewrite (f_native _ _ F2), (f_native _ _ F1), (f_in_scr _ _ F2), (f_in_scr _ _ F1),
    (f_mintk _ _ F2), (f_mintk _ _ F1), (f_wdrlk _ _ F2), (f_wdrlk _ _ F1), (f_certk _ _ F2), (f_certk _ _ F1). reflexivity.
Qed.

(* ----- the dict keyed by script hash keeps exactly the scripts when a hash determines the script ----- *)
Lemma hset_In d s x : (forall y, In y d -> s_hash y = s_hash s -> y = s) ->
  (In x (hset d s) <-> In x d \/ x = s).
Proof.
  induction d as [|h r IH]; cbn; intros Hd; [intuition|].
  destruct (bytes_eqb (s_hash h) (s_hash s)) eqn:E.
  - apply bytes_eqb_eq in E. assert (h = s) by (apply Hd; auto). subst h. cbn. intuition.
  - cbn. rewrite IH by (intros y Hy; apply Hd; auto). tauto.
Qed.
Lemma fold_hset_In l : forall acc, hash_inj (acc ++ l) ->
  forall x, In x (fold_left hset l acc) <-> In x acc \/ In x l.
Proof.
  induction l as [|s l IH]; intros acc Hi x; cbn; [tauto|].
  assert (HS : forall z, In z (hset acc s) <-> In z acc \/ z = s).
  { intros z. apply hset_In. intros y Hy E. apply Hi; [apply in_app_iff; auto | apply in_app_iff; right; now left | exact E]. }
  rewrite IH.
  - rewrite HS. intuition.
  - eapply hash_inj_incl; [|exact Hi]. intros z Hz. apply in_app_iff in Hz. apply in_app_iff. cbn.
    destruct Hz as [Hz|Hz]; [apply HS in Hz; intuition | auto].
Qed.
Lemma all_scripts_In st x : hash_inj (raw_scripts st) -> (In x (all_scripts st) <-> In x (raw_scripts st)).
Proof. intros Hi. unfold all_scripts. rewrite fold_hset_In by exact Hi. cbn. tauto. Qed.

Lemma flat_map_nil {A B} (f : A -> list B) l : (forall x, In x l -> f x = []) -> flat_map f l = [].
Proof.
  induction l as [|x l IH]; cbn; intros H; [reflexivity|].
  rewrite (H x) by now left. apply IH. intros y Hy. apply H. now right.
Qed.
Lemma flat_map_set {A B} (f : A -> list B) l l' : (forall x, In x l <-> In x l') ->
  forall y, In y (flat_map f l) <-> In y (flat_map f l').
Proof.
  intros H y. rewrite !in_flat_map. split; intros [x [H1 H2]]; exists x; (split; [now apply H | exact H2]).
Qed.

(* what the run and the build give, put together *)
Lemma run_build_facts native ops a t : sound12 native ops -> run_build native ops a = Ok t ->
  (forall l, In l (cm_keys (t_state t)) <-> In l (langs_used native ops))
  /\ NoDup (cm_keys (t_state t))
  /\ Forall (fun l => l < 3) (langs_used native ops)
  /\ isnil (t_rdms t) = forallb (fun op => isnone (op_rdm op)) ops
  /\ t_rdms t = redeemer_list (t_state t) /\ t_datums t = map snd (b_datums (t_state t)).
Proof.
  intros [Hso [Hn Hi]] Hb. unfold run_build, run in Hb.
  destruct (run_from (init_state native) ops) as [st0|] eqn:Er; cbn [bind] in Hb; [|discriminate].
  rewrite used_scripts_eq in Hi.
  destruct (run_inv12 ops _ _ native Er (inv12_init native) Hi) as [[Q1 _] Nr].
  destruct (build_frame _ _ _ Hb) as [Eraw [Enr [Erd Edt]]].
  assert (Hraw : forall x, In x (raw_scripts (t_state t)) <-> In x (used_scripts native ops)).
  { intros x. rewrite Eraw. apply Q1. }
  assert (Hinj : hash_inj (raw_scripts (t_state t))).
  { eapply hash_inj_incl; [|exact Hi]. intros x Hx. now apply Hraw. }
  destruct (dedup_spec N.eqb N.eqb_eq (flat_map lg (all_scripts (t_state t)))) as [Nd Hd].
  split; [|split; [exact Nd | split; [|split; [|split; [exact Erd | exact Edt]]]]].
  - intros l. rewrite cm_keys_eq, Hd, langs_used_eq. apply flat_map_set.
    intros x. rewrite all_scripts_In by exact Hinj. apply Hraw.
  - apply Forall_forall. intros l Hl. rewrite langs_used_eq in Hl. apply in_flat_map in Hl.
    destruct Hl as [s [_ Hl]]. eapply lg_lt3; eauto.
  - rewrite Erd, Enr, Nr. reflexivity.
Qed.

(* no call handed over a redeemer: under the premise no Plutus version is used *)
Lemma no_rdm_no_langs native ops : sound12 native ops ->
  forallb (fun op => isnone (op_rdm op)) ops = true -> langs_used native ops = [].
Proof.
  intros [Hso [Hn _]] Hf. rewrite langs_used_eq. apply flat_map_nil. intros s Hs.
  rewrite used_scripts_eq in Hs. apply in_app_iff in Hs. apply lg_plutus. destruct Hs as [Hs|Hs].
  - rewrite forallb_forall in Hn. apply negb_true_iff. now apply Hn.
  - apply in_flat_map in Hs. destruct Hs as [op [Ho Hs]]. unfold opscripts in Hs.
    rewrite forallb_forall in Hso, Hf. specialize (Hso _ Ho). specialize (Hf _ Ho). unfold sound_op in Hso.
    destruct (op_script op) as [s'|]; [|contradiction]. destruct Hs as [->|[]].
    destruct (op_rdm op); [discriminate|]. now apply negb_true_iff.
Qed.
(* some call handed over a redeemer: under the premise its script is a Plutus script, so a version is used *)
Lemma rdm_some_lang native ops : sound12 native ops ->
  forallb (fun op => isnone (op_rdm op)) ops = false -> exists l, In l (langs_used native ops).
Proof.
  intros [Hso _] Hf.
  assert (X : exists op, In op ops /\ isnone (op_rdm op) = false).
  { clear Hso. induction ops as [|op ops IH]; cbn in Hf; [discriminate|].
    destruct (isnone (op_rdm op)) eqn:E; cbn in Hf.
    - destruct (IH Hf) as [o [H1 H2]]. exists o. split; [now right | exact H2].
    - exists op. split; [now left | exact E]. }
  destruct X as [op [Ho Hr]]. rewrite forallb_forall in Hso. specialize (Hso _ Ho). unfold sound_op in Hso.
  destruct (op_rdm op) as [r|] eqn:Er; [|discriminate].
  destruct (op_script op) as [s|] eqn:Es; [|discriminate].
  destruct (plutus_lg s Hso) as [l Hl]. exists l. rewrite langs_used_eq. apply in_flat_map.
  exists s. split; [|exact Hl]. rewrite used_scripts_eq. apply in_app_iff. right.
  apply in_flat_map. exists op. split; [exact Ho|]. unfold opscripts. rewrite Es. now left.
Qed.

(* ====================== Part C: the theorems ====================== *)
Lemma redeemers_bytes_nil usemap : redeemers_bytes usemap [] = enc (CM []).
Proof. destruct usemap; reflexivity. Qed.

(* (b) the script data hash of the body is H over exactly the shipped bytes of witness entry 5 (the empty map
   when there is none) and entry 4 (nothing when there is none) followed by the encoded SPEC language views of
   the Plutus versions used; absent when there are neither redeemers nor datums.
   usemap = true: redeemers as a map; usemap = false: as a list.  t_state t is the builder after build():
   indices assigned and execution units replaced. *)
Theorem hash_matches_shipped (H : bytes -> bytes) (dflt : bytes) cm usemap native ops a t :
  sound12 native ops -> run_build native ops a = Ok t ->
  let s := ship H dflt cm usemap (t_state t) in
  b_hash s =
    if isnil (t_rdms t) && isnil (t_datums t) then None
    else Some (H (integrity_preimage (field5 s) (field4 s) (language_views cm (langs_used native ops)))).
Proof.
  intros Hs Hb. destruct (run_build_facts _ _ _ _ Hs Hb) as [Hset [Nd [F [Nr [Erd Edt]]]]].
  cbn zeta. unfold ship, field5, field4, integrity_preimage. cbn [b_hash w_rdm w_dat].
  rewrite Erd, Edt in *. set (rl := redeemer_list (t_state t)) in *. set (ds := map snd (b_datums (t_state t))).
  destruct (isnil rl) eqn:Ern.
  - (* no redeemers *)
    rewrite andb_true_r. cbn [andb]. destruct (isnil ds) eqn:Eds; [reflexivity|].
    unfold sdh_util. rewrite Ern, Eds.
    assert (rl = []) as -> by (destruct rl; [reflexivity | discriminate]).
    rewrite redeemers_bytes_nil. rewrite (no_rdm_no_langs _ _ Hs (eq_sym Nr)). reflexivity.
  - rewrite andb_false_r. cbn [andb]. unfold sdh_util. rewrite Ern.
    destruct (rdm_some_lang _ _ Hs (eq_sym Nr)) as [l Hl]. apply Hset in Hl.
    assert (Ek : isnil (cm_keys (t_state t)) = false) by (destruct (cm_keys (t_state t)); [contradiction | reflexivity]).
    rewrite Ek. destruct (views_canonical cm _ _ F Nd Hset) as [-> _]. destruct (isnil ds); reflexivity.
Qed.

(* (c) the hash is absent precisely when neither redeemers nor datums are shipped *)
Theorem hash_absent_iff (H : bytes -> bytes) (dflt : bytes) cm usemap st :
  let s := ship H dflt cm usemap st in
  b_hash s = None <-> (w_rdm s = None /\ w_dat s = None).
Proof.
  cbn zeta. unfold ship. cbn [b_hash w_rdm w_dat].
  destruct (isnil (redeemer_list st)), (isnil (map snd (b_datums st))); cbn; split;
    try (intros [? ?]); try intros ?; try discriminate; auto.
Qed.

(* what is shipped: the redeemers in the requested form, the datums in _datums order; nothing when empty *)
Theorem shipped_entries (H : bytes -> bytes) (dflt : bytes) cm usemap native ops a t :
  run_build native ops a = Ok t ->
  let s := ship H dflt cm usemap (t_state t) in
  w_rdm s = (if isnil (t_rdms t) then None else Some (redeemers_bytes usemap (t_rdms t)))
  /\ w_dat s = (if isnil (t_datums t) then None else Some (datums_bytes (t_datums t))).
Proof.
  intros Hb. unfold run_build in Hb. destruct (run native ops) as [st0|]; cbn [bind] in Hb; [|discriminate].
  destruct (build_frame _ _ _ Hb) as [_ [_ [-> ->]]]. split; reflexivity.
Qed.

(* list form and map form are what they say: a list is an array of 4-arrays, a map has one entry per distinct (tag, index) *)
Lemma redeemers_bytes_list rl : rl <> [] ->
  redeemers_bytes false rl = head 4 (lenN rl) ++ concat (map rfull rl).
Proof. destruct rl; [congruence | reflexivity]. Qed.
Lemma redeemers_bytes_map rl :
  redeemers_bytes true rl = head 5 (lenN (rmap rl)) ++ concat (map (fun kv => enc (fst kv) ++ snd kv) (rmap rl)).
Proof. reflexivity. Qed.

(* ----- execution units: when the builder estimates, every shipped (and hashed) redeemer carries the evaluated units ----- *)
Lemma upd_units_val a r r' : upd_units a r = Ok r' ->
  r_units r' = lookupN (r_id r) (a_units a) /\ r_id r' = r_id r /\ r_data r' = r_data r.
Proof.
  unfold upd_units. destruct (lookupN (r_id r) (a_units a)) as [u|]; intros H; inversion H; subst. cbn. auto.
Qed.
Lemma upd_pairs_val a l l' : mapM (upd_pair a) l = Ok l' ->
  forall r', In r' (somes (map snd l')) -> r_units r' = lookupN (r_id r') (a_units a) /\ r_units r' <> None.
Proof.
  intros H r' Hr. apply In_pairs_somes in Hr. destruct Hr as [s Hr].
  destruct (mapM_In _ _ _ H _ Hr) as [[s1 o1] [_ Hf]]. unfold upd_pair in Hf. cbn [snd fst] in Hf.
  destruct o1 as [r1|]; [|inversion Hf].
  destruct (upd_units a r1) as [r2|] eqn:E; cbn in Hf; [|discriminate]. inversion Hf; subst.
  unfold upd_units in E. destruct (lookupN (r_id r1) (a_units a)) as [u|] eqn:El; inversion E; subst. cbn.
  rewrite El. split; [reflexivity | discriminate].
Qed.
Theorem units_replaced native ops a t st0 :
  run native ops = Ok st0 -> build st0 a = Ok t -> b_est st0 = Some true ->
  forall r, In r (t_rdms t) -> exists u, r_units r = Some u /\ lookupN (r_id r) (a_units a) = Some u.
Proof.
  intros _ Hb He r Hr. destruct (build_inv _ _ _ Hb) as [st1 [st2 [E1 [E2 ->]]]]. cbn [t_rdms] in Hr.
  assert (He1 : b_est st1 = Some true).
  { unfold set_redeemer_index in E1.
    destruct (index_pairs s_hash _ (b_mint st0)); cbn [bind] in E1; [|discriminate].
    destruct (index_pairs _ _ (b_wdrl st0)); cbn [bind] in E1; [|discriminate].
    inversion E1; subst. exact He. }
  unfold update_units in E2. rewrite He1 in E2.
  destruct (mapM _ (b_in_rdm st1)) as [in_rdm|] eqn:M1; cbn [bind] in E2; [|discriminate].
  destruct (mapM (upd_pair a) (b_mint st1)) as [mint|] eqn:M2; cbn [bind] in E2; [|discriminate].
  destruct (mapM (upd_pair a) (b_wdrl st1)) as [wdrl|] eqn:M3; cbn [bind] in E2; [|discriminate].
  destruct (mapM (upd_pair a) (b_cert st1)) as [cert|] eqn:M4; cbn [bind] in E2; [|discriminate].
  inversion E2; subst; clear E2. unfold redeemer_list in Hr. cbn [b_in_rdm b_mint b_wdrl b_cert] in Hr.
  assert (G : r_units r = lookupN (r_id r) (a_units a) /\ r_units r <> None).
  { rewrite !in_app_iff in Hr. destruct Hr as [Hr|[Hr|[Hr|Hr]]].
    - apply in_map_iff in Hr. destruct Hr as [[u r'] [<- Hr]]. cbn [snd].
      destruct (mapM_In _ _ _ M1 _ Hr) as [[u1 r1] [_ Hf]]. cbn [snd fst] in Hf.
      destruct (upd_units a r1) as [r2|] eqn:E; cbn in Hf; [|discriminate]. inversion Hf; subst.
      unfold upd_units in E. destruct (lookupN (r_id r1) (a_units a)) as [uu|] eqn:El; inversion E; subst. cbn.
      rewrite El. split; [reflexivity | discriminate].
    - exact (upd_pairs_val a _ _ M2 _ Hr).
    - exact (upd_pairs_val a _ _ M3 _ Hr).
    - exact (upd_pairs_val a _ _ M4 _ Hr). }
  destruct G as [G1 G2]. destruct (r_units r) as [u|]; [|congruence]. exists u. auto.
Qed.

(* ====================== Part D: decidable premise, examples ====================== *)
Lemma hash_injb_sound l : hash_injb l = true -> hash_inj l.
Proof.
  induction l as [|s r IH]; cbn; intros H; [intros ? ? []|].
  apply andb_true_iff in H. destruct H as [H1 H2]. rewrite forallb_forall in H1. specialize (IH H2).
  assert (K : forall x, In x r -> s_hash s = s_hash x -> s = x).
  { intros x Hx E. specialize (H1 _ Hx). apply orb_true_iff in H1. destruct H1 as [H1|H1].
    - apply negb_true_iff, bytes_eqb_neq in H1. contradiction.
    - now apply script_eqb_eq. }
  intros a b [<-|Ha] [<-|Hb] E; [reflexivity | now apply K | symmetry; apply K; auto | now apply IH].
Qed.
Lemma sound12b_sound native ops : sound12b native ops = true -> sound12 native ops.
Proof.
  unfold sound12b, sound12. rewrite !andb_true_iff. intros [[H1 H2] H3].
  split; [exact H1 | split; [exact H2 | now apply hash_injb_sound]].
Qed.

Module Ex12.
  Import Ex.
  (* a PlutusV1 script locking an input with a datum by hash, a PlutusV2 minting policy, a native script;
     the builder meets V1 first, then V2; execution units are estimated *)
  Definition sA := mkScript LV1 (b28 xa1).
  Definition sB := mkScript LV2 (b28 xb2).
  Definition sN := mkScript LNative (b28 x0e).
  Definition dA := mkDatum (b32 x0d) [xd8; x79; x80].
  Definition uA := mkUtxo (b32 x90, 0) true (b28 xa1) (OHash (b32 x0d)) None.
  Definition ops12 : list bop :=
    [AddScriptInput uA (SrcScript sA) (Some dA) (Some (rd 1)); AddMintingScript (SrcScript sB) (Some (rd 2))].
  Definition args12 : bargs :=
    mkArgs [b28 xb2] [] 0 [bank] [(1, (10, 20)); (2, (11, 21))] true 2000%Z None None None None.
  Definition cm12 : costmodels :=
    [(1, ByName [("b"%string, 7%Z); ("a"%string, 5%Z)]); (2, ByName [("z"%string, 1%Z); ("y"%string, 2%Z)])].
  (* datums only: an extra datum and a native script, no redeemer *)
  Definition opsD : list bop := [AddInput k1; AddOutputDatum dA].
End Ex12.

(* the premise and the success of the build are satisfiable with a V1 + V2 mix; map form and list form differ in
   the shipped bytes and therefore in the preimage; the units in the shipped redeemers are the evaluated ones;
   the language views are 1 |-> [1, 2] (given order) then h'00' |-> bytes of [5, 7] (ordered by name) *)
Example example_v1_v2 (H : bytes -> bytes) (dflt : bytes) :
  sound12 [Ex12.sN] Ex12.ops12 /\
  exists t, run_build [Ex12.sN] Ex12.ops12 Ex12.args12 = Ok t
    /\ map r_units (t_rdms t) = [Some (10, 20); Some (11, 21)]
    /\ langs_used [Ex12.sN] Ex12.ops12 = [0; 1]
    /\ enc (language_views Ex12.cm12 (langs_used [Ex12.sN] Ex12.ops12)) = hx "a2018201024100449f0507ff"
    /\ w_rdm (ship H dflt Ex12.cm12 true (t_state t)) = Some (hx "a28200018201820a148201008202820b15")
    /\ w_rdm (ship H dflt Ex12.cm12 false (t_state t)) = Some (hx "82" ++ hx "84000101820a14" ++ hx "84010002820b15")
    /\ w_dat (ship H dflt Ex12.cm12 true (t_state t)) = Some (hx "81d87980")
    /\ b_hash (ship H dflt Ex12.cm12 true (t_state t))
       = Some (H (hx "a28200018201820a148201008202820b15" ++ hx "81d87980" ++ hx "a2018201024100449f0507ff"))
    /\ b_hash (ship H dflt Ex12.cm12 false (t_state t))
       = Some (H (hx "8284000101820a1484010002820b15" ++ hx "81d87980" ++ hx "a2018201024100449f0507ff")).
Proof.
  split; [apply sound12b_sound; vm_compute; reflexivity|].
  eexists. split; [vm_compute; reflexivity|]. repeat split; vm_compute; reflexivity.
Qed.

(* datums only (no redeemer, no Plutus script): the empty map stands for the redeemers and for the language views *)
Example example_datums_only (H : bytes -> bytes) (dflt : bytes) :
  sound12 [Ex12.sN] Ex12.opsD /\
  exists t, run_build [Ex12.sN] Ex12.opsD Ex12.args12 = Ok t
    /\ w_rdm (ship H dflt Ex12.cm12 false (t_state t)) = None
    /\ b_hash (ship H dflt Ex12.cm12 false (t_state t)) = Some (H (hx "a0" ++ hx "81d87980" ++ hx "a0")).
Proof.
  split; [apply sound12b_sound; vm_compute; reflexivity|].
  eexists. split; [vm_compute; reflexivity|]. repeat split; vm_compute; reflexivity.
Qed.

(* neither redeemers nor datums: no hash *)
Example example_absent (H : bytes -> bytes) (dflt : bytes) :
  exists t, run_build [Ex12.sN] [AddInput Ex.k1] Ex12.args12 = Ok t
    /\ b_hash (ship H dflt Ex12.cm12 true (t_state t)) = None.
Proof. eexists. split; [vm_compute; reflexivity|]. vm_compute. reflexivity. Qed.

(* outside the premise the statement fails, so the premise is not decoration: a Plutus script handed over WITHOUT
   a redeemer next to a datum — the builder hashes the empty language views although a Plutus version is in use *)
Example premise_needed (H : bytes -> bytes) (dflt : bytes) :
  let ops := [AddMintingScript (SrcScript Ex12.sB) None; AddOutputDatum Ex12.dA] in
  sound12b [] ops = false /\
  exists t, run_build [] ops Ex12.args12 = Ok t
    /\ b_hash (ship H dflt Ex12.cm12 true (t_state t)) = Some (H (hx "a0" ++ hx "81d87980" ++ hx "a0"))
    /\ enc (language_views Ex12.cm12 (langs_used [] ops)) = hx "a101820102".
Proof.
  cbn zeta. split; [vm_compute; reflexivity|].
  eexists. split; [vm_compute; reflexivity|]. split; vm_compute; reflexivity.
Qed.
