(* LedgerOracle.v — C02 glue for the cases files and the per-run obligations (decidable forms). *)
From Coq Require Import NArith ZArith Ascii String List Bool.
From PyC Require Import Base Cbor Value Codec Ledger LedgerModel LedgerTables LedgerProofs.
Import ListNotations.
Open Scope string_scope.

(* model bytes = implementation bytes *)
Definition res_is (r : res cbor) (bs : bytes) : bool := match r with Ok p => bytes_eqb (enc p) bs | _ => false end.
(* the property's decision procedure: reference bytes = implementation bytes *)
Definition ref_is (p : cbor) (bs : bytes) : bool := bytes_eqb (enc p) bs.

Definition pair_in (nd : string * string) (l : list (string * string)) : bool :=
  existsb (fun x => String.eqb (fst x) (fst nd) && String.eqb (snd x) (snd nd)) l.
Definition fingerprints_ok (today : list (string * string)) : bool :=
  forallb (fun nd => pair_in nd today) known_enc_fingerprints.
(* names of recorded fingerprints that differ today (for the report) *)
Definition fingerprints_diff (today : list (string * string)) : list string :=
  map fst (filter (fun nd => negb (pair_in nd today)) known_enc_fingerprints).

Lemma agree_intro S : Forall (fun c => lookup S c = lookup expected c) names -> agree S.
Proof. exact (fun H => H). Qed.
