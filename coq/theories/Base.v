(* Base.v — bytes, hex literals, big-endian naturals, small list helpers.
   Style: stdlib + lia.  No axioms. *)
From Coq Require Import NArith ZArith Ascii String List Bool Lia.
From Coq Require Import Init.Byte Strings.Byte.
Import ListNotations.
Open Scope N_scope.

Definition bytes := list byte.

Definition b2n (b : byte) : N := Byte.to_N b.
Definition n2b (n : N) : byte :=
  match Byte.of_N (n mod 256) with Some b => b | None => x00 end.

Lemma b2n_lt b : b2n b < 256.
Proof. unfold b2n. pose proof (Byte.to_N_bounded b). lia. Qed.

Lemma n2b_b2n b : n2b (b2n b) = b.
Proof.
  unfold n2b, b2n. rewrite N.mod_small by apply b2n_lt.
  now rewrite Byte.of_to_N.
Qed.

Lemma b2n_n2b n : b2n (n2b n) = n mod 256.
Proof.
  unfold n2b, b2n. destruct (Byte.of_N (n mod 256)) as [b|] eqn:E.
  - now apply Byte.to_of_N.
  - apply Byte.of_N_None_iff in E. pose proof (N.mod_upper_bound n 256). lia.
Qed.

Lemma b2n_inj a b : b2n a = b2n b -> a = b.
Proof. intros H. rewrite <- (n2b_b2n a), <- (n2b_b2n b). now rewrite H. Qed.

(* ---------- equality / order on bytes ---------- *)
Definition byte_eqb (a b : byte) : bool := N.eqb (b2n a) (b2n b).
Lemma byte_eqb_eq a b : byte_eqb a b = true <-> a = b.
Proof.
  unfold byte_eqb. rewrite N.eqb_eq. split; [apply b2n_inj | now intros ->].
Qed.

Fixpoint bytes_eqb (a b : bytes) : bool :=
  match a, b with
  | [], [] => true
  | x :: a', y :: b' => byte_eqb x y && bytes_eqb a' b'
  | _, _ => false
  end.
Lemma bytes_eqb_eq a : forall b, bytes_eqb a b = true <-> a = b.
Proof.
  induction a as [|x a IH]; intros [|y b]; cbn; split; intros H; try easy.
  - apply andb_true_iff in H as [H1 H2]. apply byte_eqb_eq in H1. apply IH in H2. now subst.
  - inversion H; subst. apply andb_true_iff. split; [now apply byte_eqb_eq | now apply IH].
Qed.
Lemma bytes_eqb_refl a : bytes_eqb a a = true.
Proof. now apply bytes_eqb_eq. Qed.
Lemma bytes_eqb_neq a b : bytes_eqb a b = false <-> a <> b.
Proof.
  split; intros H.
  - intros E. apply bytes_eqb_eq in E. congruence.
  - destruct (bytes_eqb a b) eqn:E; [apply bytes_eqb_eq in E; contradiction | reflexivity].
Qed.
Lemma bytes_eq_dec (a b : bytes) : {a = b} + {a <> b}.
Proof.
  destruct (bytes_eqb a b) eqn:E; [left; now apply bytes_eqb_eq | right; now apply bytes_eqb_neq].
Qed.

(* lexicographic (bytewise) strict order, as Python compares bytes *)
Fixpoint bytes_ltb (a b : bytes) : bool :=
  match a, b with
  | [], [] => false
  | [], _ :: _ => true
  | _ :: _, [] => false
  | x :: a', y :: b' =>
      if b2n x <? b2n y then true
      else if b2n y <? b2n x then false
      else bytes_ltb a' b'
  end.

Lemma bytes_ltb_irrefl a : bytes_ltb a a = false.
Proof. induction a as [|x a IH]; cbn; [easy|]. rewrite N.ltb_irrefl. exact IH. Qed.

Lemma bytes_ltb_trans a : forall b c, bytes_ltb a b = true -> bytes_ltb b c = true -> bytes_ltb a c = true.
Proof.
  induction a as [|x a IH]; intros [|y b] [|z c]; cbn; try easy.
  destruct (b2n x <? b2n y) eqn:E1, (b2n y <? b2n z) eqn:E2;
  destruct (b2n y <? b2n x) eqn:E3; destruct (b2n z <? b2n y) eqn:E4;
  destruct (b2n x <? b2n z) eqn:E5; destruct (b2n z <? b2n x) eqn:E6; try easy;
  rewrite ?N.ltb_lt, ?N.ltb_ge in *; try lia.
  apply IH.
Qed.

Lemma bytes_ltb_total a : forall b, a <> b -> bytes_ltb a b = true \/ bytes_ltb b a = true.
Proof.
  induction a as [|x a IH]; intros [|y b] H; cbn; auto; try congruence.
  destruct (b2n x <? b2n y) eqn:E1; auto.
  destruct (b2n y <? b2n x) eqn:E2; auto.
  rewrite N.ltb_ge in *. assert (x = y) by (apply b2n_inj; lia). subst.
  apply IH. congruence.
Qed.

Lemma bytes_ltb_asym a b : bytes_ltb a b = true -> bytes_ltb b a = false.
Proof.
  intros H. destruct (bytes_ltb b a) eqn:E; [|reflexivity].
  pose proof (bytes_ltb_trans _ _ _ H E) as T. now rewrite bytes_ltb_irrefl in T.
Qed.

(* ---------- hex literals: the harness writes bytes as (hx "00ff") ---------- *)
Definition hexval (c : ascii) : N :=
  let n := N_of_ascii c in
  if (48 <=? n) && (n <=? 57) then n - 48
  else if (97 <=? n) && (n <=? 102) then n - 87
  else if (65 <=? n) && (n <=? 70) then n - 55
  else 0.
Fixpoint hx (s : string) : bytes :=
  match s with
  | String a (String b r) => n2b (16 * hexval a + hexval b) :: hx r
  | _ => []
  end.
Definition hexdig (n : N) : ascii :=
  ascii_of_N (if n <? 10 then 48 + n else 87 + n).
Fixpoint tohex (b : bytes) : string :=
  match b with
  | [] => EmptyString
  | x :: r => String (hexdig (b2n x / 16)) (String (hexdig (b2n x mod 16)) (tohex r))
  end.

(* ---------- big-endian naturals ---------- *)
(* be k n : the k low-order bytes of n, most significant first *)
Fixpoint be (k : nat) (n : N) : bytes :=
  match k with
  | O => []
  | S k' => be k' (n / 256) ++ [n2b n]
  end.
Definition unbe (b : bytes) : N := fold_left (fun acc x => acc * 256 + b2n x) b 0.

Lemma be_length k : forall n, length (be k n) = k.
Proof. induction k as [|k IH]; intros n; cbn; [easy|]. rewrite app_length, IH. cbn. lia. Qed.

Lemma unbe_app a b : unbe (a ++ b) = fold_left (fun acc x => acc * 256 + b2n x) b (unbe a).
Proof. unfold unbe. now rewrite fold_left_app. Qed.

Lemma unbe_be k : forall n, n < 256 ^ N.of_nat k -> unbe (be k n) = n.
Proof.
  induction k as [|k IH]; intros n H.
  - cbn in *. lia.
  - cbn [be]. rewrite unbe_app. cbn. rewrite b2n_n2b.
    rewrite IH.
    + pose proof (N.div_mod n 256). lia.
    + rewrite Nnat.Nat2N.inj_succ, N.pow_succ_r' in H.
      apply N.div_lt_upper_bound; lia.
Qed.

(* minimal big-endian representation (no leading zero byte); 0 -> [] *)
Fixpoint be_min_fuel (f : nat) (n : N) : bytes :=
  match f with
  | O => []
  | S f' => if n =? 0 then [] else be_min_fuel f' (n / 256) ++ [n2b n]
  end.
Definition be_min (n : N) : bytes := be_min_fuel (S (N.to_nat (N.log2 n))) n.

(* ---------- list helpers ---------- *)
Fixpoint lenN {A} (l : list A) : N := match l with [] => 0 | _ :: r => 1 + lenN r end.
Lemma lenN_length {A} (l : list A) : lenN l = N.of_nat (length l).
Proof. induction l as [|x l IH]; [easy|]. cbn [lenN length]. rewrite IH. lia. Qed.

Fixpoint chunks_fuel (f : nat) (k : nat) (b : bytes) : list bytes :=
  match f with
  | O => []
  | S f' => match b with [] => [] | _ => firstn k b :: chunks_fuel f' k (skipn k b) end
  end.
Definition chunks (k : nat) (b : bytes) : list bytes := chunks_fuel (S (length b)) k b.

Definition Zsum (l : list Z) : Z := fold_right Z.add 0%Z l.
Definition Nsum (l : list N) : N := fold_right N.add 0 l.
