(* RedeemersOracle.v — C11 glue for the cases files:
   (1) a reader of the implementation's transaction bytes (Cbor.decode + field extraction),
   (2) corr: the model (Redeemers.run_build) against what was read,
   (3) the property's decision procedure, written from the ledger rule and from "what was attached
       to what" (Redeemers.attached / needed / supplied), evaluated on what was read. *)
From Coq Require Import NArith ZArith Ascii String List Bool Lia.
From Coq Require Import Init.Byte.
From PyC Require Import Base Cbor Redeemers.
Import ListNotations.
Open Scope N_scope.

(* ---------- compact hex literals for the cases files: (hxl "00ff") ----------
   A string literal of type hexlit elaborates to one constructor per character (Base.hx goes through
   Ascii: nine), which makes the large transaction literals three times cheaper to type-check. *)
Inductive hexlit := HL (l : list byte).
Definition hl_parse (l : list byte) : hexlit := HL l.
Definition hl_print (h : hexlit) : list byte := match h with HL l => l end.
Declare Scope hl_scope.
Delimit Scope hl_scope with hl.
Bind Scope hl_scope with hexlit.
String Notation hexlit hl_parse hl_print : hl_scope.
Definition hexv (b : byte) : N :=
  let n := b2n b in
  if (48 <=? n) && (n <=? 57) then n - 48 else if (97 <=? n) && (n <=? 102) then n - 87 else 0.
Fixpoint hxl_ (l : list byte) : bytes :=
  match l with a :: b :: r => n2b (16 * hexv a + hexv b) :: hxl_ r | _ => [] end.
Definition hxl (h : hexlit) : bytes := hxl_ (hl_print h).

(* ---------- reading a transaction ---------- *)
Definition mfind (k : N) (kvs : list (cbor * cbor)) : option cbor :=
  match find (fun kv => match fst kv with CU n => n =? k | _ => false end) kvs with
  | Some kv => Some (snd kv) | None => None end.
(* sets are written either as tag 258 around an array or as a plain array *)
Definition as_list (x : cbor) : option (list cbor) :=
  match x with
  | CTag 258 (CA xs) => Some xs
  | CA xs => Some xs
  | CAi xs => Some xs
  | _ => None
  end.
Fixpoint all_some {A} (l : list (option A)) : option (list A) :=
  match l with
  | [] => Some []
  | Some x :: r => match all_some r with Some xs => Some (x :: xs) | None => None end
  | None :: _ => None
  end.
Definition rd_txin (x : cbor) : option txin :=
  match x with CA [CB i; CU n] => Some (i, n) | _ => None end.
Definition rd_txins (o : option cbor) : option (list txin) :=
  match o with
  | None => Some []
  | Some x => match as_list x with Some xs => all_some (map rd_txin xs) | None => None end
  end.
Definition rd_bkeys (o : option cbor) : option (list bytes) :=
  match o with
  | None => Some []
  | Some (CM kvs) => all_some (map (fun kv => match fst kv with CB b => Some b | _ => None end) kvs)
  | _ => None
  end.
Definition rd_encs (o : option cbor) : option (list bytes) :=
  match o with
  | None => Some []
  | Some x => match as_list x with Some xs => Some (map enc xs) | None => None end
  end.
Definition rd_bstrs (o : option cbor) : option (list bytes) :=
  match o with
  | None => Some []
  | Some x => match as_list x with
              | Some xs => all_some (map (fun y => match y with CB b => Some b | _ => None end) xs)
              | None => None end
  end.
Definition rd_slot (o : option cbor) : option (option Z) :=
  match o with
  | None => Some None
  | Some (CU n) => Some (Some (Z.of_N n))
  | _ => None
  end.

(* one redeemer as shipped: tag, index, bytes of the data item, units *)
Definition wrdm := (N * nat * bytes * (N * N))%type.
Definition rd_rdms (o : option cbor) : option (bool * list wrdm) :=
  match o with
  | None => Some (true, [])
  | Some (CM kvs) =>
      match all_some (map (fun kv =>
               match kv with
               | (CA [CU t; CU i], CA [d; CA [CU m; CU s]]) => Some (t, N.to_nat i, enc d, (m, s))
               | _ => None end) kvs) with
      | Some l => Some (true, l) | None => None end
  | Some (CA xs) =>
      match all_some (map (fun x =>
               match x with
               | CA [CU t; CU i; d; CA [CU m; CU s]] => Some (t, N.to_nat i, enc d, (m, s))
               | _ => None end) xs) with
      | Some l => Some (false, l) | None => None end
  | _ => None
  end.

Record obs := mkObs {
  o_inputs : list txin; o_refin : list txin; o_mint : list bytes; o_wdrl : list bytes; o_certs : list bytes;
  o_vstart : option Z; o_ttl : option Z; o_hash : option bytes;
  o_rmap : bool; o_rdms : list wrdm;
  o_native : list bytes; o_v1 : list bytes; o_v2 : list bytes; o_v3 : list bytes;
  o_datums : list bytes
}.

Definition rd_wits (wkv : list (cbor * cbor)) :=
  (rd_rdms (mfind 5 wkv), rd_encs (mfind 1 wkv), rd_bstrs (mfind 3 wkv), rd_bstrs (mfind 6 wkv),
   rd_bstrs (mfind 7 wkv), rd_encs (mfind 4 wkv)).

Definition observe (tx : bytes) : option obs :=
  match decode tx with
  | Some (CA (CM bkv :: CM wkv :: _)) =>
      match rd_txins (mfind 0 bkv), rd_txins (mfind 18 bkv), rd_bkeys (mfind 9 bkv), rd_bkeys (mfind 5 bkv),
            rd_encs (mfind 4 bkv), rd_slot (mfind 8 bkv), rd_slot (mfind 3 bkv), rd_wits wkv with
      | Some ins, Some refs, Some mint, Some wdrl, Some certs, Some vs, Some ttl,
        (Some (rm, rdms), Some nat_, Some v1, Some v2, Some v3, Some dats) =>
          Some (mkObs ins refs mint wdrl certs vs ttl
                      (match mfind 11 bkv with Some (CB h) => Some h | _ => None end)
                      rm rdms nat_ v1 v2 v3 dats)
      | _, _, _, _, _, _, _, _ => None
      end
  | _ => None
  end.
(* a bare witness set (build_witness_set(False).to_cbor()) *)
Definition observe_wits (w : bytes) : option (list bytes * list bytes * list bytes * list bytes) :=
  match decode w with
  | Some (CM wkv) =>
      match rd_wits wkv with
      | (_, Some n, Some v1, Some v2, Some v3, _) => Some (n, v1, v2, v3)
      | _ => None
      end
  | _ => None
  end.

(* ---------- a case ---------- *)
Record case := mkCase {
  c_native : list script;
  c_ops : list bop;
  c_args : bargs;                       (* a_extra is filled in from the transaction *)
  c_pool : list utxo;                   (* every UTxO of the scenario, to resolve inputs the builder selected *)
  c_stab : list (bytes * script)        (* witness-set form of each script (Plutus: the bytes; native: its CBOR) *)
}.
(* what the implementation did *)
Inductive implres :=
| IErrOp (i : nat) (e : err)            (* add_* call number i raised *)
| IErrBuild (e : err)                   (* build raised one of the errors of the slice *)
| IOutside                              (* build raised something the slice does not model (balance, collateral, ...) *)
| IOutsideEarly                         (* build() gave up during input selection ("All UTxO selectors failed"), i.e. BEFORE
                                           _set_redeemer_index / _update_execution_units ran: an error of the slice that the
                                           model reports for these calls was never reached *)
| IDone (tx : bytes) (wits_nodup : bytes) (rl : list (N * N * nat * (N * N))).  (* rid, tag, index, units *)

Definition err_eqb (a b : err) : bool :=
  match a, b with
  | EInvalidArg, EInvalidArg | EAssert, EAssert | EValue, EValue | EBuilder, EBuilder => true
  | _, _ => false
  end.

Fixpoint run_idx (st : bstate) (ops : list bop) (i : nat) : bstate + (nat * err) :=
  match ops with
  | [] => inl st
  | op :: r => match bstep st op with Ok st' => run_idx st' r (S i) | Err e => inr (i, e) end
  end.

Definition resolve (pool : list utxo) (i : txin) : option utxo := find (fun u => txin_eqb (u_in u) i) pool.
Definition resolve_all (pool : list utxo) (l : list txin) : list utxo :=
  flat_map (fun i => match resolve pool i with Some u => [u] | None => [] end) l.

Definition with_extra (a : bargs) (extra : list utxo) (rd : bool) : bargs :=
  mkArgs (a_mint a) (a_wdrl a) (a_net a) extra (a_units a) rd (a_last a) (a_vstart a) (a_ttl a) (a_offs a) (a_offt a).

Fixpoint list_eqb {A B} (eqb : A -> B -> bool) (a : list A) (b : list B) : bool :=
  match a, b with
  | [], [] => true
  | x :: a', y :: b' => eqb x y && list_eqb eqb a' b'
  | _, _ => false
  end.
Definition optZ_eqb (a b : option Z) : bool :=
  match a, b with Some x, Some y => Z.eqb x y | None, None => true | _, _ => false end.
Definition units_eqb (a b : N * N) : bool := (fst a =? fst b) && (snd a =? snd b).
Definition wrdm_eqb (a b : wrdm) : bool :=
  let '(t, i, d, u) := a in let '(t', i', d', u') := b in
  (t =? t') && Nat.eqb i i' && bytes_eqb d d' && units_eqb u u'.

Definition wrdm_of (r : rdm) : wrdm :=
  (match r_tag r with Some t => t | None => 99 end, r_index r, r_data r,
   match r_units r with Some u => u | None => (0, 0) end).
Definition subset {A} (eqb : A -> A -> bool) (a b : list A) : bool := forallb (fun x => mem eqb x b) a.

(* witness form -> script, through the scenario's table.  The ledger reads a witness entry under the language of the
   bucket it sits in, so the lookup is by (language of the bucket, bytes): the same program bytes under two Plutus
   versions (or equal to the CBOR of a native script) are different scripts with different hashes. *)
Definition script_of (tab : list (bytes * script)) (l : lang) (w : bytes) : option script :=
  match find (fun e => bytes_eqb (fst e) w && lang_eqb (s_lang (snd e)) l) tab with
  | Some e => Some (snd e) | None => None end.
Definition hashes_of (tab : list (bytes * script)) (l : lang) (ws : list bytes) : option (list bytes) :=
  all_some (map (fun w => option_map s_hash (script_of tab l w)) ws).
Definition obytes_eqb (a : option (list bytes)) (b : list bytes) : bool :=
  match a with Some l => list_eqb bytes_eqb l b | None => false end.

Definition buckets_match (tab : list (bytes * script)) (t : built) (n v1 v2 v3 : list bytes) : bool :=
  obytes_eqb (hashes_of tab LNative n) (map s_hash (t_native t)) && obytes_eqb (hashes_of tab LV1 v1) (map s_hash (t_v1 t))
  && obytes_eqb (hashes_of tab LV2 v2) (map s_hash (t_v2 t)) && obytes_eqb (hashes_of tab LV3 v3) (map s_hash (t_v3 t)).

(* model = implementation ? *)
Definition corr (c : case) (r : implres) : bool :=
  match run_idx (init_state (c_native c)) (c_ops c) O, r with
  | inr (i, e), IErrOp i' e' => Nat.eqb i i' && err_eqb e e'
  | inr _, _ => false
  | inl _, IErrOp _ _ => false
  | inl st, IErrBuild e' =>
      match build st (with_extra (c_args c) [] true) with Err e => err_eqb e e' | Ok _ => false end
  | inl st, IOutside =>
      match build st (with_extra (c_args c) [] true) with Err _ => false | Ok _ => true end
  | inl st, IOutsideEarly => true
  | inl st, IDone tx wnd rl =>
      match observe tx, observe_wits wnd with
      | Some o, Some (n0, v10, v20, v30) =>
          let pre := dedup utxo_eqb (b_inputs st) in
          let extra := filter (fun u => negb (mem utxo_eqb u pre)) (resolve_all (c_pool c) (o_inputs o)) in
          match build st (with_extra (c_args c) extra true), build st (with_extra (c_args c) extra false) with
          | Ok t, Ok t0 =>
              list_eqb txin_eqb (t_inputs t) (o_inputs o)
              && list_eqb txin_eqb (isort txin_ltb (body_refin t (c_ops c))) (isort txin_ltb (o_refin o))
              && list_eqb bytes_eqb (isort bytes_ltb (t_mint t)) (isort bytes_ltb (o_mint o))
              && list_eqb bytes_eqb (isort bytes_ltb (t_wdrl t)) (isort bytes_ltb (o_wdrl o))
              && list_eqb bytes_eqb (t_certs t) (o_certs o)
              && optZ_eqb (t_vstart t) (o_vstart o) && optZ_eqb (t_ttl t) (o_ttl o)
              (* the builder's redeemer objects, in _redeemer_list order *)
              && list_eqb (fun (x : rdm) (y : N * N * nat * (N * N)) =>
                             let '(rid, tg, ix, u) := y in
                             (r_id x =? rid) && wrdm_eqb (wrdm_of x) (tg, ix, r_data x, u)) (t_rdms t) rl
              (* and as shipped *)
              && (if o_rmap o
                  then subset wrdm_eqb (o_rdms o) (map wrdm_of (t_rdms t)) &&
                       forallb (fun x => existsb (fun y => let '(t1, i1, _, _) := x in let '(t2, i2, _, _) := y in
                                                           (t1 =? t2) && Nat.eqb i1 i2) (o_rdms o)) (map wrdm_of (t_rdms t))
                  else list_eqb wrdm_eqb (o_rdms o) (map wrdm_of (t_rdms t)))
              && buckets_match (c_stab c) t (o_native o) (o_v1 o) (o_v2 o) (o_v3 o)
              && buckets_match (c_stab c) t0 n0 v10 v20 v30
              && list_eqb bytes_eqb (o_datums o) (map d_cbor (t_datums t))
          | _, _ => false
          end
      | _, _ => false
      end
  end.

(* ---------- the property's decision procedure on what was shipped ---------- *)
Definition nth_is {A} (eqb : A -> A -> bool) (l : list A) (i : nat) (x : A) : bool :=
  match nth_error l i with Some y => eqb y x | None => false end.

(* ledger pointer rule; None = the rule is not settled for this transaction (reward accounts of both kinds) *)
Definition designates_b (o : obs) (net : N) (tag : N) (idx : nat) (it : item) : option bool :=
  match it with
  | ISpend i => Some ((tag =? TAG_SPEND) && nth_is txin_eqb (isort txin_ltb (o_inputs o)) idx i
                      && Nat.eqb (rank txin_ltb i (o_inputs o)) idx)
  | IMint p => Some ((tag =? TAG_MINT) && nth_is bytes_eqb (isort bytes_ltb (o_mint o)) idx p
                     && Nat.eqb (rank bytes_ltb p (o_mint o)) idx)
  | IReward h =>
      if forallb is_script_acct (o_wdrl o)
      then Some ((tag =? TAG_REWARD) && nth_is bytes_eqb (isort acct_ltb (o_wdrl o)) idx (script_account net h))
      else None
  | ICert c => Some ((tag =? TAG_CERT) && nth_is bytes_eqb (o_certs o) idx c)
  end.

(* all redeemer objects handed over, with their data (to recognise them in the transaction) *)
Fixpoint op_rdms (ops : list bop) : list rdm :=
  match ops with
  | [] => []
  | AddScriptInput _ _ _ (Some r) :: rest | AddMintingScript _ (Some r) :: rest
  | AddWithdrawalScript _ (Some r) :: rest | AddCertificateScript _ (Some r) :: rest => r :: op_rdms rest
  | _ :: rest => op_rdms rest
  end.
Definition rid_of_data (ops : list bop) (d : bytes) : option N :=
  match find (fun r => bytes_eqb (r_data r) d) (op_rdms ops) with Some r => Some (r_id r) | None => None end.
Definition item_of (att : list (N * item)) (rid : N) : option item :=
  match find (fun e => fst e =? rid) att with Some e => Some (snd e) | None => None end.
(* redeemers expected in the transaction: for a UTxO registered twice only the last redeemer counts *)
Fixpoint expected_rids (ops : list bop) : list N :=
  match ops with
  | [] => []
  | AddScriptInput u _ _ (Some r) :: rest =>
      if existsb (fun op => match op with AddScriptInput u' _ _ (Some _) => utxo_eqb u' u | _ => false end) rest
      then expected_rids rest else r_id r :: expected_rids rest
  | AddMintingScript _ (Some r) :: rest | AddWithdrawalScript _ (Some r) :: rest
  | AddCertificateScript _ (Some r) :: rest => r_id r :: expected_rids rest
  | _ :: rest => expected_rids rest
  end.

(* verdict codes: 0 holds, 1 fails, 2 not settled *)
Definition oracle_pointers (c : case) (o : obs) : N :=
  let att := attached [] (c_ops c) in
  let each := map (fun w : wrdm =>
    let '(tg, ix, d, _) := w in
    match rid_of_data (c_ops c) d with
    | None => Some false
    | Some rid => match item_of att rid with
                  | None => Some false
                  | Some it => designates_b o (a_net (c_args c)) tg ix it
                  end
    end) (o_rdms o) in
  let shipped := flat_map (fun w : wrdm => match rid_of_data (c_ops c) (snd (fst w)) with Some r => [r] | None => [] end) (o_rdms o) in
  if existsb (fun v => match v with Some false => true | _ => false end) each then 1
  else if negb (forallb (fun rid => mem N.eqb rid shipped) (expected_rids (c_ops c))) then 1
  else if existsb (fun v => match v with None => true | _ => false end) each then 2
  else 0.

Definition count_b (h : bytes) (l : list bytes) : nat := length (filter (fun x => bytes_eqb x h) l).

Definition oracle_scripts (c : case) (o : obs) : N :=
  let look := fun (l : lang) (ws : list bytes) => map (fun w => (l, script_of (c_stab c) l w)) ws in
  let ws := look LNative (o_native o) ++ look LV1 (o_v1 o) ++ look LV2 (o_v2 o) ++ look LV3 (o_v3 o) in
  (* every shipped entry is a script of the scenario under the language of its bucket *)
  if negb (forallb (fun e => match snd e with Some s => lang_eqb (s_lang s) (fst e) | None => false end) ws) then 1
  else
    let whashes := flat_map (fun e => match snd e with Some s => [s_hash s] | None => [] end) ws in
    let by_ref := map s_hash (scripts_on (resolve_all (c_pool c) (o_refin o) ++ resolve_all (c_pool c) (o_inputs o))) in
    if forallb (fun h => Nat.eqb (count_b h whashes + (if mem bytes_eqb h by_ref then 1 else 0)) 1)
               (needed (c_ops c) ++ map s_hash (c_native c))
    then 0 else 1.

Definition oracle_datums (c : case) (o : obs) : N :=
  if forallb (fun ud => Nat.eqb (count_b (d_cbor (snd ud)) (o_datums o)) 1) (supplied (c_ops c)) then 0 else 1.

Open Scope Z_scope.
Definition oracle_validity (c : case) (o : obs) : N :=
  let a := c_args c in
  let smart := match needed (c_ops c) ++ map s_hash (c_native c) with [] => false | _ => true end in
  let given := fun (x : option Z) => match x with Some _ => true | None => false end in
  let lo_ok :=
    if given (a_vstart a) || negb (smart || given (a_offs a)) || negb (match a_offs a with Some x => x <=? 0 | None => true end)
       || (a_last a <? 0)
    then true
    else match o_vstart o with Some s => s <=? a_last a | None => false end in
  let hi_ok :=
    if given (a_ttl a) || negb (smart || given (a_offt a)) || negb (match a_offt a with Some x => 0 <=? x | None => true end)
       || (a_last a <? 0)
    then true
    else match o_ttl o with Some t => a_last a <=? t | None => false end in
  if lo_ok && hi_ok then 0%N else 1%N.
Close Scope Z_scope.

(* per clause: (pointers, scripts, datums, validity); only for transactions that were built *)
Definition oracle (c : case) (r : implres) : N * N * N * N :=
  match r with
  | IDone tx _ _ =>
      match observe tx with
      | Some o => (oracle_pointers c o, oracle_scripts c o, oracle_datums c o, oracle_validity c o)
      | None => (1, 1, 1, 1)
      end
  | _ => (0, 0, 0, 0)
  end.

Definition judge (c : case) (r : implres) : bool * (N * N * N * N) := (corr c r, oracle c r).
