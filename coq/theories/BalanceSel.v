(* BalanceSel.v — C06, the UTxO selection step of TransactionBuilder.build () (txbuilder.py:1428-1500):
   which UTxOs are OFFERED to the selectors (potential inputs and the UTxOs at the input addresses that are neither
   selected already nor excluded), what the selectors may answer (the contract of UTxOSelector.select as far as the
   balance of the built transaction depends on it: members of the offered pool, each at most once), and
   self.inputs after selection.  The selectors' choice itself (which covering subset) is the subject of C14 and
   enters here as data: the list of transaction inputs the implementation's selector returned.
   Model only — proofs live in BalanceSelProofs.v. *)
From Coq Require Import NArith ZArith List Bool.
From PyC Require Import Base Dict Value Balance.
Import ListNotations.

(* `utxo in <list or set of UTxO>`: UTxO.__eq__ (UTxO.__hash__ = hash of the input is consistent with it) *)
Definition umem (u : utxo) (l : list utxo) : bool := existsb (utxo_eqb u) l.

(* the two loops that fill additional_utxo_pool; seen = seen_utxos, pool = additional_utxo_pool *)
Fixpoint offer (excluded cands seen pool : list utxo) : list utxo :=
  match cands with
  | [] => pool
  | u :: r => if umem u seen || umem u excluded then offer excluded r seen pool
              else offer excluded r (seen ++ [u]) (pool ++ [u])
  end.

(* context.utxos (address): the UTxOs of the chain at that address, in the chain context's order *)
Definition utxos_at (umap : list utxo) (a : bytes) : list utxo := filter (fun u => bytes_eqb (u_addr u) a) umap.
(* the candidates in the order build () visits them: self.potential_inputs, then every input address in turn *)
Definition candidates (umap potential : list utxo) (addrs : list bytes) : list utxo :=
  potential ++ flat_map (utxos_at umap) addrs.
(* seen_utxos starts as the explicit inputs (each once) *)
Definition offered_pool (explicit excluded cands : list utxo) : list utxo :=
  offer excluded cands (dedup_utxos explicit) [].

(* ---- the selectors' answer, observed as the list of transaction inputs of the UTxOs returned ---- *)
Definition has_in (l : list utxo) (i : bytes * N) : bool := existsb (fun u => txin_eqb (u_in u) i) l.
Fixpoint nodup_in (l : list (bytes * N)) : bool :=
  match l with [] => true | x :: r => negb (existsb (txin_eqb x) r) && nodup_in r end.
(* contract: every returned UTxO is one of the pool, and none is returned twice *)
Definition selection_ok (pool : list utxo) (sel : list (bytes * N)) : bool :=
  nodup_in sel && forallb (has_in pool) sel.
Definition pick_by_in (pool : list utxo) (sel : list (bytes * N)) : list utxo :=
  flat_map (fun i => match find (fun u => txin_eqb (u_in u) i) pool with Some u => [u] | None => [] end) sel.

(* `for s in selected: selected_utxos.append (s)` — self.inputs after selection, before sorting *)
Definition inputs_after_selection (explicit pool : list utxo) (sel : list (bytes * N)) : list utxo :=
  dedup_utxos explicit ++ pick_by_in pool sel.
