(* AdaptersProofs.v — proofs for C20 (models and statements' vocabulary are in Adapters.v). *)
From Coq Require Import NArith ZArith Ascii String List Bool Lia Permutation DecimalString.
From Coq Require Import Init.Byte.
From PyC Require Import Base Cbor CborProofs Dict Value Json Adapters.
Import ListNotations.
Open Scope string_scope.
Open Scope list_scope.

(* ================================================================ generic *)
Lemma bind_ok {A B} (r : result A) (f : A -> result B) a : r = Ok a -> bind r f = f a.
Proof. now intros ->. Qed.

Lemma foldM_app {A S} (f : S -> A -> result S) l1 l2 s :
  foldM f (l1 ++ l2) s = bind (foldM f l1 s) (foldM f l2).
Proof.
  revert s. induction l1 as [|x r IH]; intros s; cbn; [reflexivity|].
  destruct (f s x); cbn; [apply IH | reflexivity].
Qed.

(* a monadic fold whose every step succeeds as a pure step is the pure fold *)
Lemma foldM_pure {A B S} (f : S -> A -> result S) (g : S -> B -> S) (h : B -> A) (P : B -> Prop) l :
  (forall s b, P b -> f s (h b) = Ok (g s b)) -> Forall P l ->
  forall s, foldM f (map h l) s = Ok (fold_left g l s).
Proof.
  intros Hs HP. induction HP as [|b r Hb Hr IH]; intros s; cbn; [reflexivity|].
  rewrite (Hs s b Hb). cbn. apply IH.
Qed.

Lemma mapM_Forall2 {A B C} (f : A -> result B) (g : C -> A) (R : C -> B -> Prop) l :
  Forall (fun c => exists b, f (g c) = Ok b /\ R c b) l ->
  exists bs, mapM f (map g l) = Ok bs /\ Forall2 R l bs.
Proof.
  induction 1 as [|c r (b & Hb & Rb) Hr (bs & Hbs & Rbs)]; cbn.
  - exists []. split; [reflexivity | constructor].
  - exists (b :: bs). rewrite Hb. cbn. rewrite Hbs. cbn. split; [reflexivity | now constructor].
Qed.

Lemma fold_left_flat_map {A B S} (f : S -> B -> S) (g : A -> list B) l :
  forall s, fold_left f (flat_map g l) s = fold_left (fun s a => fold_left f (g a) s) l s.
Proof.
  induction l as [|a r IH]; intros s; cbn; [reflexivity|]. now rewrite fold_left_app, IH.
Qed.

Lemma NoDup_app_intro {A} (l1 l2 : list A) :
  NoDup l1 -> NoDup l2 -> (forall x, In x l1 -> ~ In x l2) -> NoDup (l1 ++ l2).
Proof.
  induction 1 as [|x r Hx Hr IH]; intros H2 Hd; cbn; [assumption|].
  constructor.
  - intros Hin. apply in_app_or in Hin as [Hin|Hin]; [contradiction|]. apply (Hd x); [now left | assumption].
  - apply IH; [assumption|]. intros y Hy. apply Hd. now right.
Qed.

Lemma string_eqb_neq_length a b : String.length a <> String.length b -> String.eqb a b = false.
Proof.
  intros Hl. destruct (String.eqb a b) eqn:E; [|reflexivity]. apply String.eqb_eq in E. now subst.
Qed.

Lemma string_length_app a b : String.length (a ++ b)%string = (String.length a + String.length b)%nat.
Proof. induction a as [|c r IH]; cbn; [reflexivity|]. now rewrite IH. Qed.

(* ================================================================ nested inductions *)
Section NsInd.
  Variable P : nscript -> Prop.
  Hypothesis HSig : forall kh, P (NSig kh).
  Hypothesis HAll : forall l, Forall P l -> P (NAll l).
  Hypothesis HAny : forall l, Forall P l -> P (NAny l).
  Hypothesis HAtLeast : forall n l, Forall P l -> P (NAtLeast n l).
  Hypothesis HAfter : forall s, P (NAfter s).
  Hypothesis HBefore : forall s, P (NBefore s).
  Fixpoint nscript_ind' (s : nscript) : P s :=
    let go := fix go (l : list nscript) : Forall P l :=
      match l with [] => Forall_nil P | x :: r => Forall_cons x (nscript_ind' x) (go r) end in
    match s with
    | NSig kh => HSig kh
    | NAll l => HAll l (go l)
    | NAny l => HAny l (go l)
    | NAtLeast n l => HAtLeast n l (go l)
    | NAfter s => HAfter s
    | NBefore s => HBefore s
    end.
End NsInd.

Section PdInd.
  Variable P : pdata -> Prop.
  Hypothesis HC : forall c fs, Forall P fs -> P (PConstr c fs).
  Hypothesis HM : forall kvs, Forall (fun kv => P (fst kv) /\ P (snd kv)) kvs -> P (PMap kvs).
  Hypothesis HL : forall l, Forall P l -> P (PList l).
  Hypothesis HI : forall z, P (PInt z).
  Hypothesis HB : forall b, P (PBytes b).
  Fixpoint pdata_ind' (d : pdata) : P d :=
    let go := fix go (l : list pdata) : Forall P l :=
      match l with [] => Forall_nil P | x :: r => Forall_cons x (pdata_ind' x) (go r) end in
    match d with
    | PConstr c fs => HC c fs (go fs)
    | PMap kvs => HM kvs ((fix gop (l : list (pdata * pdata)) : Forall (fun kv => P (fst kv) /\ P (snd kv)) l :=
                             match l with
                             | [] => Forall_nil _
                             | kv :: r => Forall_cons kv (conj (pdata_ind' (fst kv)) (pdata_ind' (snd kv))) (gop r)
                             end) kvs)
    | PList l => HL l (go l)
    | PInt z => HI z
    | PBytes b => HB b
    end.
End PdInd.

Lemma wf_ns_all l :
  (fix all (l : list nscript) : Prop := match l with [] => True | x :: r => wf_nscript x /\ all r end) l <-> Forall wf_nscript l.
Proof.
  induction l as [|x r IH]; [split; intros _; [constructor | exact I]|].
  split; intros Hx.
  - destruct Hx as [Hx Hr]. constructor; [exact Hx | now apply IH].
  - inversion Hx; subst. split; [assumption | now apply IH].
Qed.
Lemma wf_pd_all l :
  (fix all (l : list pdata) : Prop := match l with [] => True | x :: r => wf_pdata x /\ all r end) l <-> Forall wf_pdata l.
Proof.
  induction l as [|x r IH]; [split; intros _; [constructor | exact I]|].
  split; intros Hx.
  - destruct Hx as [Hx Hr]. constructor; [exact Hx | now apply IH].
  - inversion Hx; subst. split; [assumption | now apply IH].
Qed.
Lemma wf_pd_allp l :
  (fix all (l : list (pdata * pdata)) : Prop :=
     match l with [] => True | kv :: r => (wf_pdata (fst kv) /\ wf_pdata (snd kv)) /\ all r end) l
  <-> Forall (fun kv => wf_pdata (fst kv) /\ wf_pdata (snd kv)) l.
Proof.
  induction l as [|x r IH]; [split; intros _; [constructor | exact I]|].
  split; intros Hx.
  - destruct Hx as [Hx Hr]. constructor; [exact Hx | now apply IH].
  - inversion Hx; subst. split; [assumption | now apply IH].
Qed.

(* depth of a document (fuel of the two recursive readers) *)
Definition jdepth_list (l : list json) : nat := fold_right (fun x acc => Nat.max (jdepth x) acc) O l.
Lemma jdepth_arr l : jdepth (JArr l) = S (jdepth_list l).
Proof. reflexivity. Qed.
Lemma jdepth_obj kvs : jdepth (JObj kvs) = S (jdepth_list (map snd kvs)).
Proof. cbn [jdepth]. f_equal. induction kvs as [|x r IH]; [reflexivity|]. cbn. now rewrite IH. Qed.
Lemma jdepth_list_in x l : In x l -> (jdepth x <= jdepth_list l)%nat.
Proof.
  induction l as [|y r IH]; [intros []|].
  change (jdepth_list (y :: r)) with (Nat.max (jdepth y) (jdepth_list r)).
  intros [->|Hin]; [lia|]. specialize (IH Hin). lia.
Qed.

Lemma mapM_id {A B} (f : A -> result B) (g : B -> A) l :
  Forall (fun x => f (g x) = Ok x) l -> mapM f (map g l) = Ok l.
Proof. induction 1 as [|x r Hx Hr IH]; cbn; [reflexivity|]. now rewrite Hx, IH. Qed.
Lemma mapM_map_ok {A B C} (f : A -> result B) (g : C -> A) (h : C -> B) l :
  Forall (fun x => f (g x) = Ok (h x)) l -> mapM f (map g l) = Ok (map h l).
Proof. induction 1 as [|x r Hx Hr IH]; cbn; [reflexivity|]. now rewrite Hx, IH. Qed.

(* ================================================================ hexadecimal, decimal, splitting *)
Lemma hexs_inj a b : hexs a = hexs b -> a = b.
Proof. intros E. pose proof (unhex_hexs a) as Ha. rewrite E, unhex_hexs in Ha. now inversion Ha. Qed.

  Lemma from_hex_hexs b : from_hex (hexs b) = Ok b.
  Proof. unfold from_hex. now rewrite unhex_hexs. Qed.

  Lemma sized_ok lo hi b : (lo <= length b <= hi)%nat -> sized lo hi b = Ok b.
  Proof.
    intros [H1 H2]. unfold sized.
    apply Nat.leb_le in H1, H2. unfold bytes in *. now rewrite H1, H2.
  Qed.

  Lemma hash_of_hex_hexs k b : length b = k -> hash_of_hex k (jhex b) = Ok b.
  Proof.
    intros Hl. unfold hash_of_hex, jhex. cbn [as_str bind]. rewrite from_hex_hexs. cbn [bind].
    apply sized_ok. lia.
  Qed.

  Lemma name_of_hex_hexs b : (length b <= 32)%nat -> name_of_hex (jhex b) = Ok b.
  Proof.
    intros Hl. unfold name_of_hex, jhex. cbn [as_str bind]. rewrite from_hex_hexs. cbn [bind].
    apply sized_ok. lia.
  Qed.

  Lemma py_int_dec n : py_int (JStr (dec_of_N n)) = Ok (Z.of_N n).
  Proof. unfold py_int. now rewrite N_of_dec_rt. Qed.

  Lemma int_of_str_dec n : int_of_str (dec_of_N n) = Ok (Z.of_N n).
  Proof. unfold int_of_str. now rewrite N_of_dec_rt. Qed.

  (* the Blockfrost unit: 56 hexadecimal characters of policy, then the name *)
  Lemma split56 p n : length p = 28%nat ->
    String.length (hexs p) = 56%nat /\
    from_hex (hexs p ++ hexs n)%string = Ok (p ++ n) /\
    firstn 28 (p ++ n) = p /\ skipn 28 (p ++ n) = n.
  Proof.
    intros Hp. repeat split.
    - rewrite hexs_length. unfold bytes in *. lia.
    - rewrite <- hexs_app. apply from_hex_hexs.
    - rewrite firstn_app, <- Hp, firstn_all, Nat.sub_diag. cbn. apply app_nil_r.
    - rewrite skipn_app, <- Hp, skipn_all, Nat.sub_diag. reflexivity.
  Qed.

  Lemma unit_not_lovelace p n : length p = 28%nat -> String.eqb (hexs p ++ hexs n)%string "lovelace" = false.
  Proof.
    intros Hp. apply string_eqb_neq_length. rewrite string_length_app, !hexs_length. unfold bytes in *. cbn. lia.
  Qed.

  Lemma hexs_no_char c b : is_lower_hex c = false -> has_char c (hexs b) = false.
  Proof. intros Hc. eapply all_chars_no; [exact Hc | apply hexs_lower]. Qed.

  (* the Ogmios v5 / Kupo asset identifier: "policy.name", or "policy" for the empty name *)
  Lemma kupo_split p n : length p = 28%nat -> (length n <= 32)%nat ->
    extract_asset_info (dotted p n) = Ok (p, n).
  Proof.
    intros Hp Hn. unfold extract_asset_info, dotted. destruct n as [|x r].
    - rewrite split_on_none by (now apply hexs_no_char). cbn [bind fst snd].
      change (JStr (hexs p)) with (jhex p). rewrite hash_of_hex_hexs by assumption. cbn [bind].
      change (JStr "") with (jhex []). rewrite name_of_hex_hexs by (cbn; lia). reflexivity.
    - rewrite split_on_app by (now apply hexs_no_char).
      rewrite split_on_none by (now apply hexs_no_char). cbn [bind fst snd].
      change (JStr (hexs p)) with (jhex p). rewrite hash_of_hex_hexs by assumption. cbn [bind].
      change (JStr (hexs (x :: r))) with (jhex (x :: r)). rewrite name_of_hex_hexs by assumption. reflexivity.
  Qed.

  (* ================================================================ assets: dict insertion *)
  Definition ins (m : masset) (e : bytes * bytes * N) : masset :=
    mset m (fst (fst e)) (snd (fst e)) (Z.of_N (snd e)).
  Definition assets_of_flat (l : flat_assets) : masset := fold_left ins l [].

  Lemma mget_mset m p n q p' :
    mget (mset m p n q) p' = if bytes_eqb p p' then dset (mget m p) n q else mget m p'.
  Proof.
    unfold mset, mget at 1. destruct (bytes_eqb p p') eqn:E.
    - apply bytes_eqb_eq in E. subst. now rewrite dget_dset_same.
    - apply bytes_eqb_neq in E. now rewrite dget_dset_other.
  Qed.

  Lemma content_mset m p n q p' n' :
    content (mset m p n q) p' n' = if bytes_eqb p p' && bytes_eqb n n' then q else content m p' n'.
  Proof.
    unfold content. rewrite mget_mset. destruct (bytes_eqb p p') eqn:E; cbn [andb]; [|reflexivity].
    apply bytes_eqb_eq in E. subst. unfold aget. destruct (bytes_eqb n n') eqn:E2.
    - apply bytes_eqb_eq in E2. subst. now rewrite dget_dset_same.
    - apply bytes_eqb_neq in E2. now rewrite dget_dset_other.
  Qed.

  Lemma present_mset m p n q p' n' :
    present (mset m p n q) p' n' <-> present m p' n' \/ (p' = p /\ n' = n).
  Proof.
    unfold present. rewrite mget_mset. destruct (bytes_eqb p p') eqn:E.
    - apply bytes_eqb_eq in E. subst. rewrite keys_dset_in. intuition.
    - apply bytes_eqb_neq in E. intuition congruence.
  Qed.

  Lemma content_fold_other l : forall m p n,
    ~ In (p, n) (map fkey l) -> content (fold_left ins l m) p n = content m p n.
  Proof.
    induction l as [|[[p' n'] q'] r IH]; intros m p n Hn; cbn [fold_left]; [reflexivity|].
    rewrite IH by (intros Hin; apply Hn; now right).
    unfold ins. cbn [fst snd]. rewrite content_mset.
    destruct (bytes_eqb p' p) eqn:E1; [|reflexivity]. destruct (bytes_eqb n' n) eqn:E2; [|reflexivity].
    apply bytes_eqb_eq in E1, E2. subst. exfalso. apply Hn. now left.
  Qed.

  Lemma content_fold_in l : NoDup (map fkey l) -> forall m p n q,
    In (p, n, q) l -> content (fold_left ins l m) p n = Z.of_N q.
  Proof.
    induction l as [|e r IH]; intros Hnd m p n q Hin; [contradiction|].
    inversion Hnd as [|? ? Hx Hr]; subst. cbn [fold_left]. destruct Hin as [->|Hin].
    - rewrite content_fold_other by exact Hx.
      unfold ins. cbn [fst snd]. rewrite content_mset, !bytes_eqb_refl. reflexivity.
    - now apply IH.
  Qed.

  Lemma present_fold l : forall m p n,
    present (fold_left ins l m) p n <-> present m p n \/ In (p, n) (map fkey l).
  Proof.
    induction l as [|[[p' n'] q'] r IH]; intros m p n; cbn [fold_left map In]; [tauto|].
    rewrite IH. unfold ins, fkey. cbn [fst snd]. rewrite present_mset.
    split; intros [Hx|Hx]; try tauto.
    - destruct Hx as [Hx|[-> ->]]; tauto.
    - destruct Hx as [Hx|Hx]; [inversion Hx; subst; tauto | tauto].
  Qed.

  (* well-formed dicts, no empty policy *)
  Definition minv (m : masset) : Prop := wfd m /\ forall p a, In (p, a) m -> wfd a /\ a <> [].

  Lemma In_dset {V} (d : dict V) k v k' v' : In (k', v') (dset d k v) -> (k' = k /\ v' = v) \/ In (k', v') d.
  Proof.
    induction d as [|[k0 v0] r IH]; cbn.
    - intros [E|[]]. inversion E. now left.
    - destruct (bytes_eqb k0 k) eqn:E; cbn.
      + apply bytes_eqb_eq in E. subst. intros [E'|Hin]; [inversion E'; now left | right; now right].
      + intros [E'|Hin]; [right; now left|]. destruct (IH Hin) as [?|?]; [now left | right; now right].
  Qed.

  Lemma dset_nonnil {V} (d : dict V) k v : dset d k v <> [].
  Proof. destruct d as [|[k0 v0] r]; cbn; [discriminate|]. destruct (bytes_eqb k0 k); discriminate. Qed.

  Lemma wfd_mget m p : minv m -> wfd (mget m p).
  Proof.
    intros [_ Hm]. unfold mget. destruct (dget m p) as [a|] eqn:E.
    - apply dget_In in E. now apply Hm in E.
    - constructor.
  Qed.

  Lemma minv_mset m p n q : minv m -> minv (mset m p n q).
  Proof.
    intros Hm. pose proof Hm as [Hw Ha]. split.
    - now apply wfd_dset.
    - intros p' a' Hin. apply In_dset in Hin as [[-> ->]|Hin].
      + split; [apply wfd_dset; now apply wfd_mget | apply dset_nonnil].
      + now apply Ha in Hin.
  Qed.

  Lemma minv_fold l : forall m, minv m -> minv (fold_left ins l m).
  Proof. induction l as [|e r IH]; intros m Hm; cbn; [assumption|]. apply IH. now apply minv_mset. Qed.

  Lemma minv_nil : minv [].
  Proof. split; [constructor | intros ? ? []]. Qed.

  (* ---------- the model side: flatten, lookup ---------- *)
  Lemma fkeys_flatten a :
    map fkey (flatten a) = flat_map (fun pl => map (fun nq => (fst pl, fst nq)) (snd pl)) a.
  Proof.
    unfold flatten. induction a as [|pl r IH]; cbn; [reflexivity|].
    rewrite map_app, IH, map_map. reflexivity.
  Qed.

  Lemma nodup_fkeys_flatten a : wf_assets a -> NoDup (map fkey (flatten a)).
  Proof.
    intros [Hp Hf]. rewrite fkeys_flatten. induction a as [|[p l] r IH]; cbn; [constructor|].
    inversion Hp as [|? ? Hx Hr]; subst. inversion Hf as [|? ? Hpl Hfr]; subst.
    destruct Hpl as (_ & _ & Hnd & _). cbn [fst snd] in *.
    apply NoDup_app_intro.
    - clear -Hnd. induction l as [|[n q] t IHl]; cbn; [constructor|].
      inversion Hnd as [|? ? Hy Ht]; subst. constructor; [|now apply IHl].
      intros Hin. apply in_map_iff in Hin as ([n' q'] & E & Hin). inversion E; subst.
      apply Hy. change n with (fst (n, q')). now apply in_map.
    - now apply IH.
    - intros [p' n'] Hin Hin2. apply in_map_iff in Hin as (nq & E & _). inversion E; subst.
      apply in_flat_map in Hin2 as (pl & Hpl & Hin2). apply in_map_iff in Hin2 as (nq' & E2 & _).
      inversion E2; subst. apply Hx. now apply in_map.
  Qed.

  Lemma flookup_some l p n q : flookup l p n = Some q -> In (p, n, q) l.
  Proof.
    induction l as [|[[p' n'] q'] r IH]; cbn; [discriminate|].
    destruct (bytes_eqb p' p && bytes_eqb n' n) eqn:E.
    - apply andb_true_iff in E as [E1 E2]. apply bytes_eqb_eq in E1, E2. subst.
      intros E. inversion E. now left.
    - intros Hq. right. now apply IH.
  Qed.

  Lemma flookup_none l p n : flookup l p n = None -> ~ In (p, n) (map fkey l).
  Proof.
    induction l as [|[[p' n'] q'] r IH]; cbn; [tauto|].
    destruct (bytes_eqb p' p && bytes_eqb n' n) eqn:E; [discriminate|].
    intros Hq [Hin|Hin]; [|now apply IH].
    unfold fkey in Hin. cbn in Hin. inversion Hin; subst. now rewrite !bytes_eqb_refl in E.
  Qed.

  (* THE asset theorem: whatever order the service lists the assets in, inserting them one by one yields exactly the
     modelled quantities, exactly the modelled keys, in well-formed dicts *)
  Theorem assets_faithful a flat : wf_assets a -> Permutation (flatten a) flat ->
    let m := assets_of_flat flat in
    (forall p n, content m p n = Z.of_N (ucontent a p n)) /\
    (forall p n, present m p n <-> upresent a p n) /\
    minv m.
  Proof.
    intros Hw Hperm m. pose proof (nodup_fkeys_flatten a Hw) as Hnd.
    assert (Hnd' : NoDup (map fkey flat)).
    { eapply Permutation_NoDup; [apply Permutation_map; exact Hperm | exact Hnd]. }
    split; [|split].
    - intros p n. unfold m, assets_of_flat, ucontent. destruct (flookup (flatten a) p n) as [q|] eqn:E.
      + apply flookup_some in E. apply (Permutation_in _ Hperm) in E. now apply content_fold_in.
      + apply flookup_none in E. rewrite content_fold_other; [reflexivity|].
        intros Hin. apply E. eapply Permutation_in; [apply Permutation_sym, Permutation_map; exact Hperm | exact Hin].
    - intros p n. unfold m, assets_of_flat, upresent. rewrite present_fold. split.
      + intros [Hx|Hx].
        * unfold present, mget in Hx. cbn in Hx. contradiction.
        * eapply Permutation_in; [apply Permutation_sym, Permutation_map; exact Hperm | exact Hx].
      + intros Hx. right. eapply Permutation_in; [apply Permutation_map; exact Hperm | exact Hx].
    - apply minv_fold, minv_nil.
  Qed.

  (* sizes of every listed asset *)
  Definition sized_entry (e : bytes * bytes * N) : Prop :=
    length (fst (fst e)) = 28%nat /\ (length (snd (fst e)) <= 32)%nat.

  Lemma sized_flatten a : wf_assets a -> Forall sized_entry (flatten a).
  Proof.
    intros [_ Hf]. unfold flatten. apply Forall_forall. intros e Hin.
    apply in_flat_map in Hin as (pl & Hpl & Hin). apply in_map_iff in Hin as (nq & <- & Hnq).
    rewrite Forall_forall in Hf. destruct (Hf pl Hpl) as (Hp & _ & _ & Hn).
    rewrite Forall_forall in Hn. split; cbn; [assumption | now apply Hn].
  Qed.

  Lemma sized_flat a flat : wf_assets a -> Permutation (flatten a) flat -> Forall sized_entry flat.
  Proof.
    intros Hw Hp. apply Forall_forall. intros e Hin.
    pose proof (sized_flatten a Hw) as Hs. rewrite Forall_forall in Hs. apply Hs.
    eapply Permutation_in; [apply Permutation_sym; exact Hp | exact Hin].
  Qed.

  (* ================================================================ shared: truthiness, scripts, datums *)
  Lemma truthy_jhex b : b <> [] -> truthy (jhex b) = true.
  Proof. destruct b as [|x r]; [congruence|]. reflexivity. Qed.

  Lemma nonnil_of_length {A} (l : list A) k : length l = S k -> l <> [].
  Proof. destruct l; [discriminate | discriminate]. Qed.

  Lemma supported_plutus x v body : script_supported x (Some (SPlutus v body)) = true -> (v = 1 \/ v = 2 \/ v = 3)%N.
  Proof.
    unfold script_supported. destruct x; intros Hs;
      repeat (apply orb_true_iff in Hs as [Hs|Hs]); apply N.eqb_eq in Hs; auto.
  Qed.

  Lemma from_version_ok v body : (v = 1 \/ v = 2 \/ v = 3)%N -> from_version (Z.of_N v) body = Ok (SPlutus v body).
  Proof. intros [-> | [-> | ->]]; reflexivity. Qed.

  Lemma decode_enc_bytes b : (lenN b < two64)%N -> decode (enc (CB b)) = Some (CB b).
  Proof.
    intros W. unfold decode.
    pose proof (dec_enc (CB b) W (S (length (enc (CB b)))) [] ltac:(cbn; lia)) as E.
    rewrite app_nil_r in E. now rewrite E.
  Qed.

  Lemma cbor_loads_enc b : (lenN b < two64)%N -> cbor_loads_bytes (enc (CB b)) = Ok b.
  Proof. intros W. unfold cbor_loads_bytes. now rewrite decode_enc_bytes. Qed.

Section WithHash.
  Variable H : bytes -> bytes.

  Lemma try_fix_ok h v body served :
    h = hexs (plutus_hash H v body) ->
    served = body \/ (served = enc (CB body) /\ (lenN body < two64)%N /\
                      plutus_hash H v (enc (CB body)) <> plutus_hash H v body) ->
    try_fix H h (SPlutus v served) = Ok (SPlutus v body).
  Proof.
    intros -> [->|(-> & W & Hne)]; unfold try_fix.
    - now rewrite String.eqb_refl.
    - destruct (String.eqb (hexs (plutus_hash H v (enc (CB body)))) (hexs (plutus_hash H v body))) eqn:E.
      + apply String.eqb_eq, hexs_inj in E. contradiction.
      + rewrite cbor_loads_enc by assumption. cbn [bind]. now rewrite String.eqb_refl.
  Qed.

  Lemma served_body_cases u v body :
    u_script u = Some (SPlutus v body) -> (lenN body < two64)%N ->
    (u_script_wrapped u = true -> plutus_hash H v (enc (CB body)) <> plutus_hash H v body) ->
    served_body u body = body \/ (served_body u body = enc (CB body) /\ (lenN body < two64)%N /\
                                  plutus_hash H v (enc (CB body)) <> plutus_hash H v body).
  Proof.
    intros _ W Hw. unfold served_body. destruct (u_script_wrapped u); [right | left; reflexivity].
    repeat split; [assumption | now apply Hw].
  Qed.

End WithHash.

  Definition found (tbl docs : list (string * json)) : Prop :=
    Forall (fun kd => jget (fst kd) tbl = Some (snd kd)) docs.

  (* ================================================================ Blockfrost *)
  Definition bf_item (e : bytes * bytes * N) : json :=
    JObj [("unit", JStr (hexs (fst (fst e)) ++ hexs (snd (fst e)))%string); ("quantity", JStr (dec_of_N (snd e)))].

  Lemma bf_step_asset c m e : sized_entry e -> bf_amount_step (c, m) (bf_item e) = Ok (c, ins m e).
  Proof.
    intros [Hp Hn]. destruct e as [[p n] q]. cbn [fst snd] in *. unfold bf_amount_step.
    change (jattr "unit" (bf_item (p, n, q))) with (Ok (A:=json) (JStr (hexs p ++ hexs n)%string)).
    cbn [bind as_str]. rewrite unit_not_lovelace by assumption.
    destruct (split56 p n Hp) as (_ & Hh & Hf & Hs). rewrite Hh. cbn [bind]. rewrite Hf, Hs.
    rewrite sized_ok by lia. cbn [bind]. rewrite sized_ok by lia. cbn [bind].
    change (jattr "quantity" (bf_item (p, n, q))) with (Ok (A:=json) (JStr (dec_of_N q))).
    cbn [bind]. rewrite py_int_dec. reflexivity.
  Qed.

  Lemma bf_amount_ok lov flat : Forall sized_entry flat ->
    foldM bf_amount_step (JObj [("unit", JStr "lovelace"); ("quantity", JStr (dec_of_N lov))] :: map bf_item flat) (0%Z, [])
    = Ok (Z.of_N lov, assets_of_flat flat).
  Proof.
    intros Hs. cbn [foldM]. unfold bf_amount_step at 1.
    cbn [jattr jget String.eqb Ascii.eqb Bool.eqb andb bind as_str fst snd].
    rewrite py_int_dec. cbn [bind].
    assert (G : forall l c m, Forall sized_entry l ->
              foldM bf_amount_step (map bf_item l) (c, m) = Ok (c, fold_left ins l m)).
    { induction l as [|e r IH]; intros c m Hl; cbn [map foldM fold_left]; [reflexivity|].
      inversion Hl; subst. rewrite bf_step_asset by assumption. cbn [bind]. now apply IH. }
    now apply G.
  Qed.

  Lemma bf_type_ver v : (v = 1 \/ v = 2 \/ v = 3)%N ->
    let ty := ("plutusV" ++ ver_digit v)%string in
    String.prefix "plutusv" (lower ty) = true /\
    match last_char ty with Some c => int_of_str (String c EmptyString) | None => Err "IndexError" end = Ok (Z.of_N v).
  Proof. intros [-> | [-> | ->]]; split; reflexivity. Qed.

(* ================================================================ NativeScript.from_dict reads back the rendered script *)

Lemma ns_list_rt l f :
  Forall (fun ns => wf_nscript ns -> forall f, (jdepth (ns_json ns) < f)%nat -> ns_of_json f (ns_json ns) = Ok ns) l ->
  Forall wf_nscript l -> (jdepth_list (map ns_json l) < f)%nat ->
  mapM (ns_of_json f) (map ns_json l) = Ok l.
Proof.
  intros IH W Hf. apply mapM_id. rewrite Forall_forall in *. intros x Hx.
  apply IH; [assumption | now apply W |].
  eapply Nat.le_lt_trans; [apply jdepth_list_in, in_map, Hx | exact Hf].
Qed.

Lemma ns_rt : forall ns, wf_nscript ns -> forall f, (jdepth (ns_json ns) < f)%nat -> ns_of_json f (ns_json ns) = Ok ns.
Proof.
  induction ns as [kh|l IH|l IH|n l IH|s|s] using nscript_ind'; intros W f Hf; (destruct f as [|f]; [lia|]).
  - cbn in W. cbn -[hash_of_hex]. rewrite hash_of_hex_hexs by assumption. reflexivity.
  - cbn -[mapM]. rewrite ns_list_rt; [reflexivity | assumption | now apply wf_ns_all |].
    cbn [ns_json] in Hf. rewrite jdepth_obj in Hf. cbn [map snd jdepth_list fold_right] in Hf.
    rewrite jdepth_arr in Hf. lia.
  - cbn -[mapM]. rewrite ns_list_rt; [reflexivity | assumption | now apply wf_ns_all |].
    cbn [ns_json] in Hf. rewrite jdepth_obj in Hf. cbn [map snd jdepth_list fold_right] in Hf.
    rewrite jdepth_arr in Hf. lia.
  - cbn -[mapM]. rewrite ns_list_rt; [reflexivity | assumption | now apply wf_ns_all |].
    cbn [ns_json] in Hf. rewrite jdepth_obj in Hf. cbn [map snd jdepth_list fold_right] in Hf.
    rewrite jdepth_arr in Hf. lia.
  - reflexivity.
  - reflexivity.
Qed.

Lemma native_from_dict_rt ns : wf_nscript ns -> native_from_dict (ns_json ns) = Ok ns.
Proof. intros W. unfold native_from_dict. apply ns_rt; [assumption | lia]. Qed.

(* ================================================================ RawPlutusData.from_dict reads back the rendered datum *)

Definition conv_kv (kv : pdata * pdata) : pyd * pyd := (pyd_of_pdata (fst kv), pyd_of_pdata (snd kv)).
Definition pair_json (kv : pdata * pdata) : json := JObj [("k", pd_json (fst kv)); ("v", pd_json (snd kv))].
Definition map_step (f : nat) (acc : list (pyd * pyd)) (pair : json) : result (list (pyd * pyd)) :=
  do kj <- jfield "k" pair; do k <- pyd_of_json f kj;
  do vj <- jfield "v" pair; do v <- pyd_of_json f vj;
  if hashable k then Ok (ydset acc k v) else Err "TypeError".

Lemma ykey_conv a b : is_pkey a = true -> is_pkey b = true ->
  ykey_eqb (pyd_of_pdata a) (pyd_of_pdata b) = pkey_eqb a b.
Proof.
  destruct a as [| | |x|x], b as [| | |y|y]; cbn [is_pkey]; try discriminate; intros _ _; cbn [pyd_of_pdata pkey_eqb].
  - reflexivity.
  - destruct (32 <? length y)%nat; reflexivity.
  - destruct (32 <? length x)%nat; reflexivity.
  - destruct (32 <? length x)%nat, (32 <? length y)%nat; reflexivity.
Qed.
Lemma hashable_conv a : is_pkey a = true -> hashable (pyd_of_pdata a) = true.
Proof.
  destruct a as [| | |x|x]; cbn [is_pkey]; try discriminate; intros _; cbn [pyd_of_pdata]; [reflexivity|].
  destruct (32 <? length x)%nat; reflexivity.
Qed.
Lemma ydset_fresh acc k v : forallb (fun kv => negb (ykey_eqb (fst kv) k)) acc = true -> ydset acc k v = acc ++ [(k, v)].
Proof.
  induction acc as [|[k' v'] r IH]; cbn; [reflexivity|]. intros Hf. apply andb_true_iff in Hf as [H1 H2].
  apply negb_true_iff in H1. rewrite H1. now rewrite IH.
Qed.
Lemma pkeys_distinct_mid l1 k l2 : pkeys_distinct (l1 ++ k :: l2) = true -> forall x, In x l1 -> pkey_eqb x k = false.
Proof.
  induction l1 as [|y r IH]; cbn; [intros _ x []|]. intros Hd x [->|Hin].
  - apply andb_true_iff in Hd as [H1 _]. apply negb_true_iff in H1.
    rewrite existsb_app in H1. apply orb_false_iff in H1 as [_ H1]. cbn in H1. now apply orb_false_iff in H1 as [H1 _].
  - apply andb_true_iff in Hd as [_ H2]. now apply IH.
Qed.

Lemma map_fold f : forall kvs done,
  Forall (fun kv => pyd_of_json f (pd_json (fst kv)) = Ok (pyd_of_pdata (fst kv)) /\
                    pyd_of_json f (pd_json (snd kv)) = Ok (pyd_of_pdata (snd kv))) kvs ->
  forallb is_pkey (map fst (done ++ kvs)) = true -> pkeys_distinct (map fst (done ++ kvs)) = true ->
  foldM (map_step f) (map pair_json kvs) (map conv_kv done) = Ok (map conv_kv (done ++ kvs)).
Proof.
  induction kvs as [|kv r IH]; intros done Hrt Hk Hd; cbn [map foldM].
  - now rewrite app_nil_r.
  - inversion Hrt as [|? ? [Hkk Hvv] Hr]; subst.
    unfold map_step at 1.
    change (jfield "k" (pair_json kv)) with (Ok (A:=json) (pd_json (fst kv))).
    change (jfield "v" (pair_json kv)) with (Ok (A:=json) (pd_json (snd kv))).
    cbn [bind]. rewrite Hkk. cbn [bind]. rewrite Hvv. cbn [bind].
    assert (Hpk : is_pkey (fst kv) = true).
    { rewrite map_app, forallb_app in Hk. apply andb_true_iff in Hk as [_ Hk]. cbn in Hk. now apply andb_true_iff in Hk as [Hk _]. }
    rewrite hashable_conv by assumption.
    rewrite ydset_fresh.
    + cbn [bind]. replace (map conv_kv done ++ [(pyd_of_pdata (fst kv), pyd_of_pdata (snd kv))]) with (map conv_kv (done ++ [kv]))
        by (rewrite map_app; reflexivity).
      replace (done ++ kv :: r) with ((done ++ [kv]) ++ r) by (rewrite <- app_assoc; reflexivity).
      apply IH; [assumption | |]; rewrite <- app_assoc; assumption.
    + rewrite forallb_forall. intros [a b] Hin. apply in_map_iff in Hin as (d & E & Hin). inversion E; subst.
      cbn [fst]. rewrite ykey_conv.
      * apply negb_true_iff. rewrite map_app in Hd. cbn [map] in Hd. eapply pkeys_distinct_mid; [exact Hd | now apply in_map].
      * rewrite map_app, forallb_app in Hk. apply andb_true_iff in Hk as [Hk _]. rewrite forallb_forall in Hk. apply Hk. now apply in_map.
      * assumption.
Qed.

Lemma pd_list_rt l f :
  Forall (fun pd => wf_pdata pd -> forall f, (jdepth (pd_json pd) < f)%nat -> pyd_of_json f (pd_json pd) = Ok (pyd_of_pdata pd)) l ->
  Forall wf_pdata l -> (jdepth_list (map pd_json l) < f)%nat ->
  mapM (pyd_of_json f) (map pd_json l) = Ok (map pyd_of_pdata l).
Proof.
  intros IH W Hf. apply mapM_map_ok. rewrite Forall_forall in *. intros x Hx.
  apply IH; [assumption | now apply W |].
  eapply Nat.le_lt_trans; [apply jdepth_list_in, in_map, Hx | exact Hf].
Qed.

Lemma pd_rt : forall pd, wf_pdata pd -> forall f, (jdepth (pd_json pd) < f)%nat ->
  pyd_of_json f (pd_json pd) = Ok (pyd_of_pdata pd).
Proof.
  induction pd as [c fs IH|kvs IH|l IH|z|b] using pdata_ind'; intros W f Hf; (destruct f as [|f]; [lia|]).
  - cbn -[mapM get_tag]. destruct W as [_ W]. rewrite pd_list_rt; [| assumption | now apply wf_pd_all |].
    + cbn [bind]. destruct (get_tag c); reflexivity.
    + cbn [pd_json] in Hf. rewrite jdepth_obj in Hf. cbn [map snd jdepth_list fold_right] in Hf.
      rewrite jdepth_arr in Hf. lia.
  - destruct W as (Hk & Hd & W). apply wf_pd_allp in W.
    cbn -[foldM]. change (fun kv : pdata * pdata => JObj [("k", pd_json (fst kv)); ("v", pd_json (snd kv))]) with pair_json.
    change (fun (acc : list (pyd * pyd)) (pair : json) => _) with (map_step f).
    change (@nil (pyd * pyd)) with (map conv_kv []).
    rewrite map_fold; [reflexivity | | assumption | assumption].
    cbn [pd_json] in Hf. rewrite jdepth_obj in Hf. cbn [map snd jdepth_list fold_right] in Hf.
    rewrite jdepth_arr in Hf.
    rewrite Forall_forall in *. intros kv Hin. destruct (IH kv Hin) as [IHk IHv]. destruct (W kv Hin) as [Wk Wv].
    assert (Hp : (jdepth (pair_json kv) <= jdepth_list (map pair_json kvs))%nat) by (apply jdepth_list_in, in_map, Hin).
    unfold pair_json in Hp at 1. rewrite jdepth_obj in Hp. cbn [map snd jdepth_list fold_right] in Hp.
    change (fun kv : pdata * pdata => JObj [("k", pd_json (fst kv)); ("v", pd_json (snd kv))]) with pair_json in Hf.
    split; [apply IHk | apply IHv]; try assumption; lia.
  - cbn -[mapM]. rewrite pd_list_rt; [reflexivity | assumption | now apply wf_pd_all |].
    cbn [pd_json] in Hf. rewrite jdepth_obj in Hf. cbn [map snd jdepth_list fold_right] in Hf.
    rewrite jdepth_arr in Hf. lia.
  - reflexivity.
  - cbn -[from_hex Nat.ltb String.length]. rewrite from_hex_hexs. cbn [bind]. rewrite hexs_length.
    replace (64 <? 2 * length b)%nat with (32 <? length b)%nat; [destruct (32 <? length b)%nat; reflexivity|].
    destruct (32 <? length b)%nat eqn:E1, (64 <? 2 * length b)%nat eqn:E2; try reflexivity;
      rewrite ?Nat.ltb_lt, ?Nat.ltb_ge in *; lia.
Qed.

Lemma plutus_from_dict_rt pd : wf_pdata pd -> plutus_from_dict (pd_json pd) = Ok (pyd_of_pdata pd).
Proof. intros W. unfold plutus_from_dict. apply pd_rt; [assumption | lia]. Qed.

(* the structure built denotes the value reported *)
Lemma untag_get_tag c t : get_tag c = Some t -> untag t = Some c.
Proof.
  unfold get_tag, untag. destruct ((0 <=? c)%Z && (c <? 7)%Z) eqn:E1.
  - intros E. assert (Ht : t = (121 + c)%Z) by congruence. clear E. subst t. apply andb_true_iff in E1 as [A B]. apply Z.leb_le in A. apply Z.ltb_lt in B.
    replace ((121 <=? 121 + c)%Z && (121 + c <? 128)%Z) with true by (symmetry; apply andb_true_iff; split; [apply Z.leb_le | apply Z.ltb_lt]; lia).
    f_equal. lia.
  - destruct ((7 <=? c)%Z && (c <? 128)%Z) eqn:E2; [|discriminate].
    intros E. assert (Ht : t = (1280 + (c - 7))%Z) by congruence. clear E. subst t. apply andb_true_iff in E2 as [A B]. apply Z.leb_le in A. apply Z.ltb_lt in B.
    replace ((121 <=? 1280 + (c - 7))%Z && (1280 + (c - 7) <? 128)%Z) with false by (symmetry; apply andb_false_iff; right; apply Z.ltb_ge; lia).
    replace ((1280 <=? 1280 + (c - 7))%Z && (1280 + (c - 7) <? 1401)%Z) with true by (symmetry; apply andb_true_iff; split; [apply Z.leb_le | apply Z.ltb_lt]; lia).
    f_equal. lia.
Qed.

Lemma pdata_of_pyd_rt : forall pd, pdata_of_pyd (pyd_of_pdata pd) = Some pd.
Proof.
  induction pd as [c fs IH|kvs IH|l IH|z|b] using pdata_ind'.
  - assert (Hall : (fix all (l : list pyd) : option (list pdata) :=
                      match l with
                      | [] => Some []
                      | x :: r => match pdata_of_pyd x, all r with Some a, Some b => Some (a :: b) | _, _ => None end
                      end) (map pyd_of_pdata fs) = Some fs).
    { induction IH as [|x r Hx Hr IHr]; cbn [map]; [reflexivity|]. now rewrite Hx, IHr. }
    cbn [pyd_of_pdata]. destruct (get_tag c) as [t|] eqn:E; cbn [pdata_of_pyd].
    + rewrite (untag_get_tag c t E). cbv zeta. rewrite Hall. reflexivity.
    + cbv zeta. rewrite Hall. reflexivity.
  - cbn [pyd_of_pdata pdata_of_pyd].
    match goal with |- match ?X with _ => _ end = _ => assert (Hall : X = Some kvs) end.
    { induction IH as [|[k v] r [Hk Hv] Hr IHr]; cbn [map]; [reflexivity|]. cbn [fst snd] in *. now rewrite Hk, Hv, IHr. }
    now rewrite Hall.
  - assert (Hall : (fix all (l : list pyd) : option (list pdata) :=
                      match l with
                      | [] => Some []
                      | x :: r => match pdata_of_pyd x, all r with Some a, Some b => Some (a :: b) | _, _ => None end
                      end) (map pyd_of_pdata l) = Some l).
    { induction IH as [|x r Hx Hr IHr]; cbn [map]; [reflexivity|]. now rewrite Hx, IHr. }
    cbn [pyd_of_pdata pdata_of_pyd]. cbv zeta. rewrite Hall. reflexivity.
  - reflexivity.
  - cbn [pyd_of_pdata]. destruct (32 <? length b)%nat; reflexivity.
Qed.

(* ================================================================ per-entry theorems *)


#[local] Arguments hexs : simpl never.
#[local] Arguments dec_of_N : simpl never.
#[local] Arguments dec_of_Z : simpl never.
#[local] Arguments hash_of_hex : simpl never.
#[local] Arguments name_of_hex : simpl never.
#[local] Arguments from_hex : simpl never.
#[local] Arguments dotted_parse : simpl never.
#[local] Arguments dotted_assets : simpl never.
#[local] Arguments nested_assets : simpl never.
#[local] Arguments ver_digit : simpl never.
#[local] Arguments enc : simpl never.
#[local] Arguments ns_json : simpl never.
#[local] Arguments ns_json_v5 : simpl never.
#[local] Arguments ns_json_v6 : simpl never.
#[local] Arguments ns_cbor : simpl never.
#[local] Arguments pd_json : simpl never.
#[local] Arguments native_from_dict : simpl never.
#[local] Arguments plutus_from_dict : simpl never.
#[local] Arguments cbor_loads_bytes : simpl never.
#[local] Arguments try_fix : simpl never.
#[local] Arguments py_int : simpl never.
#[local] Arguments foldM : simpl never.
#[local] Arguments mapM : simpl never.
#[local] Arguments served_body : simpl never.
#[local] Arguments zeros32 : simpl never.
#[local] Arguments Z.of_N : simpl never.

Lemma dotted_step_ok m e : sized_entry e ->
  dotted_step m (dotted (fst (fst e)) (snd (fst e)), jN (snd e)) = Ok (ins m e).
Proof.
  intros [Hp Hn]. unfold dotted_step. cbn [fst snd]. rewrite kupo_split by assumption. reflexivity.
Qed.

Lemma dotted_parse_ok flat : Forall sized_entry flat -> dotted_parse (dotted_assets flat) = Ok (assets_of_flat flat).
Proof.
  intros Hs. unfold dotted_parse, dotted_assets. destruct flat as [|e r]; [reflexivity|].
  cbn [truthy map]. change (?a :: map ?f r) with (map f (e :: r)).
  apply (foldM_pure dotted_step ins _ sized_entry); [|assumption].
  intros s b Hb. now apply dotted_step_ok.
Qed.

Lemma hash_of_hex_str k b : length b = k -> hash_of_hex k (JStr (hexs b)) = Ok b.
Proof. apply hash_of_hex_hexs. Qed.
Lemma hexs_nonempty b : b <> [] -> String.eqb (hexs b) "" = false.
Proof. destruct b as [|x r]; [congruence|]. reflexivity. Qed.
Lemma nonnil32 (b : bytes) : length b = 32%nat -> b <> [].
Proof. destruct b; [discriminate | discriminate]. Qed.
Lemma nonnil28 (b : bytes) : length b = 28%nat -> b <> [].
Proof. destruct b; [discriminate | discriminate]. Qed.

(* closing step: the assembled record is faithful *)
Lemma faithful_intro x addr u txid ix lov ma dh d s :
  wf_assets (u_assets u) -> Permutation (flatten (u_assets u)) (u_flat u) ->
  txid = u_txid u -> ix = Z.of_N (u_index u) -> lov = Z.of_N (u_lovelace u) ->
  (ma = assets_of_flat (u_flat u) \/ ma = assets_of_flat (flatten (u_assets u))) ->
  (dh, d) = datum_report x (u_datum u) -> s = u_script u ->
  faithful x addr u (mkA txid ix addr lov ma dh d s).
Proof.
  intros Hwa Hperm -> -> -> Hma Hd ->. unfold faithful. cbn [a_txid a_index a_addr a_lovelace a_assets a_datum_hash a_datum a_script].
  assert (Hm : (forall p n, content ma p n = Z.of_N (ucontent (u_assets u) p n)) /\
               (forall p n, present ma p n <-> upresent (u_assets u) p n) /\ minv ma).
  { destruct Hma as [->| ->]; [now apply assets_faithful | apply assets_faithful; [assumption | apply Permutation_refl]]. }
  destruct Hm as (Hc & Hp & Hi).
  exact (conj eq_refl (conj eq_refl (conj eq_refl (conj eq_refl (conj Hc (conj Hp (conj Hi (conj Hd eq_refl)))))))).
Qed.

Ltac vd := change (ver_digit 1) with "1" in *; change (ver_digit 2) with "2" in *; change (ver_digit 3) with "3" in *;
  change (Z.of_N 1) with 1%Z in *; change (Z.of_N 2) with 2%Z in *; change (Z.of_N 3) with 3%Z in *.

Section V5.
  Variable H : bytes -> bytes.
  Theorem v5_entry_ok addr u : wf_utxo H OgmiosV5 u ->
    exists o, parse_v5_entry (v5_entry addr u) = Ok o /\ faithful OgmiosV5 addr u o.
  Proof.
    intros (Htx & Hwa & Hperm & Hd & Hsup & Hsc).
    pose proof (sized_flat _ _ Hwa Hperm) as Hsz.
    unfold parse_v5_entry, v5_entry. cbn.
    rewrite hash_of_hex_hexs by assumption. cbn [bind].
    rewrite dotted_parse_ok by assumption.
    destruct (u_script u) as [[v body|ns]|] eqn:Es; [| discriminate Hsup |].
    - assert (Hv : (v = 1 \/ v = 2)%N).
      { cbn in Hsup. apply orb_true_iff in Hsup as [Hv|Hv]; apply N.eqb_eq in Hv; auto. }
      destruct (u_datum u) as [|h known|h raw pd] eqn:Ed; destruct Hv as [-> | ->]; cbn; vd; cbn;
        rewrite ?from_hex_hexs; cbn;
        try (destruct Hd as [Hh Hd]); try (destruct Hd as (Hraw & Hneq & _)); try rewrite (hexs_nonempty h) by (now apply nonnil32);
        try rewrite (hexs_nonempty raw) by assumption; cbn;
        rewrite ?hash_of_hex_str, ?hash_of_hex_hexs by assumption; rewrite ?from_hex_hexs; cbn;
        (eexists; split; [reflexivity|]);
        (apply faithful_intro; try assumption; try reflexivity; try (now left); rewrite ?Es, ?Ed; reflexivity).
    - destruct (u_datum u) as [|h known|h raw pd] eqn:Ed; cbn;
        try (destruct Hd as [Hh Hd]); try (destruct Hd as (Hraw & Hneq & _)); try rewrite (hexs_nonempty h) by (now apply nonnil32);
        try rewrite (hexs_nonempty raw) by assumption; cbn;
        rewrite ?hash_of_hex_str, ?hash_of_hex_hexs by assumption; rewrite ?from_hex_hexs; cbn;
        (eexists; split; [reflexivity|]);
        (apply faithful_intro; try assumption; try reflexivity; try (now left); rewrite ?Es, ?Ed; reflexivity).
  Qed.
  Theorem v5_ok addr us : Forall (wf_utxo H OgmiosV5) us ->
    exists outs, parse_v5 (render_v5 addr us) = Ok outs /\ Forall2 (faithful OgmiosV5 addr) us outs.
  Proof.
    intros Hw. unfold parse_v5, render_v5. cbn [sv_main]. cbn [jfield jget String.eqb Ascii.eqb Bool.eqb andb bind].
    apply mapM_Forall2. eapply Forall_impl; [|exact Hw]. intros u Hu. now apply v5_entry_ok.
  Qed.
End V5.

(* ---------- nested {"policy": {"name": q}} maps (Ogmios v6, cardano-cli) ---------- *)
Definition name_entry (nq : bytes * N) : string * json := (hexs (fst nq), jN (snd nq)).
Definition group_entries (pl : bytes * list (bytes * N)) : flat_assets := map (fun nq => (fst pl, fst nq, snd nq)) (snd pl).
Definition wf_group (pl : bytes * list (bytes * N)) : Prop :=
  length (fst pl) = 28%nat /\ snd pl <> [] /\ Forall (fun nq => (length (fst nq) <= 32)%nat) (snd pl).

Lemma wf_groups a : wf_assets a -> Forall wf_group a.
Proof.
  intros [_ Hf]. eapply Forall_impl; [|exact Hf]. intros pl (A & B & _ & D). now repeat split.
Qed.

Lemma foldM_cons {A S} (f : S -> A -> result S) x r s : foldM f (x :: r) s = bind (f s x) (foldM f r).
Proof. reflexivity. Qed.

Lemma names_fold step p : (forall m kv, step p m kv = (do n <- name_of_hex (JStr (fst kv)); do q <- as_int (snd kv); Ok (mset m p n q))) ->
  forall names m, Forall (fun nq => (length (fst nq) <= 32)%nat) names ->
  foldM (step p) (map name_entry names) m = Ok (fold_left ins (map (fun nq => (p, fst nq, snd nq)) names) m).
Proof.
  intros Hstep. induction names as [|[n q] r IH]; intros m Hn; [reflexivity|].
  inversion Hn; subst. cbn [map]. rewrite foldM_cons.
  rewrite Hstep. unfold name_entry at 1. cbn [fst snd].
  change (JStr (hexs n)) with (jhex n). rewrite name_of_hex_hexs by assumption. cbn [bind as_int jN].
  cbn [fold_left]. now apply IH.
Qed.

Lemma flatten_groups a m : fold_left ins (flatten a) m = fold_left (fun m pl => fold_left ins (group_entries pl) m) a m.
Proof. unfold flatten. apply fold_left_flat_map. Qed.

Lemma hexs28_neq p s : length p = 28%nat -> (String.length s < 56)%nat -> String.eqb (hexs p) s = false.
Proof. intros Hp Hs. apply string_eqb_neq_length. rewrite hexs_length. unfold bytes in *. lia. Qed.

Lemma v6_policy_ok m pl : wf_group pl ->
  v6_policy_step m (hexs (fst pl), JObj (map name_entry (snd pl))) = Ok (fold_left ins (group_entries pl) m).
Proof.
  intros (Hp & Hne & Hn). unfold v6_policy_step. cbn [fst snd].
  rewrite (hexs28_neq (fst pl) "ada") by (assumption || (cbn; lia)).
  destruct (snd pl) as [|nq r] eqn:E; [congruence|]. cbn [map]. 
  change (name_entry nq :: map name_entry r) with (map name_entry (nq :: r)).
  rewrite hash_of_hex_str by assumption. cbn [bind]. unfold group_entries. rewrite E.
  apply (names_fold v6_names_step); [reflexivity | assumption].
Qed.

Lemma v6_value_ok lov a : wf_assets a ->
  (if only_ada (("ada", JObj [("lovelace", jN lov)]) :: nested_assets a) then Ok []
   else foldM v6_policy_step (("ada", JObj [("lovelace", jN lov)]) :: nested_assets a) []) = Ok (assets_of_flat (flatten a)).
Proof.
  intros Hw. pose proof (wf_groups a Hw) as Hg. destruct a as [|pl r]; [reflexivity|].
  inversion Hg as [|? ? Hpl Hr]; subst. destruct Hpl as (Hp & _).
  unfold nested_assets. cbn [map only_ada forallb fst]. change ("ada" =? "ada")%string with true. cbn [andb].
  rewrite (hexs28_neq (fst pl) "ada") by (assumption || (cbn; lia)). cbn [andb].
  rewrite foldM_cons. unfold v6_policy_step at 1. cbn [fst]. change ("ada" =? "ada")%string with true. cbn [bind].
  change ((hexs (fst pl), JObj (map (fun nq => (hexs (fst nq), jN (snd nq))) (snd pl))) :: map (fun pl0 => (hexs (fst pl0), JObj (map (fun nq0 => (hexs (fst nq0), jN (snd nq0))) (snd pl0)))) r)
    with (map (fun pl0 => (hexs (fst pl0), JObj (map name_entry (snd pl0)))) (pl :: r)).
  unfold assets_of_flat. rewrite flatten_groups.
  apply (foldM_pure v6_policy_step _ _ wf_group); [|assumption].
  intros s b Hb. now apply v6_policy_ok.
Qed.

#[local] Arguments only_ada : simpl never.
#[local] Arguments v6_policy_step : simpl never.

Section V6.
  Variable H : bytes -> bytes.
  Theorem v6_entry_ok addr u : wf_utxo H OgmiosV6 u ->
    exists o, parse_v6_entry (v6_entry addr u) = Ok o /\ faithful OgmiosV6 addr u o.
  Proof.
    intros (Htx & Hwa & Hperm & Hd & Hsup & Hsc).
    unfold parse_v6_entry, v6_entry.
    destruct (u_script u) as [[v body|ns]|] eqn:Es; [| discriminate Hsup |].
    - pose proof (supported_plutus _ _ _ Hsup) as Hv.
      destruct (u_datum u) as [|h known|h raw pd] eqn:Ed; destruct Hv as [-> | [-> | ->]]; cbn; vd; cbn;
        rewrite ?hash_of_hex_hexs by assumption; cbn; rewrite ?from_hex_hexs; cbn;
        try (destruct Hd as [Hh Hd]); try (destruct Hd as (Hraw & Hneq & _)); try rewrite (hexs_nonempty h) by (now apply nonnil32);
        try rewrite (hexs_nonempty raw) by assumption; cbn;
        rewrite ?hash_of_hex_str, ?hash_of_hex_hexs by assumption; rewrite ?from_hex_hexs; cbn;
        rewrite v6_value_ok by assumption; cbn;
        (eexists; split; [reflexivity|]);
        (apply faithful_intro; try assumption; try reflexivity; try (now right); rewrite ?Es, ?Ed; reflexivity).
    - destruct (u_datum u) as [|h known|h raw pd] eqn:Ed; cbn;
        rewrite ?hash_of_hex_hexs by assumption; cbn;
        try (destruct Hd as [Hh Hd]); try (destruct Hd as (Hraw & Hneq & _)); try rewrite (hexs_nonempty h) by (now apply nonnil32);
        try rewrite (hexs_nonempty raw) by assumption; cbn;
        rewrite ?hash_of_hex_str, ?hash_of_hex_hexs by assumption; rewrite ?from_hex_hexs; cbn;
        rewrite v6_value_ok by assumption; cbn;
        (eexists; split; [reflexivity|]);
        (apply faithful_intro; try assumption; try reflexivity; try (now right); rewrite ?Es, ?Ed; reflexivity).
  Qed.
End V6.

Section V6list.
  Variable H : bytes -> bytes.
  Theorem v6_ok addr us : Forall (wf_utxo H OgmiosV6) us ->
    exists outs, parse_v6 (render_v6 addr us) = Ok outs /\ Forall2 (faithful OgmiosV6 addr) us outs.
  Proof.
    intros Hw. unfold parse_v6, render_v6. cbn [sv_main]. cbn -[mapM map].
    destruct us as [|u r]; [exists []; split; [reflexivity | constructor]|].
    cbn [map]. change (v6_entry addr u :: map (v6_entry addr) r) with (map (v6_entry addr) (u :: r)).
    apply mapM_Forall2. eapply Forall_impl; [|exact Hw]. intros u' Hu. now apply (v6_entry_ok H).
  Qed.
End V6list.

(* ---------- cardano-cli ---------- *)
Lemma uint_digits d c : (N_of_ascii c <? 48)%N = true -> has_char c (NilEmpty.string_of_uint d) = false.
Proof.
  intros Hc. induction d; cbn [NilEmpty.string_of_uint has_char]; [reflexivity | ..]; rewrite IHd, orb_false_r;
    (destruct (Ascii.eqb _ c) eqn:E; [apply Ascii.eqb_eq in E; subst c; discriminate Hc | reflexivity]).
Qed.
Lemma dec_no_hash n : has_char "#" (dec_of_N n) = false.
Proof.
  unfold dec_of_N, NilZero.string_of_uint. destruct (N.to_uint n) eqn:E; try (rewrite <- E; apply uint_digits; reflexivity).
  reflexivity.
Qed.

Lemma txref_split u : split_on "#" (txref u) = [hexs (u_txid u); dec_of_N (u_index u)].
Proof.
  unfold txref. rewrite split_on_app by (now apply hexs_no_char). now rewrite split_on_none by apply dec_no_hash.
Qed.

Lemma cli_policy_ok c m pl : wf_group pl ->
  cli_value_step (c, m) (hexs (fst pl), JObj (map name_entry (snd pl))) = Ok (c, fold_left ins (group_entries pl) m).
Proof.
  intros (Hp & Hne & Hn). unfold cli_value_step. cbn [fst snd].
  rewrite (hexs28_neq (fst pl) "lovelace") by (assumption || (cbn; lia)).
  rewrite hash_of_hex_str by assumption. cbn [bind]. unfold group_entries.
  rewrite (names_fold cli_names_step); [reflexivity | reflexivity | assumption].
Qed.

Lemma cli_value_ok lov a : wf_assets a ->
  foldM cli_value_step (nested_assets a ++ [("lovelace", jN lov)]) (0%Z, []) = Ok (Z.of_N lov, assets_of_flat (flatten a)).
Proof.
  intros Hw. pose proof (wf_groups a Hw) as Hg. rewrite foldM_app.
  assert (G : forall l c m, Forall wf_group l ->
            foldM cli_value_step (nested_assets l) (c, m) = Ok (c, fold_left (fun m pl => fold_left ins (group_entries pl) m) l m)).
  { induction l as [|pl r IH]; intros c m Hl; [reflexivity|]. inversion Hl; subst.
    unfold nested_assets. cbn [map]. rewrite foldM_cons.
    change (map (fun nq : bytes * N => (hexs (fst nq), jN (snd nq))) (snd pl)) with (map name_entry (snd pl)).
    rewrite cli_policy_ok by assumption. cbn [bind fold_left]. now apply IH. }
  rewrite G by assumption. cbn [bind]. rewrite foldM_cons. unfold cli_value_step. cbn [fst snd].
  change ("lovelace" =? "lovelace")%string with true. cbn. unfold assets_of_flat. now rewrite flatten_groups.
Qed.

#[local] Arguments cli_value_step : simpl never.
#[local] Arguments txref : simpl never.
#[local] Arguments split_on : simpl never.

Section CLI.
  Variable H : bytes -> bytes.
  Theorem cli_entry_ok addr u : wf_utxo H Cli u ->
    exists o, parse_cli_entry (cli_entry addr u) = Ok o /\ faithful Cli addr u o.
  Proof.
    intros (Htx & Hwa & Hperm & Hd & Hsup & Hsc).
    unfold parse_cli_entry, cli_entry. cbn [fst snd]. rewrite txref_split. cbn [bind fst snd].
    rewrite hash_of_hex_str by assumption. cbn [bind]. rewrite int_of_str_dec. cbn [bind].
    destruct (u_script u) as [[v body|ns]|] eqn:Es; [| discriminate Hsup |].
    - assert (Hv : (v = 1 \/ v = 2)%N).
      { cbn in Hsup. apply orb_true_iff in Hsup as [Hv|Hv]; apply N.eqb_eq in Hv; auto. }
      destruct Hsc as [Hlen _].
      destruct (u_datum u) as [|h known|h raw pd] eqn:Ed; destruct Hv as [-> | ->]; cbn; vd; cbn;
        rewrite cli_value_ok by assumption; cbn;
        try (destruct Hd as [Hh Hd]); try (destruct Hd as (Hraw & Hneq & Hpd)); try rewrite (hexs_nonempty h) by (now apply nonnil32); cbn;
        rewrite ?hash_of_hex_str, ?hash_of_hex_hexs by assumption; cbn;
        rewrite ?plutus_from_dict_rt by assumption; cbn;
        rewrite from_hex_hexs; cbn; rewrite cbor_loads_enc by assumption; cbn;
        (eexists; split; [reflexivity|]);
        (apply faithful_intro; try assumption; try reflexivity; try (now right); rewrite ?Es, ?Ed; reflexivity).
    - destruct (u_datum u) as [|h known|h raw pd] eqn:Ed; cbn;
        rewrite cli_value_ok by assumption; cbn;
        try (destruct Hd as [Hh Hd]); try (destruct Hd as (Hraw & Hneq & Hpd)); try rewrite (hexs_nonempty h) by (now apply nonnil32); cbn;
        rewrite ?hash_of_hex_str, ?hash_of_hex_hexs by assumption; cbn;
        rewrite ?plutus_from_dict_rt by assumption; cbn;
        (eexists; split; [reflexivity|]);
        (apply faithful_intro; try assumption; try reflexivity; try (now right); rewrite ?Es, ?Ed; reflexivity).
  Qed.

  Theorem cli_ok addr us : Forall (wf_utxo H Cli) us ->
    exists outs, parse_cli (render_cli addr us) = Ok outs /\ Forall2 (faithful Cli addr) us outs.
  Proof.
    intros Hw. unfold parse_cli, render_cli. cbn [sv_main].
    apply mapM_Forall2. eapply Forall_impl; [|exact Hw]. intros u Hu. now apply cli_entry_ok.
  Qed.
End CLI.

#[local] Arguments http_get : simpl never.
#[local] Arguments api_get : simpl never.
#[local] Arguments kupo_get_datum : simpl never.

Section KUPO.
  Variable H : bytes -> bytes.

  Lemma found1 tbl k d : found tbl [(k, d)] -> jget k tbl = Some d.
  Proof. intros Hf. now inversion Hf. Qed.

  Lemma hexs_neq a b : a <> b -> String.eqb (hexs a) (hexs b) = false.
  Proof.
    intros Hn. destruct (String.eqb (hexs a) (hexs b)) eqn:E; [|reflexivity].
    apply String.eqb_eq, hexs_inj in E. contradiction.
  Qed.

  Lemma kupo_datum_ok sv u : wf_datum Kupo (u_datum u) -> found (sv_datum sv) (kupo_datum_docs u) ->
    match u_datum u with
    | DNone => True
    | DHash h known => kupo_get_datum sv (hexs h) = Ok (snd (datum_report Kupo (u_datum u)))
    | DInline h raw pd => kupo_get_datum sv (hexs h) = Ok (snd (datum_report Kupo (u_datum u)))
    end.
  Proof.
    intros Hd Fd. unfold kupo_datum_docs in Fd. destruct (u_datum u) as [|h [pre|]|h raw pd]; [exact I | | |];
      apply found1 in Fd; unfold kupo_get_datum, http_get; rewrite Fd; cbn.
    - destruct Hd as [_ Hn]. rewrite hexs_neq by congruence. cbn. now rewrite from_hex_hexs.
    - reflexivity.
    - destruct Hd as (_ & _ & Hn & _). rewrite hexs_neq by assumption. cbn. now rewrite from_hex_hexs.
  Qed.

  Theorem kupo_entry_ok sv addr u : wf_utxo H Kupo u ->
    found (sv_script sv) (kupo_script_docs u) -> found (sv_datum sv) (kupo_datum_docs u) ->
    exists o, parse_kupo_entry H sv addr (kupo_entry addr u) = Ok (Some o) /\ faithful Kupo addr u o.
  Proof.
    intros (Htx & Hwa & Hperm & Hd & Hsup & Hsc) Fs Fd.
    pose proof (sized_flat _ _ Hwa Hperm) as Hsz.
    pose proof (kupo_datum_ok sv u Hd Fd) as Hkd.
    unfold parse_kupo_entry, kupo_entry.
    destruct (u_script u) as [[v body|ns]|] eqn:Es; [| discriminate Hsup |].
    - pose proof (supported_plutus _ _ _ Hsup) as Hv.
      destruct Hsc as (Hlen & Hshl & Hsh & Hwr).
      unfold kupo_script_docs in Fs. rewrite Es in Fs. apply found1 in Fs.
      pose proof (served_body_cases H u v body Es Hlen Hwr) as Hserved.
      destruct (u_datum u) as [|h known|h raw pd] eqn:Ed;
        destruct Hv as [-> | [-> | ->]]; cbn; rewrite hash_of_hex_hexs by assumption; cbn;
          rewrite (hexs_nonempty (u_script_hash u)) by (now apply nonnil28); cbn;
          unfold http_get; rewrite Fs; cbn; vd; cbn; rewrite from_hex_hexs; cbn; vd; cbn;
          rewrite (try_fix_ok H _ _ body) by (assumption || (now rewrite Hsh)); cbn;
          try (destruct Hd as [Hh Hd]); try rewrite (hexs_nonempty h) by (now apply nonnil32); cbn;
          rewrite ?hash_of_hex_str, ?hash_of_hex_hexs by assumption; cbn; rewrite ?Hkd; cbn;
          rewrite dotted_parse_ok by assumption; cbn;
          (eexists; split; [reflexivity|]);
          (apply faithful_intro; try assumption; try reflexivity; try (now left); rewrite ?Es, ?Ed; try reflexivity;
           cbn [datum_report]; destruct known; reflexivity).
    - destruct (u_datum u) as [|h known|h raw pd] eqn:Ed;
          cbn; rewrite hash_of_hex_hexs by assumption; cbn;
          try (destruct Hd as [Hh Hd]); try rewrite (hexs_nonempty h) by (now apply nonnil32); cbn;
          rewrite ?hash_of_hex_str, ?hash_of_hex_hexs by assumption; cbn; rewrite ?Hkd; cbn;
          rewrite dotted_parse_ok by assumption; cbn;
          (eexists; split; [reflexivity|]);
          (apply faithful_intro; try assumption; try reflexivity; try (now left); rewrite ?Es, ?Ed; try reflexivity;
           cbn [datum_report]; destruct known; reflexivity).
  Qed.
End KUPO.

#[local] Arguments bf_get_script : simpl never.
#[local] Arguments bf_amount_step : simpl never.

Section BF.
  Variable H : bytes -> bytes.

  Lemma bf_script_ok sv u : wf_script H Blockfrost u ->
    found (sv_script sv) (bf_script_docs u) -> found (sv_script_cbor sv) (bf_cbor_docs u) ->
    found (sv_script_json sv) (bf_json_docs u) ->
    match u_script u with
    | None => True
    | Some s => bf_get_script H sv (hexs (u_script_hash u)) = Ok s
    end.
  Proof.
    intros [Hsup Hsc] F1 F2 F3. unfold bf_script_docs in F1. unfold bf_cbor_docs in F2. unfold bf_json_docs in F3.
    destruct (u_script u) as [[v body|ns]|] eqn:Es; [| | exact I].
    - pose proof (supported_plutus _ _ _ Hsup) as Hv. destruct Hsc as (Hlen & Hshl & Hsh & Hwr).
      apply found1 in F1, F2.
      pose proof (served_body_cases H u v body Es Hlen Hwr) as Hserved.
      destruct Hv as [-> | [-> | ->]]; vd;
        unfold bf_get_script, api_get; rewrite F1; cbn; rewrite F2; cbn; rewrite from_hex_hexs; cbn;
        (apply try_fix_ok; [now rewrite Hsh | assumption]).
    - destruct Hsc as [Hns _]. apply found1 in F1, F3.
      unfold bf_get_script, api_get. rewrite F1. cbn. rewrite F3. cbn.
      rewrite native_from_dict_rt by assumption. reflexivity.
  Qed.

  Theorem bf_entry_ok sv addr u : wf_utxo H Blockfrost u ->
    found (sv_script sv) (bf_script_docs u) -> found (sv_script_cbor sv) (bf_cbor_docs u) ->
    found (sv_script_json sv) (bf_json_docs u) ->
    exists o, parse_bf_entry H sv addr (bf_entry addr u) = Ok o /\ faithful Blockfrost addr u o.
  Proof.
    intros (Htx & Hwa & Hperm & Hd & Hsc) F1 F2 F3.
    pose proof (sized_flat _ _ Hwa Hperm) as Hsz.
    pose proof (bf_script_ok sv u Hsc F1 F2 F3) as Hgs.
    pose proof (bf_amount_ok (u_lovelace u) (u_flat u) Hsz) as Ham. unfold bf_item in Ham.
    unfold parse_bf_entry, bf_entry. cbn.
    rewrite hash_of_hex_hexs by assumption. cbn. rewrite Ham. cbn.
    assert (Hshn : forall s, u_script u = Some s -> String.eqb (hexs (u_script_hash u)) "" = false).
    { intros s Es. apply hexs_nonempty, nonnil28. destruct Hsc as [_ Hsc]. rewrite Es in Hsc.
      destruct s; [apply Hsc | apply Hsc]. }
    destruct (u_script u) as [s|] eqn:Es; destruct (u_datum u) as [|h known|h raw pd] eqn:Ed; cbn;
      try rewrite (Hshn s eq_refl); cbn; rewrite ?Hgs; cbn;
      try (destruct Hd as [Hh Hd]); try rewrite (hexs_nonempty h) by (now apply nonnil32); cbn;
      rewrite ?hash_of_hex_str, ?hash_of_hex_hexs by assumption; cbn; rewrite ?from_hex_hexs; cbn;
      (eexists; split; [reflexivity|]);
      (apply faithful_intro; try assumption; try reflexivity; try (now left); rewrite ?Es, ?Ed; reflexivity).
  Qed.
End BF.

(* ================================================================ whole responses *)
Lemma jget_in_nodup k d (tbl : list (string * json)) : NoDup (map fst tbl) -> In (k, d) tbl -> jget k tbl = Some d.
Proof.
  induction tbl as [|[k' d'] r IH]; intros Hnd Hin; [contradiction|].
  inversion Hnd as [|? ? Hx Hr]; subst. cbn [jget]. destruct Hin as [E|Hin].
  - inversion E; subst. now rewrite String.eqb_refl.
  - destruct (String.eqb k' k) eqn:E; [|now apply IH].
    apply String.eqb_eq in E. subst. exfalso. apply Hx. change k with (fst (k, d)). now apply in_map.
Qed.

(* every UTxO's auxiliary documents (script, datum endpoints) are the ones found under its hash *)
Definition aux_ok (x : svc) (addr : string) (us : list utxo_model) : Prop :=
  let sv := render x addr us in
  match x with
  | Blockfrost => Forall (fun u => found (sv_script sv) (bf_script_docs u) /\ found (sv_script_cbor sv) (bf_cbor_docs u) /\
                                  found (sv_script_json sv) (bf_json_docs u)) us
  | Kupo => Forall (fun u => found (sv_script sv) (kupo_script_docs u) /\ found (sv_datum sv) (kupo_datum_docs u)) us
  | _ => True
  end.

Lemma found_flat_map (docs : utxo_model -> list (string * json)) us :
  NoDup (map fst (flat_map docs us)) -> Forall (fun u => found (flat_map docs us) (docs u)) us.
Proof.
  intros Hnd. apply Forall_forall. intros u Hu. apply Forall_forall. intros [k d] Hkd.
  apply jget_in_nodup; [assumption|]. apply in_flat_map. now exists u.
Qed.

(* sufficient: distinct hashes across the response (always true for a single UTxO) *)
Lemma aux_ok_nodup x addr us :
  match x with
  | Blockfrost => NoDup (map fst (flat_map bf_script_docs us)) /\ NoDup (map fst (flat_map bf_cbor_docs us)) /\
                  NoDup (map fst (flat_map bf_json_docs us))
  | Kupo => NoDup (map fst (flat_map kupo_script_docs us)) /\ NoDup (map fst (flat_map kupo_datum_docs us))
  | _ => True
  end -> aux_ok x addr us.
Proof.
  unfold aux_ok. destruct x; try (intros _; exact I).
  - intros (N1 & N2 & N3). cbn [render render_blockfrost sv_script sv_script_cbor sv_script_json].
    pose proof (found_flat_map _ _ N1) as F1. pose proof (found_flat_map _ _ N2) as F2. pose proof (found_flat_map _ _ N3) as F3.
    rewrite Forall_forall in *. intros u Hu. auto.
  - intros (N1 & N2). cbn [render render_kupo sv_script sv_datum].
    pose proof (found_flat_map _ _ N1) as F1. pose proof (found_flat_map _ _ N2) as F2.
    rewrite Forall_forall in *. intros u Hu. auto.
Qed.

Lemma nodup_le1 {A} (l : list A) : (length l <= 1)%nat -> NoDup l.
Proof. destruct l as [|a [|b r]]; cbn; intros Hl; [constructor | constructor; [intros []|constructor] | lia]. Qed.

Lemma aux_ok_single x addr u : aux_ok x addr [u].
Proof.
  apply aux_ok_nodup. destruct x; try exact I; cbn [flat_map]; rewrite !app_nil_r.
  - unfold bf_script_docs, bf_cbor_docs, bf_json_docs. destruct (u_script u) as [[v b|ns]|]; repeat split; apply nodup_le1; cbn; lia.
  - unfold kupo_script_docs, kupo_datum_docs. destruct (u_script u) as [[v b|ns]|]; destruct (u_datum u) as [|h [pre|]|h raw pd];
      split; apply nodup_le1; cbn; lia.
Qed.

Lemma somes_map_some {A} (l : list A) : somes (map Some l) = l.
Proof. induction l as [|a r IH]; [reflexivity|]. unfold somes in *. cbn [map flat_map app]. now rewrite IH. Qed.

Section ALL.
  Variable H : bytes -> bytes.

  Theorem bf_ok addr us : Forall (wf_utxo H Blockfrost) us -> aux_ok Blockfrost addr us ->
    exists outs, parse_blockfrost H addr (render_blockfrost addr us) = Ok outs /\ Forall2 (faithful Blockfrost addr) us outs.
  Proof.
    intros Hw Ha. unfold aux_ok in Ha. cbv zeta in Ha. cbn [render] in Ha.
    unfold parse_blockfrost. cbn [render_blockfrost sv_main].
    apply mapM_Forall2. rewrite Forall_forall in *. intros u Hu. destruct (Ha u Hu) as (F1 & F2 & F3).
    apply bf_entry_ok; auto.
  Qed.

  Theorem kupo_ok addr us : Forall (wf_utxo H Kupo) us -> aux_ok Kupo addr us ->
    exists outs, parse_kupo H addr (render_kupo addr us) = Ok outs /\ Forall2 (faithful Kupo addr) us outs.
  Proof.
    intros Hw Ha. unfold aux_ok in Ha. cbv zeta in Ha. cbn [render] in Ha.
    unfold parse_kupo. cbn [render_kupo sv_main].
    destruct (mapM_Forall2 (parse_kupo_entry H (render_kupo addr us) addr) (kupo_entry addr)
                (fun u b => exists o, b = Some o /\ faithful Kupo addr u o) us) as (bs & Hbs & Rbs).
    { rewrite Forall_forall in *. intros u Hu. destruct (Ha u Hu) as (F1 & F2).
      destruct (kupo_entry_ok H (render_kupo addr us) addr u (Hw u Hu) F1 F2) as (o & Ho & Fo).
      exists (Some o). split; [assumption | now exists o]. }
    unfold render_kupo in Hbs. cbn [sv_main] in *. unfold render_kupo. rewrite Hbs. cbn [bind].
    assert (G : exists outs, bs = map Some outs /\ Forall2 (faithful Kupo addr) us outs).
    { clear Hbs Hw Ha. induction Rbs as [|u b us' bs' Hub Hr IH].
      - exists []. split; [reflexivity | constructor].
      - destruct Hub as (o & Eb & Fo). destruct IH as (outs & Ebs & IH). subst b bs'.
        exists (o :: outs). split; [reflexivity | now constructor]. }
    destruct G as (outs & -> & Hf). exists outs. now rewrite somes_map_some.
  Qed.

  (* THE theorem: for every service, every response rendered from well-formed UTxO models is parsed into exactly one
     faithful UTxO per model, in order *)
  Theorem adapters_faithful x addr us : Forall (wf_utxo H x) us -> aux_ok x addr us ->
    exists outs, parse H x addr (render x addr us) = Ok outs /\ Forall2 (faithful x addr) us outs.
  Proof.
    destruct x; intros Hw Ha; cbn [parse render].
    - now apply bf_ok.
    - now apply (v5_ok H).
    - now apply (v6_ok H).
    - now apply kupo_ok.
    - now apply (cli_ok H).
  Qed.

  Corollary adapter_faithful_one x addr u : wf_utxo H x u ->
    exists o, parse H x addr (render x addr [u]) = Ok [o] /\ faithful x addr u o.
  Proof.
    intros Hw. destruct (adapters_faithful x addr [u]) as (outs & Ho & Hf); [now constructor | apply aux_ok_single |].
    inversion Hf as [|? o ? outs' Fo Hr]; subst. inversion Hr; subst. now exists o.
  Qed.
End ALL.


(* ================================================================ the known finding: unsupported reference scripts *)
Definition u_native : utxo_model :=
  mkU (repeat xab 32) 0 1000000 [] [] DNone (Some (SNative (NSig (repeat xaa 28)))) (repeat xee 28) false.
Definition u_plutus_v3 : utxo_model :=
  mkU (repeat xab 32) 0 1000000 [] [] DNone (Some (SPlutus 3 [x4d; x01; x00])) (repeat xee 28) false.

(* outside script_supported the adapters raise for the whole query (the UTxO is not reported at all), although
   everything else about the UTxO is well formed *)
Lemma script_unsupported_refuted :
  let H := fun _ : bytes => repeat xee 28 in
  (wf_assets (u_assets u_native) /\ length (u_txid u_native) = 32%nat /\ wf_datum Cli (u_datum u_native)) /\
  script_supported OgmiosV5 (u_script u_native) = false /\
  parse H OgmiosV5 "addr" (render OgmiosV5 "addr" [u_native]) = Err "ValueError" /\
  parse H OgmiosV6 "addr" (render OgmiosV6 "addr" [u_native]) = Err "ValueError" /\
  parse H Kupo "addr" (render Kupo "addr" [u_native]) = Err "ValueError" /\
  parse H Cli "addr" (render Cli "addr" [u_native]) = Err "KeyError" /\
  script_supported Cli (u_script u_plutus_v3) = false /\
  parse H Cli "addr" (render Cli "addr" [u_plutus_v3]) = Err "KeyError".
Proof.
  cbv zeta. split; [|vm_compute; repeat split; reflexivity].
  split; [split; [constructor | constructor] | split; [reflexivity | exact I]].
Qed.

(* ================================================================ non-vacuity *)
Definition p1 : bytes := repeat x11 28.
Definition p2 : bytes := repeat x22 28.
Definition u_example : utxo_model :=
  mkU (repeat xab 32) 1 42000000
      [(p1, [([], 18446744073709551617%N); ([x6e], 12%N)]); (p2, [([], 5%N)])]
      [(p2, [], 5%N); (p1, [x6e], 12%N); (p1, [], 18446744073709551617%N)]
      (DInline (repeat xdd 32) [xd8; x79; x80] (PConstr 0 []))
      (Some (SPlutus 2 [x4d; x01; x00])) (repeat xee 28) false.

Example wf_example x : wf_utxo (fun _ => repeat xee 28) x u_example.
Proof.
  unfold wf_utxo, u_example. cbn [u_txid u_assets u_flat u_datum u_script].
  split; [reflexivity|]. split; [|split; [|split]].
  - split.
    + cbn. constructor; [intros [E|[]]; discriminate E | constructor; [intros [] | constructor]].
    + repeat constructor; cbn; try lia; try discriminate; try (intros [E|[]]; discriminate E); try (intros []).
  - exact (Permutation_rev (flatten [(p1, [([], 18446744073709551617%N); ([x6e], 12%N)]); (p2, [([], 5%N)])])).
  - cbn. repeat split; try discriminate; destruct x; try exact I. cbn. split; [lia | exact I].
  - unfold wf_script. cbn [u_script u_script_hash u_script_wrapped]. split; [destruct x; reflexivity|].
    split; [reflexivity|]. destruct x; try exact I; (split; [reflexivity | split; [reflexivity | discriminate]]).
Qed.

(* and the theorem's conclusion, computed, on that example *)
Example example_v6 :
  parse (fun _ => repeat xee 28) OgmiosV6 "addr_test1xyz" (render OgmiosV6 "addr_test1xyz" [u_example])
  = Ok [mkA (repeat xab 32) 1 "addr_test1xyz" 42000000
            [(p1, [([], 18446744073709551617%Z); ([x6e], 12%Z)]); (p2, [([], 5%Z)])]
            None (Some (ARaw [xd8; x79; x80])) (Some (SPlutus 2 [x4d; x01; x00]))].
Proof. vm_compute. reflexivity. Qed.
Example example_blockfrost_order :
  parse (fun _ => repeat xee 28) Blockfrost "addr_test1xyz" (render Blockfrost "addr_test1xyz" [u_example])
  = Ok [mkA (repeat xab 32) 1 "addr_test1xyz" 42000000
            [(p2, [([], 5%Z)]); (p1, [([x6e], 12%Z); ([], 18446744073709551617%Z)])]
            None (Some (ARaw [xd8; x79; x80])) (Some (SPlutus 2 [x4d; x01; x00]))].
Proof. vm_compute. reflexivity. Qed.

(* ================================================================ the known finding: Plutus maps as Python dicts (cardano-cli) *)
Definition u_map_constr_key : utxo_model :=
  mkU (repeat xab 32) 0 1000000 [] []
      (DInline (repeat xcc 32) [xa1; xd8; x79; x80; x01] (PMap [(PConstr 0 [], PInt 1)])) None [] false.
Definition u_map_dup_key : utxo_model :=
  mkU (repeat xab 32) 0 1000000 [] []
      (DInline (repeat xcc 32) [xa2; x01; x01; x01; x02] (PMap [(PInt 1, PInt 1); (PInt 1, PInt 2)])) None [] false.

(* outside wf_pdata (map keys that are not ints/bytes, or repeated keys) the cardano-cli adapter raises for the whole
   query, or silently reports a different datum value (the last duplicate wins) *)
Lemma cli_datum_map_key_refuted :
  let H := fun _ : bytes => repeat xee 28 in
  parse H Cli "addr" (render Cli "addr" [u_map_constr_key]) = Err "TypeError" /\
  (exists o, parse H Cli "addr" (render Cli "addr" [u_map_dup_key]) = Ok [o] /\
             a_datum o = Some (AData (YDict [(YInt 1, YInt 2)])) /\
             pdata_of_pyd (YDict [(YInt 1, YInt 2)]) = Some (PMap [(PInt 1, PInt 2)]) /\
             PMap [(PInt 1, PInt 2)] <> PMap [(PInt 1, PInt 1); (PInt 1, PInt 2)]).
Proof.
  cbv zeta. split; [vm_compute; reflexivity|].
  eexists. split; [vm_compute; reflexivity|]. split; [reflexivity|]. split; [reflexivity | discriminate].
Qed.

(* non-vacuity of the wrapped-script premises: a hash that tells the plain from the CBOR-wrapped bytes *)
Definition H_prefix (b : bytes) : bytes := firstn 28 (b ++ repeat x00 28).
Definition u_wrapped : utxo_model :=
  mkU (repeat xab 32) 0 1000000 [] [] (DHash (repeat xdd 32) (Some [x01])) (Some (SPlutus 2 [x4d; x01; x00]))
      (H_prefix [x02; x4d; x01; x00]) true.
Example wf_example_wrapped : wf_utxo H_prefix Kupo u_wrapped /\ wf_utxo H_prefix Blockfrost u_wrapped.
Proof.
  assert (G : forall x, (x = Kupo \/ x = Blockfrost) -> wf_utxo H_prefix x u_wrapped).
  { intros x Hx. unfold wf_utxo, u_wrapped. cbn [u_txid u_assets u_flat u_datum u_script].
    split; [reflexivity|]. split; [split; constructor|]. split; [constructor|].
    split; [split; [reflexivity | discriminate]|].
    unfold wf_script. cbn [u_script u_script_hash u_script_wrapped].
    split; [destruct Hx as [-> | ->]; reflexivity|]. split; [reflexivity|].
    destruct Hx as [-> | ->]; (split; [reflexivity | split; [reflexivity | intros _; vm_compute; discriminate]]). }
  split; apply G; auto.
Qed.
Example example_wrapped_kupo :
  parse H_prefix Kupo "addr" (render Kupo "addr" [u_wrapped])
  = Ok [mkA (repeat xab 32) 0 "addr" 1000000 [] (Some (repeat xdd 32)) (Some (ARaw [x01])) (Some (SPlutus 2 [x4d; x01; x00]))].
Proof. vm_compute. reflexivity. Qed.
