(* AdaptersProofs.v — proofs for C20 (models and statements' vocabulary are in Adapters.v). *)
From Coq Require Import NArith ZArith Ascii String List Bool Lia Permutation.
From Coq Require Import Init.Byte.
From PyC Require Import Base Cbor CborProofs Dict Value Json Adapters.
Import ListNotations.
Open Scope string_scope.
Open Scope list_scope.

(* ================================================================ generic *)
Lemma bind_ok {A B} (r : result A) (f : A -> result B) a : r = Ok a -> bind r f = f a.
Proof. now intros ->. Qed.

Lemma foldM_app {A S} (f : S -> A -> result S) l1 l2 s :
  foldM f (l1 ++ l2) s = bind (foldM f l1 s) (foldM f l2).
Proof.
  revert s. induction l1 as [|x r IH]; intros s; cbn; [reflexivity|].
  destruct (f s x); cbn; [apply IH | reflexivity].
Qed.

(* a monadic fold whose every step succeeds as a pure step is the pure fold *)
Lemma foldM_pure {A B S} (f : S -> A -> result S) (g : S -> B -> S) (h : B -> A) (P : B -> Prop) l :
  (forall s b, P b -> f s (h b) = Ok (g s b)) -> Forall P l ->
  forall s, foldM f (map h l) s = Ok (fold_left g l s).
Proof.
  intros Hs HP. induction HP as [|b r Hb Hr IH]; intros s; cbn; [reflexivity|].
  rewrite (Hs s b Hb). cbn. apply IH.
Qed.

Lemma mapM_Forall2 {A B C} (f : A -> result B) (g : C -> A) (R : C -> B -> Prop) l :
  Forall (fun c => exists b, f (g c) = Ok b /\ R c b) l ->
  exists bs, mapM f (map g l) = Ok bs /\ Forall2 R l bs.
Proof.
  induction 1 as [|c r (b & Hb & Rb) Hr (bs & Hbs & Rbs)]; cbn.
  - exists []. split; [reflexivity | constructor].
  - exists (b :: bs). rewrite Hb. cbn. rewrite Hbs. cbn. split; [reflexivity | now constructor].
Qed.

Lemma fold_left_flat_map {A B S} (f : S -> B -> S) (g : A -> list B) l :
  forall s, fold_left f (flat_map g l) s = fold_left (fun s a => fold_left f (g a) s) l s.
Proof.
  induction l as [|a r IH]; intros s; cbn; [reflexivity|]. now rewrite fold_left_app, IH.
Qed.

Lemma NoDup_app_intro {A} (l1 l2 : list A) :
  NoDup l1 -> NoDup l2 -> (forall x, In x l1 -> ~ In x l2) -> NoDup (l1 ++ l2).
Proof.
  induction 1 as [|x r Hx Hr IH]; intros H2 Hd; cbn; [assumption|].
  constructor.
  - intros Hin. apply in_app_or in Hin as [Hin|Hin]; [contradiction|]. apply (Hd x); [now left | assumption].
  - apply IH; [assumption|]. intros y Hy. apply Hd. now right.
Qed.

Lemma string_eqb_neq_length a b : String.length a <> String.length b -> String.eqb a b = false.
Proof.
  intros Hl. destruct (String.eqb a b) eqn:E; [|reflexivity]. apply String.eqb_eq in E. now subst.
Qed.

Lemma string_length_app a b : String.length (a ++ b)%string = (String.length a + String.length b)%nat.
Proof. induction a as [|c r IH]; cbn; [reflexivity|]. now rewrite IH. Qed.

(* ================================================================ nested inductions *)
Section NsInd.
  Variable P : nscript -> Prop.
  Hypothesis HSig : forall kh, P (NSig kh).
  Hypothesis HAll : forall l, Forall P l -> P (NAll l).
  Hypothesis HAny : forall l, Forall P l -> P (NAny l).
  Hypothesis HAtLeast : forall n l, Forall P l -> P (NAtLeast n l).
  Hypothesis HAfter : forall s, P (NAfter s).
  Hypothesis HBefore : forall s, P (NBefore s).
  Fixpoint nscript_ind' (s : nscript) : P s :=
    let go := fix go (l : list nscript) : Forall P l :=
      match l with [] => Forall_nil P | x :: r => Forall_cons x (nscript_ind' x) (go r) end in
    match s with
    | NSig kh => HSig kh
    | NAll l => HAll l (go l)
    | NAny l => HAny l (go l)
    | NAtLeast n l => HAtLeast n l (go l)
    | NAfter s => HAfter s
    | NBefore s => HBefore s
    end.
End NsInd.

Section PdInd.
  Variable P : pdata -> Prop.
  Hypothesis HC : forall c fs, Forall P fs -> P (PConstr c fs).
  Hypothesis HM : forall kvs, Forall (fun kv => P (fst kv) /\ P (snd kv)) kvs -> P (PMap kvs).
  Hypothesis HL : forall l, Forall P l -> P (PList l).
  Hypothesis HI : forall z, P (PInt z).
  Hypothesis HB : forall b, P (PBytes b).
  Fixpoint pdata_ind' (d : pdata) : P d :=
    let go := fix go (l : list pdata) : Forall P l :=
      match l with [] => Forall_nil P | x :: r => Forall_cons x (pdata_ind' x) (go r) end in
    match d with
    | PConstr c fs => HC c fs (go fs)
    | PMap kvs => HM kvs ((fix gop (l : list (pdata * pdata)) : Forall (fun kv => P (fst kv) /\ P (snd kv)) l :=
                             match l with
                             | [] => Forall_nil _
                             | kv :: r => Forall_cons kv (conj (pdata_ind' (fst kv)) (pdata_ind' (snd kv))) (gop r)
                             end) kvs)
    | PList l => HL l (go l)
    | PInt z => HI z
    | PBytes b => HB b
    end.
End PdInd.

Lemma wf_ns_all l :
  (fix all (l : list nscript) : Prop := match l with [] => True | x :: r => wf_nscript x /\ all r end) l <-> Forall wf_nscript l.
Proof.
  induction l as [|x r IH]; [split; intros _; [constructor | exact I]|].
  split; intros Hx.
  - destruct Hx as [Hx Hr]. constructor; [exact Hx | now apply IH].
  - inversion Hx; subst. split; [assumption | now apply IH].
Qed.
Lemma wf_pd_all l :
  (fix all (l : list pdata) : Prop := match l with [] => True | x :: r => wf_pdata x /\ all r end) l <-> Forall wf_pdata l.
Proof.
  induction l as [|x r IH]; [split; intros _; [constructor | exact I]|].
  split; intros Hx.
  - destruct Hx as [Hx Hr]. constructor; [exact Hx | now apply IH].
  - inversion Hx; subst. split; [assumption | now apply IH].
Qed.
Lemma wf_pd_allp l :
  (fix all (l : list (pdata * pdata)) : Prop :=
     match l with [] => True | kv :: r => (wf_pdata (fst kv) /\ wf_pdata (snd kv)) /\ all r end) l
  <-> Forall (fun kv => wf_pdata (fst kv) /\ wf_pdata (snd kv)) l.
Proof.
  induction l as [|x r IH]; [split; intros _; [constructor | exact I]|].
  split; intros Hx.
  - destruct Hx as [Hx Hr]. constructor; [exact Hx | now apply IH].
  - inversion Hx; subst. split; [assumption | now apply IH].
Qed.

(* depth of a document (fuel of the two recursive readers) *)
Definition jdepth_list (l : list json) : nat := fold_right (fun x acc => Nat.max (jdepth x) acc) O l.
Lemma jdepth_arr l : jdepth (JArr l) = S (jdepth_list l).
Proof. cbn [jdepth]. f_equal. induction l as [|x r IH]; cbn; [reflexivity|]. now rewrite IH. Qed.
Lemma jdepth_obj kvs : jdepth (JObj kvs) = S (jdepth_list (map snd kvs)).
Proof. cbn [jdepth]. f_equal. induction kvs as [|x r IH]; cbn; [reflexivity|]. now rewrite IH. Qed.
Lemma jdepth_list_in x l : In x l -> (jdepth x <= jdepth_list l)%nat.
Proof.
  induction l as [|y r IH]; cbn; [tauto|]. intros [->|Hin]; [lia|]. specialize (IH Hin). lia.
Qed.

Lemma mapM_id {A B} (f : A -> result B) (g : B -> A) l :
  Forall (fun x => f (g x) = Ok x) l -> mapM f (map g l) = Ok l.
Proof. induction 1 as [|x r Hx Hr IH]; cbn; [reflexivity|]. now rewrite Hx, IH. Qed.
Lemma mapM_map_ok {A B C} (f : A -> result B) (g : C -> A) (h : C -> B) l :
  Forall (fun x => f (g x) = Ok (h x)) l -> mapM f (map g l) = Ok (map h l).
Proof. induction 1 as [|x r Hx Hr IH]; cbn; [reflexivity|]. now rewrite Hx, IH. Qed.

(* ================================================================ hexadecimal, decimal, splitting *)
Lemma hexs_inj a b : hexs a = hexs b -> a = b.
Proof. intros E. pose proof (unhex_hexs a) as Ha. rewrite E, unhex_hexs in Ha. now inversion Ha. Qed.

Section WithHash.
  Variable H : bytes -> bytes.

  Lemma from_hex_hexs b : from_hex (hexs b) = Ok b.
  Proof. unfold from_hex. now rewrite unhex_hexs. Qed.

  Lemma sized_ok lo hi b : (lo <= length b <= hi)%nat -> sized lo hi b = Ok b.
  Proof.
    intros [H1 H2]. unfold sized.
    apply Nat.leb_le in H1, H2. unfold bytes in *. now rewrite H1, H2.
  Qed.

  Lemma hash_of_hex_hexs k b : length b = k -> hash_of_hex k (jhex b) = Ok b.
  Proof.
    intros Hl. unfold hash_of_hex, jhex. cbn [as_str bind]. rewrite from_hex_hexs. cbn [bind].
    apply sized_ok. lia.
  Qed.

  Lemma name_of_hex_hexs b : (length b <= 32)%nat -> name_of_hex (jhex b) = Ok b.
  Proof.
    intros Hl. unfold name_of_hex, jhex. cbn [as_str bind]. rewrite from_hex_hexs. cbn [bind].
    apply sized_ok. lia.
  Qed.

  Lemma py_int_dec n : py_int (JStr (dec_of_N n)) = Ok (Z.of_N n).
  Proof. unfold py_int. now rewrite N_of_dec_rt. Qed.

  Lemma int_of_str_dec n : int_of_str (dec_of_N n) = Ok (Z.of_N n).
  Proof. unfold int_of_str. now rewrite N_of_dec_rt. Qed.

  (* the Blockfrost unit: 56 hexadecimal characters of policy, then the name *)
  Lemma split56 p n : length p = 28%nat ->
    String.length (hexs p) = 56%nat /\
    from_hex (hexs p ++ hexs n)%string = Ok (p ++ n) /\
    firstn 28 (p ++ n) = p /\ skipn 28 (p ++ n) = n.
  Proof.
    intros Hp. repeat split.
    - rewrite hexs_length. unfold bytes in *. lia.
    - rewrite <- hexs_app. apply from_hex_hexs.
    - rewrite firstn_app, <- Hp, firstn_all, Nat.sub_diag. cbn. apply app_nil_r.
    - rewrite skipn_app, <- Hp, skipn_all, Nat.sub_diag. reflexivity.
  Qed.

  Lemma unit_not_lovelace p n : length p = 28%nat -> String.eqb (hexs p ++ hexs n)%string "lovelace" = false.
  Proof.
    intros Hp. apply string_eqb_neq_length. rewrite string_length_app, !hexs_length. unfold bytes in *. cbn. lia.
  Qed.

  Lemma hexs_no_char c b : is_lower_hex c = false -> has_char c (hexs b) = false.
  Proof. intros Hc. eapply all_chars_no; [exact Hc | apply hexs_lower]. Qed.

  (* the Ogmios v5 / Kupo asset identifier: "policy.name", or "policy" for the empty name *)
  Lemma kupo_split p n : length p = 28%nat -> (length n <= 32)%nat ->
    extract_asset_info (dotted p n) = Ok (p, n).
  Proof.
    intros Hp Hn. unfold extract_asset_info, dotted. destruct n as [|x r].
    - rewrite split_on_none by (now apply hexs_no_char). cbn [bind fst snd].
      change (JStr (hexs p)) with (jhex p). rewrite hash_of_hex_hexs by assumption. cbn [bind].
      change (JStr "") with (jhex []). rewrite name_of_hex_hexs by (cbn; lia). reflexivity.
    - rewrite split_on_app by (now apply hexs_no_char).
      rewrite split_on_none by (now apply hexs_no_char). cbn [bind fst snd].
      change (JStr (hexs p)) with (jhex p). rewrite hash_of_hex_hexs by assumption. cbn [bind].
      change (JStr (hexs (x :: r))) with (jhex (x :: r)). rewrite name_of_hex_hexs by assumption. reflexivity.
  Qed.

  (* ================================================================ assets: dict insertion *)
  Definition ins (m : masset) (e : bytes * bytes * N) : masset :=
    mset m (fst (fst e)) (snd (fst e)) (Z.of_N (snd e)).
  Definition assets_of_flat (l : flat_assets) : masset := fold_left ins l [].

  Lemma mget_mset m p n q p' :
    mget (mset m p n q) p' = if bytes_eqb p p' then dset (mget m p) n q else mget m p'.
  Proof.
    unfold mset, mget at 1. destruct (bytes_eqb p p') eqn:E.
    - apply bytes_eqb_eq in E. subst. now rewrite dget_dset_same.
    - apply bytes_eqb_neq in E. now rewrite dget_dset_other.
  Qed.

  Lemma content_mset m p n q p' n' :
    content (mset m p n q) p' n' = if bytes_eqb p p' && bytes_eqb n n' then q else content m p' n'.
  Proof.
    unfold content. rewrite mget_mset. destruct (bytes_eqb p p') eqn:E; cbn [andb]; [|reflexivity].
    apply bytes_eqb_eq in E. subst. unfold aget. destruct (bytes_eqb n n') eqn:E2.
    - apply bytes_eqb_eq in E2. subst. now rewrite dget_dset_same.
    - apply bytes_eqb_neq in E2. now rewrite dget_dset_other.
  Qed.

  Lemma present_mset m p n q p' n' :
    present (mset m p n q) p' n' <-> present m p' n' \/ (p' = p /\ n' = n).
  Proof.
    unfold present. rewrite mget_mset. destruct (bytes_eqb p p') eqn:E.
    - apply bytes_eqb_eq in E. subst. rewrite keys_dset_in. intuition.
    - apply bytes_eqb_neq in E. intuition congruence.
  Qed.

  Lemma content_fold_other l : forall m p n,
    ~ In (p, n) (map fkey l) -> content (fold_left ins l m) p n = content m p n.
  Proof.
    induction l as [|[[p' n'] q'] r IH]; intros m p n Hn; cbn [fold_left]; [reflexivity|].
    rewrite IH by (intros Hin; apply Hn; now right).
    unfold ins. cbn [fst snd]. rewrite content_mset.
    destruct (bytes_eqb p' p) eqn:E1; [|reflexivity]. destruct (bytes_eqb n' n) eqn:E2; [|reflexivity].
    apply bytes_eqb_eq in E1, E2. subst. exfalso. apply Hn. now left.
  Qed.

  Lemma content_fold_in l : NoDup (map fkey l) -> forall m p n q,
    In (p, n, q) l -> content (fold_left ins l m) p n = Z.of_N q.
  Proof.
    induction l as [|e r IH]; intros Hnd m p n q Hin; [contradiction|].
    inversion Hnd as [|? ? Hx Hr]; subst. cbn [fold_left]. destruct Hin as [->|Hin].
    - rewrite content_fold_other by exact Hx.
      unfold ins. cbn [fst snd]. rewrite content_mset, !bytes_eqb_refl. reflexivity.
    - now apply IH.
  Qed.

  Lemma present_fold l : forall m p n,
    present (fold_left ins l m) p n <-> present m p n \/ In (p, n) (map fkey l).
  Proof.
    induction l as [|[[p' n'] q'] r IH]; intros m p n; cbn [fold_left map In]; [tauto|].
    rewrite IH. unfold ins, fkey. cbn [fst snd]. rewrite present_mset.
    split; intros [Hx|Hx]; try tauto.
    - destruct Hx as [Hx|[-> ->]]; tauto.
    - destruct Hx as [Hx|Hx]; [inversion Hx; subst; tauto | tauto].
  Qed.

  (* well-formed dicts, no empty policy *)
  Definition minv (m : masset) : Prop := wfd m /\ forall p a, In (p, a) m -> wfd a /\ a <> [].

  Lemma In_dset {V} (d : dict V) k v k' v' : In (k', v') (dset d k v) -> (k' = k /\ v' = v) \/ In (k', v') d.
  Proof.
    induction d as [|[k0 v0] r IH]; cbn.
    - intros [E|[]]. inversion E. now left.
    - destruct (bytes_eqb k0 k) eqn:E; cbn.
      + apply bytes_eqb_eq in E. subst. intros [E'|Hin]; [inversion E'; now left | right; now right].
      + intros [E'|Hin]; [right; now left|]. destruct (IH Hin) as [?|?]; [now left | right; now right].
  Qed.

  Lemma dset_nonnil {V} (d : dict V) k v : dset d k v <> [].
  Proof. destruct d as [|[k0 v0] r]; cbn; [discriminate|]. destruct (bytes_eqb k0 k); discriminate. Qed.

  Lemma wfd_mget m p : minv m -> wfd (mget m p).
  Proof.
    intros [_ Hm]. unfold mget. destruct (dget m p) as [a|] eqn:E.
    - apply dget_In in E. now apply Hm in E.
    - constructor.
  Qed.

  Lemma minv_mset m p n q : minv m -> minv (mset m p n q).
  Proof.
    intros Hm. pose proof Hm as [Hw Ha]. split.
    - now apply wfd_dset.
    - intros p' a' Hin. apply In_dset in Hin as [[-> ->]|Hin].
      + split; [apply wfd_dset; now apply wfd_mget | apply dset_nonnil].
      + now apply Ha in Hin.
  Qed.

  Lemma minv_fold l : forall m, minv m -> minv (fold_left ins l m).
  Proof. induction l as [|e r IH]; intros m Hm; cbn; [assumption|]. apply IH. now apply minv_mset. Qed.

  Lemma minv_nil : minv [].
  Proof. split; [constructor | intros ? ? []]. Qed.

  (* ---------- the model side: flatten, lookup ---------- *)
  Lemma fkeys_flatten a :
    map fkey (flatten a) = flat_map (fun pl => map (fun nq => (fst pl, fst nq)) (snd pl)) a.
  Proof.
    unfold flatten. induction a as [|pl r IH]; cbn; [reflexivity|].
    rewrite map_app, IH, map_map. reflexivity.
  Qed.

  Lemma nodup_fkeys_flatten a : wf_assets a -> NoDup (map fkey (flatten a)).
  Proof.
    intros [Hp Hf]. rewrite fkeys_flatten. induction a as [|[p l] r IH]; cbn; [constructor|].
    inversion Hp as [|? ? Hx Hr]; subst. inversion Hf as [|? ? Hpl Hfr]; subst.
    destruct Hpl as (_ & _ & Hnd & _). cbn [fst snd] in *.
    apply NoDup_app_intro.
    - clear -Hnd. induction l as [|[n q] t IHl]; cbn; [constructor|].
      inversion Hnd as [|? ? Hy Ht]; subst. constructor; [|now apply IHl].
      intros Hin. apply in_map_iff in Hin as ([n' q'] & E & Hin). inversion E; subst.
      apply Hy. change n with (fst (n, q')). now apply in_map.
    - now apply IH.
    - intros [p' n'] Hin Hin2. apply in_map_iff in Hin as (nq & E & _). inversion E; subst.
      apply in_flat_map in Hin2 as (pl & Hpl & Hin2). apply in_map_iff in Hin2 as (nq' & E2 & _).
      inversion E2; subst. apply Hx. now apply in_map.
  Qed.

  Lemma flookup_some l p n q : flookup l p n = Some q -> In (p, n, q) l.
  Proof.
    induction l as [|[[p' n'] q'] r IH]; cbn; [discriminate|].
    destruct (bytes_eqb p' p && bytes_eqb n' n) eqn:E.
    - apply andb_true_iff in E as [E1 E2]. apply bytes_eqb_eq in E1, E2. subst.
      intros E. inversion E. now left.
    - intros Hq. right. now apply IH.
  Qed.

  Lemma flookup_none l p n : flookup l p n = None -> ~ In (p, n) (map fkey l).
  Proof.
    induction l as [|[[p' n'] q'] r IH]; cbn; [tauto|].
    destruct (bytes_eqb p' p && bytes_eqb n' n) eqn:E; [discriminate|].
    intros Hq [Hin|Hin]; [|now apply IH].
    unfold fkey in Hin. cbn in Hin. inversion Hin; subst. now rewrite !bytes_eqb_refl in E.
  Qed.

  (* THE asset theorem: whatever order the service lists the assets in, inserting them one by one yields exactly the
     modelled quantities, exactly the modelled keys, in well-formed dicts *)
  Theorem assets_faithful a flat : wf_assets a -> Permutation (flatten a) flat ->
    let m := assets_of_flat flat in
    (forall p n, content m p n = Z.of_N (ucontent a p n)) /\
    (forall p n, present m p n <-> upresent a p n) /\
    minv m.
  Proof.
    intros Hw Hperm m. pose proof (nodup_fkeys_flatten a Hw) as Hnd.
    assert (Hnd' : NoDup (map fkey flat)).
    { eapply Permutation_NoDup; [apply Permutation_map; exact Hperm | exact Hnd]. }
    split; [|split].
    - intros p n. unfold m, assets_of_flat, ucontent. destruct (flookup (flatten a) p n) as [q|] eqn:E.
      + apply flookup_some in E. apply (Permutation_in _ Hperm) in E. now apply content_fold_in.
      + apply flookup_none in E. rewrite content_fold_other; [reflexivity|].
        intros Hin. apply E. eapply Permutation_in; [apply Permutation_sym, Permutation_map; exact Hperm | exact Hin].
    - intros p n. unfold m, assets_of_flat, upresent. rewrite present_fold. split.
      + intros [Hx|Hx].
        * unfold present, mget in Hx. cbn in Hx. contradiction.
        * eapply Permutation_in; [apply Permutation_sym, Permutation_map; exact Hperm | exact Hx].
      + intros Hx. right. eapply Permutation_in; [apply Permutation_map; exact Hperm | exact Hx].
    - apply minv_fold, minv_nil.
  Qed.

  (* sizes of every listed asset *)
  Definition sized_entry (e : bytes * bytes * N) : Prop :=
    length (fst (fst e)) = 28%nat /\ (length (snd (fst e)) <= 32)%nat.

  Lemma sized_flatten a : wf_assets a -> Forall sized_entry (flatten a).
  Proof.
    intros [_ Hf]. unfold flatten. apply Forall_forall. intros e Hin.
    apply in_flat_map in Hin as (pl & Hpl & Hin). apply in_map_iff in Hin as (nq & <- & Hnq).
    rewrite Forall_forall in Hf. destruct (Hf pl Hpl) as (Hp & _ & _ & Hn).
    rewrite Forall_forall in Hn. split; cbn; [assumption | now apply Hn].
  Qed.

  Lemma sized_flat a flat : wf_assets a -> Permutation (flatten a) flat -> Forall sized_entry flat.
  Proof.
    intros Hw Hp. apply Forall_forall. intros e Hin.
    pose proof (sized_flatten a Hw) as Hs. rewrite Forall_forall in Hs. apply Hs.
    eapply Permutation_in; [apply Permutation_sym; exact Hp | exact Hin].
  Qed.

  (* ================================================================ shared: truthiness, scripts, datums *)
  Lemma truthy_jhex b : b <> [] -> truthy (jhex b) = true.
  Proof. destruct b as [|x r]; [congruence|]. reflexivity. Qed.

  Lemma nonnil_of_length {A} (l : list A) k : length l = S k -> l <> [].
  Proof. destruct l; [discriminate | discriminate]. Qed.

  Lemma supported_plutus x v body : script_supported x (Some (SPlutus v body)) = true -> (v = 1 \/ v = 2 \/ v = 3)%N.
  Proof.
    unfold script_supported. destruct x; intros Hs;
      repeat (apply orb_true_iff in Hs as [Hs|Hs]); apply N.eqb_eq in Hs; auto.
  Qed.

  Lemma from_version_ok v body : (v = 1 \/ v = 2 \/ v = 3)%N -> from_version (Z.of_N v) body = Ok (SPlutus v body).
  Proof. intros [-> | [-> | ->]]; reflexivity. Qed.

  Lemma decode_enc_bytes b : (lenN b < two64)%N -> decode (enc (CB b)) = Some (CB b).
  Proof.
    intros W. unfold decode.
    pose proof (dec_enc (CB b) W (S (length (enc (CB b)))) [] ltac:(cbn; lia)) as E.
    rewrite app_nil_r in E. now rewrite E.
  Qed.

  Lemma cbor_loads_enc b : (lenN b < two64)%N -> cbor_loads_bytes (enc (CB b)) = Ok b.
  Proof. intros W. unfold cbor_loads_bytes. now rewrite decode_enc_bytes. Qed.

  Lemma try_fix_ok h v body served :
    h = hexs (plutus_hash H v body) ->
    served = body \/ (served = enc (CB body) /\ (lenN body < two64)%N /\
                      plutus_hash H v (enc (CB body)) <> plutus_hash H v body) ->
    try_fix H h (SPlutus v served) = Ok (SPlutus v body).
  Proof.
    intros -> [->|(-> & W & Hne)]; unfold try_fix.
    - now rewrite String.eqb_refl.
    - destruct (String.eqb (hexs (plutus_hash H v (enc (CB body)))) (hexs (plutus_hash H v body))) eqn:E.
      + apply String.eqb_eq, hexs_inj in E. contradiction.
      + rewrite cbor_loads_enc by assumption. cbn [bind]. now rewrite String.eqb_refl.
  Qed.

  Lemma served_body_cases u v body :
    u_script u = Some (SPlutus v body) -> (lenN body < two64)%N ->
    (u_script_wrapped u = true -> plutus_hash H v (enc (CB body)) <> plutus_hash H v body) ->
    served_body u body = body \/ (served_body u body = enc (CB body) /\ (lenN body < two64)%N /\
                                  plutus_hash H v (enc (CB body)) <> plutus_hash H v body).
  Proof.
    intros _ W Hw. unfold served_body. destruct (u_script_wrapped u); [right | left; reflexivity].
    repeat split; [assumption | now apply Hw].
  Qed.

  Definition found (tbl docs : list (string * json)) : Prop :=
    Forall (fun kd => jget (fst kd) tbl = Some (snd kd)) docs.

  (* ================================================================ Blockfrost *)
  Definition bf_item (e : bytes * bytes * N) : json :=
    JObj [("unit", JStr (hexs (fst (fst e)) ++ hexs (snd (fst e)))%string); ("quantity", JStr (dec_of_N (snd e)))].

  Lemma bf_step_asset c m e : sized_entry e -> bf_amount_step (c, m) (bf_item e) = Ok (c, ins m e).
  Proof.
    intros [Hp Hn]. destruct e as [[p n] q]. cbn [fst snd] in *. unfold bf_amount_step.
    change (jattr "unit" (bf_item (p, n, q))) with (Ok (A:=json) (JStr (hexs p ++ hexs n)%string)).
    cbn [bind as_str]. rewrite unit_not_lovelace by assumption.
    destruct (split56 p n Hp) as (_ & Hh & Hf & Hs). rewrite Hh. cbn [bind]. rewrite Hf, Hs.
    rewrite sized_ok by lia. cbn [bind]. rewrite sized_ok by lia. cbn [bind].
    change (jattr "quantity" (bf_item (p, n, q))) with (Ok (A:=json) (JStr (dec_of_N q))).
    cbn [bind]. rewrite py_int_dec. reflexivity.
  Qed.

  Lemma bf_amount_ok lov flat : Forall sized_entry flat ->
    foldM bf_amount_step (JObj [("unit", JStr "lovelace"); ("quantity", JStr (dec_of_N lov))] :: map bf_item flat) (0%Z, [])
    = Ok (Z.of_N lov, assets_of_flat flat).
  Proof.
    intros Hs. cbn [foldM]. unfold bf_amount_step at 1.
    cbn [jattr jget String.eqb Ascii.eqb Bool.eqb andb bind as_str fst snd].
    rewrite py_int_dec. cbn [bind].
    assert (G : forall l c m, Forall sized_entry l ->
              foldM bf_amount_step (map bf_item l) (c, m) = Ok (c, fold_left ins l m)).
    { induction l as [|e r IH]; intros c m Hl; cbn [map foldM fold_left]; [reflexivity|].
      inversion Hl; subst. rewrite bf_step_asset by assumption. cbn [bind]. now apply IH. }
    now apply G.
  Qed.

  Lemma bf_type_ver v : (v = 1 \/ v = 2 \/ v = 3)%N ->
    let ty := ("plutusV" ++ ver_digit v)%string in
    String.prefix "plutusv" (lower ty) = true /\
    match last_char ty with Some c => int_of_str (String c EmptyString) | None => Err "IndexError" end = Ok (Z.of_N v).
  Proof. intros [-> | [-> | ->]]; split; reflexivity. Qed.
End WithHash.
