(* IdsOracle.v — C17: decision procedures evaluated on the implementation's own outputs, and the
   glue comparing the model (Ids.v, instantiated with the constants regenerated from the source,
   PyCGen.IdsGen.gen_cfg) with the implementation.

   BLAKE2b inside coqc: the cases file carries a table  (digest size, message, digest)  filled by the
   harness with hashlib.blake2b; `Ht tab` is the (partial) function it denotes.  Which message is
   hashed is decided HERE (by the specification for the oracle, by the model for the correspondence);
   a message that is not in the table is reported (`k_missing`) and makes the run fail. *)
From Coq Require Import NArith ZArith Ascii String List Bool.
From Coq Require Import Init.Byte.
From PyC Require Import Base Cbor Ids IdsSeq.
From PyCGen Require Import IdsGen.
Import ListNotations.
Open Scope N_scope.

(* ---------------- BLAKE2b as a table ---------------- *)
Definition tab := list (nat * bytes * bytes).
Fixpoint lookup (t : tab) (n : nat) (m : bytes) : option bytes :=
  match t with
  | [] => None
  | (n', m', d) :: r => if Nat.eqb n n' && bytes_eqb m m' then Some d else lookup r n m
  end.
Definition Ht (t : tab) (n : nat) (m : bytes) : bytes :=
  match lookup t n m with Some d => d | None => [] end.
Definition covered (t : tab) (q : nat * bytes) : bool :=
  match lookup t (fst q) (snd q) with Some _ => true | None => false end.

(* ---------------- bech32 (BIP-173) encoder, written from the specification ---------------- *)
Definition b32_charset : list ascii := list_ascii_of_string "qpzry9x8gf2tvdw0s3jn54khce6mua7l".
Definition b32_gen : list N := [0x3b6a57b2; 0x26508e6d; 0x1ea119fa; 0x3d4233dd; 0x2a1462b3].
Definition b32_step (chk v : N) : N :=
  let top := chk / 33554432 in
  let c := N.lxor ((chk mod 33554432) * 32) v in
  fold_left (fun acc ig => if N.testbit top (fst ig) then N.lxor acc (snd ig) else acc)
            (combine [0; 1; 2; 3; 4] b32_gen) c.
Definition b32_polymod (vs : list N) : N := fold_left b32_step vs 1.
Definition b32_hrp_expand (hrp : list ascii) : list N :=
  map (fun c => N_of_ascii c / 32) hrp ++ [0] ++ map (fun c => N_of_ascii c mod 32) hrp.
Definition b32_checksum (hrp : list ascii) (data : list N) : list N :=
  let pm := N.lxor (b32_polymod (b32_hrp_expand hrp ++ data ++ [0; 0; 0; 0; 0; 0])) 1 in
  map (fun i => (pm / 2 ^ (5 * (5 - i))) mod 32) [0; 1; 2; 3; 4; 5].
Definition bits_of (bs : bytes) : list bool :=
  flat_map (fun b => map (N.testbit (b2n b)) [7; 6; 5; 4; 3; 2; 1; 0]) bs.
Definition val5 (l : list bool) : N :=
  fold_left (fun acc (b : bool) => 2 * acc + (if b then 1 else 0)) (firstn 5 (l ++ [false; false; false; false])) 0.
Fixpoint groups5 (fuel : nat) (l : list bool) : list N :=
  match fuel with
  | O => []
  | S f => match l with [] => [] | _ => val5 l :: groups5 f (skipn 5 l) end
  end.
Definition b32 (hrp : string) (data : bytes) : string :=
  let h := list_ascii_of_string hrp in
  let bits := bits_of data in
  let d := groups5 (S (length bits)) bits in
  string_of_list_ascii
    (h ++ ["1"%char] ++ map (fun v => nth (N.to_nat v) b32_charset "?"%char) (d ++ b32_checksum h d)).

(* ---------------- navigation in decoded items ---------------- *)
Definition cbor_eqb_u (x : cbor) (k : N) : bool := match x with CU n => n =? k | _ => false end.
Fixpoint find_key {A} (k : N) (l : list (cbor * A)) : option A :=
  match l with
  | [] => None
  | (x, v) :: r => if cbor_eqb_u x k then Some v else find_key k r
  end.
Definition find_slice (k : N) (l : list ((cbor * bytes) * (cbor * bytes))) : option (cbor * bytes) :=
  find_key k (map (fun e => (fst (fst e), snd e)) l).
(* sets may be written with tag 258 in front of the array *)
Definition strip258 (bs : bytes) : bytes :=
  match bs with
  | h1 :: h2 :: h3 :: r => if (b2n h1 =? 217) && (b2n h2 =? 1) && (b2n h3 =? 2) then r else bs
  | _ => bs
  end.
(* witness-set field k as a list of (item, bytes) *)
Definition ws_field (ws : bytes) (k : N) : option (list (cbor * bytes)) :=
  match map_items ws with
  | Some l => match find_slice k l with Some (_, sl) => array_items (strip258 sl) | None => None end
  | None => None
  end.
(* content of a `#6.24(bytes .cbor x)` field k of a map-form transaction output *)
Definition out_wrapped (outb : bytes) (k : N) : option cbor :=
  match decode outb with
  | Some (CM kvs) => find_key k kvs
  | _ => None
  end.
Definition opt_bytes_eqb (a b : option bytes) : bool :=
  match a, b with
  | Some x, Some y => bytes_eqb x y
  | None, None => true
  | _, _ => false
  end.
Definition pver_n (v : pver) : N := match v with V1 => 1 | V2 => 2 | V3 => 3 end.
Definition ws_key (v : pver) : N := match v with V1 => 3 | V2 => 6 | V3 => 7 end.

(* policy id = the key of MultiAsset({script_hash(s): {name: 1}}).to_cbor() *)
Definition ma_policy (ma : bytes) : option bytes :=
  match decode ma with
  | Some (CM [(CB p, _)]) => Some p
  | _ => None
  end.

(* ---------------- operation sequences on one object (IdsSeq.v) ---------------- *)
(* an edit whose value travels as the bytes of a standalone serialization *)
Inductive bedit := BSet (k : N) (v : bytes) | BDel (k : N) | BAppend (v : bytes) | BPut (v : bytes).
(* one step of a recorded life of an object.  `after` = obj.to_cbor() right after the step;
   `cont` = the container the library would SHIP at the moment of a read (Transaction.to_cbor() for a body and for
   auxiliary data, TransactionWitnessSet.to_cbor() for a native script / a datum); `obs` = the identifier it answered *)
Inductive sstep :=
| SRead (lvl : nat) (cont obs : bytes)
| SEdit (p : list pstep) (e : bedit) (after : bytes)
| SReenc (after : bytes)
| SCopy (after : bytes)
| SRewrap (after : bytes)
| SNeutral (after : bytes).

Definition dec_edit (e : bedit) : option edit :=
  match e with
  | BSet k v => option_map (ESet k) (decode v)
  | BDel k => Some (EDel k)
  | BAppend v => option_map EAppend (decode v)
  | BPut v => option_map EPut (decode v)
  end.

(* ---------------- cases ---------------- *)
Inductive icase :=
| KSeq (k : okind) (init : bytes) (steps : list sstep)
      (* init = obj.to_cbor() of the object the sequence starts from *)
| KTx (tx body_direct id_body : bytes) (ids : list bytes)
      (* tx = Transaction.to_cbor(); body_direct = tx.transaction_body.to_cbor(); id_body = body.id;
         ids = the same identifier obtained the other ways (tx.id, body.hash()) *)
| KDatum (canon : bool) (ws outb : bytes) (direct : option bytes) (id : bytes)
      (* ws = TransactionWitnessSet(plutus_data=[d]).to_cbor(); outb = output with inline datum d;
         direct = d.to_cbor() when d has one; id = datum_hash(d); canon = false: d is a RawCBOR whose
         bytes are not in shortest form (then the AST-level model is not applicable, only the bytes) *)
| KAux (tx direct id : bytes)
      (* tx = Transaction(body, ws, True, aux).to_cbor(); direct = aux.to_cbor(); id = aux.hash() *)
| KBuild (aux_in : option bytes) (tx id_tx : bytes)
      (* aux_in = builder.auxiliary_data.to_cbor() before building; tx = build_and_sign(...).to_cbor(); id_tx = tx.id *)
| KOutDatum (tx wd d2 : bytes)
      (* add_output(out, datum=D, add_datum_to_witness=True) on an output object that is fresh, was used before with another
         datum, or was decoded from CBOR; tx = build_and_sign(..).to_cbor(); wd = the datum as shipped in the witness set (the
         harness slices it out of tx); d2 = D serialized on its own *)
| KKey (ext : bool) (payload cb id nx_payload nx_id : bytes) (ids : list bytes)
      (* ids = the hash obtained the other ways (key derived from a signing key, key restored from its CBOR) *)
| KNative (s : nscript) (cb id id_sh ws outb ma : bytes)
| KPlutus (v : pver) (sb id id_psh id_raw ws outb ma : bytes)
| KAddr (m : mscript) (net : N) (st : stake_part) (addr : bytes) (bech : string)
| KFinger (p n : bytes) (fp : string)
| KGate (u : sinput) (off : offer) (dat : option bytes) (ctx : list uref) (res : gate_res).

Record verdict := { v_corr : bool;            (* model (regenerated constants) = implementation *)
                    v_oracle : bool;          (* the property's decision procedure on the implementation's outputs *)
                    v_need : list (nat * bytes) }.   (* messages whose digest was looked up *)
Definition bad : verdict := {| v_corr := false; v_oracle := false; v_need := [] |}.

Definition mscript_key (m : mscript) : N * bytes :=
  match m with
  | MNative s => (0, enc_native s)
  | MPlutus v b => (pver_n v, b)
  | MRaw b => (4, b)
  end.
Definition mscript_eqb (a b : mscript) : bool :=
  (fst (mscript_key a) =? fst (mscript_key b)) && bytes_eqb (snd (mscript_key a)) (snd (mscript_key b)).
Definition optN_eqb (a b : option N) : bool :=
  match a, b with Some x, Some y => x =? y | None, None => true | _, _ => false end.
Definition gate_res_eqb (a b : gate_res) : bool :=
  match a, b with
  | GRefuse, GRefuse => true
  | GAccept m r, GAccept m' r' => mscript_eqb m m' && optN_eqb r r'
  | _, _ => false
  end.

Definition scripts_of (u : sinput) (off : offer) (ctx : list uref) : list mscript :=
  (match i_script u with Some m => [m] | None => [] end)
  ++ (match off with OffScript m => [m] | OffRef r => match r_script r with Some m => [m] | None => [] end | OffNone => [] end)
  ++ flat_map (fun r => match r_script r with Some m => [m] | None => [] end) ctx.

Definition hrp_of_net (net : N) : string := if net =? 1 then "addr" else "addr_test".

Section Judge.
  Variable t : tab.
  Let H := Ht t.
  Let c := gen_cfg.

  (* the bytes of the object inside the container the library ships *)
  Definition seq_cut (k : okind) (cont : bytes) : option bytes :=
    match k with
    | QBody => match array_items cont with Some ((_, sl) :: _) => Some sl | _ => None end
    | QAux => match array_items cont with Some [_; _; _; (_, sl)] => Some sl | _ => None end
    | QDatum => match ws_field cont 4 with Some [(_, sl)] => Some sl | _ => None end
    | QNative => match ws_field cont 1 with Some [(_, sl)] => Some sl | _ => None end
    end.

  Record sacc := { a_st : option ostate;      (* state of the model (None: an edit did not apply) *)
                   a_cur : bytes;             (* the library's obj.to_cbor() after the last step *)
                   a_corr : bool; a_oracle : bool; a_need : list (nat * bytes) }.

  (* a step that (possibly) moves the object: the model's item must serialize to the library's new bytes *)
  Definition seq_moved (a : sacc) (st' : option ostate) (after : bytes) : sacc :=
    {| a_st := st'; a_cur := after;
       a_corr := a_corr a && match st' with Some s => bytes_eqb (enc (s_item s)) after | None => false end;
       a_oracle := a_oracle a; a_need := a_need a |}.

  Definition seq_step (k : okind) (a : sacc) (s : sstep) : sacc :=
    match s with
    | SRead lvl cont obs =>
        match seq_cut k cont with
        | Some sl =>
            (* ORACLE: the identifier answered now = the specified digest of the bytes shipped now *)
            let q := q_spec_pre_b k sl in
            (* CORRESPONDENCE: the model (regenerated constants, incl. the memoisation flags) answers the same,
               and the shipped bytes are the object's current serialization *)
            let m := match a_st a with
                     | Some st => let r := read c H k lvl st in
                                  (Some (snd r), bytes_eqb (fst r) obs, [q_pre c k (s_item st)])
                     | None => (None, false, [])
                     end in
            {| a_st := fst (fst m); a_cur := a_cur a;
               a_corr := a_corr a && snd (fst m) && bytes_eqb sl (a_cur a);
               a_oracle := a_oracle a && bytes_eqb obs (H (fst q) (snd q));
               a_need := q :: snd m ++ a_need a |}
        | None => {| a_st := a_st a; a_cur := a_cur a; a_corr := false; a_oracle := false; a_need := a_need a |}
        end
    | SEdit p e after =>
        seq_moved a (match a_st a, dec_edit e with
                     | Some st, Some e' => exec c H k st (OpEdit p e')
                     | _, _ => None end) after
    | SReenc after =>
        seq_moved a (match a_st a, decode after with
                     | Some st, Some x' => exec c H k st (OpReenc x')
                     | _, _ => None end) after
    | SCopy after =>
        seq_moved a (match a_st a, decode after with
                     | Some st, Some x' => exec c H k st (OpCopy x')
                     | _, _ => None end) after
    | SRewrap after => seq_moved a (match a_st a with Some st => exec c H k st OpRewrap | None => None end) after
    | SNeutral after => seq_moved a (match a_st a with Some st => exec c H k st OpNeutral | None => None end) after
    end.

  Definition judge (k : icase) : verdict :=
    match k with
    | KSeq kd ini steps =>
        let st0 := option_map IdsSeq.init (decode ini) in
        let a0 := {| a_st := st0; a_cur := ini;
                     a_corr := match st0 with Some s => bytes_eqb (enc (s_item s)) ini | None => false end;
                     a_oracle := true; a_need := [] |} in
        let a := fold_left (seq_step kd) steps a0 in
        {| v_corr := a_corr a; v_oracle := a_oracle a; v_need := a_need a |}
    | KTx tx body_direct id_body ids =>
        match array_items tx with
        | Some ((b_ast, b_sl) :: _) =>
            {| v_oracle := bytes_eqb id_body (tx_id H b_sl) && forallb (bytes_eqb id_body) ids;
               v_corr := bytes_eqb b_sl body_direct && bytes_eqb (enc b_ast) b_sl
                         && bytes_eqb id_body (m_id c H (OTxBody b_ast));
               v_need := [(32%nat, b_sl); m_pre c (OTxBody b_ast)] |}
        | _ => bad
        end
    | KDatum canon ws outb direct id =>
        match ws_field ws 4, out_wrapped outb 2 with
        | Some [(d_ast, d_sl)], Some (CA [CU 1; CTag 24 (CB inner)]) =>
            {| v_oracle := bytes_eqb id (H 32%nat d_sl) && bytes_eqb inner d_sl;
               v_corr := match direct with Some b => bytes_eqb b d_sl | None => true end
                         && (if canon then bytes_eqb (enc d_ast) d_sl && bytes_eqb id (m_id c H (ODatum d_ast))
                             else bytes_eqb id (H (c_datum_size c) d_sl));
               v_need := [(32%nat, d_sl); (c_datum_size c, d_sl)] ++ (if canon then [m_pre c (ODatum d_ast)] else []) |}
        | _, _ => bad
        end
    | KAux tx direct id =>
        match array_items tx with
        | Some [_; _; _; (a_ast, a_sl)] =>
            {| v_oracle := bytes_eqb id (H 32%nat a_sl);
               v_corr := bytes_eqb direct a_sl && bytes_eqb (enc a_ast) a_sl && bytes_eqb id (m_id c H (OAux a_ast));
               v_need := [(32%nat, a_sl); m_pre c (OAux a_ast)] |}
        | _ => bad
        end
    | KBuild aux_in tx id_tx =>
        match array_items tx with
        | Some [(CM kvs, b_sl); _; _; (a_ast, a_sl)] =>
            let field := match find_key 7 kvs with Some (CB h) => Some (Some h) | None => Some None | _ => None end in
            let shipped := if bytes_eqb a_sl [xf6] then None else Some a_sl in
            let aux_ast := match aux_in with Some b => match decode b with Some a => Some (Some a) | None => None end
                                             | None => Some None end in
            match field, aux_ast with
            | Some fld, Some aa =>
                {| v_oracle := match shipped with
                               | Some sl => opt_bytes_eqb fld (Some (H 32%nat sl))
                               | None => opt_bytes_eqb fld None end
                               && bytes_eqb id_tx (tx_id H b_sl);
                   v_corr := opt_bytes_eqb fld (b_aux_field (m_build c H aa))
                             && bytes_eqb id_tx (H (c_tx_size c) b_sl)
                             && opt_bytes_eqb shipped (option_map enc (b_aux_shipped (m_build c H aa)))
                             && opt_bytes_eqb aux_in (option_map enc aa);
                   v_need := [(32%nat, b_sl); (c_tx_size c, b_sl)]
                             ++ (match shipped with Some sl => [(32%nat, sl)] | None => [] end)
                             ++ (match aa with Some a => [m_pre c (OAux a)] | None => [] end) |}
            | _, _ => bad
            end
        | _ => bad
        end
    | KOutDatum tx wd d2 =>
        match array_items tx with
        | Some ((CM kvs, b_sl) :: _) =>
            let outs := match find_key 1 kvs with Some (CA l) => l | _ => [] end in
            let dh := fun o => match o with
                               | CM okvs => match find_key 2 okvs with Some (CA [CU 0; CB h]) => Some h | _ => None end
                               | CA [_; _; CB h] => Some h
                               | _ => None
                               end in
            (* some output of the body is locked by the BLAKE2b-256 of exactly the datum bytes shipped *)
            {| v_oracle := existsb (fun o => opt_bytes_eqb (dh o) (Some (H 32%nat wd))) outs;
               v_corr := bytes_eqb wd d2;
               v_need := [(32%nat, wd)] |}
        | _ => bad
        end
    | KKey ext payload cb id nx_payload nx_id ids =>
        {| v_oracle := bytes_eqb id (key_hash H payload) && bytes_eqb cb (enc (CB payload))
                       && forallb (bytes_eqb id) ids
                       && Nat.eqb (length payload) (if ext then 64 else 32)
                       && bytes_eqb nx_payload (firstn 32 payload) && bytes_eqb nx_id id;
           v_corr := if ext
                     then bytes_eqb id (m_key_hash_ext c H payload)
                          && bytes_eqb nx_payload (m_to_non_extended c payload)
                          && bytes_eqb nx_id (m_key_hash c H nx_payload)
                     else bytes_eqb id (m_key_hash c H payload);
           v_need := [(28%nat, firstn 32 payload); m_pre c (if ext then OExtKey payload else OKey payload)]
                     ++ (if ext then [m_pre c (OKey nx_payload)] else []) |}
    | KNative s cb id id_sh ws outb ma =>
        match ws_field ws 1, out_wrapped outb 3 with
        | Some [(_, w_sl)], Some (CTag 24 (CB inner)) =>
            match array_items inner with
            | Some [(CU lang, _); (_, r_sl)] =>
                {| v_oracle := bytes_eqb id (native_script_hash H s) && bytes_eqb id (H 28%nat (x00 :: cb))
                               && bytes_eqb id_sh id && bytes_eqb w_sl cb && bytes_eqb r_sl cb && (lang =? 0)
                               && opt_bytes_eqb (ma_policy ma) (Some (policy_id H (SNative s)));
                   v_corr := bytes_eqb cb (m_native_bytes c s) && bytes_eqb id (m_script_hash c H (MNative s));
                   v_need := [(28%nat, x00 :: enc_native s); (28%nat, x00 :: cb); m_pre c (OScript (MNative s))] |}
            | _ => bad
            end
        | _, _ => bad
        end
    | KPlutus v sb id id_psh id_raw ws outb ma =>
        match ws_field ws (ws_key v), out_wrapped outb 3 with
        | Some [(CB sb_w, _)], Some (CTag 24 (CB inner)) =>
            match decode inner with
            | Some (CA [CU lang; CB sb_r]) =>
                {| v_oracle := bytes_eqb id (plutus_script_hash H v sb) && bytes_eqb id_psh id
                               && bytes_eqb id_raw (plutus_script_hash H V1 sb)
                               && bytes_eqb sb_w sb && bytes_eqb sb_r sb && (lang =? pver_n v)
                               && opt_bytes_eqb (ma_policy ma) (Some (policy_id H (SPlutus v sb)));
                   v_corr := bytes_eqb id (m_script_hash c H (MPlutus v sb))
                             && bytes_eqb id_raw (m_script_hash c H (MRaw sb));
                   v_need := [(28%nat, pver_byte v :: sb); (28%nat, x01 :: sb);
                              m_pre c (OScript (MPlutus v sb)); m_pre c (OScript (MRaw sb))] |}
            | _ => bad
            end
        | _, _ => bad
        end
    | KAddr m net st addr bech =>
        {| v_oracle := bytes_eqb addr (script_address net (script_hash H (as_script m)) st)
                       && String.eqb bech (b32 (hrp_of_net net) addr);
           v_corr := bytes_eqb addr (m_script_address c (N.to_nat net) (m_script_hash c H m) st);
           v_need := [(28%nat, script_pre (as_script m)); m_pre c (OScript m)] |}
    | KFinger p n fp =>
        {| v_oracle := String.eqb fp (fingerprint H b32 p n);
           v_corr := String.eqb fp (m_fingerprint c H b32 p n);
           v_need := [(20%nat, p ++ n); m_pre c (OAsset p n)] |}
    | KGate u off dat ctx res =>
        let dat_ast := match dat with Some b => match decode b with Some a => Some (Some a) | None => None end
                                    | None => Some None end in
        match dat_ast with
        | None => bad
        | Some da =>
            {| v_oracle := match res with
                           | GRefuse => true
                           | GAccept m _ =>
                               bytes_eqb (script_hash H (as_script m)) (i_pay u) && i_script_addr u
                               && match da, i_datum_hash u with
                                  | Some d, Some dh => bytes_eqb (datum_hash H d) dh
                                  | _, _ => true end
                           end;
               v_corr := gate_res_eqb (gate c H u off da ctx) res
                         && opt_bytes_eqb dat (option_map enc da);
               v_need := flat_map (fun m => [(28%nat, script_pre (as_script m)); m_pre c (OScript m)]) (scripts_of u off ctx)
                         ++ (match res with GAccept m _ => [(28%nat, script_pre (as_script m))] | GRefuse => [] end)
                         ++ (match da with Some d => [(32%nat, enc d); m_pre c (ODatum d)] | None => [] end) |}
        end
    end.

  Definition k_corr (k : icase) : bool := v_corr (judge k).
  Definition k_oracle (k : icase) : bool := v_oracle (judge k).
  Definition k_missing (k : icase) : bool := negb (forallb (covered t) (v_need (judge k))).
End Judge.

(* what the cases files evaluate *)
Definition c17_corr (x : tab * icase) : bool := k_corr (fst x) (snd x).
Definition c17_oracle (x : tab * icase) : bool := k_oracle (fst x) (snd x).
Definition c17_missing (x : tab * icase) : bool := k_missing (fst x) (snd x).
