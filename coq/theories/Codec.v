(* Codec.v — generic model of pycardano/serialization.py as an interpreter of class tables.
   The class tables (`schema`) are regenerated from /repo on every run (coq/gen/SchemaGen.v).
   Model only; proofs in CodecProofs.v.

   Encoding (to_prim) is NOT type directed: an object knows its class.
   Decoding (from_prim) IS type directed: _restore_typed_primitive / <Class>.from_primitive.
   Classes that override their codec (Address, TransactionOutput, Value, credentials, ...) are
   modelled as OPAQUE LEAVES: the object is represented by the primitive its own to_primitive
   produced (`VOpq c p`), and its from_primitive is modelled by an acceptance shape `shape_ok`. *)
From Coq Require Import NArith ZArith Ascii String List Bool Lia.
From PyC Require Import Base Cbor Value.
Import ListNotations.
Open Scope string_scope.
Open Scope list_scope.

Inductive ty :=
| TAny | TInt | TBytes | TStr | TBool | TNone | TFrac
| TCls (c : string)
| TList (t : ty)
| TDictT (k v : ty)
| TSet (nonempty : bool) (t : ty)
| TUnion (ts : list ty)
| TTuple (ts : list ty)
| TUnknown (repr : string).

Record field := mkField {
  fname : string;
  fty : ty;
  fopt : bool;                 (* metadata optional: omitted from the primitive when None *)
  fkey : option cbor;          (* map key (MapCBORSerializable) *)
  fconst : option Z;           (* init=False field holding a class constant (_CODE / _TYPE) *)
  fhook : option string;       (* object_hook = list_hook(<class>) *)
  fdef : option Z              (* default when the value is absent on decode: None -> no default (required);
                                  Some 0 -> default None; Some 1 -> default is a non-None constant (not modelled: error) *)
}.

Inductive class_def :=
| KArray (fs : list field)                  (* ArrayCBORSerializable dataclass, generic codec *)
| KCoded (code : Z) (fs : list field)       (* CodedSerializable: fs are the init fields (code excluded) *)
| KMap (fs : list field)                    (* MapCBORSerializable *)
| KDict (kt vt : ty)                        (* DictCBORSerializable with generic codec *)
| KBytes (lo hi : N)                        (* ConstrainedBytes *)
| KEnum (vals : list Z)                     (* Enum that is CBORSerializable (Network, RedeemerTag) *)
| KOpaque (shape : string) (code : option Z).   (* custom codec: opaque leaf; acceptance shape by name, optional leading type code *)

Definition schema := list (string * class_def).

Inductive pv :=
| VInt (z : Z) | VBytes (b : bytes) | VStr (b : bytes) | VBool (b : bool) | VNone | VFrac (n d : Z)
| VList (l : list pv)
| VSet (tagged : bool) (l : list pv)        (* OrderedSet with its _use_tag *)
| VMapT (kvs : list (pv * pv))              (* plain dict held by a typing.Dict field *)
| VObj (c : string) (fs : list pv)          (* dataclass instance: values of the init fields, in order *)
| VDict (c : string) (kvs : list (pv * pv)) (* DictCBORSerializable instance, insertion order *)
| VCB (c : string) (b : bytes)              (* ConstrainedBytes instance *)
| VEnum (c : string) (z : Z)
| VOpq (c : string) (p : cbor)              (* instance of a custom class, by its primitive *)
| VAny (p : cbor).                          (* Any-typed payload *)

Inductive res (A : Type) := Ok (a : A) | EDeser | EOther (why : string) | EFuel.
Arguments Ok {A} a. Arguments EDeser {A}. Arguments EOther {A} why. Arguments EFuel {A}.

Definition bind {A B} (r : res A) (f : A -> res B) : res B :=
  match r with Ok a => f a | EDeser => EDeser | EOther w => EOther w | EFuel => EFuel end.
Notation "'do' x <- r ; k" := (bind r (fun x => k)) (at level 200, x name, r at level 100, k at level 200).

Fixpoint lookup (S : schema) (c : string) : option class_def :=
  match S with [] => None | (k, d) :: r => if String.eqb k c then Some d else lookup r c end.

Section MapM.
  Context {A B : Type} (f : A -> res B).
  Fixpoint mapM (l : list A) : res (list B) :=
    match l with
    | [] => Ok []
    | x :: r => do y <- f x; do ys <- mapM r; Ok (y :: ys)
    end.
End MapM.

Definition cnone : cbor := CS 22.
Definition cbool (b : bool) : cbor := CS (if b then 21 else 20)%N.

(* ------------------------------------------------------------------ encoding *)
(* fields of a dataclass against the values of its init fields *)
Section EncFields.
  Variable enc1 : pv -> res cbor.
  (* array form: constants emitted in place, optional None skipped *)
  Fixpoint enc_arr (fs : list field) (vs : list pv) : res (list cbor) :=
    match fs with
    | [] => match vs with [] => Ok [] | _ => EOther "too many field values" end
    | f :: fr =>
        match fconst f with
        | Some k => do rest <- enc_arr fr vs; Ok (cint k :: rest)
        | None =>
            match vs with
            | [] => EOther "missing field value"
            | v :: vr =>
                match v, fopt f with
                | VNone, true => enc_arr fr vr
                | _, _ => do p <- enc1 v; do rest <- enc_arr fr vr; Ok (p :: rest)
                end
            end
        end
    end.
  Fixpoint enc_map (fs : list field) (vs : list pv) : res (list (cbor * cbor)) :=
    match fs with
    | [] => match vs with [] => Ok [] | _ => EOther "too many field values" end
    | f :: fr =>
        match vs with
        | [] => EOther "missing field value"
        | v :: vr =>
            match v, fopt f with
            | VNone, true => enc_map fr vr
            | _, _ =>
                match fkey f with
                | None => EOther "map field without key"
                | Some k => do p <- enc1 v; do rest <- enc_map fr vr; Ok ((k, p) :: rest)
                end
            end
        end
    end.
End EncFields.

Fixpoint to_prim (S : schema) (n : nat) (v : pv) : res cbor :=
  match n with
  | O => EFuel
  | Datatypes.S n' =>
      match v with
      | VInt z => Ok (cint z)
      | VBytes b => Ok (CB b)
      | VStr b => Ok (CT b)
      | VBool b => Ok (cbool b)
      | VNone => Ok cnone
      | VFrac a b => Ok (CTag 30 (CA [cint a; cint b]))
      | VList l => do ps <- mapM (to_prim S n') l; Ok (CA ps)
      | VSet tagged l => do ps <- mapM (to_prim S n') l; Ok (if tagged then CTag 258 (CA ps) else CA ps)
      | VMapT kvs =>
          do ps <- mapM (fun kv => do k <- to_prim S n' (fst kv); do x <- to_prim S n' (snd kv); Ok (k, x)) kvs;
          Ok (CM ps)
      | VObj c vs =>
          match lookup S c with
          | Some (KArray fs) => do ps <- enc_arr (to_prim S n') fs vs; Ok (CA ps)
          | Some (KCoded code fs) => do ps <- enc_arr (to_prim S n') fs vs; Ok (CA (cint code :: ps))
          | Some (KMap fs) => do ps <- enc_map (to_prim S n') fs vs; Ok (CM ps)
          | _ => EOther "not a dataclass"
          end
      | VDict c kvs =>
          match lookup S c with
          | Some (KDict _ _) =>
              do ps <- mapM (fun kv => do k <- to_prim S n' (fst kv); do x <- to_prim S n' (snd kv); Ok (k, x)) kvs;
              Ok (CM (ksort ps))
          | _ => EOther "not a dict class"
          end
      | VCB c b => Ok (CB b)
      | VEnum c z => Ok (cint z)
      | VOpq c p => Ok p
      | VAny p => Ok p
      end
  end.

(* ------------------------------------------------------------------ decoding *)
Definition is_list_prim (p : cbor) : option (list cbor) :=
  match p with CA l => Some l | CAi l => Some l | _ => None end.

Definition as_int_opt (p : cbor) : option Z :=
  match p with
  | CU n => Some (Z.of_N n)
  | CN n => Some (-1 - Z.of_N n)%Z
  | CTag 2 (CB b) => Some (Z.of_N (unbe b))
  | CTag 3 (CB b) => Some (-1 - Z.of_N (unbe b))%Z
  | _ => None
  end.

(* acceptance shapes of the custom (opaque) classes: on which primitives <Class>.from_primitive does
   NOT raise DeserializeException, as far as union discrimination needs it *)
Definition base_shape_ok (shape : string) (p : cbor) : bool :=
  if String.eqb shape "bytes" then match p with CB _ => true | CT _ => true | _ => false end
  else if String.eqb shape "array" then match p with CA _ => true | CAi _ => true | _ => false end
  else if String.eqb shape "list" then match p with CA _ => true | _ => false end
  else if String.eqb shape "map" then match p with CM _ => true | _ => false end
  else if String.eqb shape "tag259" then match p with CTag 259 _ => true | _ => false end
  else if String.eqb shape "tag" then match p with CTag _ _ => true | _ => false end
  else if String.eqb shape "value" then match p with CA _ => true | CAi _ => true | CU _ => true | CN _ => true | _ => false end
  else if String.eqb shape "output" then match p with CA _ => true | CAi _ => true | CM _ => true | _ => false end
  else if String.eqb shape "auxdata" then match p with CTag 259 _ => true | CA _ => true | CAi _ => true | CM _ => true | _ => false end
  else if String.eqb shape "any" then true
  else false.
Definition shape_ok (shape : string) (code : option Z) (p : cbor) : bool :=
  base_shape_ok shape p &&
  match code with
  | None => true
  | Some z => match p with
              | CA (h :: _) => match as_int_opt h with Some z' => Z.eqb z z' | None => false end
              | _ => false
              end
  end.

Definition cbor_eqb (a b : cbor) : bool := bytes_eqb (enc a) (enc b).

Fixpoint find_field (fs : list field) (k : cbor) : option (nat * field) :=
  match fs with
  | [] => None
  | f :: r =>
      match fkey f with
      | Some k' => if cbor_eqb k k' then Some (O, f)
                   else match find_field r k with Some (i, g) => Some (Datatypes.S i, g) | None => None end
      | None => match find_field r k with Some (i, g) => Some (Datatypes.S i, g) | None => None end
      end
  end.

Fixpoint set_nth {A} (l : list A) (i : nat) (x : A) : list A :=
  match l, i with
  | [], _ => []
  | _ :: r, O => x :: r
  | h :: r, Datatypes.S i' => h :: set_nth r i' x
  end.

Section DecFields.
  Variable dec1 : ty -> cbor -> res pv.
  Variable deccls : string -> cbor -> res pv.
  Definition dec_field (f : field) (p : cbor) : res pv :=
    match fhook f with
    | Some c =>
        match is_list_prim p with
        | Some ps => do vs <- mapM (deccls c) ps; Ok (VList vs)
        | None => match p with CS 22 => Ok VNone | _ => EOther "object_hook on a non-list" end
        end
    | None => dec1 (fty f) p
    end.
  (* positional restoration: zip(init fields, values); missing trailing values take the default *)
  Fixpoint dec_arr (fs : list field) (ps : list cbor) : res (list pv) :=
    match fs with
    | [] => match ps with [] => Ok [] | _ => EOther "extra array elements" end
    | f :: fr =>
        match fconst f with
        | Some _ => dec_arr fr ps        (* init=False: not a constructor argument *)
        | None =>
            match ps with
            | [] => match fdef f with
                    | Some 0%Z => do rest <- dec_arr fr []; Ok (VNone :: rest)
                    | Some _ => EOther "non-None default not modelled"
                    | None => EOther "missing required argument"
                    end
            | p :: pr => do v <- dec_field f p; do rest <- dec_arr fr pr; Ok (v :: rest)
            end
        end
    end.
  (* keyed restoration: every key must be a declared field; result in field order *)
  Fixpoint dec_map_fill (fs : list field) (acc : list (option pv)) (kvs : list (cbor * cbor)) : res (list (option pv)) :=
    match kvs with
    | [] => Ok acc
    | (k, p) :: r =>
        match find_field fs k with
        | None => EDeser
        | Some (i, f) => do v <- dec_field f p; dec_map_fill fs (set_nth acc i (Some v)) r
        end
    end.
  Fixpoint dec_map_close (fs : list field) (acc : list (option pv)) : res (list pv) :=
    match fs, acc with
    | [], _ => Ok []
    | f :: fr, Some v :: ar => do rest <- dec_map_close fr ar; Ok (v :: rest)
    | f :: fr, _ :: ar =>
        match fdef f with
        | Some 0%Z => do rest <- dec_map_close fr ar; Ok (VNone :: rest)
        | Some _ => EOther "non-None default not modelled"
        | None => EOther "missing required argument"
        end
    | _ :: _, [] => EOther "internal"
    end.
  (* typing.Tuple[...]: element-wise, lengths must agree *)
  Fixpoint zipT (ts : list ty) (ps : list cbor) : res (list pv) :=
    match ts, ps with
    | [], [] => Ok []
    | t :: tr, p :: pr => do v <- dec1 t p; do rest <- zipT tr pr; Ok (v :: rest)
    | _, _ => EDeser
    end.
  (* union: alternatives in declaration order, only DeserializeException is caught *)
  Fixpoint firstM (ts : list ty) (p : cbor) : res pv :=
    match ts with
    | [] => EDeser
    | t :: tr => match dec1 t p with EDeser => firstM tr p | r => r end
    end.
End DecFields.

Fixpoint dedup_ok (l : list cbor) : bool :=
  match l with [] => true | x :: r => negb (existsb (cbor_eqb x) r) && dedup_ok r end.

Definition dict_key_ok (kt : ty) (p : cbor) : option pv :=
  match kt with
  | TInt => option_map VInt (as_int_opt p)
  | TBytes => match p with CB b => Some (VBytes b) | _ => None end
  | TStr => match p with CT b => Some (VStr b) | _ => None end
  | TAny => Some (VAny p)
  | _ => None
  end.

Fixpoint from_prim (S : schema) (n : nat) (t : ty) (p : cbor) {struct n} : res pv :=
  match n with
  | O => EFuel
  | Datatypes.S n' =>
      let from_cls (c : string) (p : cbor) : res pv :=
        match lookup S c with
        | Some (KArray fs) =>
            match is_list_prim p with
            | Some ps => do vs <- dec_arr (from_prim S n') (fun c' p' => from_prim S n' (TCls c') p') fs ps; Ok (VObj c vs)
            | None => EDeser
            end
        | Some (KCoded code fs) =>
            match p with
            | CA [] => EOther "IndexError"
            | CA (h :: ps) =>
                match as_int_opt h with
                | Some z => if Z.eqb z code
                            then do vs <- dec_arr (from_prim S n') (fun c' p' => from_prim S n' (TCls c') p') fs ps; Ok (VObj c vs)
                            else EDeser
                | None => EDeser
                end
            | _ => EDeser
            end
        | Some (KMap fs) =>
            match p with
            | CM kvs =>
                do acc <- dec_map_fill (from_prim S n') (fun c' p' => from_prim S n' (TCls c') p') fs (map (fun _ => None) fs) kvs;
                do vs <- dec_map_close fs acc; Ok (VObj c vs)
            | _ => EDeser
            end
        | Some (KDict kt vt) =>
            match p with
            | CM kvs =>
                do out <- mapM (fun kv =>
                                  do k <- match kt with
                                          | TCls _ => from_prim S n' kt (fst kv)
                                          | _ => match dict_key_ok kt (fst kv) with Some k => Ok k | None => EOther "TypeCheckError" end
                                          end;
                                  do x <- match vt with
                                          | TCls _ => from_prim S n' vt (snd kv)
                                          | _ => match dict_key_ok vt (snd kv) with Some x => Ok x | None => EOther "TypeCheckError" end
                                          end;
                                  Ok (k, x)) kvs;
                Ok (VDict c out)
            | _ => EDeser
            end
        | Some (KBytes lo hi) =>
            match p with
            | CB b => if (N.leb lo (lenN b) && N.leb (lenN b) hi)%bool then Ok (VCB c b) else EOther "AssertionError"
            | CT _ => EOther "hex string form not modelled"
            | _ => EDeser
            end
        | Some (KEnum vals) =>
            match as_int_opt p with
            | Some z => if existsb (Z.eqb z) vals then Ok (VEnum c z) else EOther "ValueError"
            | None => EDeser
            end
        | Some (KOpaque shape code) => if shape_ok shape code p then Ok (VOpq c p) else EDeser
        | None => EOther "unknown class"
        end in
      match t with
      | TAny => Ok (VAny p)
      | TInt => match as_int_opt p with Some z => Ok (VInt z) | None => EDeser end
      | TBytes => match p with CB b => Ok (VBytes b) | _ => EDeser end
      | TStr => match p with CT b => Ok (VStr b) | _ => EDeser end
      | TBool => match p with CS 20 => Ok (VBool false) | CS 21 => Ok (VBool true) | _ => EDeser end
      | TNone => match p with CS 22 => Ok VNone | _ => EDeser end
      | TFrac => match p with
                 | CTag 30 (CA [a; b]) =>
                     match as_int_opt a, as_int_opt b with Some x, Some y => Ok (VFrac x y) | _, _ => EOther "bad rational" end
                 | _ => EDeser
                 end
      | TCls c => from_cls c p
      | TList t' =>
          match is_list_prim p with
          | Some ps => do vs <- mapM (from_prim S n' t') ps; Ok (VList vs)
          | None => EDeser
          end
      | TDictT kt vt =>
          match p with
          | CM kvs =>
              do out <- mapM (fun kv => do k <- from_prim S n' kt (fst kv); do x <- from_prim S n' vt (snd kv); Ok (k, x)) kvs;
              Ok (VMapT out)
          | _ => EDeser
          end
      | TSet ne t' =>
          (* OrderedSet.from_primitive: raises ValueError (not DeserializeException) on other shapes;
             elements are restored with <type_arg>.from_primitive; duplicates (by str) are dropped *)
          let elems (ps : list cbor) (tagged : bool) : res pv :=
            do vs <- mapM (from_prim S n' t') ps;
            if (ne && match vs with [] => true | _ => false end)%bool then EOther "ValueError: empty NonEmptyOrderedSet"
            else if dedup_ok ps then Ok (VSet tagged vs) else EOther "duplicate set elements dropped" in
          match p with
          | CTag 258 (CA ps) => elems ps true
          | CTag 258 (CAi ps) => elems ps true
          | CA ps => elems ps false
          | _ => EOther "ValueError"
          end
      | TUnion ts => firstM (from_prim S n') ts p
      | TTuple ts =>
          match is_list_prim p with
          | Some ps => if Nat.eqb (length ps) (length ts)
                       then do vs <- zipT (from_prim S n') ts ps; Ok (VList vs) else EDeser
          | None => EDeser
          end
      | TUnknown _ => EDeser
      end
  end.

(* cbor2.loads as patched by pycardano (pure-Python backend): chunked byte strings arrive flattened;
   everything else is kept (tag 258 stays a tag, indefinite arrays stay IndefiniteList) *)
Fixpoint flatten (x : cbor) : cbor :=
  match x with
  | CBi cs => CB (concat cs)
  | CA xs => CA (map flatten xs)
  | CAi xs => CAi (map flatten xs)
  | CM kvs => CM (map (fun kv => (flatten (fst kv), flatten (snd kv))) kvs)
  | CTag t y => CTag t (flatten y)
  | y => y
  end.
(* decoding fuel: 3 * length suffices for every well-formed item (CodecBytes.sz_bound) *)
Definition decode3 (bs : bytes) : option cbor :=
  match dec (3 * length bs) bs with Some (x, []) => Some x | _ => None end.
Definition loads (bs : bytes) : option cbor := option_map flatten (decode3 bs).

Definition fuel : nat := 64.
Definition to_cbor (S : schema) (v : pv) : res bytes := do p <- to_prim S fuel v; Ok (enc p).
Definition from_cbor (S : schema) (c : string) (bs : bytes) : res pv :=
  match loads bs with Some p => from_prim S fuel (TCls c) p | None => EOther "CBORDecodeError" end.
