(* ValueOracle.v — executable decision procedures used by the C04/C05 checks on the
   IMPLEMENTATION's outputs, and the glue that runs a value program in the model. *)
From Coq Require Import NArith ZArith Ascii String List Bool Lia.
From PyC Require Import Base Cbor Dict Value ValueHeap.
Import ListNotations.
Open Scope Z_scope.

(* ---------- raw-structure equality (insertion order included) ---------- *)
Definition asset_same (a b : asset) : bool :=
  Nat.eqb (length a) (length b) &&
  forallb (fun xy => bytes_eqb (fst (fst xy)) (fst (snd xy)) && (snd (fst xy) =? snd (snd xy))) (combine a b).
Definition masset_same (a b : masset) : bool :=
  Nat.eqb (length a) (length b) &&
  forallb (fun xy => bytes_eqb (fst (fst xy)) (fst (snd xy)) && asset_same (snd (fst xy)) (snd (snd xy))) (combine a b).
Definition snap_same (a b : list (Z * masset)) : bool :=
  Nat.eqb (length a) (length b) &&
  forallb (fun xy => (fst (fst xy) =? fst (snd xy)) && masset_same (snd (fst xy)) (snd (snd xy))) (combine a b).
Definition obs_same (a b : list obs) : bool :=
  Nat.eqb (length a) (length b) &&
  forallb (fun xy => match xy with
                     | (ONone, ONone) => true
                     | (OBool x, OBool y) => Bool.eqb x y
                     | (OInt x, OInt y) => x =? y
                     | _ => false end) (combine a b).

Definition normalizedb (m : masset) : bool :=
  forallb (fun kv => negb (is_nil (snd kv)) && forallb (fun nq => negb (snd nq =? 0)) (snd kv)) m.

(* content equality of two snapshots, plus normalisation of the variables produced by operators *)
Definition snap_content_same (a b : list (Z * masset)) : bool :=
  Nat.eqb (length a) (length b) &&
  forallb (fun xy => (fst (fst xy) =? fst (snd xy)) && m_eq (snd (fst xy)) (snd (snd xy))) (combine a b).

(* ---------- C05 check of one case ---------- *)
Definition c05_model (ops : list hop) : list (Z * masset) * list obs :=
  let r := run empty_store ops in (snapshot (fst r), snd r).

(* exact agreement model = implementation *)
Definition c05_corr (ops : list hop) (impl_snap : list (Z * masset)) (impl_obs : list obs) : bool :=
  let '(ms, mo) := c05_model ops in snap_same ms impl_snap && obs_same mo impl_obs.

(* property on the implementation's outputs: every variable has the same CONTENT as in the (proved)
   model and is normalised exactly when the model's is (the model's operator results are normalised
   by C05_add / C05_sub), and all comparison / count observations agree *)
Definition c05_oracle (ops : list hop) (impl_snap : list (Z * masset)) (impl_obs : list obs) : bool :=
  let '(ms, mo) := c05_model ops in
  snap_content_same ms impl_snap && obs_same mo impl_obs &&
  forallb (fun xy : (Z * masset) * (Z * masset) => Bool.eqb (normalizedb (snd (fst xy))) (normalizedb (snd (snd xy))))
          (combine ms impl_snap).

(* ---------- C04 ---------- *)
Definition as_int (x : cbor) : option Z :=
  match x with
  | CU n => Some (Z.of_N n)
  | CN n => Some (-1 - Z.of_N n)
  | CTag 2 (CB b) => Some (Z.of_N (unbe b))
  | CTag 3 (CB b) => Some (-1 - Z.of_N (unbe b))
  | _ => None
  end.

Fixpoint strictly_sorted (ks : list cbor) : bool :=
  match ks with
  | a :: ((b :: _) as r) => key_ltb a b && strictly_sorted r
  | _ => true
  end.

Definition dec_asset (x : cbor) : option asset :=
  match x with
  | CM kvs =>
      if strictly_sorted (map fst kvs) then
        fold_right (fun kv acc =>
                      match acc, fst kv, as_int (snd kv) with
                      | Some l, CB n, Some q => if q =? 0 then None else Some ((n, q) :: l)
                      | _, _, _ => None
                      end) (Some []) kvs
      else None
  | _ => None
  end.
Definition dec_masset (x : cbor) : option masset :=
  match x with
  | CM kvs =>
      if strictly_sorted (map fst kvs) then
        fold_right (fun kv acc =>
                      match acc, fst kv, dec_asset (snd kv) with
                      | Some l, CB p, Some a => if is_nil a then None else Some ((p, a) :: l)
                      | _, _, _ => None
                      end) (Some []) kvs
      else None
  | _ => None
  end.
(* canonical form of an emitted Value: bare int, or [int, non-empty strictly sorted map of
   non-empty strictly sorted maps of non-zero ints]; returns the decoded value *)
Definition dec_value_canonical (x : cbor) : option value :=
  match as_int x with
  | Some c => Some (mkValue c [])
  | None =>
      match x with
      | CA [c; m] =>
          match as_int c, dec_masset m with
          | Some cz, Some ma => if is_nil ma then None else Some (mkValue cz ma)
          | _, _ => None
          end
      | _ => None
      end
  end.

(* shortest-form / definite check comes for free: we re-encode the decoded item and compare *)
Definition c04_bytes_ok (v_snap : Z * masset) (bs : bytes) : bool :=
  match decode bs with
  | Some x =>
      bytes_eqb (enc x) bs &&
      match dec_value_canonical x with
      | Some v => (coin v =? fst v_snap) && m_eq (massets v) (snd v_snap)
      | None => false
      end
  | None => false
  end.

Fixpoint pairs_ok (l : list ((Z * masset) * bytes)) : bool :=
  match l with
  | [] => true
  | (v, bs) :: r =>
      forallb (fun wb => if (fst v =? fst (fst wb)) && m_eq (snd v) (snd (fst wb)) then bytes_eqb bs (snd wb) else true) r
      && pairs_ok r
  end.

(* oracle on the implementation's outputs: every emitted value is canonical and carries exactly the
   snapshot's content; equal contents (reached by different histories) have equal bytes *)
Definition c04_oracle (impl_snap : list (Z * masset)) (impl_cbor : list bytes) : bool :=
  Nat.eqb (length impl_snap) (length impl_cbor) &&
  forallb (fun vb => c04_bytes_ok (fst vb) (snd vb)) (combine impl_snap impl_cbor) &&
  pairs_ok (combine impl_snap impl_cbor).

Definition c04_corr (ops : list hop) (impl_cbor : list bytes) : bool :=
  let '(ms, _) := c05_model ops in
  Nat.eqb (length ms) (length impl_cbor) &&
  forallb (fun vb => bytes_eqb (value_cbor (mkValue (fst (fst vb)) (snd (fst vb)))) (snd vb)) (combine ms impl_cbor).

(* decode(encode v): Value.from_primitive -> MultiAsset/Asset.from_primitive; entries come back in emitted order *)
Definition sort_bytes_dict {V} (d : dict V) : dict V :=
  flat_map (fun kv => match fst kv with CB k => [(k, snd kv)] | _ => [] end)
           (ksort (map (fun kv => (CB (fst kv), snd kv)) d)).
Definition value_roundtrip (v : value) : Z * masset :=
  (coin v, sort_bytes_dict (map (fun kv => (fst kv, sort_bytes_dict (snd kv))) (m_norm (massets v)))).

(* ---------- plain DictCBORSerializable instances (Withdrawals, Metadata labels) ---------- *)
Definition dict_prim (kvs : list (cbor * cbor)) : cbor := CM (ksort kvs).
Definition dict_bytes_ok (kvs : list (cbor * cbor)) (bs : bytes) : bool :=
  match decode bs with
  | Some (CM out) =>
      bytes_eqb (enc (CM out)) bs && strictly_sorted (map fst out) && Nat.eqb (length out) (length kvs)
      && forallb (fun kv => existsb (fun kv' => bytes_eqb (enc (fst kv)) (enc (fst kv')) && bytes_eqb (enc (snd kv)) (enc (snd kv'))) out) kvs
  | _ => false
  end.
