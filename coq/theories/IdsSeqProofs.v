(* IdsSeqProofs.v — proofs for the stateful part of C17 (model: IdsSeq.v). No axioms. *)
From Coq Require Import NArith ZArith String List Bool Lia.
From Coq Require Import Init.Byte.
From PyC Require Import Base Cbor CborProofs Ids IdsProofs IdsSeq.
Import ListNotations.
Open Scope N_scope.

(* ------------------------------------------------------------------------------------------ *)
(* reading never changes what the object serializes to (whatever the memoisation flags)       *)
(* ------------------------------------------------------------------------------------------ *)
Lemma read_item c H k : forall lvl st, s_item (snd (read c H k lvl st)) = s_item st.
Proof.
  induction lvl as [|l IH]; intros st; cbn [read].
  - destruct (memo_flag c k 0); [destruct (memo_get 0 (s_memo st))|]; reflexivity.
  - destruct (memo_flag c k (S l)); [destruct (memo_get (S l) (s_memo st))|]; cbn [snd s_item]; auto.
Qed.

(* without memoisation every accessor hashes the current serialization and leaves the state alone *)
Lemma read_plain c H k : (forall l, memo_flag c k l = false) ->
  forall lvl st, read c H k lvl st = (H (fst (q_pre c k (s_item st))) (snd (q_pre c k (s_item st))), st).
Proof.
  intros F. induction lvl as [|l IH]; intros st; cbn [read]; rewrite F; [reflexivity|apply IH].
Qed.

Lemma memo_flag_spec k l : memo_flag spec_cfg k l = false.
Proof. destruct k; try reflexivity. destruct l as [|[|[|l]]]; reflexivity. Qed.

Lemma q_pre_spec k x : q_pre spec_cfg k x = q_spec_pre k x.
Proof. destruct k; reflexivity. Qed.

(* ------------------------------------------------------------------------------------------ *)
(* the item of the state machine is the fold of the edits (for every source configuration)    *)
(* ------------------------------------------------------------------------------------------ *)
Lemma exec_item c H k st o st' : exec c H k st o = Some st' -> item_step (s_item st) o = Some (s_item st').
Proof.
  destruct o as [l|p e|x'|x'| |]; cbn [exec item_step]; intros E.
  - inversion E; subst. now rewrite read_item.
  - destruct (edit_at p e (s_item st)) as [y|]; [|discriminate]. now inversion E.
  - now inversion E.
  - now inversion E.
  - now inversion E.
  - now inversion E.
Qed.

Lemma run_item c H k : forall ops st st', run c H k st ops = Some st' -> item_after (s_item st) ops = Some (s_item st').
Proof.
  induction ops as [|o r IH]; intros st st' E; cbn [run item_after] in *.
  - now inversion E.
  - destruct (exec c H k st o) as [st1|] eqn:E1; [|discriminate].
    rewrite (exec_item _ _ _ _ _ _ E1). now apply IH.
Qed.

(* ------------------------------------------------------------------------------------------ *)
(* MAIN: every observation is the specified digest of the CURRENT serialization               *)
(* ------------------------------------------------------------------------------------------ *)
Lemma seq_ids c : c = spec_cfg -> forall H k x ops st, run c H k (init x) ops = Some st ->
  exists y, item_after x ops = Some y /\ s_item st = y
            /\ forall lvl, fst (read c H k lvl st) = q_spec_id H k y.
Proof.
  intros -> H k x ops st E. exists (s_item st). split; [exact (run_item _ _ _ _ _ _ E)|]. split; [reflexivity|].
  intros lvl. rewrite (read_plain spec_cfg H k (memo_flag_spec k)). cbn [fst]. now rewrite q_pre_spec.
Qed.

(* the run itself never gets stuck on a read / copy / re-encode: only an edit whose path does not exist fails *)
Lemma exec_total c H k st o : (forall p e, o = OpEdit p e -> edit_at p e (s_item st) <> None) -> exec c H k st o <> None.
Proof.
  destruct o as [l|p e|x'|x'| |]; cbn [exec]; intros F; try discriminate.
  specialize (F p e eq_refl). destruct (edit_at p e (s_item st)); [discriminate|contradiction].
Qed.

Example seq_ids_nonvacuous :
  let H := fun (_ : nat) (m : bytes) => m in
  let x := CM [(CU 0, CTag 258 (CA [CA [CB [x11]; CU 0]])); (CU 1, CA [CA [CB [x61]; CU 5000000]]); (CU 2, CU 170000)] in
  let ops := [OpRead 1; OpEdit [] (ESet 3 (CU 4000)); OpRead 2; OpEdit [PKey 1] (EAppend (CA [CB [x62]; CU 7]));
              OpCopy (CM [(CU 0, CTag 258 (CA [CA [CB [x11]; CU 0]])); (CU 1, CA [CA [CB [x61]; CU 5000000]; CA [CB [x62]; CU 7]]);
                          (CU 2, CU 170000); (CU 3, CU 4000)]);
              OpEdit [PKey 1; PIdx 0; PIdx 1] (EPut (CU 4999993)); OpEdit [PKey 0] (EAppend (CA [CB [x12]; CU 1]));
              OpRead 0; OpEdit [] (EDel 3); OpRewrap; OpNeutral] in
  exists st, run spec_cfg H QBody (init x) ops = Some st
             /\ s_item st = CM [(CU 0, CTag 258 (CA [CA [CB [x11]; CU 0]; CA [CB [x12]; CU 1]]));
                                (CU 1, CA [CA [CB [x61]; CU 4999993]; CA [CB [x62]; CU 7]]); (CU 2, CU 170000)].
Proof. cbv zeta. eexists. split; vm_compute; reflexivity. Qed.

(* ------------------------------------------------------------------------------------------ *)
(* the memoisation flags matter: with a memoised accessor the statement is FALSE              *)
(* ------------------------------------------------------------------------------------------ *)
(* TransactionBody.id as a cached_property: read, extend the ttl, read again (through Transaction.id) *)
Lemma seq_memo_body_id_stale :
  let c := cfg_with_memo spec_cfg true false in
  let H := fun (_ : nat) (m : bytes) => m in
  let x := CM [(CU 0, CA []); (CU 1, CA []); (CU 2, CU 170000)] in
  exists st, run c H QBody (init x) [OpRead 1; OpEdit [] (ESet 3 (CU 4000))] = Some st
             /\ fst (read c H QBody 2 st) <> q_spec_id H QBody (s_item st)
             /\ fst (read c H QBody 0 st) = q_spec_id H QBody (s_item st).          (* body.hash() stays right *)
Proof. cbv zeta. eexists. split; [vm_compute; reflexivity|]. split; [vm_compute; discriminate|vm_compute; reflexivity]. Qed.

(* a deep copy carries the remembered value along; only a re-encoded (fresh) object is right again *)
Lemma seq_memo_copy_stale_reenc_fresh :
  let c := cfg_with_memo spec_cfg true false in
  let H := fun (_ : nat) (m : bytes) => m in
  let x := CM [(CU 0, CA []); (CU 1, CA []); (CU 2, CU 170000)] in
  let y := CM [(CU 0, CA []); (CU 1, CA []); (CU 2, CU 180000)] in
  (exists st, run c H QBody (init x) [OpRead 1; OpEdit [] (ESet 2 (CU 180000)); OpCopy y; OpRewrap] = Some st
              /\ fst (read c H QBody 1 st) <> q_spec_id H QBody (s_item st))
  /\ (exists st, run c H QBody (init x) [OpRead 1; OpEdit [] (ESet 2 (CU 180000)); OpReenc y] = Some st
                 /\ fst (read c H QBody 1 st) = q_spec_id H QBody (s_item st)).
Proof.
  cbv zeta. split; eexists; (split; [vm_compute; reflexivity|]); [vm_compute; discriminate|vm_compute; reflexivity].
Qed.

(* Transaction.id as a cached_property: survives the edit, but not a new Transaction around the same body *)
Lemma seq_memo_tx_id_stale :
  let c := cfg_with_memo spec_cfg false true in
  let H := fun (_ : nat) (m : bytes) => m in
  let x := CM [(CU 0, CA []); (CU 1, CA []); (CU 2, CU 170000)] in
  (exists st, run c H QBody (init x) [OpRead 2; OpEdit [PKey 1] (EAppend (CA [CB []; CU 1]))] = Some st
              /\ fst (read c H QBody 2 st) <> q_spec_id H QBody (s_item st)
              /\ fst (read c H QBody 1 st) = q_spec_id H QBody (s_item st))
  /\ (exists st, run c H QBody (init x) [OpRead 2; OpEdit [PKey 1] (EAppend (CA [CB []; CU 1])); OpRewrap] = Some st
                 /\ fst (read c H QBody 2 st) = q_spec_id H QBody (s_item st)).
Proof.
  cbv zeta. split; eexists; (split; [vm_compute; reflexivity|]).
  - split; [vm_compute; discriminate|vm_compute; reflexivity].
  - vm_compute; reflexivity.
Qed.

(* ------------------------------------------------------------------------------------------ *)
(* the identifier follows the object: a modification that changes the item changes the id     *)
(* ------------------------------------------------------------------------------------------ *)
Lemma q_spec_id_binds H : H_inj H 32 -> H_inj H 28 -> forall k x y, wf x -> wf y ->
  q_spec_id H k x = q_spec_id H k y -> x = y.
Proof.
  intros H32 H28 k x y Wx Wy E. unfold q_spec_id, q_spec_pre, q_spec_pre_b in E.
  destruct k; cbn [fst snd] in E.
  - apply H32 in E. now apply enc_inj.
  - apply H32 in E. now apply enc_inj.
  - apply H32 in E. now apply enc_inj.
  - apply H28 in E. inversion E as [E']. now apply enc_inj.
Qed.

Lemma seq_reread_differs c : c = spec_cfg -> forall H, H_inj H 32 -> H_inj H 28 ->
  forall k x ops st p e st' l l', run c H k (init x) ops = Some st -> exec c H k st (OpEdit p e) = Some st' ->
  wf (s_item st) -> wf (s_item st') -> s_item st <> s_item st' ->
  fst (read c H k l st) <> fst (read c H k l' st').
Proof.
  intros -> H H32 H28 k x ops st p e st' l l' _ _ W W' N.
  rewrite !(read_plain spec_cfg H k (memo_flag_spec k)). cbn [fst]. rewrite !q_pre_spec.
  intros E. apply N. exact (q_spec_id_binds H H32 H28 k _ _ W W' E).
Qed.

Example seq_reread_differs_nonvacuous :
  let x := CM [(CU 2, CU 170000)] in
  wf x /\ edit_at [] (ESet 3 (CU 7)) x = Some (CM [(CU 2, CU 170000); (CU 3, CU 7)]) /\ wf (CM [(CU 2, CU 170000); (CU 3, CU 7)]).
Proof. cbv zeta. split; [|split]; [|reflexivity|]; cbn; unfold two64; repeat split; lia. Qed.

(* the specified identifiers of the kinds are the ones of Ids.v *)
Lemma q_spec_id_kinds H x :
  q_spec_id H QBody x = tx_id H (enc x) /\ q_spec_id H QAux x = aux_hash H x /\ q_spec_id H QDatum x = datum_hash H x.
Proof. repeat split. Qed.
Lemma q_spec_id_native H s : q_spec_id H QNative (native_cbor s) = native_script_hash H s.
Proof. reflexivity. Qed.

(* ------------------------------------------------------------------------------------------ *)
(* keyed fields: what a set / delete does to the map                                          *)
(* ------------------------------------------------------------------------------------------ *)
Lemma map_get_put_same k v : forall kvs, map_get k (map_put k v kvs) = Some v.
Proof.
  induction kvs as [|[x w] r IH]; cbn [map_put map_get is_key fst].
  - now rewrite N.eqb_refl.
  - destruct x as [n| | | | | | | | |]; try (cbn [map_get is_key]; exact IH).
    destruct (n =? k) eqn:E1.
    + cbn [map_get is_key]. now rewrite N.eqb_refl.
    + destruct (k <? n); cbn [map_get is_key].
      * now rewrite N.eqb_refl.
      * rewrite E1. exact IH.
Qed.

Lemma map_get_put_other k k' v : k <> k' -> forall kvs, map_get k' (map_put k v kvs) = map_get k' kvs.
Proof.
  intros N. assert (Nk : (k =? k') = false) by now apply N.eqb_neq.
  induction kvs as [|[x w] r IH]; cbn [map_put map_get is_key].
  - now rewrite Nk.
  - destruct x as [n| | | | | | | | |]; try (cbn [map_get is_key]; exact IH).
    destruct (n =? k) eqn:E1.
    + apply N.eqb_eq in E1. subst n. cbn [map_get is_key]. now rewrite Nk.
    + destruct (k <? n); cbn [map_get is_key].
      * now rewrite Nk.
      * destruct (n =? k'); [reflexivity|exact IH].
Qed.

Lemma map_get_del_same k : forall kvs, map_get k (map_del k kvs) = None.
Proof.
  induction kvs as [|[x w] r IH]; [reflexivity|]. unfold map_del in *. cbn [filter fst].
  destruct (is_key k x) eqn:E; cbn [negb]; [exact IH|]. cbn [map_get]. now rewrite E.
Qed.

Lemma map_get_del_other k k' : k <> k' -> forall kvs, map_get k' (map_del k kvs) = map_get k' kvs.
Proof.
  intros N. induction kvs as [|[x w] r IH]; [reflexivity|]. unfold map_del in *. cbn [filter fst].
  destruct (is_key k x) eqn:E; cbn [negb map_get].
  - destruct x as [n| | | | | | | | |]; try discriminate. cbn [is_key] in *. apply N.eqb_eq in E. subst n.
    replace (k =? k') with false by (symmetry; now apply N.eqb_neq). exact IH.
  - destruct (is_key k' x); [reflexivity|exact IH].
Qed.
