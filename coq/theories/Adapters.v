(* Adapters.v — C20: chain-context adapters report UTxOs faithfully.

   SPECIFICATION side  render_X : the documented JSON shape in which service X reports a list of UTxOs
     (Blockfrost /addresses/{a}/utxos + /scripts/{h}[/cbor|/json]; Ogmios v5 JSON-WSP `utxo` query;
      Ogmios v6 JSON-RPC queryLedgerState/utxo; Kupo /matches/{a}?unspent + /datums/{h} + /scripts/{h};
      `cardano-cli query utxo --out-file`), written from the services' API documentation.
   IMPLEMENTATION side parse_X  : hand model, clause by clause, of pycardano/backend/{blockfrost,ogmios_v5,
      ogmios_v6,kupo,cardano_cli}.py `_utxos` / `_utxo_from_ogmios_result` / `_utxos_kupo` (+ the helpers
      extract_asset_info, _get_script, _try_fix_script, NativeScript.from_dict, RawPlutusData.from_dict and the
      ogmios library's QueryUtxo response reader), on json.loads' result.
   Python exceptions are `Err kind`.  Python dict = insertion-ordered association list (Dict.v); the
   adapters' `m.setdefault(p, Asset())[n] = q` is `mset`.  Definitions only; proofs are in AdaptersProofs.v. *)
From Coq Require Import NArith ZArith Ascii String List Bool Lia Permutation.
From Coq Require Import Init.Byte.
From PyC Require Import Base Cbor Dict Value Json.
Import ListNotations.
Open Scope string_scope.
Open Scope list_scope.

(* ================================================================ results *)
Inductive result (A : Type) : Type := Ok (a : A) | Err (k : string).
Arguments Ok {A} a.
Arguments Err {A} k.
Definition bind {A B} (r : result A) (f : A -> result B) : result B :=
  match r with Ok a => f a | Err k => Err k end.
Notation "'do' X <- A ; B" := (bind A (fun X => B)) (at level 200, X name, A at level 100, B at level 200).

Fixpoint mapM {A B} (f : A -> result B) (l : list A) : result (list B) :=
  match l with
  | [] => Ok []
  | x :: r => do y <- f x; do ys <- mapM f r; Ok (y :: ys)
  end.
Fixpoint foldM {A S} (f : S -> A -> result S) (l : list A) (s : S) : result S :=
  match l with
  | [] => Ok s
  | x :: r => do s' <- f s x; foldM f r s'
  end.

(* ================================================================ the UTxO model (what is on chain) *)
(* native (timelock) script; pycardano: ScriptPubkey / ScriptAll / ScriptAny / ScriptNofK /
   InvalidBefore (json "after") / InvalidHereAfter (json "before") *)
Inductive nscript :=
| NSig (kh : bytes)
| NAll (l : list nscript)
| NAny (l : list nscript)
| NAtLeast (n : Z) (l : list nscript)
| NAfter (slot : Z)
| NBefore (slot : Z).

Inductive script_m :=
| SPlutus (ver : N) (body : bytes)        (* body: the bytes hashed (after the version byte) into the script hash *)
| SNative (ns : nscript).

(* Plutus data value of an inline datum (only cardano-cli reports it structurally) *)
Inductive pdata :=
| PConstr (c : Z) (fs : list pdata)
| PMap (kvs : list (pdata * pdata))
| PList (l : list pdata)
| PInt (z : Z)
| PBytes (b : bytes).

Inductive datum_m :=
| DNone
| DHash (h : bytes) (known : option bytes)      (* datum hash; `known` = preimage the indexer (Kupo) can resolve, if any *)
| DInline (h : bytes) (raw : bytes) (pd : pdata). (* inline datum: its hash, its CBOR bytes on chain, its value *)

Definition uassets := list (bytes * list (bytes * N)).      (* policy -> (name -> quantity), grouped *)
Definition flat_assets := list (bytes * bytes * N).

Record utxo_model := mkU {
  u_txid : bytes;
  u_index : N;
  u_lovelace : N;
  u_assets : uassets;
  u_flat : flat_assets;          (* the order in which a flat-listing service (Blockfrost amount[], Ogmios v5 / Kupo
                                    assets{}) enumerates the same assets: any permutation of the grouped listing *)
  u_datum : datum_m;
  u_script : option script_m;
  u_script_hash : bytes;         (* hash under which Blockfrost / Kupo file the reference script *)
  u_script_wrapped : bool        (* the script endpoint serves the bytes with one more CBOR byte-string wrapper *)
}.

Definition flatten (a : uassets) : flat_assets :=
  flat_map (fun pl => map (fun nq => (fst pl, fst nq, snd nq)) (snd pl)) a.
Definition fkey (e : bytes * bytes * N) : bytes * bytes := (fst (fst e), snd (fst e)).

(* quantity of (p, n) in the model; key presence *)
Fixpoint flookup (l : flat_assets) (p n : bytes) : option N :=
  match l with
  | [] => None
  | (p', n', q) :: r => if bytes_eqb p' p && bytes_eqb n' n then Some q else flookup r p n
  end.
Definition ucontent (a : uassets) (p n : bytes) : N :=
  match flookup (flatten a) p n with Some q => q | None => 0%N end.
Definition upresent (a : uassets) (p n : bytes) : Prop := In (p, n) (map fkey (flatten a)).

(* ================================================================ what an adapter returns *)
(* RawPlutusData.data as built by RawPlutusData.from_dict *)
Inductive pyd :=
| YTag (t : Z) (fs : list pyd)            (* CBORTag(t, [fields]) *)
| YTag102 (c : Z) (fs : list pyd)         (* CBORTag(102, [c, IndefiniteList(fields)]) *)
| YDict (kvs : list (pyd * pyd))
| YInt (z : Z)
| YBytes (b : bytes)
| YByteString (b : bytes)                 (* serialization.ByteString *)
| YIList (l : list pyd).                  (* IndefiniteList *)

Inductive adatum :=
| ARaw (b : bytes)        (* RawCBOR(bytes) *)
| AData (y : pyd).        (* RawPlutusData *)

Record autxo := mkA {
  a_txid : bytes;
  a_index : Z;
  a_addr : string;           (* the text handed to Address.from_primitive (address decoding itself is C15) *)
  a_lovelace : Z;
  a_assets : masset;         (* MultiAsset: ordered dict of ordered dicts *)
  a_datum_hash : option bytes;
  a_datum : option adatum;
  a_script : option script_m
}.

Inductive svc := Blockfrost | OgmiosV5 | OgmiosV6 | Kupo | Cli.

(* tags of constructor alternatives (plutus.get_tag) *)
Definition get_tag (c : Z) : option Z :=
  if (0 <=? c)%Z && (c <? 7)%Z then Some (121 + c)%Z
  else if (7 <=? c)%Z && (c <? 128)%Z then Some (1280 + (c - 7))%Z
  else None.

(* the structure the Plutus data value stands for in pycardano's raw representation *)
Fixpoint pyd_of_pdata (d : pdata) : pyd :=
  match d with
  | PConstr c fs => match get_tag c with
                    | Some t => YTag t (map pyd_of_pdata fs)
                    | None => YTag102 c (map pyd_of_pdata fs)
                    end
  | PMap kvs => YDict (map (fun kv => (pyd_of_pdata (fst kv), pyd_of_pdata (snd kv))) kvs)
  | PList l => YIList (map pyd_of_pdata l)
  | PInt z => YInt z
  | PBytes b => if (32 <? length b)%nat then YByteString b else YBytes b
  end.
(* and back: the value denoted by a raw structure (None for structures from_dict never builds) *)
Definition untag (t : Z) : option Z :=
  if (121 <=? t)%Z && (t <? 128)%Z then Some (t - 121)%Z
  else if (1280 <=? t)%Z && (t <? 1401)%Z then Some (t - 1280 + 7)%Z
  else None.
Fixpoint pdata_of_pyd (y : pyd) : option pdata :=
  let all := fix all (l : list pyd) : option (list pdata) :=
    match l with
    | [] => Some []
    | x :: r => match pdata_of_pyd x, all r with Some a, Some b => Some (a :: b) | _, _ => None end
    end in
  match y with
  | YTag t fs => match untag t, all fs with Some c, Some l => Some (PConstr c l) | _, _ => None end
  | YTag102 c fs => match all fs with Some l => Some (PConstr c l) | None => None end
  | YDict kvs =>
      match (fix allp (l : list (pyd * pyd)) : option (list (pdata * pdata)) :=
               match l with
               | [] => Some []
               | kv :: r => match pdata_of_pyd (fst kv), pdata_of_pyd (snd kv), allp r with
                            | Some a, Some b, Some c => Some ((a, b) :: c)
                            | _, _, _ => None
                            end
               end) kvs with
      | Some l => Some (PMap l)
      | None => None
      end
  | YInt z => Some (PInt z)
  | YBytes b => Some (PBytes b)
  | YByteString b => Some (PBytes b)
  | YIList l => match all l with Some l' => Some (PList l') | None => None end
  end.

(* What "carried over unchanged" means for the datum, per service (see datum_ok below for the
   service-independent reading):
   - Blockfrost reports data_hash for hash AND inline datums; the adapter keeps the hash only when there is no
     inline datum;
   - Ogmios reports datumHash only for hash datums and datum only for inline ones;
   - Kupo reports datum_hash + datum_type; the adapter additionally attaches whatever /datums/{hash} resolves
     (for inline datums always, for hash datums when the indexer knows the preimage), so both fields are set;
   - cardano-cli reports an inline datum as detailed-schema JSON; the adapter rebuilds the value from it. *)
Definition datum_report (x : svc) (d : datum_m) : option bytes * option adatum :=
  match d with
  | DNone => (None, None)
  | DHash h known =>
      match x, known with
      | Kupo, Some pre => (Some h, Some (ARaw pre))
      | _, _ => (Some h, None)
      end
  | DInline h raw pd =>
      match x with
      | Kupo => (Some h, Some (ARaw raw))
      | Cli => (None, Some (AData (pyd_of_pdata pd)))
      | _ => (None, Some (ARaw raw))
      end
  end.

(* service-independent reading: nothing but the UTxO's own datum information is reported *)
Definition datum_ok (d : datum_m) (r : option bytes * option adatum) : Prop :=
  match d with
  | DNone => r = (None, None)
  | DHash h known => fst r = Some h /\ (snd r = None \/ exists pre, known = Some pre /\ snd r = Some (ARaw pre))
  | DInline h raw pd =>
      (fst r = None \/ fst r = Some h) /\
      (snd r = Some (ARaw raw) \/ exists y, snd r = Some (AData y) /\ pdata_of_pyd y = Some pd)
  end.

Definition present (m : masset) (p n : bytes) : Prop := In n (keys (mget m p)).

(* THE PROPERTY for one UTxO: same transaction reference, address and lovelace; exactly the same quantity for
   every (policy, name); exactly the same set of (policy, name) keys (nothing merged, dropped, invented or
   attributed to another policy); well-formed dicts without empty policies; datum and script carried over. *)
Definition faithful (x : svc) (addr : string) (u : utxo_model) (o : autxo) : Prop :=
  a_txid o = u_txid u /\ a_index o = Z.of_N (u_index u) /\ a_addr o = addr /\
  a_lovelace o = Z.of_N (u_lovelace u) /\
  (forall p n, content (a_assets o) p n = Z.of_N (ucontent (u_assets u) p n)) /\
  (forall p n, present (a_assets o) p n <-> upresent (u_assets u) p n) /\
  (wfd (a_assets o) /\ forall p a, In (p, a) (a_assets o) -> wfd a /\ a <> []) /\
  (a_datum_hash o, a_datum o) = datum_report x (u_datum u) /\
  a_script o = u_script u.

(* the same without fixing which of the two datum fields a service fills: this is what the harness decides
   (AdaptersOracle.faithfulb) on the outputs of the real adapters *)
Definition faithful_any (addr : string) (u : utxo_model) (o : autxo) : Prop :=
  a_txid o = u_txid u /\ a_index o = Z.of_N (u_index u) /\ a_addr o = addr /\
  a_lovelace o = Z.of_N (u_lovelace u) /\
  (forall p n, content (a_assets o) p n = Z.of_N (ucontent (u_assets u) p n)) /\
  (forall p n, present (a_assets o) p n <-> upresent (u_assets u) p n) /\
  (wfd (a_assets o) /\ forall p a, In (p, a) (a_assets o) -> wfd a /\ a <> []) /\
  datum_ok (u_datum u) (a_datum_hash o, a_datum o) /\
  a_script o = u_script u.

(* ================================================================ well-formed models *)
Definition wf_assets (a : uassets) : Prop :=
  NoDup (map fst a) /\
  Forall (fun pl => length (fst pl) = 28%nat /\ snd pl <> [] /\ NoDup (map fst (snd pl)) /\
                    Forall (fun nq => (length (fst nq) <= 32)%nat) (snd pl)) a.

Fixpoint wf_nscript (s : nscript) : Prop :=
  match s with
  | NSig kh => length kh = 28%nat
  | NAll l | NAny l | NAtLeast _ l =>
      (fix all (l : list nscript) : Prop := match l with [] => True | x :: r => wf_nscript x /\ all r end) l
  | _ => True
  end.

(* keys a Python dict accepts and keeps apart: ints and byte strings, pairwise distinct *)
Definition pkey_eqb (a b : pdata) : bool :=
  match a, b with
  | PInt x, PInt y => Z.eqb x y
  | PBytes x, PBytes y => bytes_eqb x y
  | _, _ => false
  end.
Definition is_pkey (a : pdata) : bool := match a with PInt _ | PBytes _ => true | _ => false end.
Fixpoint pkeys_distinct (l : list pdata) : bool :=
  match l with
  | [] => true
  | k :: r => negb (existsb (pkey_eqb k) r) && pkeys_distinct r
  end.
Fixpoint wf_pdata (d : pdata) : Prop :=
  match d with
  | PConstr c fs =>
      (0 <= c)%Z /\ (fix all (l : list pdata) : Prop := match l with [] => True | x :: r => wf_pdata x /\ all r end) fs
  | PMap kvs =>
      forallb is_pkey (map fst kvs) = true /\ pkeys_distinct (map fst kvs) = true /\
      (fix all (l : list (pdata * pdata)) : Prop :=
         match l with [] => True | kv :: r => (wf_pdata (fst kv) /\ wf_pdata (snd kv)) /\ all r end) kvs
  | PList l => (fix all (l : list pdata) : Prop := match l with [] => True | x :: r => wf_pdata x /\ all r end) l
  | _ => True
  end.

(* a datum is at least one byte of CBOR and is not its own hash (the adapters compare the two texts) *)
Definition wf_datum (x : svc) (d : datum_m) : Prop :=
  match d with
  | DNone => True
  | DHash h known => length h = 32%nat /\ known <> Some h
  | DInline h raw pd => length h = 32%nat /\ raw <> [] /\ raw <> h /\ match x with Cli => wf_pdata pd | _ => True end
  end.

(* reference-script kinds the adapter handles at all.  OUTSIDE this region the adapter raises for the whole
   address query (finding C20-refscript-unsupported, see script_unsupported_refuted):
   native scripts for Ogmios v5/v6, Kupo and cardano-cli; PlutusV3 for cardano-cli (and v5, which predates it) *)
Definition script_supported (x : svc) (s : option script_m) : bool :=
  match s with
  | None => true
  | Some (SPlutus v _) =>
      match x with
      | OgmiosV5 | Cli => (v =? 1)%N || (v =? 2)%N
      | _ => (v =? 1)%N || (v =? 2)%N || (v =? 3)%N
      end
  | Some (SNative _) => match x with Blockfrost => true | _ => false end
  end.

Section WithHash.
  (* blake2b-224: only its values on the scripts at hand matter (the harness supplies them from hashlib) *)
  Variable H : bytes -> bytes.

  Definition plutus_hash (ver : N) (body : bytes) : bytes := H (n2b ver :: body).

  Definition wf_script (x : svc) (u : utxo_model) : Prop :=
    script_supported x (u_script u) = true /\
    match u_script u with
    | None => True
    | Some (SPlutus v body) =>
        lenN body < two64 /\
        match x with
        | Blockfrost | Kupo =>
            length (u_script_hash u) = 28%nat /\ u_script_hash u = plutus_hash v body /\
            (u_script_wrapped u = true -> plutus_hash v (enc (CB body)) <> plutus_hash v body)
        | _ => True
        end
    | Some (SNative ns) => wf_nscript ns /\ length (u_script_hash u) = 28%nat
    end%N.

  Definition wf_utxo (x : svc) (u : utxo_model) : Prop :=
    length (u_txid u) = 32%nat /\
    wf_assets (u_assets u) /\ Permutation (flatten (u_assets u)) (u_flat u) /\
    wf_datum x (u_datum u) /\ wf_script x u.

  (* ================================================================ Python helpers *)
  Definition from_hex (s : string) : result bytes :=         (* bytes.fromhex *)
    match unhex s with Some b => Ok b | None => Err "ValueError" end.
  Definition sized (lo hi : nat) (b : bytes) : result bytes := (* ConstrainedBytes.__init__ *)
    if (lo <=? length b)%nat && (length b <=? hi)%nat then Ok b else Err "AssertionError".
  Definition as_str (j : json) : result string := match j with JStr s => Ok s | _ => Err "TypeError" end.
  Definition as_int (j : json) : result Z := match j with JNum z => Ok z | _ => Err "TypeError" end.
  Definition hash_of_hex (size : nat) (j : json) : result bytes :=   (* X.from_primitive(hex str), MIN=MAX=size *)
    do s <- as_str j; do b <- from_hex s; sized size size b.
  Definition name_of_hex (j : json) : result bytes :=                (* AssetName.from_primitive *)
    do s <- as_str j; do b <- from_hex s; sized 0 32 b.
  (* d[k] *)
  Definition jfield (k : string) (j : json) : result json :=
    match j with
    | JObj kvs => match jget k kvs with Some v => Ok v | None => Err "KeyError" end
    | _ => Err "TypeError"
    end.
  (* d.get(k) *)
  Definition jopt (k : string) (j : json) : json :=
    match j with
    | JObj kvs => match jget k kvs with Some v => v | None => JNull end
    | _ => JNull
    end.
  Definition jhas (k : string) (j : json) : bool :=
    match j with JObj kvs => match jget k kvs with Some _ => true | None => false end | _ => false end.
  (* int(x) for x a str of digits or an int *)
  Definition py_int (j : json) : result Z :=
    match j with
    | JNum z => Ok z
    | JStr s => match N_of_dec s with Some n => Ok (Z.of_N n) | None => Err "ValueError" end
    | _ => Err "TypeError"
    end.
  Definition int_of_str (s : string) : result Z :=
    match N_of_dec s with Some n => Ok (Z.of_N n) | None => Err "ValueError" end.

  (* multi_assets.setdefault(policy, Asset())[name] = quantity
     (also: if policy not in multi_assets: multi_assets[policy] = Asset(); multi_assets[policy][name] = q) *)
  Definition mset (m : masset) (p n : bytes) (q : Z) : masset := dset m p (dset (mget m p) n q).

  (* PlutusScript.from_version *)
  Definition from_version (ver : Z) (body : bytes) : result script_m :=
    if (ver =? 1)%Z || (ver =? 2)%Z || (ver =? 3)%Z then Ok (SPlutus (Z.to_N ver) body) else Err "ValueError".

  (* cbor2.loads(b) when the result is used as bytes *)
  Definition cbor_loads_bytes (b : bytes) : result bytes :=
    match decode b with
    | Some (CB x) => Ok x
    | Some (CBi cs) => Ok (concat cs)
    | Some _ => Err "TypeError"
    | None => Err "CBORDecodeError"
    end.

  (* blockfrost._try_fix_script *)
  Definition try_fix (scripth : string) (s : script_m) : result script_m :=
    match s with
    | SPlutus v body =>
        if String.eqb (hexs (plutus_hash v body)) scripth then Ok s
        else do b' <- cbor_loads_bytes body;
             if String.eqb (hexs (plutus_hash v b')) scripth then Ok (SPlutus v b') else Err "ValueError"
    | _ => Err "TypeError"
    end.

  (* ---------------------------------------------------------------- NativeScript.from_dict *)
  Definition not_type (kv : string * json) : bool := negb (String.eqb (fst kv) "type").
  Fixpoint ns_of_json (fuel : nat) (j : json) : result nscript :=
    match fuel with
    | O => Err "fuel"
    | S f =>
        do t <- jfield "type" j;
        match j, t with
        | JObj kvs, JStr t =>
            let rest := filter not_type kvs in
            if String.eqb t "sig" then
              match rest with
              | [(k, v)] => if String.eqb k "scripts" then Err "DeserializeException"
                            else do kh <- hash_of_hex 28 v; Ok (NSig kh)
              | _ => Err "DeserializeException"
              end
            else if String.eqb t "all" then
              match rest with
              | [(k, JArr l)] => if String.eqb k "scripts" then do ss <- mapM (ns_of_json f) l; Ok (NAll ss)
                                 else Err "DeserializeException"
              | _ => Err "DeserializeException"
              end
            else if String.eqb t "any" then
              match rest with
              | [(k, JArr l)] => if String.eqb k "scripts" then do ss <- mapM (ns_of_json f) l; Ok (NAny ss)
                                 else Err "DeserializeException"
              | _ => Err "DeserializeException"
              end
            else if String.eqb t "atLeast" then
              match rest with
              | [(k1, JNum n); (k2, JArr l)] =>
                  if negb (String.eqb k1 "scripts") && String.eqb k2 "scripts"
                  then do ss <- mapM (ns_of_json f) l; Ok (NAtLeast n ss)
                  else Err "DeserializeException"
              | _ => Err "DeserializeException"
              end
            else if String.eqb t "after" then
              match rest with
              | [(k, JNum s)] => if String.eqb k "scripts" then Err "DeserializeException" else Ok (NAfter s)
              | _ => Err "DeserializeException"
              end
            else if String.eqb t "before" then
              match rest with
              | [(k, JNum s)] => if String.eqb k "scripts" then Err "DeserializeException" else Ok (NBefore s)
              | _ => Err "DeserializeException"
              end
            else Err "KeyError"                       (* JSON_TAG_TO_INT[script_type] *)
        | _, _ => Err "KeyError"
        end
    end.
  Definition native_from_dict (j : json) : result nscript := ns_of_json (S (jdepth j)) j.

  (* ---------------------------------------------------------------- RawPlutusData.from_dict *)
  Definition hashable (y : pyd) : bool :=
    match y with YInt _ | YBytes _ | YByteString _ => true | _ => false end.
  Definition ykey_eqb (a b : pyd) : bool :=
    match a, b with
    | YInt x, YInt y => Z.eqb x y
    | YBytes x, YBytes y | YByteString x, YByteString y
    | YBytes x, YByteString y | YByteString x, YBytes y => bytes_eqb x y
    | _, _ => false
    end.
  Fixpoint ydset (d : list (pyd * pyd)) (k v : pyd) : list (pyd * pyd) :=
    match d with
    | [] => [(k, v)]
    | (k', v') :: r => if ykey_eqb k' k then (k', v) :: r else (k', v') :: ydset r k v
    end.

  Fixpoint pyd_of_json (fuel : nat) (j : json) : result pyd :=
    match fuel with
    | O => Err "fuel"
    | S f =>
        match j with
        | JObj _ =>
            if jhas "constructor" j then
              do fs <- jfield "fields" j;
              match fs with
              | JArr l =>
                  do ys <- mapM (pyd_of_json f) l;
                  do c <- jfield "constructor" j;
                  do c <- as_int c;
                  match get_tag c with
                  | Some t => Ok (YTag t ys)
                  | None => Ok (YTag102 c ys)
                  end
              | _ => Err "TypeError"
              end
            else if jhas "map" j then
              do m <- jfield "map" j;
              match m with
              | JArr pairs =>
                  do d <- foldM (fun acc pair =>
                                   do kj <- jfield "k" pair; do k <- pyd_of_json f kj;
                                   do vj <- jfield "v" pair; do v <- pyd_of_json f vj;
                                   if hashable k then Ok (ydset acc k v) else Err "TypeError") pairs [];
                  Ok (YDict d)
              | _ => Err "TypeError"
              end
            else if jhas "int" j then
              do z <- jfield "int" j; do z <- as_int z; Ok (YInt z)
            else if jhas "bytes" j then
              do s <- jfield "bytes" j; do s <- as_str s; do b <- from_hex s;
              if (64 <? String.length s)%nat then Ok (YByteString b) else Ok (YBytes b)
            else if jhas "list" j then
              do l <- jfield "list" j;
              match l with
              | JArr l => do ys <- mapM (pyd_of_json f) l; Ok (YIList ys)
              | _ => Err "TypeError"
              end
            else Err "DeserializeException"
        | _ => Err "TypeError"
        end
    end.
  Definition plutus_from_dict (j : json) : result pyd := pyd_of_json (S (jdepth j)) j.

  (* ================================================================ service documents *)
  Record service := mkService {
    sv_main : json;                                (* the UTxO query response *)
    sv_script : list (string * json);              (* Blockfrost /scripts/{h}; Kupo /scripts/{h} *)
    sv_script_cbor : list (string * json);         (* Blockfrost /scripts/{h}/cbor *)
    sv_script_json : list (string * json);         (* Blockfrost /scripts/{h}/json *)
    sv_datum : list (string * json)                (* Kupo /datums/{h} *)
  }.

  (* ---------------------------------------------------------------- shared rendering *)
  Definition jhex (b : bytes) : json := JStr (hexs b).
  Definition jN (n : N) : json := JNum (Z.of_N n).
  Definition zeros32 : string := "0000000000000000000000000000000000000000000000000000000000000000".

  (* native script, cardano-cli / Blockfrost JSON *)
  Fixpoint ns_json (s : nscript) : json :=
    match s with
    | NSig kh => JObj [("type", JStr "sig"); ("keyHash", jhex kh)]
    | NAll l => JObj [("type", JStr "all"); ("scripts", JArr (map ns_json l))]
    | NAny l => JObj [("type", JStr "any"); ("scripts", JArr (map ns_json l))]
    | NAtLeast n l => JObj [("type", JStr "atLeast"); ("required", JNum n); ("scripts", JArr (map ns_json l))]
    | NAfter s => JObj [("type", JStr "after"); ("slot", JNum s)]
    | NBefore s => JObj [("type", JStr "before"); ("slot", JNum s)]
    end.
  (* native script, Ogmios v5 JSON *)
  Fixpoint ns_json_v5 (s : nscript) : json :=
    match s with
    | NSig kh => jhex kh
    | NAll l => JObj [("all", JArr (map ns_json_v5 l))]
    | NAny l => JObj [("any", JArr (map ns_json_v5 l))]
    | NAtLeast n l => JObj [(dec_of_Z n, JArr (map ns_json_v5 l))]
    | NAfter s => JObj [("startsAt", JNum s)]
    | NBefore s => JObj [("expiresAt", JNum s)]
    end.
  (* native script, Ogmios v6 JSON *)
  Fixpoint ns_json_v6 (s : nscript) : json :=
    match s with
    | NSig kh => JObj [("clause", JStr "signature"); ("from", jhex kh)]
    | NAll l => JObj [("clause", JStr "all"); ("from", JArr (map ns_json_v6 l))]
    | NAny l => JObj [("clause", JStr "any"); ("from", JArr (map ns_json_v6 l))]
    | NAtLeast n l => JObj [("clause", JStr "some"); ("atLeast", JNum n); ("from", JArr (map ns_json_v6 l))]
    | NAfter s => JObj [("clause", JStr "after"); ("slot", JNum s)]
    | NBefore s => JObj [("clause", JStr "before"); ("slot", JNum s)]
    end.
  (* native script, CBOR (ledger CDDL native_script) *)
  Fixpoint ns_cbor (s : nscript) : cbor :=
    match s with
    | NSig kh => CA [CU 0; CB kh]
    | NAll l => CA [CU 1; CA (map ns_cbor l)]
    | NAny l => CA [CU 2; CA (map ns_cbor l)]
    | NAtLeast n l => CA [CU 3; CU (Z.to_N n); CA (map ns_cbor l)]
    | NAfter s => CA [CU 4; CU (Z.to_N s)]
    | NBefore s => CA [CU 5; CU (Z.to_N s)]
    end.

  (* Plutus data, detailed-schema JSON (cardano-cli inlineDatum) *)
  Fixpoint pd_json (d : pdata) : json :=
    match d with
    | PConstr c fs => JObj [("constructor", JNum c); ("fields", JArr (map pd_json fs))]
    | PMap kvs => JObj [("map", JArr (map (fun kv => JObj [("k", pd_json (fst kv)); ("v", pd_json (snd kv))]) kvs))]
    | PList l => JObj [("list", JArr (map pd_json l))]
    | PInt z => JObj [("int", JNum z)]
    | PBytes b => JObj [("bytes", jhex b)]
    end.

  Definition served_body (u : utxo_model) (body : bytes) : bytes :=
    if u_script_wrapped u then enc (CB body) else body.
  Definition ver_digit (v : N) : string := dec_of_N v.

  (* "policy.name" / "policy" (empty name): Ogmios v5 and Kupo asset identifiers *)
  Definition dotted (p n : bytes) : string :=
    match n with
    | [] => hexs p
    | _ => (hexs p ++ String "." (hexs n))%string
    end.
  Definition dotted_assets (l : flat_assets) : json :=
    JObj (map (fun e => (dotted (fst (fst e)) (snd (fst e)), jN (snd e))) l).
  (* {"policy": {"name": q}} : Ogmios v6 and cardano-cli *)
  Definition nested_assets (a : uassets) : list (string * json) :=
    map (fun pl => (hexs (fst pl), JObj (map (fun nq => (hexs (fst nq), jN (snd nq))) (snd pl)))) a.

  (* ================================================================ Blockfrost *)
  Definition bf_entry (addr : string) (u : utxo_model) : json :=
    JObj [("address", JStr addr);
          ("tx_hash", jhex (u_txid u));
          ("tx_index", jN (u_index u));
          ("output_index", jN (u_index u));
          ("amount", JArr (JObj [("unit", JStr "lovelace"); ("quantity", JStr (dec_of_N (u_lovelace u)))]
                           :: map (fun e => JObj [("unit", JStr (hexs (fst (fst e)) ++ hexs (snd (fst e)))%string);
                                                   ("quantity", JStr (dec_of_N (snd e)))]) (u_flat u)));
          ("block", JStr zeros32);
          ("data_hash", match u_datum u with DNone => JNull | DHash h _ | DInline h _ _ => jhex h end);
          ("inline_datum", match u_datum u with DInline _ raw _ => jhex raw | _ => JNull end);
          ("reference_script_hash", match u_script u with None => JNull | Some _ => jhex (u_script_hash u) end)].
  Definition bf_script_docs (u : utxo_model) : list (string * json) :=
    match u_script u with
    | None => []
    | Some (SPlutus v body) =>
        [(hexs (u_script_hash u), JObj [("script_hash", jhex (u_script_hash u));
                                        ("type", JStr ("plutusV" ++ ver_digit v)%string);
                                        ("serialised_size", jN (lenN body))])]
    | Some (SNative _) =>
        [(hexs (u_script_hash u), JObj [("script_hash", jhex (u_script_hash u));
                                        ("type", JStr "timelock"); ("serialised_size", JNull)])]
    end.
  Definition bf_cbor_docs (u : utxo_model) : list (string * json) :=
    match u_script u with
    | Some (SPlutus v body) => [(hexs (u_script_hash u), JObj [("cbor", jhex (served_body u body))])]
    | _ => []
    end.
  Definition bf_json_docs (u : utxo_model) : list (string * json) :=
    match u_script u with
    | Some (SNative ns) => [(hexs (u_script_hash u), JObj [("json", ns_json ns)])]
    | _ => []
    end.
  Definition render_blockfrost (addr : string) (us : list utxo_model) : service :=
    mkService (JArr (map (bf_entry addr) us))
              (flat_map bf_script_docs us) (flat_map bf_cbor_docs us) (flat_map bf_json_docs us) [].

  (* the API call of blockfrost-python: 404 -> ApiError *)
  Definition api_get (tbl : list (string * json)) (k : string) : result json :=
    match jget k tbl with Some d => Ok d | None => Err "ApiError" end.
  (* Namespace attribute read *)
  Definition jattr (k : string) (j : json) : result json :=
    match j with
    | JObj kvs => match jget k kvs with Some v => Ok v | None => Err "AttributeError" end
    | _ => Err "AttributeError"
    end.

  Definition bf_amount_step (acc : Z * masset) (item : json) : result (Z * masset) :=
    do unit <- jattr "unit" item;
    do unit <- as_str unit;
    if String.eqb unit "lovelace" then
      do q <- jattr "quantity" item; do q <- py_int q; Ok (q, snd acc)
    else
      do data <- from_hex unit;
      do p <- sized 28 28 (firstn 28 data);
      do n <- sized 0 32 (skipn 28 data);
      do q <- jattr "quantity" item; do q <- py_int q;
      Ok (fst acc, mset (snd acc) p n q).

  Definition bf_get_script (sv : service) (h : string) : result script_m :=
    do info <- api_get (sv_script sv) h;
    do ty <- jattr "type" info;
    do ty <- as_str ty;
    if String.prefix "plutusv" (lower ty) then
      do ver <- match last_char ty with Some c => int_of_str (String c EmptyString) | None => Err "IndexError" end;
      do cb <- api_get (sv_script_cbor sv) h;
      do hx <- jattr "cbor" cb;
      do hx <- as_str hx;
      do body <- from_hex hx;
      do ps <- from_version ver body;
      try_fix h ps
    else
      do sj <- api_get (sv_script_json sv) h;
      do j <- jfield "json" sj;
      do ns <- native_from_dict j;
      Ok (SNative ns).

  Definition parse_bf_entry (sv : service) (addr : string) (r : json) : result autxo :=
    do txh <- jattr "tx_hash" r;
    do txid <- hash_of_hex 32 txh;
    do ix <- jattr "output_index" r;
    do ix <- as_int ix;
    do amount <- jattr "amount" r;
    do cm <- match amount with JArr items => foldM bf_amount_step items (0%Z, []) | _ => Err "TypeError" end;
    do dh <- jattr "data_hash" r;
    do datum_hash <-
       (if truthy dh then
          do inl <- jattr "inline_datum" r;
          if is_null inl then do h <- hash_of_hex 32 dh; Ok (Some h) else Ok None
        else Ok None);
    do datum <-
       (if jhas "inline_datum" r && negb (is_null (jopt "inline_datum" r)) then
          do s <- as_str (jopt "inline_datum" r); do b <- from_hex s; Ok (Some (ARaw b))
        else Ok None);
    do script <-
       (if jhas "reference_script_hash" r && truthy (jopt "reference_script_hash" r) then
          do h <- as_str (jopt "reference_script_hash" r); do s <- bf_get_script sv h; Ok (Some s)
        else Ok None);
    Ok (mkA txid ix addr (fst cm) (snd cm) datum_hash datum script).

  Definition parse_blockfrost (addr : string) (sv : service) : result (list autxo) :=
    match sv_main sv with
    | JArr rs => mapM (parse_bf_entry sv addr) rs
    | _ => Err "TypeError"
    end.

  (* ================================================================ Ogmios v5 *)
  Definition v5_script (s : script_m) : json :=
    match s with
    | SPlutus v body => JObj [(("plutus:v" ++ ver_digit v)%string, jhex body)]
    | SNative ns => JObj [("native", ns_json_v5 ns)]
    end.
  Definition v5_entry (addr : string) (u : utxo_model) : json :=
    JArr [JObj [("txId", jhex (u_txid u)); ("index", jN (u_index u))];
          JObj [("address", JStr addr);
                ("value", JObj [("coins", jN (u_lovelace u)); ("assets", dotted_assets (u_flat u))]);
                ("datumHash", match u_datum u with DHash h _ => jhex h | _ => JNull end);
                ("datum", match u_datum u with DInline _ raw _ => jhex raw | _ => JNull end);
                ("script", match u_script u with Some s => v5_script s | None => JNull end)]].
  Definition render_v5 (addr : string) (us : list utxo_model) : service :=
    mkService (JObj [("type", JStr "jsonwsp/response"); ("version", JStr "1.0"); ("servicename", JStr "ogmios");
                     ("methodname", JStr "Query"); ("result", JArr (map (v5_entry addr) us));
                     ("reflection", JNull)]) [] [] [] [].

  (* kupo.extract_asset_info *)
  Definition extract_asset_info (asset : string) : result (bytes * bytes) :=
    do pn <- match split_on "." asset with
             | [p] => Ok (p, EmptyString)
             | [p; n] => Ok (p, n)
             | _ => Err "ValueError"
             end;
    do p <- hash_of_hex 28 (JStr (fst pn));
    do n <- name_of_hex (JStr (snd pn));
    Ok (p, n).
  Definition dotted_step (m : masset) (kv : string * json) : result masset :=
    do pn <- extract_asset_info (fst kv);
    do q <- as_int (snd kv);
    Ok (mset m (fst pn) (snd pn) q).
  (* the `if not value["assets"]: ... else: for asset, quantity in value["assets"].items()` block *)
  Definition dotted_parse (assets : json) : result masset :=
    if truthy assets then
      match assets with JObj kvs => foldM dotted_step kvs [] | _ => Err "AttributeError" end
    else Ok [].

  (* x[i] on a list *)
  Definition jnth (i : nat) (j : json) : result json :=
    match j with
    | JArr l => match nth_error l i with Some v => Ok v | None => Err "IndexError" end
    | _ => Err "TypeError"
    end.

  Definition parse_v5_entry (r : json) : result autxo :=
    do in_ref <- jnth 0 r;
    do output <- jnth 1 r;
    do txh <- jfield "txId" in_ref;
    do ixj <- jfield "index" in_ref;
    do txid <- hash_of_hex 32 txh;
    do ix <- as_int ixj;
    do value <- jfield "value" output;
    do coins <- jfield "coins" value;
    do script <-
       (let s := jopt "script" output in
        if truthy s then
          match s with
          | JObj _ =>
              if jhas "plutus:v2" s then do b <- (do h <- jfield "plutus:v2" s; do h <- as_str h; from_hex h); Ok (Some (SPlutus 2 b))
              else if jhas "plutus:v1" s then do b <- (do h <- jfield "plutus:v1" s; do h <- as_str h; from_hex h); Ok (Some (SPlutus 1 b))
              else Err "ValueError"
          | _ => Err "TypeError"
          end
        else Ok None);
    do datum_hash <-
       (if truthy (jopt "datumHash" output) then
          do dh <- jfield "datumHash" output; do h <- hash_of_hex 32 dh; Ok (Some h)
        else Ok None);
    do dj <- jfield "datum" output;
    do datum <-
       (if truthy dj then
          do dh <- jfield "datumHash" output;
          if negb (json_str_eqb dj dh) then do s <- as_str dj; do b <- from_hex s; Ok (Some (ARaw b)) else Ok None
        else Ok None);
    do assets <- jfield "assets" value;
    do ma <- dotted_parse assets;
    do addr <- jfield "address" output;
    do addr <- as_str addr;
    do lov <- as_int coins;
    Ok (mkA txid ix addr lov ma datum_hash datum script).

  Definition parse_v5 (sv : service) : result (list autxo) :=
    do res <- jfield "result" (sv_main sv);
    match res with
    | JArr rs => mapM parse_v5_entry rs
    | _ => Err "TypeError"
    end.

  (* ================================================================ Ogmios v6 *)
  Definition v6_script (s : script_m) : json :=
    match s with
    | SPlutus v body => JObj [("language", JStr ("plutus:v" ++ ver_digit v)%string); ("cbor", jhex body)]
    | SNative ns => JObj [("language", JStr "native"); ("json", ns_json_v6 ns); ("cbor", jhex (enc (ns_cbor ns)))]
    end.
  Definition v6_entry (addr : string) (u : utxo_model) : json :=
    JObj ([("transaction", JObj [("id", jhex (u_txid u))]); ("index", jN (u_index u)); ("address", JStr addr);
           ("value", JObj (("ada", JObj [("lovelace", jN (u_lovelace u))]) :: nested_assets (u_assets u)))]
          ++ match u_datum u with
             | DNone => []
             | DHash h _ => [("datumHash", jhex h)]
             | DInline _ raw _ => [("datum", jhex raw)]
             end
          ++ match u_script u with None => [] | Some s => [("script", v6_script s)] end).
  Definition render_v6 (addr : string) (us : list utxo_model) : service :=
    mkService (JObj [("jsonrpc", JStr "2.0"); ("method", JStr "queryLedgerState/utxo");
                     ("result", JArr (map (v6_entry addr) us)); ("id", JNull)]) [] [] [] [].

  Definition v6_names_step (p : bytes) (m : masset) (kv : string * json) : result masset :=
    do n <- name_of_hex (JStr (fst kv));
    do q <- as_int (snd kv);
    Ok (mset m p n q).
  Definition v6_policy_step (m : masset) (kv : string * json) : result masset :=
    if String.eqb (fst kv) "ada" then Ok m
    else match snd kv with
         | JObj names =>
             (* policy = ScriptHash.from_primitive(asset_hex) is evaluated inside the inner loop *)
             match names with
             | [] => Ok m
             | _ => do p <- hash_of_hex 28 (JStr (fst kv)); foldM (v6_names_step p) names m
             end
         | _ => Err "AttributeError"
         end.
  Definition only_ada (kvs : list (string * json)) : bool :=        (* set(value.keys()) == {"ada"} *)
    match kvs with [] => false | _ => forallb (fun kv => String.eqb (fst kv) "ada") kvs end.

  Definition parse_v6_entry (r : json) : result autxo :=
    (* ogmios.statequery.QueryUtxo: Utxo(tx_id=utxo.get("transaction").get("id"), index=..., ...) *)
    let txj := jopt "id" (jopt "transaction" r) in
    let value := jopt "value" r in
    let datum_hash_j := jopt "datumHash" r in
    let datum_j := jopt "datum" r in
    let script_j := jopt "script" r in
    do txid <- hash_of_hex 32 txj;
    do ix <- as_int (jopt "index" r);
    do lov <- match value with
              | JObj _ => match jopt "ada" value with
                          | JObj kvs => match jget "lovelace" kvs with Some v => as_int v | None => Ok 0%Z end
                          | _ => Err "AttributeError"
                          end
              | _ => Err "AttributeError"
              end;
    do script <-
       (if truthy script_j then
          do lang <- jfield "language" script_j;
          do lang <- as_str lang;
          if String.prefix "plutus:v" lang then
            do ver <- int_of_str (remove_prefix "plutus:v" lang);
            do hx <- jfield "cbor" script_j; do hx <- as_str hx; do body <- from_hex hx;
            do s <- from_version ver body; Ok (Some s)
          else Err "ValueError"
        else Ok None);
    do datum_hash <- (if truthy datum_hash_j then do h <- hash_of_hex 32 datum_hash_j; Ok (Some h) else Ok None);
    do datum <-
       (if truthy datum_j && negb (json_str_eqb datum_j datum_hash_j)
        then do s <- as_str datum_j; do b <- from_hex s; Ok (Some (ARaw b)) else Ok None);
    do ma <- match value with
             | JObj kvs => if only_ada kvs then Ok [] else foldM v6_policy_step kvs []
             | _ => Err "AttributeError"
             end;
    do addr <- as_str (jopt "address" r);
    Ok (mkA txid ix addr lov ma datum_hash datum script).

  Definition parse_v6 (sv : service) : result (list autxo) :=
    let resp := sv_main sv in
    if negb (json_str_eqb (jopt "method" resp) (JStr "queryLedgerState/utxo")) then Err "InvalidMethodError"
    else if truthy (jopt "error" resp) then Err "ResponseError"
    else match jopt "result" resp with
         | JArr [] => Ok []
         | JArr rs => mapM parse_v6_entry rs
         | _ => Err "InvalidResponseError"
         end.

  (* ================================================================ Kupo *)
  Definition kupo_entry (addr : string) (u : utxo_model) : json :=
    JObj ([("transaction_index", JNum 0); ("transaction_id", jhex (u_txid u)); ("output_index", jN (u_index u));
           ("address", JStr addr);
           ("value", JObj [("coins", jN (u_lovelace u)); ("assets", dotted_assets (u_flat u))]);
           ("datum_hash", match u_datum u with DNone => JNull | DHash h _ | DInline h _ _ => jhex h end)]
          ++ match u_datum u with
             | DNone => []
             | DHash _ _ => [("datum_type", JStr "hash")]
             | DInline _ _ _ => [("datum_type", JStr "inline")]
             end
          ++ [("script_hash", match u_script u with None => JNull | Some _ => jhex (u_script_hash u) end);
              ("created_at", JObj [("slot_no", JNum 1); ("header_hash", JStr zeros32)]);
              ("spent_at", JNull)]).
  Definition kupo_datum_docs (u : utxo_model) : list (string * json) :=
    match u_datum u with
    | DNone => []
    | DHash h None => [(hexs h, JNull)]
    | DHash h (Some pre) => [(hexs h, JObj [("datum", jhex pre)])]
    | DInline h raw _ => [(hexs h, JObj [("datum", jhex raw)])]
    end.
  Definition kupo_script_docs (u : utxo_model) : list (string * json) :=
    match u_script u with
    | None => []
    | Some (SPlutus v body) =>
        [(hexs (u_script_hash u), JObj [("language", JStr ("plutus:v" ++ ver_digit v)%string);
                                        ("script", jhex (served_body u body))])]
    | Some (SNative ns) =>
        [(hexs (u_script_hash u), JObj [("language", JStr "native"); ("script", jhex (enc (ns_cbor ns)))])]
    end.
  Definition render_kupo (addr : string) (us : list utxo_model) : service :=
    mkService (JArr (map (kupo_entry addr) us)) (flat_map kupo_script_docs us) [] [] (flat_map kupo_datum_docs us).

  (* requests.get(url).json(): a missing document is a harness error, not a service shape *)
  Definition http_get (tbl : list (string * json)) (k : string) : result json :=
    match jget k tbl with Some d => Ok d | None => Err "HTTP404" end.

  Definition kupo_get_datum (sv : service) (h : string) : result (option adatum) :=
    do r <- http_get (sv_datum sv) h;
    if truthy r then
      do d <- jfield "datum" r;
      if negb (json_str_eqb d (JStr h)) then do s <- as_str d; do b <- from_hex s; Ok (Some (ARaw b)) else Ok None
    else Ok None.

  Definition parse_kupo_entry (sv : service) (addr : string) (r : json) : result (option autxo) :=
    do txh <- jfield "transaction_id" r;
    do ixj <- jfield "output_index" r;
    do spent <- jfield "spent_at" r;
    if negb (is_null spent) then Ok None
    else
      do txid <- hash_of_hex 32 txh;
      do ix <- as_int ixj;
      do value <- jfield "value" r;
      do coins <- jfield "coins" value;
      do script <-
         (let sh := jopt "script_hash" r in
          if truthy sh then
            do h <- as_str sh;
            do sj <- http_get (sv_script sv) h;
            do lang <- jfield "language" sj; do lang <- as_str lang;
            do ver <- int_of_str (remove_prefix "plutus:v" lang);
            if (1 <=? ver)%Z && (ver <=? 3)%Z then
              do hx <- jfield "script" sj; do hx <- as_str hx; do body <- from_hex hx;
              do ps <- from_version ver body;
              do s <- try_fix h ps; Ok (Some s)
            else Err "ValueError"
          else Ok None);
      do dhj <- jfield "datum_hash" r;
      do datum_hash <- (if truthy dhj then do h <- hash_of_hex 32 dhj; Ok (Some h) else Ok None);
      do datum <-
         (match datum_hash with
          | Some _ =>
              if truthy (match r with
                         | JObj kvs => match jget "datum_type" kvs with Some v => v | None => JStr "inline" end
                         | _ => JNull end)
              then do h <- as_str dhj; kupo_get_datum sv h
              else Ok None
          | None => Ok None
          end);
      do assets <- jfield "assets" value;
      do ma <- dotted_parse assets;
      do lov <- as_int coins;
      Ok (Some (mkA txid ix addr lov ma datum_hash datum script)).

  Definition somes {A} (l : list (option A)) : list A :=
    flat_map (fun o => match o with Some a => [a] | None => [] end) l.
  Definition parse_kupo (addr : string) (sv : service) : result (list autxo) :=
    match sv_main sv with
    | JArr rs => do os <- mapM (parse_kupo_entry sv addr) rs; Ok (somes os)
    | _ => Err "TypeError"
    end.

  (* ================================================================ cardano-cli *)
  Definition cli_script (s : script_m) : json :=
    match s with
    | SPlutus v body =>
        JObj [("script", JObj [("cborHex", jhex (enc (CB body))); ("description", JStr "");
                               ("type", JStr ("PlutusScriptV" ++ ver_digit v)%string)]);
              ("scriptLanguage", JStr ("PlutusScriptLanguage PlutusScriptV" ++ ver_digit v)%string)]
    | SNative ns =>
        JObj [("script", JObj [("cborHex", jhex (enc (ns_cbor ns))); ("description", JStr "");
                               ("type", JStr "SimpleScript")]);
              ("scriptLanguage", JStr "SimpleScriptLanguage")]
    end.
  Definition txref (u : utxo_model) : string := (hexs (u_txid u) ++ String "#" (dec_of_N (u_index u)))%string.
  Definition cli_entry (addr : string) (u : utxo_model) : string * json :=
    (txref u,
     JObj ([("address", JStr addr); ("datum", JNull)]
           ++ match u_datum u with
              | DNone => [("datumhash", JNull)]
              | DHash h _ => [("datumhash", jhex h)]
              | DInline _ _ _ => []
              end
           ++ [("inlineDatum", match u_datum u with DInline _ _ pd => pd_json pd | _ => JNull end)]
           ++ match u_datum u with DInline h _ _ => [("inlineDatumhash", jhex h)] | _ => [] end
           ++ [("inlineDatumRaw", match u_datum u with DInline _ raw _ => jhex raw | _ => JNull end);
               ("referenceScript", match u_script u with Some s => cli_script s | None => JNull end);
               ("value", JObj (nested_assets (u_assets u) ++ [("lovelace", jN (u_lovelace u))]))])).
  Definition render_cli (addr : string) (us : list utxo_model) : service :=
    mkService (JObj (map (cli_entry addr) us)) [] [] [] [].

  Definition cli_names_step (p : bytes) (m : masset) (kv : string * json) : result masset :=
    do n <- name_of_hex (JStr (fst kv));
    do q <- as_int (snd kv);
    Ok (mset m p n q).
  Definition cli_value_step (acc : Z * masset) (kv : string * json) : result (Z * masset) :=
    if String.eqb (fst kv) "lovelace" then do c <- as_int (snd kv); Ok (c, snd acc)
    else
      do p <- hash_of_hex 28 (JStr (fst kv));
      match snd kv with
      | JObj names => do m <- foldM (cli_names_step p) names (snd acc); Ok (fst acc, m)
      | _ => Err "AttributeError"
      end.
  Definition cli_get_script (ref : json) : result script_m :=
    do sj <- jfield "script" ref;
    do ty <- jfield "type" sj;
    if json_str_eqb ty (JStr "PlutusScriptV1") || json_str_eqb ty (JStr "PlutusScriptV2") then
      do hx <- jfield "cborHex" sj; do hx <- as_str hx; do raw <- from_hex hx;
      do body <- cbor_loads_bytes raw;
      Ok (SPlutus (if json_str_eqb ty (JStr "PlutusScriptV1") then 1 else 2) body)
    else
      do ns <- native_from_dict sj; Ok (SNative ns).

  Definition parse_cli_entry (kv : string * json) : result autxo :=
    let utxo := snd kv in
    do ref <- match split_on "#" (fst kv) with [a; b] => Ok (a, b) | _ => Err "ValueError" end;
    do txid <- hash_of_hex 32 (JStr (fst ref));
    do ix <- int_of_str (snd ref);
    do value <- jfield "value" utxo;
    do cm <- match value with JObj kvs => foldM cli_value_step kvs (0%Z, []) | _ => Err "AttributeError" end;
    do datum_hash <-
       (let dh := jopt "datumhash" utxo in
        if negb (is_null dh) then do h <- hash_of_hex 32 dh; Ok (Some h) else Ok None);
    do datum <-
       (if truthy (jopt "datum" utxo) then
          do s <- as_str (jopt "datum" utxo); do b <- from_hex s; Ok (Some (ARaw b))
        else if truthy (jopt "inlineDatumhash" utxo) then
          do dj <- jfield "inlineDatum" utxo; do y <- plutus_from_dict dj; Ok (Some (AData y))
        else Ok None);
    do script <-
       (if truthy (jopt "referenceScript" utxo) then do s <- cli_get_script (jopt "referenceScript" utxo); Ok (Some s)
        else Ok None);
    do addr <- jfield "address" utxo;
    do addr <- as_str addr;
    Ok (mkA txid ix addr (fst cm) (snd cm) datum_hash datum script).

  Definition parse_cli (sv : service) : result (list autxo) :=
    match sv_main sv with
    | JObj kvs => mapM parse_cli_entry kvs
    | _ => Err "AttributeError"
    end.

  (* ================================================================ uniform entry points *)
  Definition render (x : svc) (addr : string) (us : list utxo_model) : service :=
    match x with
    | Blockfrost => render_blockfrost addr us
    | OgmiosV5 => render_v5 addr us
    | OgmiosV6 => render_v6 addr us
    | Kupo => render_kupo addr us
    | Cli => render_cli addr us
    end.
  Definition parse (x : svc) (addr : string) (sv : service) : result (list autxo) :=
    match x with
    | Blockfrost => parse_blockfrost addr sv
    | OgmiosV5 => parse_v5 sv
    | OgmiosV6 => parse_v6 sv
    | Kupo => parse_kupo addr sv
    | Cli => parse_cli sv
    end.

End WithHash.
