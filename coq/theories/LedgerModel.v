(* LedgerModel.v — C02 MODEL (no proofs): how pycardano serializes the content of Ledger.v.
   Every class whose to_primitive is the generic dataclass walk is encoded by the generic interpreter
   `Codec.to_prim` over the ENCODE-SIDE class tables regenerated from /repo on every run
   (SchemaGen.enc_schema: key, position, code and optional flag of every field).  Children are encoded
   first and handed to the parent as `VAny` leaves, which is what the recursive to_primitive does.
   What is written by hand here (and tied by fingerprints of the source + correspondence):
     - which object the driver builds for a piece of content (constructor arguments),
     - the codes computed in __post_init__ (StakeCredential, Voter, _Script, _DatumOption),
     - the to_primitive / to_shallow_primitive overrides: DRep, Voter, VotingProcedure, _DatumOption,
       _ScriptRef, TransactionOutput (dispatch), PoolRegistration (flattening), SingleHostAddr,
       AlonzoMetadata (tag 259), AuxiliaryData; each one calls the table of its own dataclass
       ("<Class>!super") wherever the Python code calls super().
   Value / MultiAsset are the C04 model (Value.value_prim, masset_prim); Plutus data leaves are the C18
   reference bytes (Plutus.plutus_ref; pycardano's RawPlutusData route is tied to it in C18). *)
From Coq Require Import NArith ZArith Ascii String List Bool.
From PyC Require Import Base Cbor Value Codec Ledger.
From PyC Require Plutus.
Import ListNotations.
Open Scope string_scope.
Open Scope list_scope.

Definition enums := list (string * list (string * Z)).
Fixpoint assoc {A} (k : string) (l : list (string * A)) : option A :=
  match l with [] => None | (k', v) :: r => if String.eqb k' k then Some v else assoc k r end.
Definition enum_val (E : enums) (e m : string) : res Z :=
  match assoc e E with
  | Some ms => match assoc m ms with Some z => Ok z | None => EOther "enum member" end
  | None => EOther "enum"
  end.

Definition zN (n : N) : pv := VInt (Z.of_N n).
Definition oN (o : option N) : pv := match o with Some n => zN n | None => VNone end.
Definition oany (o : option cbor) : pv := match o with Some p => VAny p | None => VNone end.
Definition ocb (c : string) (o : option bytes) : pv := match o with Some b => VCB c b | None => VNone end.
Definition frac (q : N * N) : pv := VFrac (Z.of_N (fst q)) (Z.of_N (snd q)).
Definition omap {A B} (f : A -> res B) (o : option A) : res (option B) :=
  match o with Some a => do b <- f a; Ok (Some b) | None => Ok None end.

Section Model.
  Variable S : schema.
  Variable E : enums.

  Definition obj (c : string) (vs : list pv) : res cbor := to_prim S fuel (VObj c vs).
  Definition dict (c : string) (kvs : list (cbor * cbor)) : res cbor :=
    to_prim S fuel (VDict c (map (fun kv => (VAny (fst kv), VAny (snd kv))) kvs)).
  Definition oset (tagged : bool) (ps : list cbor) : res cbor := to_prim S fuel (VSet tagged (map VAny ps)).

  (* StakeCredential.__post_init__: _CODE = 0 for a VerificationKeyHash, 1 otherwise *)
  Definition m_cred (cls : string) (c : cred) : res cbor :=
    match c with
    | CKey h => obj cls [VInt 0; VCB "VerificationKeyHash" h]
    | CScript h => obj cls [VInt 1; VCB "ScriptHash" h]
    end.
  (* DRep.to_primitive: [kind.value, credential] / [kind.value] *)
  Definition m_drep (d : drep) : res cbor :=
    match d with
    | DKey h => do k <- enum_val E "DRepKind" "VERIFICATION_KEY_HASH"; Ok (CA [cint k; CB h])
    | DScript h => do k <- enum_val E "DRepKind" "SCRIPT_HASH"; Ok (CA [cint k; CB h])
    | DAbstain => do k <- enum_val E "DRepKind" "ALWAYS_ABSTAIN"; Ok (CA [cint k])
    | DNoConfidence => do k <- enum_val E "DRepKind" "ALWAYS_NO_CONFIDENCE"; Ok (CA [cint k])
    end.
  Definition m_anchor (a : anchor) : res cbor := obj "Anchor" [VStr (an_url a); VCB "AnchorDataHash" (an_hash a)].
  Definition m_oanchor (a : option anchor) : res pv := do o <- omap m_anchor a; Ok (oany o).

  (* SingleHostAddr.to_primitive = [_CODE, port, ipv4 bytes, ipv6 bytes]: the walk of its own dataclass *)
  Definition m_relay (r : relay) : res cbor :=
    match r with
    | RAddr p v4 v6 => obj "SingleHostAddr!super" [oN p; match v4 with Some b => VBytes b | None => VNone end;
                                                   match v6 with Some b => VBytes b | None => VNone end]
    | RName p d => obj "SingleHostName" [oN p; VStr d]
    | RMulti d => obj "MultiHostName" [VStr d]
    end.
  Definition m_pool (tagged : bool) (p : pool) : res cbor :=
    do relays <- mapM m_relay (p_relays p);
    do meta <- omap (fun m => obj "PoolMetadata" [VStr (fst m); VCB "PoolMetadataHash" (snd m)]) (p_meta p);
    obj "PoolParams" [VCB "PoolKeyHash" (p_operator p); VCB "VrfKeyHash" (p_vrf p); zN (p_pledge p); zN (p_cost p);
                      frac (p_margin p); VCB "RewardAccountHash" (p_reward p);
                      VSet tagged (map (VCB "VerificationKeyHash") (p_owners p));
                      VList (map VAny relays); oany meta; VNone].

  (* PoolRegistration.to_primitive: [_CODE, *pool_params] when the parameters serialize to a list, else super() *)
  Definition m_cert (tagged : bool) (c : cert) : res cbor :=
    let sc c := do p <- m_cred "StakeCredential" c; Ok (VAny p) in
    let dc c := do p <- m_cred "DRepCredential" c; Ok (VAny p) in
    let dr d := do p <- m_drep d; Ok (VAny p) in
    match c with
    | CertReg c => do a <- sc c; obj "StakeRegistration" [a]
    | CertDereg c => do a <- sc c; obj "StakeDeregistration" [a]
    | CertDeleg c p => do a <- sc c; obj "StakeDelegation" [a; VCB "PoolKeyHash" p]
    | CertPoolReg p =>
        do pp <- m_pool tagged p;
        match pp with
        | CA l => match lookup S "PoolRegistration!super" with
                  | Some (KCoded code _) => Ok (CA (cint code :: l))
                  | _ => EOther "PoolRegistration table"
                  end
        | _ => obj "PoolRegistration!super" [VAny pp]
        end
    | CertPoolRetire p e => obj "PoolRetirement" [VCB "PoolKeyHash" p; zN e]
    | CertRegC c n => do a <- sc c; obj "StakeRegistrationConway" [a; zN n]
    | CertDeregC c n => do a <- sc c; obj "StakeDeregistrationConway" [a; zN n]
    | CertVoteDeleg c d => do a <- sc c; do b <- dr d; obj "VoteDelegation" [a; b]
    | CertStakeVoteDeleg c p d => do a <- sc c; do b <- dr d; obj "StakeAndVoteDelegation" [a; VCB "PoolKeyHash" p; b]
    | CertStakeRegDeleg c p n => do a <- sc c; obj "StakeRegistrationAndDelegation" [a; VCB "PoolKeyHash" p; zN n]
    | CertVoteRegDeleg c d n => do a <- sc c; do b <- dr d; obj "StakeRegistrationAndVoteDelegation" [a; b; zN n]
    | CertStakeVoteRegDeleg c p d n =>
        do a <- sc c; do b <- dr d; obj "StakeRegistrationAndDelegationAndVoteDelegation" [a; VCB "PoolKeyHash" p; b; zN n]
    | CertAuthHot x y => do a <- sc x; do b <- sc y; obj "AuthCommitteeHotCertificate" [a; b]
    | CertResignCold x an => do a <- sc x; do b <- m_oanchor an; obj "ResignCommitteeColdCertificate" [a; b]
    | CertRegDRep c n an => do a <- dc c; do b <- m_oanchor an; obj "RegDRepCert" [a; zN n; b]
    | CertUnregDRep c n => do a <- dc c; obj "UnregDRepCertificate" [a; zN n]
    | CertUpdateDRep c an => do a <- dc c; do b <- m_oanchor an; obj "UpdateDRepCertificate" [a; b]
    end.

  (* native scripts: the six dataclasses, children first *)
  Fixpoint m_nscript (s : nscript) : res cbor :=
    match s with
    | NSig h => obj "ScriptPubkey" [VCB "VerificationKeyHash" h]
    | NAll l => do ps <- mapM m_nscript l; obj "ScriptAll" [VList (map VAny ps)]
    | NAny l => do ps <- mapM m_nscript l; obj "ScriptAny" [VList (map VAny ps)]
    | NOfK n l => do ps <- mapM m_nscript l; obj "ScriptNofK" [zN n; VList (map VAny ps)]
    | NInvalidBefore t => obj "InvalidBefore" [zN t]
    | NInvalidHereafter t => obj "InvalidHereAfter" [zN t]
    end.
  (* _Script.__post_init__: _TYPE = 0 for a native script, the Plutus version otherwise *)
  Definition m_script (s : script) : res cbor :=
    match s with
    | SNative n => do p <- m_nscript n; obj "_Script" [VInt 0; VAny p]
    | SPlutus v b => obj "_Script" [zN v; VBytes b]
    end.
  (* _ScriptRef.to_primitive: CBORTag(24, cbor2.dumps(script)) *)
  Definition m_script_ref (s : script) : res cbor := do p <- m_script s; Ok (CTag 24 (CB (enc p))).
  (* _DatumOption.to_shallow_primitive: [_TYPE, datum] with _TYPE 0 for a DatumHash, else 1 and
     CBORTag(24, cbor2.dumps(datum)) *)
  Definition m_datum_option (d : datum_option) : res cbor :=
    match d with
    | DHash h => Ok (CA [cint 0; CB h])
    | DInline x => Ok (CA [cint 1; CTag 24 (CB (enc (Plutus.plutus_ref x)))])
    end.
  Definition zbundle (m : bundle) : masset := m.
  Definition m_value (coin : N) (m : bundle) : cbor := value_prim (mkValue (Z.of_N coin) (zbundle m)).
  (* TransactionOutput.to_primitive: post-Alonzo map when a datum, a script or the flag is there, else legacy array *)
  Definition m_output (o : output) : res cbor :=
    let inline := match o_datum o with Some (DInline _) => true | _ => false end in
    let has_script := match o_script o with Some _ => true | None => false end in
    if inline || has_script || o_map o
    then do d <- omap m_datum_option (o_datum o);
         do s <- omap m_script_ref (o_script o);
         obj "_TransactionOutputPostAlonzo" [VAny (CB (o_addr o)); VAny (m_value (o_coin o) (o_assets o)); oany d; oany s]
    else obj "_TransactionOutputLegacy" [VAny (CB (o_addr o)); VAny (m_value (o_coin o) (o_assets o));
                                         match o_datum o with Some (DHash h) => VCB "DatumHash" h | _ => VNone end].
  Definition m_input (i : input) : res cbor := obj "TransactionInput" [VCB "TransactionId" (fst i); zN (snd i)].

  (* governance *)
  Definition m_gaid (g : gaid) : res cbor := obj "GovActionId" [VCB "TransactionId" (fst g); zN (snd g)].
  Definition m_ogaid (g : option gaid) : res pv := do o <- omap m_gaid g; Ok (oany o).
  (* Voter.__post_init__ (code by voter type and credential kind) and to_shallow_primitive (_CODE, credential) *)
  Definition m_voter (v : voter) : res cbor :=
    match v with
    | VCommitteeKey h => Ok (CA [cint 0; CB h]) | VCommitteeScript h => Ok (CA [cint 1; CB h])
    | VDRepKey h => Ok (CA [cint 2; CB h]) | VDRepScript h => Ok (CA [cint 3; CB h])
    | VPool h => Ok (CA [cint 4; CB h])
    end.
  Definition vote_name (n : N) : string := if (n =? 0)%N then "NO" else if (n =? 1)%N then "YES" else "ABSTAIN".
  (* VotingProcedure.to_shallow_primitive: [vote.value, anchor] *)
  Definition m_voting_procedure (vp : N * option anchor) : res cbor :=
    do k <- enum_val E "Vote" (vote_name (fst vp));
    do a <- omap m_anchor (snd vp);
    Ok (CA [cint k; match a with Some p => p | None => cnone end]).
  Definition m_votes (v : votes) : res cbor :=
    do es <- mapM (fun e => do k <- m_voter (fst e);
                            do inner <- mapM (fun gv => do g <- m_gaid (fst gv); do p <- m_voting_procedure (snd gv); Ok (g, p)) (snd e);
                            do m <- dict "GovActionIdToVotingProcedure" inner;
                            Ok (k, m)) v;
    dict "VotingProcedures" es.

  Definition m_ppval (k : N) (v : ppval) : res pv :=
    match v with
    | PInt n => Ok (zN n)
    | PRat q => Ok (frac q)
    | PPrices m s => do p <- obj "ExUnitPrices" [frac m; frac s]; Ok (VAny p)
    | PUnits m s => do p <- obj "ExecutionUnits" [zN m; zN s]; Ok (VAny p)
    | PThresholds l => do p <- obj (if (k =? 25)%N then "PoolVotingThresholds" else "DRepVotingThresholds") (map frac l); Ok (VAny p)
    end.
  Fixpoint m_ppu_vals (ks : list N) (u : ppu) : res (list pv) :=
    match ks, u with
    | [], [] => Ok []
    | k :: kr, o :: ur =>
        do v <- match o with Some x => m_ppval k x | None => Ok VNone end;
        do r <- m_ppu_vals kr ur; Ok (v :: r)
    | _, _ => EOther "ppu slots"
    end.
  Definition m_ppu (u : ppu) : res cbor := do vs <- m_ppu_vals ppu_keys u; obj "ProtocolParamUpdate" vs.

  Definition m_gov_action (tagged : bool) (g : gov_action) : res cbor :=
    match g with
    | GParamChange p u h => do a <- m_ogaid p; do b <- m_ppu u; obj "ParameterChangeAction" [a; VAny b; ocb "PolicyHash" h]
    | GHardFork p ma mi => do a <- m_ogaid p; obj "HardForkInitiationAction" [a; VList [zN ma; zN mi]]
    | GTreasury wd h =>
        do w <- dict "TreasuryWithdrawal" (map (fun e => (CB (fst e), cint (Z.of_N (snd e)))) wd);
        obj "TreasuryWithdrawalsAction" [VAny w; ocb "PolicyHash" h]
    | GNoConfidence p => do a <- m_ogaid p; obj "NoConfidence" [a]
    | GUpdateCommittee p rm add q =>
        do a <- m_ogaid p;
        do rs <- mapM (m_cred "CommitteeColdCredential") rm;
        do es <- mapM (fun e => do k <- m_cred "CommitteeColdCredential" (fst e); Ok (k, cint (Z.of_N (snd e)))) add;
        do m <- dict "CommitteeColdCredentialEpochMap" es;
        obj "UpdateCommittee" [a; VSet tagged (map VAny rs); VAny m; frac q]
    | GNewConstitution p an s =>
        do a <- m_ogaid p; do b <- m_anchor an;
        obj "NewConstitution" [a; VList [VAny b; ocb "ScriptHash" s]]
    | GInfo => obj "InfoAction" []
    end.
  Definition m_proposal (tagged : bool) (p : proposal) : res cbor :=
    do g <- m_gov_action tagged (pr_action p); do a <- m_anchor (pr_anchor p);
    obj "ProposalProcedure" [zN (pr_deposit p); VBytes (pr_reward p); VAny g; VAny a].

  Definition set_of {A} (tagged : bool) (f : A -> res cbor) (l : list A) : res pv :=
    do ps <- mapM f l; Ok (VSet tagged (map VAny ps)).
  Definition oset_of {A} (tagged : bool) (f : A -> res cbor) (o : option (list A)) : res pv :=
    match o with Some l => set_of tagged f l | None => Ok VNone end.
  Definition network_name (n : N) : string := if (n =? 0)%N then "TESTNET" else "MAINNET".

  Definition m_body (tagged : bool) (b : body) : res cbor :=
    do inputs <- set_of tagged m_input (b_inputs b);
    do outputs <- mapM m_output (b_outputs b);
    do certs <- omap (mapM (m_cert tagged)) (b_certs b);
    do wdr <- omap (fun l => dict "Withdrawals" (map (fun e => (CB (fst e), cint (Z.of_N (snd e)))) l)) (b_withdrawals b);
    do coll <- oset_of tagged m_input (b_collateral b);
    do net <- omap (fun n => enum_val E "Network" (network_name n)) (b_network_id b);
    do cret <- omap m_output (b_collateral_return b);
    do refs <- oset_of tagged m_input (b_reference_inputs b);
    do votes <- omap m_votes (b_votes b);
    do props <- oset_of tagged (m_proposal tagged) (b_proposals b);
    obj "TransactionBody" [
      inputs; VList (map VAny outputs); zN (b_fee b); oN (b_ttl b);
      match certs with Some l => VList (map VAny l) | None => VNone end;
      oany wdr; VNone; ocb "AuxiliaryDataHash" (b_aux_hash b); oN (b_validity_start b);
      oany (option_map (fun m => masset_prim (zbundle m)) (b_mint b));
      ocb "ScriptDataHash" (b_script_data_hash b); coll;
      match b_required_signers b with Some l => VSet tagged (map (VCB "VerificationKeyHash") l) | None => VNone end;
      match net with Some z => VEnum "Network" z | None => VNone end;
      oany cret; oN (b_total_collateral b); refs; oany votes; props; oN (b_treasury b); oN (b_donation b)].

  (* witness set *)
  Definition tag_name (n : N) : string :=
    if (n =? 0)%N then "SPEND" else if (n =? 1)%N then "MINT" else if (n =? 2)%N then "CERTIFICATE"
    else if (n =? 3)%N then "WITHDRAWAL" else if (n =? 4)%N then "VOTING" else "PROPOSING".
  Definition m_redeemers (as_map : bool) (l : list redeemer) : res cbor :=
    if as_map
    then do es <- mapM (fun r => do t <- enum_val E "RedeemerTag" (tag_name (r_tag r));
                                 do k <- obj "RedeemerKey" [VEnum "RedeemerTag" t; zN (r_index r)];
                                 do u <- obj "ExecutionUnits" [zN (r_mem r); zN (r_steps r)];
                                 do v <- obj "RedeemerValue" [VAny (Plutus.plutus_ref (r_data r)); VAny u];
                                 Ok (k, v)) l;
         dict "RedeemerMap" es
    else do ps <- mapM (fun r => do t <- enum_val E "RedeemerTag" (tag_name (r_tag r));
                                 do u <- obj "ExecutionUnits" [zN (r_mem r); zN (r_steps r)];
                                 obj "Redeemer" [VEnum "RedeemerTag" t; zN (r_index r); VAny (Plutus.plutus_ref (r_data r)); VAny u]) l;
         Ok (CA ps).
  Definition bytes_set (tagged : bool) (o : option (list bytes)) : pv :=
    match o with Some l => VSet tagged (map VBytes l) | None => VNone end.
  Definition m_wits (tagged : bool) (w : witness_set) : res cbor :=
    do vk <- oset_of tagged (fun vs => obj "VerificationKeyWitness" [VAny (CB (fst vs)); VBytes (snd vs)]) (w_vkeys w);
    do ns <- oset_of tagged m_nscript (w_native w);
    do rd <- omap (fun r => m_redeemers (fst r) (snd r)) (w_redeemers w);
    obj "TransactionWitnessSet" [
      vk; ns;
      match w_bootstrap w with
      | Some l => VList (map (fun bw => match bw with (k, s, c, a) => VList [VBytes k; VBytes s; VBytes c; VBytes a] end) l)
      | None => VNone end;
      bytes_set tagged (w_v1 w);
      match w_data w with Some l => VList (map (fun d => VAny (Plutus.plutus_ref d)) l) | None => VNone end;
      oany rd; bytes_set tagged (w_v2 w); bytes_set tagged (w_v3 w)].

  (* auxiliary data: Python primitives inside Metadata go to cbor2 as they are *)
  Fixpoint m_metadatum (m : metadatum) : cbor :=
    match m with
    | MInt z => cint z | MBytes b => CB b | MText b => CT b
    | MList l => CA (map m_metadatum l)
    | MMap kvs => CM (map (fun kv => (m_metadatum (fst kv), m_metadatum (snd kv))) kvs)
    end.
  Definition m_metadata (m : metadata) : res cbor :=
    dict "Metadata" (map (fun e => (cint (Z.of_N (fst e)), m_metadatum (snd e))) m).
  Definition blist (o : option (list bytes)) : pv := match o with Some l => VList (map VBytes l) | None => VNone end.
  Definition m_aux (a : aux_data) : res cbor :=
    match a with
    | AuxShelley m => m_metadata m
    | AuxShelleyMA m s => do p <- m_metadata m; do ns <- mapM m_nscript s; obj "ShelleyMarryMetadata" [VAny p; VList (map VAny ns)]
    | AuxAlonzo m n v1 v2 v3 =>
        do p <- omap m_metadata m; do ns <- omap (mapM m_nscript) n;
        do inner <- obj "AlonzoMetadata!super" [oany p; match ns with Some l => VList (map VAny l) | None => VNone end;
                                                blist v1; blist v2; blist v3];
        Ok (CTag 259 inner)            (* AlonzoMetadata.to_primitive: CBORTag(259, super().to_primitive()) *)
    end.

  Definition m_tx (t : tx) : res cbor :=
    do b <- m_body (t_tagged t) (t_body t); do w <- m_wits (t_tagged t) (t_wits t); do a <- omap m_aux (t_aux t);
    obj "Transaction" [VAny b; VAny w; VBool (t_valid t); oany a].
  Definition m_tx_bytes (t : tx) : res bytes := do p <- m_tx t; Ok (enc p).
End Model.
