(* CollateralOracle.v — glue used by the C13 cases files:
   * cross-checks of the data taken from the implementation's run (serialized lengths, address kinds and
     amounts of candidates are re-derived from the output BYTES with Cbor.decode + dec_value_canonical),
   * exact correspondence  model = implementation  for one recorded call of _set_collateral_return,
   * the property's decision procedure (Collateral.collateral_ok, the LEDGER rule) applied to the
     implementation's outputs: per recorded call, and on the CBOR of the transaction body returned by build()
     (collateral inputs resolved through the scenario's UTxO map, return output decoded in Coq). *)
From Coq Require Import NArith ZArith Ascii String List Bool Lia.
From PyC Require Import Base Cbor Dict Value ValueHeap ValueOracle Collateral.
Import ListNotations.
Open Scope Z_scope.

(* ---------- reading outputs ---------- *)
Definition find_key (k : N) (kvs : list (cbor * cbor)) : option cbor :=
  match find (fun kv => match fst kv with CU n => (n =? k)%N | _ => false end) kvs with
  | Some kv => Some (snd kv)
  | None => None
  end.

Definition addr_type_of (a : bytes) : option N :=
  match a with h :: _ => Some (b2n h / 16)%N | [] => None end.

(* legacy [addr, amount, ?datum_hash]  or post-Alonzo {0: addr, 1: amount, ?2: datum, ?3: script_ref} *)
Definition out_fields (x : cbor) : option (bytes * cbor) :=
  match x with
  | CA (CB a :: amt :: _) => Some (a, amt)
  | CM kvs => match find_key 0 kvs, find_key 1 kvs with
              | Some (CB a), Some amt => Some (a, amt)
              | _, _ => None
              end
  | _ => None
  end.

Definition resolve_item (x : cbor) : option (bytes * N * value) :=
  match out_fields x with
  | Some (a, amt) =>
      match addr_type_of a, dec_value_canonical amt with
      | Some t, Some v => Some (a, t, v)
      | _, _ => None
      end
  | None => None
  end.

Definition resolve_bytes (out : bytes) : option (bytes * N * value) :=
  match decode out with
  | Some x => if bytes_eqb (enc x) out then resolve_item x else None
  | None => None
  end.

(* a candidate as reported from the builder's objects agrees with the bytes of its output *)
Definition cand_check (cb : cand * bytes) : bool :=
  let (c, out) := cb in
  (c_len c =? 2 * lenN out)%N &&
  match resolve_bytes out with
  | Some (_, t, v) => (t =? c_type c)%N && v_eq v (c_val c)
  | None => false
  end.

(* ---------- one recorded call ---------- *)
Definition iret := option (bytes * value * bytes).     (* address bytes, amount (raw), output CBOR *)

Record call := mkCall {
  k_expect : bool;                 (* the SCENARIO's statement: a Plutus script is executed or a reference script is used *)
  k_ss : sstate;                   (* the builder's script tables on entry (read from the implementation's objects) *)
  k_addr : option bytes;           (* collateral_return_address *)
  k_P : cparams;
  k_cpb : Z;                       (* coins_per_utxo_byte *)
  k_explicit : list (cand * bytes);
  k_inputs : list (cand * bytes);
  k_potential : list (cand * bytes);
  k_at : list (cand * bytes);      (* context.utxos(collateral_return_address) *)
  k_pre_ret : iret; k_pre_total : option Z;
  (* what the implementation did *)
  k_colls : list (bytes * N);
  k_ret : iret; k_total : option Z;
  k_exc : N                        (* 0 none 1 count 2 script 3 amount 4 min-lovelace 9 anything else *)
}.

Definition exc_code (o : outcome) : N :=
  match o with
  | ONoop | OSet _ _ => 0 | OErrCount => 1 | OErrScript => 2 | OErrAmount => 3 | OErrMinLovelace => 4
  end%N.

Definition idof (cb : cand * bytes) : bytes * N := (c_txid (fst cb), c_ix (fst cb)).
Definition ids (l : list cand) : list (bytes * N) := map (fun c => (c_txid c, c_ix c)) l.
Definition id_list_eqb (a b : list (bytes * N)) : bool :=
  Nat.eqb (length a) (length b) &&
  forallb (fun xy => bytes_eqb (fst (fst xy)) (fst (snd xy)) && (snd (fst xy) =? snd (snd xy))%N) (combine a b).

Definition iret_eqb (a b : iret) : bool :=
  match a, b with
  | None, None => true
  | Some (aa, av, ab), Some (ba, bv, bb) =>
      bytes_eqb aa ba && (coin av =? coin bv) && masset_same (massets av) (massets bv) && bytes_eqb ab bb
  | _, _ => false
  end.
Definition optz_eqb (a b : option Z) : bool :=
  match a, b with None, None => true | Some x, Some y => x =? y | _, _ => false end.

Definition addr_or_nil (k : call) : bytes := match k_addr k with Some a => a | None => [] end.

Definition model_call (k : call) : list cand * outcome :=
  set_collateral_return_ss (min_lovelace_ret (k_cpb k) (addr_or_nil k)) (k_P k) (k_ss k)
    (match k_addr k with Some _ => true | None => false end)
    (map fst (k_explicit k)) (map fst (k_inputs k)) (map fst (k_potential k)) (map fst (k_at k)).

(* the gate computed by the model from the builder's tables agrees with what the scenario put into the builder
   (a builder that loses a script on its way into the tables is caught here) *)
Definition gate_check (k : call) : bool := Bool.eqb (needs_collateral (k_ss k)) (k_expect k).

Definition c13_corr (k : call) : bool :=
  forallb cand_check (k_explicit k ++ k_inputs k ++ k_potential k ++ k_at k) &&
  gate_check k &&
  let (colls, o) := model_call k in
  id_list_eqb (ids colls) (k_colls k) &&
  (exc_code o =? k_exc k)%N &&
  match o with
  | OSet r t =>
      iret_eqb (Some (addr_or_nil k, r, enc (out_legacy (addr_or_nil k) r))) (k_ret k) && optz_eqb (Some t) (k_total k)
  (* no return set by THIS call: nothing is left in the builder, whatever an earlier build() put there (k_pre_ret, k_pre_total
     are recorded; before the repair recorded in known_findings.json `C13-stale-return-of-earlier-build` they were kept) *)
  | _ => iret_eqb None (k_ret k) && optz_eqb None (k_total k)
  end.

(* ---------- the property on the implementation's outputs ---------- *)
Definition failed_clauses (L : lparams) (req100 : Z) (colls : list cand)
           (ret : option (value * bytes)) (total : option Z) : list nat :=
  (if ok_count L colls then [] else [1%nat]) ++
  (if ok_distinct colls then [] else [2%nat]) ++
  (if ok_keylocked colls then [] else [3%nat]) ++
  (if ok_adequate req100 colls ret then [] else [4%nat]) ++
  (if ok_total colls ret total then [] else [5%nat]) ++
  (if ok_assets colls ret then [] else [6%nat]) ++
  (if ok_min_ada L ret then [] else [7%nat]).

Lemma failed_clauses_nil L req colls ret total :
  failed_clauses L req colls ret total = [] <-> collateral_ok_req L req colls ret total = true.
Proof.
  unfold failed_clauses, collateral_ok_req.
  destruct (ok_count L colls), (ok_distinct colls), (ok_keylocked colls), (ok_adequate req colls ret),
    (ok_total colls ret total), (ok_assets colls ret), (ok_min_ada L ret); cbn; split; intros H; try reflexivity; discriminate.
Qed.

Definition find_cand (i : bytes * N) (l : list (cand * bytes)) : option cand :=
  match find (fun cb => bytes_eqb (c_txid (fst cb)) (fst i) && (c_ix (fst cb) =? snd i)%N) l with
  | Some cb => Some (fst cb)
  | None => None
  end.

Fixpoint all_some {A} (l : list (option A)) : option (list A) :=
  match l with
  | [] => Some []
  | Some x :: r => match all_some r with Some r' => Some (x :: r') | None => None end
  | None :: _ => None
  end.

(* per call (slice level): when the method ran to completion on a transaction that needs collateral, the
   fields it leaves behind satisfy the ledger rule for EVERY fee the builder can still end up with
   (fee <= max_tx_fee + fee_buffer: req100 = percent * (max_tx_fee + fee_buffer)).
   8 = some collateral cannot be resolved among the candidates of the call. *)
Definition c13_call_failed (k : call) : list nat :=
  if k_expect k && (match k_addr k with Some _ => true | None => false end) && (k_exc k =? 0)%N then
    let pool := k_explicit k ++ k_inputs k ++ k_potential k ++ k_at k in
    match all_some (map (fun i => find_cand i pool) (k_colls k)) with
    | Some colls =>
        failed_clauses (mkLP (p_percent (k_P k)) (p_max_inputs (k_P k)) (k_cpb k))
                       (p_percent (k_P k) * (p_max_fee (k_P k) + p_fee_buffer (k_P k)))
                       colls
                       (match k_ret k with Some (_, v, out) => Some (v, out) | None => None end)
                       (k_total k)
    | None => [8%nat]
    end
  else [].

(* ---------- the transaction body returned by build() ---------- *)
Definition as_input (x : cbor) : option (bytes * N) :=
  match x with CA [CB t; CU i] => Some (t, i) | _ => None end.
Definition set_items (x : cbor) : option (list cbor) :=
  match x with
  | CTag 258 (CA l) | CTag 258 (CAi l) | CA l | CAi l => Some l
  | _ => None
  end.

Definition umap := list ((bytes * N) * bytes).       (* the scenario's UTxO map: input -> serialized output *)
Definition lookup_utxo (m : umap) (i : bytes * N) : option cand :=
  match find (fun e => bytes_eqb (fst (fst e)) (fst i) && (snd (fst e) =? snd i)%N) m with
  | Some e => match resolve_bytes (snd e) with
              | Some (_, t, v) => Some (mkCand (fst i) (snd i) t v (2 * lenN (snd e)))
              | None => None
              end
  | None => None
  end.

Record body_view := mkBV {
  bv_fee : Z; bv_colls : list (bytes * N); bv_ret : option (value * bytes); bv_total : option Z
}.

Definition body_view_of (body : bytes) : option body_view :=
  match decode body with
  | Some (CM kvs) =>
      if bytes_eqb (enc (CM kvs)) body then
        match find_key 2 kvs with
        | Some (CU fee) =>
            let colls := match find_key 13 kvs with
                         | None => Some []
                         | Some s => match set_items s with
                                     | Some l => all_some (map as_input l)
                                     | None => None
                                     end
                         end in
            let ret := match find_key 16 kvs with
                       | None => Some None
                       | Some x => match resolve_item x with
                                   | Some (_, _, v) => Some (Some (v, enc x))
                                   | None => None
                                   end
                       end in
            let total := match find_key 17 kvs with
                         | None => Some None
                         | Some (CU t) => Some (Some (Z.of_N t))
                         | Some _ => None
                         end in
            match colls, ret, total with
            | Some c, Some r, Some t => Some (mkBV (Z.of_N fee) c r t)
            | _, _, _ => None
            end
        | _ => None
        end
      else None
  | _ => None
  end.

(* "the transaction runs Plutus scripts", decided from the witness set the builder produces for the body
   (ledger, feesOK: the collateral clauses apply iff txrdmrs tx is non-empty): field 5 (redeemers) of the
   witness-set map is a non-empty array (legacy list form) or a non-empty map (Conway form) *)
Definition wits_run_plutus (wits : bytes) : bool :=
  match decode wits with
  | Some (CM kvs) =>
      match find_key 5 kvs with
      | Some (CA (_ :: _)) | Some (CAi (_ :: _)) | Some (CM (_ :: _)) => true
      | _ => false
      end
  | _ => false
  end.

(* premise of the property: the transaction runs Plutus scripts and a change address was given *)
Definition c13_body_failed (L : lparams) (m : umap) (body : bytes) (runs_plutus has_change : bool) : list nat :=
  if runs_plutus && has_change then
    match body_view_of body with
    | Some bv =>
        match all_some (map (lookup_utxo m) (bv_colls bv)) with
        | Some colls => failed_clauses L (l_percent L * bv_fee bv) colls (bv_ret bv) (bv_total bv)
        | None => [8%nat]
        end
    | None => [9%nat]
    end
  else [].

Definition c13_body_oracle (L : lparams) (m : umap) (body : bytes) (runs_plutus has_change : bool) : bool :=
  match c13_body_failed L m body runs_plutus has_change with [] => true | _ => false end.

(* ---------- a scenario = its recorded calls + (optionally) the body that build() returned ---------- *)
(* b_plutus: the scenario's statement that a Plutus script is executed; b_wits: CBOR of build_witness_set() after build() *)
Record build_res := mkBuild { b_L : lparams; b_umap : umap; b_body : bytes; b_plutus : bool; b_change : bool; b_wits : bytes }.
Definition scen := (list call * option build_res)%type.

Definition scen_corr (s : scen) : bool :=
  forallb c13_corr (fst s) &&
  match snd s with
  | Some b => Bool.eqb (wits_run_plutus (b_wits b)) (b_plutus b)     (* scenario and witness set agree on the premise *)
  | None => true
  end.
Definition tag (i : nat) (l : list nat) : list nat := map (fun c => (i * 10 + c)%nat) l.
Definition scen_call_failed (s : scen) : list nat := nodup Nat.eq_dec (flat_map c13_call_failed (fst s)).
Definition scen_body_failed (s : scen) : list nat :=
  match snd s with
  | Some b => c13_body_failed (b_L b) (b_umap b) (b_body b) (wits_run_plutus (b_wits b) || b_plutus b) (b_change b)
  | None => []
  end.
