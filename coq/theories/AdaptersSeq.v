(* AdaptersSeq.v — model only: ONE chain-context adapter instance queried several times while the service's answers
   change between the queries (the chain advances, outputs are spent and created).

   What is carried across calls of one instance (pycardano/backend/ogmios_v5.py, ogmios_v6.py, cardano_cli.py, kupo.py):
     * `last_block_slot` — a property memoised by `cachetools.func.ttl_cache(ttl=1)`: the tip slot is re-queried only when
       the memo is older than 1 s (Kupo delegates to the wrapped backend; Blockfrost's `_utxos` does not read the tip);
     * `_utxo_cache = TTLCache(ttl=refetch_chain_tip_interval, maxsize=utxo_cache_size)` keyed by
       `(self.last_block_slot, address)`: `_utxos` answers from it when the key is present and not expired, otherwise asks
       the service and stores the answer (an exception of the parser propagates before anything is stored);
     * `_last_chain_tip_fetch`, `_last_known_block_slot` — written by `_is_chain_tip_updated()` (called by the
       `protocol_param` / `genesis_param` properties): at most once per refetch interval it reads the tip (through the
       memoised property for Ogmios, directly for cardano-cli).

   Time is counted in ticks of 1/1024 s (the harness clock is a counter; all intervals are dyadic, so the float
   arithmetic of cachetools is exact).  The machine is generic in the ledger state W, the answer type A and
   `fetch : W -> address -> A` (what asking the service NOW and parsing its response gives). *)
From Coq Require Import NArith String List Bool.
Import ListNotations.
Open Scope N_scope.

Inductive poll_kind := PollNone | PollMemo | PollDirect.

(* c_cached: `_utxos` goes through `_utxo_cache`; c_memo_ttl: ttl of the `last_block_slot` memo (0 = the tip is read
   live); c_interval: refetch_chain_tip_interval = ttl of the UTxO cache; c_max: utxo_cache_size (>= 1);
   c_poll: what `_is_chain_tip_updated` reads *)
Record cfg := mkCfg { c_cached : bool; c_memo_ttl : N; c_interval : N; c_max : N; c_poll : poll_kind }.

Section Machine.
  Variables W A : Type.
  Variable fetch : W -> string -> A.
  Variable cacheable : A -> bool.          (* false = the adapter raised: nothing is stored *)

  (* what happens, in order: the clock advances; a block arrives (new tip slot, new ledger state); the client calls
     `utxos(address)`, reads `last_block_slot`, or triggers `_is_chain_tip_updated()` *)
  Inductive op := OTick (dt : N) | OBlock (slot : N) (w : W) | OQuery (a : string) | OTip | OPoll.
  Inductive obs := ONone | OAnswer (a : string) (r : A) | OSlot (s : N) | OPolled (b : bool).

  (* one TTLCache item; the list is in `__links` order: least recently used first *)
  Record entry := mkEntry { e_slot : N; e_addr : string; e_exp : N; e_val : A }.

  Definition key_eqb (s : N) (a : string) (e : entry) : bool := N.eqb (e_slot e) s && String.eqb (e_addr e) a.
  Definition live (now : N) (e : entry) : bool := N.ltb now (e_exp e).
  Definition find_entry (s : N) (a : string) (l : list entry) : option entry := find (key_eqb s a) l.
  Definition remove_key (s : N) (a : string) (l : list entry) : list entry := filter (fun e => negb (key_eqb s a e)) l.

  (* `key in cache` (no reordering) followed by `cache[key]` (moves the key to the most-recently-used end) *)
  Definition cache_get (now s : N) (a : string) (l : list entry) : option (A * list entry) :=
    match find_entry s a l with
    | Some e => if live now e then Some (e_val e, remove_key s a l ++ [e]) else None
    | None => None
    end.

  (* `cache[key] = value`: expired items go first, then least recently used ones until there is room *)
  Definition cache_set (now ttl : N) (max : nat) (s : N) (a : string) (v : A) (l : list entry) : list entry :=
    let l1 := remove_key s a (filter (live now) l) in
    skipn (S (length l1) - max) l1 ++ [mkEntry s a (now + ttl) v].

  Record st := mkSt {
    s_now : N; s_slot : N; s_w : W;            (* the world: clock, tip slot and ledger state of the service *)
    s_memo : option (N * N);                   (* the adapter: `last_block_slot` memo (time stored, slot) *)
    s_cache : list entry;                      (* `_utxo_cache` *)
    s_fetch : option N;                        (* `_last_chain_tip_fetch` (None = never) *)
    s_known : N }.                             (* `_last_known_block_slot` *)

  Definition init (now slot : N) (w : W) : st := mkSt now slot w None [] None 0.
  Definition with_memo (s : st) m := mkSt (s_now s) (s_slot s) (s_w s) m (s_cache s) (s_fetch s) (s_known s).
  Definition with_cache (s : st) l := mkSt (s_now s) (s_slot s) (s_w s) (s_memo s) l (s_fetch s) (s_known s).
  Definition with_fetch (s : st) f := mkSt (s_now s) (s_slot s) (s_w s) (s_memo s) (s_cache s) f (s_known s).
  Definition with_known (s : st) k := mkSt (s_now s) (s_slot s) (s_w s) (s_memo s) (s_cache s) (s_fetch s) k.

  (* `self.last_block_slot` *)
  Definition tip (c : cfg) (s : st) : N * st :=
    let refresh := (s_slot s, with_memo s (Some (s_now s, s_slot s))) in
    match s_memo s with
    | Some (tm, sl) => if N.ltb (s_now s) (tm + c_memo_ttl c) then (sl, s) else refresh
    | None => refresh
    end.

  (* `self._utxos(address)` *)
  Definition query (c : cfg) (a : string) (s : st) : A * st :=
    if c_cached c then
      let '(sl, s1) := tip c s in
      match cache_get (s_now s1) sl a (s_cache s1) with
      | Some (v, l') => (v, with_cache s1 l')
      | None =>
          let v := fetch (s_w s1) a in
          (v, if cacheable v then with_cache s1 (cache_set (s_now s1) (c_interval c) (N.to_nat (c_max c)) sl a v (s_cache s1)) else s1)
      end
    else (fetch (s_w s) a, s).

  (* `self._is_chain_tip_updated()` *)
  Definition poll (c : cfg) (s : st) : bool * st :=
    let due := match s_fetch s with Some f => negb (N.ltb (s_now s - f) (c_interval c)) | None => true end in
    match c_poll c with
    | PollNone => (false, s)
    | PollDirect => (false, if due then with_fetch s (Some (s_now s)) else s)
    | PollMemo =>
        if due then
          let '(sl, s1) := tip c (with_fetch s (Some (s_now s))) in
          if N.ltb (s_known s1) sl then (true, with_known s1 sl) else (false, s1)
        else (false, s)
    end.

  Definition step (c : cfg) (o : op) (s : st) : obs * st :=
    match o with
    | OTick dt => (ONone, mkSt (s_now s + dt) (s_slot s) (s_w s) (s_memo s) (s_cache s) (s_fetch s) (s_known s))
    | OBlock sl w => (ONone, mkSt (s_now s) sl w (s_memo s) (s_cache s) (s_fetch s) (s_known s))
    | OQuery a => let '(v, s') := query c a s in (OAnswer a v, s')
    | OTip => let '(sl, s') := tip c s in (OSlot sl, s')
    | OPoll => let '(b, s') := poll c s in (OPolled b, s')
    end.

  (* after every operation: the service's clock, tip and ledger state, and what the client observed *)
  Record event := mkEv { ev_time : N; ev_slot : N; ev_w : W; ev_obs : obs }.

  Fixpoint run (c : cfg) (ops : list op) (s : st) : list event :=
    match ops with
    | [] => []
    | o :: r => let '(ob, s') := step c o s in mkEv (s_now s') (s_slot s') (s_w s') ob :: run c r s'
    end.

  (* blocks carry strictly increasing tip slots (no roll-back to an equal or smaller slot) *)
  Fixpoint increasing (cur : N) (ops : list op) : Prop :=
    match ops with
    | [] => True
    | OBlock sl _ :: r => cur < sl /\ increasing sl r
    | _ :: r => increasing cur r
    end.

  (* THE SPECIFICATION of an answer `r` to `utxos(a)` observed at event `e` after the events `pre`: it is what the
     service answers NOW, or what it answered at an earlier moment of this run less than c_memo_ttl ago *)
  Definition fresh (c : cfg) (pre : list event) (e : event) (a : string) (r : A) : Prop :=
    r = fetch (ev_w e) a \/
    exists e', In e' pre /\ ev_time e < ev_time e' + c_memo_ttl c /\ r = fetch (ev_w e') a.
End Machine.

Arguments OTick {W}. Arguments OBlock {W}. Arguments OQuery {W}. Arguments OTip {W}. Arguments OPoll {W}.
Arguments ONone {A}. Arguments OAnswer {A}. Arguments OSlot {A}. Arguments OPolled {A}.
Arguments ev_time {W A}. Arguments ev_slot {W A}. Arguments ev_w {W A}. Arguments ev_obs {W A}.
Arguments mkEv {W A}.
Arguments increasing {W}.
Arguments init {W A}.
