(* Inputs.v — model of the input-selection slice of pycardano/txbuilder.py (property C09).

   Modelled code (txbuilder.py): add_input / add_script_input (append to the explicit list, no
   de-duplication), add_input_address, the potential_inputs / excluded_inputs lists,
   _ensure_no_input_exclusion_conflict, and of build(): the pre-selection loop over self.inputs
   (skips a UTxO that is already selected), the assembly of the additional pool with seen_utxos and
   the exclusion filter, the selector chain with fallback, the final sort by
   (str(transaction id), index), the write-back self.inputs[:] = selected, and of _build_tx_body the
   OrderedSet([i.input for i in self.inputs]).

   UTxO identity.  The code compares whole UTxO objects with == (dataclass equality of input and
   output) and, for set membership, hash + ==; UTxO.__hash__ = hash(self.input) is consistent with ==
   (tools/props/c09.py re-reads that method on every run), so set and list membership coincide.
   A model UTxO is (transaction id bytes, index, payload id): two Python UTxO objects are == exactly
   when the three components agree (the payload id stands for the output up to ==; checked by the
   driver on all pairs of every case).  The body de-duplicates on str(TransactionInput), which is
   injective on (transaction id bytes, index).

   Model only — proofs are in InputsProofs.v. *)
From Coq Require Import NArith Ascii String List Bool.
From PyC Require Import Base.
Import ListNotations.
Open Scope N_scope.

Record utxo := mkU { u_tx : bytes; u_ix : N; u_pl : N }.

(* UTxO.__eq__ *)
Definition utxo_eqb (a b : utxo) : bool :=
  bytes_eqb (u_tx a) (u_tx b) && (u_ix a =? u_ix b) && (u_pl a =? u_pl b).

(* `u in l` for a list, and (hash consistent with ==) for a set *)
Definition mem (u : utxo) (l : list utxo) : bool := existsb (utxo_eqb u) l.

(* what the body holds: TransactionInput = (transaction id, index) *)
Definition ref := (bytes * N)%type.
Definition ref_of (u : utxo) : ref := (u_tx u, u_ix u).
Definition ref_eqb (a b : ref) : bool := bytes_eqb (fst a) (fst b) && (snd a =? snd b).
Definition memr (r : ref) (l : list ref) : bool := existsb (ref_eqb r) l.

(* ---------- builder state and the registration calls ---------- *)
Record bstate := mkB {
  explicit : list utxo;      (* self._inputs: add_input / add_script_input append, duplicates possible *)
  potential : list utxo;     (* self._potential_inputs *)
  excluded : list utxo;      (* self._excluded_inputs *)
  addrs : list N             (* self._input_addresses, an address is an opaque id *)
}.
Definition empty_state : bstate := mkB [] [] [] [].

Inductive bop :=
| AddInput (u : utxo)              (* add_input: self.inputs.append(utxo) *)
| AddScriptInput (u : utxo)        (* add_script_input, when it does not raise: self.inputs.append(utxo) *)
| AddPotential (u : utxo)          (* builder.potential_inputs.append(utxo) *)
| AddExcluded (u : utxo)           (* builder.excluded_inputs.append(utxo) *)
| SetExcluded (l : list utxo)      (* builder.excluded_inputs = l *)
| AddAddress (a : N).              (* add_input_address *)

Definition bstep (st : bstate) (o : bop) : bstate :=
  match o with
  | AddInput u | AddScriptInput u => mkB (explicit st ++ [u]) (potential st) (excluded st) (addrs st)
  | AddPotential u => mkB (explicit st) (potential st ++ [u]) (excluded st) (addrs st)
  | AddExcluded u => mkB (explicit st) (potential st) (excluded st ++ [u]) (addrs st)
  | SetExcluded l => mkB (explicit st) (potential st) l (addrs st)
  | AddAddress a => mkB (explicit st) (potential st) (excluded st) (addrs st ++ [a])
  end.

(* chain context: address id -> the list context.utxos(address) returns *)
Definition ctx := list (N * list utxo).
Definition ctx_utxos (c : ctx) (a : N) : list utxo :=
  match find (fun p => fst p =? a) c with Some p => snd p | None => [] end.

(* ---------- build(): conflict check ---------- *)
(* set(self.inputs).intersection(set(self.excluded_inputs)) non-empty *)
Definition conflict (st : bstate) : bool := existsb (fun u => mem u (excluded st)) (explicit st).

(* ---------- build(): pre-selection ----------
   for i in self.inputs: if i in selected_utxos: continue; selected_utxos.append(i)
   [seen] = what has been appended so far (membership does not depend on its order) *)
Fixpoint dedup_from (seen : list utxo) (l : list utxo) : list utxo :=
  match l with
  | [] => []
  | u :: r => if mem u seen then dedup_from seen r else u :: dedup_from (u :: seen) r
  end.
Definition preselect (l : list utxo) : list utxo := dedup_from [] l.

(* ---------- build(): additional pool ----------
   seen_utxos = set(selected_utxos)
   for utxo in potential_inputs, then for address in input_addresses: for utxo in context.utxos(address):
       if utxo not in seen_utxos and utxo not in self.excluded_inputs: pool.append(utxo); seen_utxos.add(utxo) *)
Fixpoint gather (seen excl cands : list utxo) : list utxo :=
  match cands with
  | [] => []
  | u :: r => if mem u seen || mem u excl then gather seen excl r
              else u :: gather (u :: seen) excl r
  end.
Definition candidates (c : ctx) (st : bstate) : list utxo :=
  potential st ++ flat_map (ctx_utxos c) (addrs st).
Definition pool_of (c : ctx) (st : bstate) : list utxo :=
  gather (preselect (explicit st)) (excluded st) (candidates c st).

(* ---------- build(): selector chain ----------
   A selector is any object with select(); the model takes it as a function of the pool it is given:
   SelOk l = returned l; SelFail = raised a UTxOSelectionException (incl. subclasses), which makes the
   builder try the next selector; SelCrash = raised anything else, which leaves build() as is. *)
Inductive sel_result := SelOk (l : list utxo) | SelFail | SelCrash.
Definition selector := list utxo -> sel_result.

Fixpoint chain (sels : list selector) (pool : list utxo) : sel_result :=
  match sels with
  | [] => SelFail                       (* the last selector failed: "All UTxO selectors failed." *)
  | s :: rest => match s pool with
                 | SelOk r => SelOk r
                 | SelFail => chain rest pool
                 | SelCrash => SelCrash
                 end
  end.
(* an empty utxo_selectors list: the for loop does nothing, nothing is added, nothing is raised *)
Definition run_selectors (sels : list selector) (pool : list utxo) : sel_result :=
  match sels with [] => SelOk [] | _ => chain sels pool end.

(* ---------- build(): final sort ----------
   selected_utxos.sort(key=lambda utxo: (str(utxo.input.transaction_id), utxo.input.index))
   str(TransactionId) = payload.hex() (lower case); Python compares str by code point, lexicographically;
   tuples: first components, then (when equal) second.  list.sort is stable. *)
Fixpoint str_ltb (a b : string) : bool :=
  match a, b with
  | EmptyString, EmptyString => false
  | EmptyString, String _ _ => true
  | String _ _, EmptyString => false
  | String x a', String y b' =>
      if N_of_ascii x <? N_of_ascii y then true
      else if N_of_ascii y <? N_of_ascii x then false
      else str_ltb a' b'
  end.
Definition key_ltb (a b : utxo) : bool :=
  let ha := tohex (u_tx a) in
  let hb := tohex (u_tx b) in
  if str_ltb ha hb then true else if str_ltb hb ha then false else u_ix a <? u_ix b.

(* stable insertion sort: [x] (which came earlier) goes before every element that is not strictly smaller *)
Fixpoint insert (x : utxo) (l : list utxo) : list utxo :=
  match l with
  | [] => [x]
  | y :: r => if key_ltb y x then y :: insert x r else x :: y :: r
  end.
Fixpoint sort_inputs (l : list utxo) : list utxo :=
  match l with [] => [] | x :: r => insert x (sort_inputs r) end.

(* ---------- build() as far as the inputs are concerned ---------- *)
Inductive berr :=
| EConflict       (* TransactionBuilderException from _ensure_no_input_exclusion_conflict *)
| ESelection      (* UTxOSelectionException "All UTxO selectors failed." *)
| ECrash.         (* a selector raised something that is not a UTxOSelectionException *)
Inductive bres := BOk (selected : list utxo) | BErr (e : berr).

(* [need] = the truth value of  Value() < unfulfilled_amount  (depends on amounts, fees, min change:
   outside this slice, universally quantified in the theorems, observed in the correspondence runs) *)
Definition build (c : ctx) (sels : list selector) (need : bool) (st : bstate) : bres :=
  if conflict st then BErr EConflict else
  let pre := preselect (explicit st) in
  if need then
    match run_selectors sels (pool_of c st) with
    | SelOk r => BOk (sort_inputs (pre ++ r))
    | SelFail => BErr ESelection
    | SelCrash => BErr ECrash
    end
  else BOk (sort_inputs pre).

(* self.inputs[:] = selected_utxos[:]  — the state after a build that got that far *)
Definition state_after (st : bstate) (r : bres) : bstate :=
  match r with
  | BOk sel => mkB sel (potential st) (excluded st) (addrs st)
  | BErr _ => st
  end.

(* ---------- _build_tx_body: OrderedSet([i.input for i in self.inputs]) ----------
   OrderedSet.append keeps an item when str(item) has not been seen *)
Fixpoint dedupr_from (seen : list ref) (l : list ref) : list ref :=
  match l with
  | [] => []
  | r :: t => if memr r seen then dedupr_from seen t else r :: dedupr_from (r :: seen) t
  end.
Definition body_inputs (selected : list utxo) : list ref := dedupr_from [] (map ref_of selected).

(* ---------- histories: registration calls interleaved with builds, on a chain that moves ----------
   SetCtx c' : between two calls the chain context starts to answer c' (UTxOs were spent elsewhere, new ones
   arrived).  The builder queries context.utxos(address) anew inside every build(): the pool of a build is
   assembled from the answer current AT THAT BUILD. *)
Inductive item := Op (o : bop) | Build (need : bool) (sels : list selector) | SetCtx (c : ctx).

Fixpoint run (c : ctx) (st : bstate) (its : list item) : bstate * list bres :=
  match its with
  | [] => (st, [])
  | Op o :: r => run c (bstep st o) r
  | Build need sels :: r =>
      let b := build c sels need st in
      let '(st', outs) := run c (state_after st b) r in (st', b :: outs)
  | SetCtx c' :: r => run c' st r
  end.

(* the context in force and the builder state after a history *)
Fixpoint reach (c : ctx) (st : bstate) (its : list item) : ctx * bstate :=
  match its with
  | [] => (c, st)
  | Op o :: r => reach c (bstep st o) r
  | Build need sels :: r => reach c (state_after st (build c sels need st)) r
  | SetCtx c' :: r => reach c' st r
  end.
