(* Json.v — a small JSON AST (what Python's json.loads produces from a service response),
   Python-flavoured accessors, hexadecimal text <-> bytes (bytes.fromhex / bytes.hex) with the
   round trip  unhex (hexs b) = Some b,  decimal text <-> N (int(str) on digit strings), string
   splitting (str.split on one character) and a compact serialiser json_to_string used by the C20
   harness to obtain the JSON text that is served to the real adapters.  No axioms. *)
From Coq Require Import NArith ZArith Ascii String List Bool Lia.
From Coq Require Import Init.Byte.
From Coq Require Import DecimalString DecimalN DecimalPos.
From PyC Require Import Base.
Import ListNotations.
Open Scope N_scope.

(* object = ordered association list (dict insertion order = order of appearance in the text);
   number = Python int (the services only emit integers in the fields that are read) *)
Inductive json :=
| JNull
| JBool (b : bool)
| JNum (z : Z)
| JStr (s : string)
| JArr (l : list json)
| JObj (kvs : list (string * json)).

Fixpoint jget (k : string) (kvs : list (string * json)) : option json :=
  match kvs with
  | [] => None
  | (k', v) :: r => if String.eqb k' k then Some v else jget k r
  end.

(* Python truthiness of a decoded JSON value *)
Definition truthy (j : json) : bool :=
  match j with
  | JNull => false
  | JBool b => b
  | JNum z => negb (Z.eqb z 0)
  | JStr s => negb (String.eqb s EmptyString)
  | JArr l => match l with [] => false | _ => true end
  | JObj kvs => match kvs with [] => false | _ => true end
  end.

Definition is_null (j : json) : bool := match j with JNull => true | _ => false end.

(* structural equality (Python == on decoded JSON, dict comparison made order-sensitive: only used on
   strings / null in the models) *)
Definition json_str_eqb (a b : json) : bool :=
  match a, b with
  | JNull, JNull => true
  | JStr x, JStr y => String.eqb x y
  | _, _ => false
  end.

(* ---------- hexadecimal ---------- *)
Definition hexs (b : bytes) : string := tohex b.          (* bytes.hex(): lowercase *)

Definition hexdigit (c : ascii) : option N :=
  let n := N_of_ascii c in
  if (48 <=? n) && (n <=? 57) then Some (n - 48)
  else if (97 <=? n) && (n <=? 102) then Some (n - 87)
  else if (65 <=? n) && (n <=? 70) then Some (n - 55)
  else None.

(* bytes.fromhex on a string without whitespace: pairs of hex digits, either case *)
Fixpoint unhex (s : string) : option bytes :=
  match s with
  | EmptyString => Some []
  | String a (String b r) =>
      match hexdigit a, hexdigit b, unhex r with
      | Some x, Some y, Some t => Some (n2b (16 * x + y) :: t)
      | _, _, _ => None
      end
  | _ => None
  end.

Lemma unhex_byte (x : byte) :
  hexdigit (hexdig (b2n x / 16)) = Some (b2n x / 16) /\
  hexdigit (hexdig (b2n x mod 16)) = Some (b2n x mod 16).
Proof. destruct x; vm_compute; split; reflexivity. Qed.

Lemma unhex_hexs (b : bytes) : unhex (hexs b) = Some b.
Proof.
  unfold hexs. induction b as [|x r IH]; [reflexivity|].
  cbn [tohex unhex]. destruct (unhex_byte x) as [H1 H2]. rewrite H1, H2, IH.
  f_equal. f_equal.
  replace (16 * (b2n x / 16) + b2n x mod 16) with (b2n x).
  - apply n2b_b2n.
  - pose proof (N.div_mod (b2n x) 16). lia.
Qed.

Lemma hexs_app a b : hexs (a ++ b) = (hexs a ++ hexs b)%string.
Proof. unfold hexs. induction a as [|x r IH]; [reflexivity|]. cbn. now rewrite IH. Qed.

Lemma hexs_length b : String.length (hexs b) = (2 * List.length b)%nat.
Proof. unfold hexs. induction b as [|x r IH]; [reflexivity|]. cbn [tohex String.length List.length]. rewrite IH. lia. Qed.

(* ---------- decimal ---------- *)
Definition dec_of_N (n : N) : string := NilZero.string_of_uint (N.to_uint n).
Definition N_of_dec (s : string) : option N := option_map N.of_uint (NilZero.uint_of_string s).
Definition dec_of_Z (z : Z) : string :=
  match z with
  | Zneg p => String "-" (dec_of_N (Npos p))
  | _ => dec_of_N (Z.to_N z)
  end.

Lemma N_of_dec_rt n : N_of_dec (dec_of_N n) = Some n.
Proof.
  unfold N_of_dec, dec_of_N. rewrite NilZero.usu.
  - cbn. now rewrite DecimalN.Unsigned.of_to.
  - destruct n as [|p]; cbn; [discriminate|]. apply DecimalPos.Unsigned.to_uint_nonnil.
Qed.

(* ---------- str.split(c) ---------- *)
Fixpoint split_on (c : ascii) (s : string) : list string :=
  match s with
  | EmptyString => [EmptyString]
  | String a r =>
      if Ascii.eqb a c then EmptyString :: split_on c r
      else match split_on c r with
           | h :: t => String a h :: t
           | [] => [String a EmptyString]      (* unreachable: split_on never returns [] *)
           end
  end.

Fixpoint has_char (c : ascii) (s : string) : bool :=
  match s with
  | EmptyString => false
  | String a r => Ascii.eqb a c || has_char c r
  end.

Lemma split_on_none c s : has_char c s = false -> split_on c s = [s].
Proof.
  induction s as [|a r IH]; cbn; [reflexivity|].
  destruct (Ascii.eqb a c); cbn; [discriminate|]. intros H. now rewrite IH.
Qed.

Lemma split_on_app c a b : has_char c a = false ->
  split_on c (a ++ String c b)%string = a :: split_on c b.
Proof.
  induction a as [|x r IH]; cbn.
  - now rewrite Ascii.eqb_refl.
  - destruct (Ascii.eqb x c); cbn; [discriminate|]. intros H. now rewrite IH.
Qed.

(* no hex digit is '.', '#', ... : characters of hexs b are in [0-9a-f] *)
Definition is_lower_hex (c : ascii) : bool :=
  let n := N_of_ascii c in ((48 <=? n) && (n <=? 57)) || ((97 <=? n) && (n <=? 102)).
Fixpoint all_chars (p : ascii -> bool) (s : string) : bool :=
  match s with EmptyString => true | String a r => p a && all_chars p r end.

Lemma hexs_lower b : all_chars is_lower_hex (hexs b) = true.
Proof.
  unfold hexs. induction b as [|x r IH]; [reflexivity|].
  cbn [tohex all_chars]. rewrite IH.
  assert (is_lower_hex (hexdig (b2n x / 16)) = true /\ is_lower_hex (hexdig (b2n x mod 16)) = true) as [-> ->];
    [destruct x; vm_compute; split; reflexivity | reflexivity].
Qed.

Lemma all_chars_no c p s : p c = false -> all_chars p s = true -> has_char c s = false.
Proof.
  intros Hc. induction s as [|a r IH]; cbn; [reflexivity|].
  intros H. apply andb_true_iff in H as [Ha Hr].
  destruct (Ascii.eqb a c) eqn:E; [apply Ascii.eqb_eq in E; subst; congruence|]. now apply IH.
Qed.

(* ---------- small string helpers ---------- *)
Definition lower_char (c : ascii) : ascii :=
  let n := N_of_ascii c in if (65 <=? n) && (n <=? 90) then ascii_of_N (n + 32) else c.
Fixpoint lower (s : string) : string :=
  match s with EmptyString => EmptyString | String a r => String (lower_char a) (lower r) end.
Fixpoint last_char (s : string) : option ascii :=
  match s with
  | EmptyString => None
  | String a EmptyString => Some a
  | String _ r => last_char r
  end.
(* s.removeprefix(p) *)
Fixpoint remove_prefix (p s : string) : string :=
  match p, s with
  | EmptyString, _ => s
  | String a p', String b s' => if Ascii.eqb a b then
                                  (if String.prefix p' s' then remove_prefix p' s' else s)
                                else s
  | _, _ => s
  end.

(* ---------- serialiser (compact separators, keys in list order) ---------- *)
Fixpoint escape (s : string) : string :=
  match s with
  | EmptyString => EmptyString
  | String c r =>
      if Ascii.eqb c """" || Ascii.eqb c "\" then String "\" (String c (escape r))
      else String c (escape r)
  end.
Definition quote (s : string) : string := String """" (escape s ++ String """" EmptyString).

Fixpoint json_to_string (j : json) : string :=
  match j with
  | JNull => "null"
  | JBool true => "true"
  | JBool false => "false"
  | JNum z => dec_of_Z z
  | JStr s => quote s
  | JArr l =>
      ("[" ++ (fix go (l : list json) : string :=
                 match l with
                 | [] => ""
                 | x :: r => match r with
                             | [] => json_to_string x
                             | _ => json_to_string x ++ "," ++ go r
                             end
                 end) l ++ "]")%string
  | JObj kvs =>
      ("{" ++ (fix go (l : list (string * json)) : string :=
                 match l with
                 | [] => ""
                 | kv :: r => match r with
                              | [] => quote (fst kv) ++ ":" ++ json_to_string (snd kv)
                              | _ => quote (fst kv) ++ ":" ++ json_to_string (snd kv) ++ "," ++ go r
                              end
                 end) kvs ++ "}")%string
  end.

(* every object of the document has pairwise distinct keys (then first-match lookup and iteration in list
   order coincide with the dict json.loads builds) and every string is made of characters the
   serialiser/Coq printer pass through unchanged *)
Fixpoint str_nodup (l : list string) : bool :=
  match l with
  | [] => true
  | x :: r => negb (existsb (String.eqb x) r) && str_nodup r
  end.
Definition safe_char (c : ascii) : bool :=
  let n := N_of_ascii c in (32 <=? n) && (n <? 127) && negb (n =? 34) && negb (n =? 92).
Fixpoint json_ok (j : json) : bool :=
  match j with
  | JStr s => all_chars safe_char s
  | JArr l => (fix go (l : list json) : bool := match l with [] => true | x :: r => json_ok x && go r end) l
  | JObj kvs =>
      str_nodup (map fst kvs) &&
      (fix go (l : list (string * json)) : bool :=
         match l with [] => true | kv :: r => all_chars safe_char (fst kv) && json_ok (snd kv) && go r end) kvs
  | _ => true
  end.

Fixpoint jdepth (j : json) : nat :=
  match j with
  | JArr l => S ((fix go (l : list json) : nat := match l with [] => O | x :: r => Nat.max (jdepth x) (go r) end) l)
  | JObj kvs => S ((fix go (l : list (string * json)) : nat :=
                      match l with [] => O | kv :: r => Nat.max (jdepth (snd kv)) (go r) end) kvs)
  | _ => O
  end.
